import RaptorModel.Lemmas.SpgemmLemmas
import Mathlib.Algebra.Ring.Int.Defs
import Mathlib.Data.List.Nodup
/-!
# C06 — the sparse product represents the product of the represented operators

`spgemm big A B` (Gustavson, `matmult.cpp`) and `spgemmT big A B` are compared with the dense
specification `denProd`. Scalars are any commutative semiring, sizes are unbounded. `big s = false`
models the drop rule `|s| ≤ zero_tol`: a dropped entry reads as `0` in the dense image.

Remarks on the hypotheses (all statements below are exact, no side condition on duplicates):
* only the well-formedness of the *left* factor is used by the value theorems: its inner indices
  must be `< nInner`, otherwise the implementation adds products the finite specification sum
  does not see. The hypotheses `B.WF` and `B.rows.length = A.nCols` of `den_spgemm` are not needed
  (a missing row of `B` reads as an empty row on both sides); `den_spgemm_of_left_WF` states this.
* if no product touches column `j` the entry is absent (dense value 0) and the specification sum
  is 0, so both branches of `if big s then s else 0` agree with the implementation.
-/
namespace Raptor.C06
open Raptor.Sparse Raptor.Spgemm Raptor.SpgemmLemmas

variable {K : Type} [CommSemiring K]

/-! ## 1. `accumulate` -/

/-- every touched column appears once -/
theorem accumulate_keys_nodup (prods : List (Nat × K)) :
    ((accumulate prods).map (·.1)).Nodup :=
  accumulate_nodup prods

/-- the accumulated value of a column is the sum of its products (both sides 0 if absent) -/
theorem accumulate_lookup (prods : List (Nat × K)) (j : Nat) :
    (((accumulate prods).filter (fun e => e.1 == j)).map (·.2)).sum
      = ((prods.filter (fun e => e.1 == j)).map (·.2)).sum :=
  colSum_accumulate prods j

/-- only produced columns are accumulated -/
theorem accumulate_keys_subset (prods : List (Nat × K)) (c : Nat)
    (hc : c ∈ (accumulate prods).map (·.1)) : c ∈ prods.map (·.1) :=
  accumulate_keys_mem prods c hc

/-! ## 2. the products of one row -/

theorem rowProducts_sum (rowA : List (Nat × K)) (rowsB : List (List (Nat × K))) (j : Nat) :
    (((rowProducts rowA rowsB).filter (fun e => e.1 == j)).map (·.2)).sum
      = (rowA.map fun e =>
          e.2 * (((rowsB.getD e.1 []).filter (fun e => e.1 == j)).map (·.2)).sum).sum :=
  colSum_rowProducts rowA rowsB j

/-! ## 3. `C = A * B` -/

theorem spgemm_nRows (big : K → Bool) (A B : Csr K) (colMap : Nat → Nat) :
    (spgemm big A B colMap).nRows = A.nRows := rfl

theorem spgemm_nCols (big : K → Bool) (A B : Csr K) (colMap : Nat → Nat) :
    (spgemm big A B colMap).nCols = B.nCols := rfl

theorem spgemm_rows_length (big : K → Bool) (A B : Csr K) (colMap : Nat → Nat) :
    (spgemm big A B colMap).rows.length = A.rows.length := by
  unfold spgemm
  rw [List.length_map]

/-- row-local form, with column renumbering: only row `i` of `A` has to be in range, and `colMap`
    must not send another stored column of `B` onto the image of `j` -/
theorem den_spgemm_colMap_row (big : K → Bool) (A B : Csr K) (colMap : Nat → Nat) (i j : Nat)
    (hrow : ∀ e ∈ A.rows.getD i [], e.1 < A.nCols)
    (hinj : ∀ r ∈ B.rows, ∀ c ∈ r.map (·.1), colMap c = colMap j → c = j) :
    (spgemm big A B colMap).den i (colMap j)
      = (let s := denProd A.entries B.entries A.nCols i j; if big s then s else 0) := by
  show (spgemm big A B colMap).den i (colMap j)
      = if big (denProd A.entries B.entries A.nCols i j) = true
        then denProd A.entries B.entries A.nCols i j else 0
  rw [Csr_den_eq, denProd_eq]
  show colSum ((A.rows.map (prodRow big colMap B.rows)).getD i []) (colMap j) = _
  rw [getD_map_nil _ (prodRow_nil big colMap B.rows)]
  exact colSum_prodRow big colMap B.rows _ A.nCols j hrow hinj

/-- the value theorem needs the well-formedness of the left factor only -/
theorem den_spgemm_of_left_WF (big : K → Bool) (A B : Csr K) (hA : A.WF = true) (i j : Nat) :
    (spgemm big A B).den i j
      = (let s := denProd A.entries B.entries A.nCols i j; if big s then s else 0) := by
  apply den_spgemm_colMap_row big A B id i j
  · intro e he
    rcases getD_mem_or_nil A.rows i with h | h
    · exact ((Csr.WF_iff A).1 hA).2 _ h e he
    · rw [h] at he
      simp at he
  · intro r _ c _ h
    exact h

/-- **main theorem**: the dense image of the computed product is the product of the dense images,
    entries the drop rule removes reading as 0 -/
theorem den_spgemm (big : K → Bool) (A B : Csr K) (hA : A.WF = true) (_hB : B.WF = true)
    (_hdim : B.rows.length = A.nCols) (i j : Nat) :
    (spgemm big A B).den i j
      = (let s := denProd A.entries B.entries A.nCols i j; if big s then s else 0) :=
  den_spgemm_of_left_WF big A B hA i j

/-- nothing dropped: exact product -/
theorem den_spgemm_nodrop (A B : Csr K) (hA : A.WF = true) (i j : Nat) :
    (spgemm (fun _ => true) A B).den i j = denProd A.entries B.entries A.nCols i j := by
  rw [den_spgemm_of_left_WF _ A B hA i j]
  rfl

/-- well-formedness of the result when `colMap` keeps columns in range -/
theorem spgemm_WF_colMap (big : K → Bool) (A B : Csr K) (colMap : Nat → Nat)
    (hA : A.WF = true) (hB : B.WF = true) (hmap : ∀ c, c < B.nCols → colMap c < B.nCols) :
    (spgemm big A B colMap).WF = true := by
  rw [Csr.WF_iff]
  refine ⟨?_, ?_⟩
  · rw [spgemm_rows_length]
    exact ((Csr.WF_iff A).1 hA).1
  · intro r hr e he
    have hr' : r ∈ A.rows.map (prodRow big colMap B.rows) := hr
    rw [List.mem_map] at hr'
    obtain ⟨rowA, _, hrow⟩ := hr'
    rw [← hrow] at he
    obtain ⟨c, hc, rB, hrB, hcB⟩ := prodRow_keys_mem big colMap B.rows rowA e he
    rw [List.mem_map] at hcB
    obtain ⟨x, hx, hxc⟩ := hcB
    rw [hc, ← hxc]
    exact hmap _ (((Csr.WF_iff B).1 hB).2 rB hrB x hx)

theorem spgemm_WF (big : K → Bool) (A B : Csr K) (hA : A.WF = true) (hB : B.WF = true) :
    (spgemm big A B).WF = true :=
  spgemm_WF_colMap big A B id hA hB (fun _ h => h)

/-- rows of the result have no duplicate columns when `colMap` is injective on the columns
    stored in `B` -/
theorem spgemm_rows_nodup (big : K → Bool) (A B : Csr K) (colMap : Nat → Nat)
    (hinj : ∀ r ∈ B.rows, ∀ c ∈ r.map (·.1), ∀ r' ∈ B.rows, ∀ c' ∈ r'.map (·.1),
      colMap c = colMap c' → c = c') :
    ∀ r ∈ (spgemm big A B colMap).rows, (r.map (·.1)).Nodup := by
  intro r hr
  have hr' : r ∈ A.rows.map (prodRow big colMap B.rows) := hr
  rw [List.mem_map] at hr'
  obtain ⟨rowA, _, hrow⟩ := hr'
  rw [← hrow]
  unfold prodRow
  rw [List.map_map]
  have hsub : (accumulate (rowProducts rowA B.rows)).filter (fun e => big e.2)
      |>.Sublist (accumulate (rowProducts rowA B.rows)) := List.filter_sublist
  have hnd := (accumulate_nodup (rowProducts rowA B.rows)).sublist (hsub.map (·.1))
  have hmm : (((accumulate (rowProducts rowA B.rows)).filter fun e => big e.2).map
      ((fun x : Nat × K => x.1) ∘ fun e => (colMap e.1, e.2)))
      = (((accumulate (rowProducts rowA B.rows)).filter fun e => big e.2).map (·.1)).map colMap := by
    rw [List.map_map]
    rfl
  rw [hmm]
  apply List.Nodup.map_on _ hnd
  intro c hc c' hc' hcc
  have key : ∀ d, d ∈ ((accumulate (rowProducts rowA B.rows)).filter fun e => big e.2).map (·.1) →
      ∃ rB ∈ B.rows, d ∈ rB.map (·.1) := by
    intro d hd
    apply rowProducts_keys_mem rowA B.rows
    apply accumulate_keys_mem
    exact (hsub.map (·.1)).subset hd
  obtain ⟨rB, hrB, hcB⟩ := key c hc
  obtain ⟨rB', hrB', hcB'⟩ := key c' hc'
  exact hinj rB hrB c hcB rB' hrB' c' hcB' hcc

/-! ## 4. `C = Aᵀ * B`, `A` stored by columns -/

theorem spgemmT_nRows (big : K → Bool) (A : Csc K) (B : Csr K) (colMap : Nat → Nat) :
    (spgemmT big A B colMap).nRows = A.nCols := rfl

theorem spgemmT_nCols (big : K → Bool) (A : Csc K) (B : Csr K) (colMap : Nat → Nat) :
    (spgemmT big A B colMap).nCols = B.nCols := rfl

theorem den_spgemmT_colMap_row (big : K → Bool) (A : Csc K) (B : Csr K) (colMap : Nat → Nat)
    (i j : Nat) (hcol : ∀ e ∈ A.cols.getD i [], e.1 < A.nRows)
    (hinj : ∀ r ∈ B.rows, ∀ c ∈ r.map (·.1), colMap c = colMap j → c = j) :
    (spgemmT big A B colMap).den i (colMap j)
      = (let s := ((List.range A.nRows).map fun k => A.den k i * B.den k j).sum;
         if big s then s else 0) := by
  have hs : ((List.range A.nRows).map fun k => A.den k i * B.den k j)
      = (List.range A.nRows).map fun k =>
          colSum (A.cols.getD i []) k * colSum (B.rows.getD k []) j := by
    apply List.map_congr_left
    intro k _
    rw [Csc_den_eq, Csr_den_eq]
  show (spgemmT big A B colMap).den i (colMap j)
      = if big ((List.range A.nRows).map fun k => A.den k i * B.den k j).sum = true
        then ((List.range A.nRows).map fun k => A.den k i * B.den k j).sum else 0
  rw [Csr_den_eq, hs]
  show colSum ((A.cols.map (prodRow big colMap B.rows)).getD i []) (colMap j) = _
  rw [getD_map_nil _ (prodRow_nil big colMap B.rows)]
  exact colSum_prodRow big colMap B.rows _ A.nRows j hcol hinj

theorem den_spgemmT_of_left_WF (big : K → Bool) (A : Csc K) (B : Csr K) (hA : A.WF = true)
    (i j : Nat) :
    (spgemmT big A B).den i j
      = (let s := ((List.range A.nRows).map fun k => A.den k i * B.den k j).sum;
         if big s then s else 0) := by
  apply den_spgemmT_colMap_row big A B id i j
  · intro e he
    rcases getD_mem_or_nil A.cols i with h | h
    · exact ((Csc.WF_iff A).1 hA).2 _ h e he
    · rw [h] at he
      simp at he
  · intro r _ c _ h
    exact h

theorem den_spgemmT (big : K → Bool) (A : Csc K) (B : Csr K) (hA : A.WF = true)
    (_hB : B.WF = true) (_hdim : B.rows.length = A.nRows) (i j : Nat) :
    (spgemmT big A B).den i j
      = (let s := ((List.range A.nRows).map fun k => A.den k i * B.den k j).sum;
         if big s then s else 0) :=
  den_spgemmT_of_left_WF big A B hA i j

theorem spgemmT_WF_colMap (big : K → Bool) (A : Csc K) (B : Csr K) (colMap : Nat → Nat)
    (hA : A.WF = true) (hB : B.WF = true) (hmap : ∀ c, c < B.nCols → colMap c < B.nCols) :
    (spgemmT big A B colMap).WF = true := by
  rw [Csr.WF_iff]
  refine ⟨?_, ?_⟩
  · show (A.cols.map (prodRow big colMap B.rows)).length = A.nCols
    rw [List.length_map]
    exact ((Csc.WF_iff A).1 hA).1
  · intro r hr e he
    have hr' : r ∈ A.cols.map (prodRow big colMap B.rows) := hr
    rw [List.mem_map] at hr'
    obtain ⟨rowA, _, hrow⟩ := hr'
    rw [← hrow] at he
    obtain ⟨c, hc, rB, hrB, hcB⟩ := prodRow_keys_mem big colMap B.rows rowA e he
    rw [List.mem_map] at hcB
    obtain ⟨x, hx, hxc⟩ := hcB
    rw [hc, ← hxc]
    exact hmap _ (((Csr.WF_iff B).1 hB).2 rB hrB x hx)

theorem spgemmT_WF (big : K → Bool) (A : Csc K) (B : Csr K) (hA : A.WF = true)
    (hB : B.WF = true) : (spgemmT big A B).WF = true :=
  spgemmT_WF_colMap big A B id hA hB (fun _ h => h)

/-! ## 5. Galerkin triple product `Pᵀ A P` -/

/-- `Pc` is any column-stored matrix with the dense image of `P`; nothing is dropped -/
theorem galerkin (A P : Csr K) (Pc : Csc K) (hA : A.WF = true) (hPc : Pc.WF = true)
    (hden : ∀ k i, Pc.den k i = P.den k i) (i j : Nat) :
    (spgemmT (fun _ => true) Pc (spgemm (fun _ => true) A P)).den i j
      = ((List.range Pc.nRows).map fun k =>
          ((List.range A.nCols).map fun l => P.den k i * A.den k l * P.den l j).sum).sum := by
  rw [den_spgemmT_of_left_WF _ Pc _ hPc i j]
  show ((List.range Pc.nRows).map fun k =>
      Pc.den k i * (spgemm (fun _ => true) A P).den k j).sum = _
  congr 1
  apply List.map_congr_left
  intro k _
  rw [den_spgemm_nodrop A P hA k j, hden]
  unfold denProd
  rw [← List.sum_map_mul_left]
  congr 1
  apply List.map_congr_left
  intro l _
  rw [mul_assoc]
  rfl

/-- the same with `P` converted to columns by the library's own `to_CSC`: only `A.WF`, `P.WF` -/
theorem galerkin_csrToCsc (A P : Csr K) (hA : A.WF = true) (hP : P.WF = true) (i j : Nat) :
    (spgemmT (fun _ => true) (csrToCsc P) (spgemm (fun _ => true) A P)).den i j
      = ((List.range P.nRows).map fun k =>
          ((List.range A.nCols).map fun l => P.den k i * A.den k l * P.den l j).sum).sum :=
  galerkin A P (csrToCsc P) hA (csrToCsc_WF P hP) (den_csrToCsc P hP) i j

/-! ## 6. column renumbering -/

/-- with a renumbering that is injective on the columns `< B.nCols` (e.g. local → global) -/
theorem den_spgemm_colMap (big : K → Bool) (A B : Csr K) (colMap : Nat → Nat)
    (hA : A.WF = true) (hB : B.WF = true) (i j : Nat) (hj : j < B.nCols)
    (hinj : ∀ c c', c < B.nCols → c' < B.nCols → colMap c = colMap c' → c = c') :
    (spgemm big A B colMap).den i (colMap j)
      = (let s := denProd A.entries B.entries A.nCols i j; if big s then s else 0) := by
  apply den_spgemm_colMap_row big A B colMap i j
  · intro e he
    rcases getD_mem_or_nil A.rows i with h | h
    · exact ((Csr.WF_iff A).1 hA).2 _ h e he
    · rw [h] at he
      simp at he
  · intro r hr c hc h
    rw [List.mem_map] at hc
    obtain ⟨x, hx, hxc⟩ := hc
    have hlt : c < B.nCols := hxc ▸ ((Csr.WF_iff B).1 hB).2 r hr x hx
    exact hinj c j hlt hj h

theorem den_spgemmT_colMap (big : K → Bool) (A : Csc K) (B : Csr K) (colMap : Nat → Nat)
    (hA : A.WF = true) (hB : B.WF = true) (i j : Nat) (hj : j < B.nCols)
    (hinj : ∀ c c', c < B.nCols → c' < B.nCols → colMap c = colMap c' → c = c') :
    (spgemmT big A B colMap).den i (colMap j)
      = (let s := ((List.range A.nRows).map fun k => A.den k i * B.den k j).sum;
         if big s then s else 0) := by
  apply den_spgemmT_colMap_row big A B colMap i j
  · intro e he
    rcases getD_mem_or_nil A.cols i with h | h
    · exact ((Csc.WF_iff A).1 hA).2 _ h e he
    · rw [h] at he
      simp at he
  · intro r hr c hc h
    rw [List.mem_map] at hc
    obtain ⟨x, hx, hxc⟩ := hc
    have hlt : c < B.nCols := hxc ▸ ((Csr.WF_iff B).1 hB).2 r hr x hx
    exact hinj c j hlt hj h

/-- a column that is not the image of a stored column of `B` stays empty -/
theorem den_spgemm_colMap_outside (big : K → Bool) (A B : Csr K) (colMap : Nat → Nat) (i j' : Nat)
    (hout : ∀ r ∈ B.rows, ∀ c ∈ r.map (·.1), colMap c ≠ j') :
    (spgemm big A B colMap).den i j' = 0 := by
  rw [Csr_den_eq]
  show colSum ((A.rows.map (prodRow big colMap B.rows)).getD i []) j' = 0
  rw [getD_map_nil _ (prodRow_nil big colMap B.rows)]
  apply colSum_eq_zero_of_not_mem
  intro hm
  rw [List.mem_map] at hm
  obtain ⟨e, he, hej⟩ := hm
  obtain ⟨c, hc, rB, hrB, hcB⟩ := prodRow_keys_mem big colMap B.rows _ e he
  exact hout rB hrB c hcB (by rw [← hc, hej])

/-! ## examples over `Int`: the hypotheses are satisfiable, the product is the expected one -/

/-- `A` is 2×3 with a duplicate entry at (0,0) and an out-of-order row -/
def exA : Csr Int := ⟨2, 3, [[(0, 1), (2, 2), (0, 3)], [(1, -1)]]⟩
/-- `B` is 3×2 -/
def exB : Csr Int := ⟨3, 2, [[(0, 1), (1, 1)], [(1, 5)], [(0, -2), (1, 7)]]⟩
def exBig : Int → Bool := fun x => x != 0

example : exA.WF = true ∧ exB.WF = true ∧ exB.rows.length = exA.nCols := by decide

/-- dense `A = [[4,0,2],[0,-1,0]]`, `B = [[1,1],[0,5],[-2,7]]`, `A*B = [[0,18],[0,-5]]`: the
    cancelling entry (0,0) is dropped -/
example : spgemm exBig exA exB = ⟨2, 2, [[(1, 18)], [(1, -5)]]⟩ := by decide

example : (spgemm exBig exA exB).den 0 1 = 18 ∧ denProd exA.entries exB.entries 3 0 1 = 18 := by
  decide

example : (spgemm exBig exA exB).den 0 0
    = (let s := denProd exA.entries exB.entries exA.nCols 0 0; if exBig s then s else 0) :=
  den_spgemm exBig exA exB (by decide) (by decide) (by decide) 0 0

/-- Galerkin product `Bᵀ (A' B) = [[12,-37],[-33,186]]` with `A' = [[2,1,0],[0,1,0],[1,0,3]]` -/
def exA' : Csr Int := ⟨3, 3, [[(0, 2), (1, 1)], [(1, 1)], [(2, 3), (0, 1)]]⟩

example : exA'.WF = true ∧ (csrToCsc exB).WF = true := by decide

example : spgemmT (fun _ => true) (csrToCsc exB) (spgemm (fun _ => true) exA' exB)
    = ⟨2, 2, [[(0, 12), (1, -37)], [(0, -33), (1, 186)]]⟩ := by decide

example : (spgemmT (fun _ => true) (csrToCsc exB) (spgemm (fun _ => true) exA' exB)).den 1 0
    = ((List.range exB.nRows).map fun k =>
        ((List.range exA'.nCols).map fun l => exB.den k 1 * exA'.den k l * exB.den l 0).sum).sum :=
  galerkin_csrToCsc exA' exB (by decide) (by decide) 1 0

/-- `A.WF` cannot be dropped from `den_spgemm`: an inner index `≥ A.nCols` that hits an existing
    row of `B` is multiplied by the implementation but invisible to the finite specification sum -/
example :
    let A : Csr Int := ⟨1, 1, [[(1, 1)]]⟩
    let B : Csr Int := ⟨2, 1, [[], [(0, 1)]]⟩
    A.WF = false ∧ B.WF = true ∧
    (spgemm (fun _ => true) A B).den 0 0 = 1 ∧ denProd A.entries B.entries A.nCols 0 0 = 0 := by
  decide

end Raptor.C06
