import RaptorModel.Model.Sparse
import Mathlib.Algebra.BigOperators.Group.List.Basic
import Mathlib.Algebra.Group.Defs
import Mathlib.Algebra.Group.Basic
import Mathlib.Data.List.Perm.Basic
/-!
# Helper lemmas for C07 (sparse formats preserve the dense image)

The method: the dense image `denE` of an entry list is invariant under permutations, the dense
image of a compressed structure at `(i, j)` is the "row image" `rowDen` of its `i`-th row at `j`,
and every operation of the model acts row-wise by a permutation, a bucketing, or a merge.
-/
namespace Raptor.Sparse

variable {K : Type}

/-- swap the two indices of an entry -/
def swapE (e : Entry K) : Entry K := (e.2.1, e.1, e.2.2)

/-! ## `denE` and `rowDen` : basic algebra -/

section Monoid
variable [AddCommMonoid K]

/-- sum of the values stored at index `j` inside one compressed row (or column) -/
def rowDen (r : List (Nat × K)) (j : Nat) : K :=
  ((r.filter fun e => e.1 == j).map (·.2)).sum

theorem denE_nil (i j : Nat) : denE ([] : List (Entry K)) i j = 0 := rfl

theorem denE_cons (e : Entry K) (es : List (Entry K)) (i j : Nat) :
    denE (e :: es) i j = (if (e.1 == i && e.2.1 == j) = true then e.2.2 else 0) + denE es i j := by
  unfold denE
  rw [List.filter_cons]
  split
  · rw [List.map_cons, List.sum_cons]
  · rw [zero_add]

theorem denE_append (l₁ l₂ : List (Entry K)) (i j : Nat) :
    denE (l₁ ++ l₂) i j = denE l₁ i j + denE l₂ i j := by
  unfold denE
  rw [List.filter_append, List.map_append, List.sum_append]

theorem denE_perm {l₁ l₂ : List (Entry K)} (h : l₁.Perm l₂) (i j : Nat) :
    denE l₁ i j = denE l₂ i j :=
  ((h.filter _).map _).sum_eq

theorem denE_eq_zero {es : List (Entry K)} {i j : Nat}
    (h : ∀ e ∈ es, ¬ (e.1 = i ∧ e.2.1 = j)) : denE es i j = 0 := by
  unfold denE
  have : es.filter (fun e => e.1 == i && e.2.1 == j) = [] := by
    rw [List.filter_eq_nil_iff]
    intro e he hc
    simp only [Bool.and_eq_true, beq_iff_eq] at hc
    exact h e he hc
  rw [this]; rfl

theorem denE_map_swapE (es : List (Entry K)) (i j : Nat) :
    denE (es.map swapE) i j = denE es j i := by
  induction es with
  | nil => rfl
  | cons e es ih =>
    rw [List.map_cons, denE_cons, denE_cons, ih]
    simp only [swapE, Bool.and_comm]

theorem rowDen_nil (j : Nat) : rowDen ([] : List (Nat × K)) j = 0 := rfl

theorem rowDen_cons (e : Nat × K) (r : List (Nat × K)) (j : Nat) :
    rowDen (e :: r) j = (if (e.1 == j) = true then e.2 else 0) + rowDen r j := by
  unfold rowDen
  rw [List.filter_cons]
  split
  · rw [List.map_cons, List.sum_cons]
  · rw [zero_add]

theorem rowDen_append (l₁ l₂ : List (Nat × K)) (j : Nat) :
    rowDen (l₁ ++ l₂) j = rowDen l₁ j + rowDen l₂ j := by
  unfold rowDen
  rw [List.filter_append, List.map_append, List.sum_append]

theorem rowDen_perm {l₁ l₂ : List (Nat × K)} (h : l₁.Perm l₂) (j : Nat) :
    rowDen l₁ j = rowDen l₂ j :=
  ((h.filter _).map _).sum_eq

theorem rowDen_eq_zero {r : List (Nat × K)} {j : Nat} (h : ∀ e ∈ r, e.1 ≠ j) : rowDen r j = 0 := by
  unfold rowDen
  have : r.filter (fun e => e.1 == j) = [] := by
    rw [List.filter_eq_nil_iff]
    intro e he hc
    exact h e he (beq_iff_eq.mp hc)
  rw [this]; rfl

/-! ## the dense image of a list of rows -/

theorem denE_mapRow (k : Nat) (row : List (Nat × K)) (i j : Nat) :
    denE (row.map fun (c, v) => (k, c, v)) i j = if k = i then rowDen row j else 0 := by
  induction row with
  | nil => simp [denE_nil, rowDen_nil]
  | cons e r ih =>
    rw [List.map_cons, denE_cons, ih, rowDen_cons]
    by_cases hk : k = i
    · subst hk; simp
    · simp [hk]

theorem denE_rowsAux (rows : List (List (Nat × K))) (k i j : Nat) :
    denE ((rows.zipIdx k).flatMap fun (row, r) => row.map fun (c, v) => (r, c, v)) i j =
      if k ≤ i then rowDen (rows[i - k]?.getD []) j else 0 := by
  induction rows generalizing k with
  | nil => simp [denE_nil, rowDen_nil]
  | cons row rows ih =>
    rw [List.zipIdx_cons, List.flatMap_cons, denE_append, ih, denE_mapRow]
    by_cases h1 : k = i
    · subst h1
      have h3 : ¬ k + 1 ≤ k := by omega
      simp [h3]
    · by_cases h2 : k ≤ i
      · have h3 : k + 1 ≤ i := by omega
        have h4 : i - k = (i - (k + 1)) + 1 := by omega
        rw [if_neg h1, if_pos h2, if_pos h3, h4, List.getElem?_cons_succ, zero_add]
      · have h3 : ¬ k + 1 ≤ i := by omega
        rw [if_neg h1, if_neg h2, if_neg h3, zero_add]

theorem denE_rowsEntries (rows : List (List (Nat × K))) (i j : Nat) :
    denE (rowsEntries rows) i j = rowDen (rows[i]?.getD []) j := by
  unfold rowsEntries
  exact (denE_rowsAux rows 0 i j).trans (by simp)

omit [AddCommMonoid K] in
theorem Csc.entries_eq (A : Csc K) : A.entries = (rowsEntries A.cols).map swapE := by
  unfold Csc.entries rowsEntries
  rw [List.map_flatMap]
  congr 1
  funext ⟨col, c⟩
  simp only [List.map_map]
  congr 1

theorem Csr.den_eq (A : Csr K) (i j : Nat) : A.den i j = rowDen (A.rows[i]?.getD []) j :=
  denE_rowsEntries A.rows i j

theorem Csc.den_eq (A : Csc K) (i j : Nat) : A.den i j = rowDen (A.cols[j]?.getD []) i := by
  unfold Csc.den
  rw [Csc.entries_eq, denE_map_swapE, denE_rowsEntries]

/-- two row lists whose rows are pairwise permutations of each other have the same dense image -/
theorem rowDen_congr_perm {r₁ r₂ : List (List (Nat × K))} {i : Nat}
    (h : (r₁[i]?.getD []).Perm (r₂[i]?.getD [])) (j : Nat) :
    rowDen (r₁[i]?.getD []) j = rowDen (r₂[i]?.getD []) j := rowDen_perm h j

/-! ## membership in `rowsEntries`, ranges -/

end Monoid

theorem mem_rowsEntries {rows : List (List (Nat × K))} {e : Entry K} :
    e ∈ rowsEntries rows ↔ ∃ r, rows[e.1]? = some r ∧ (e.2.1, e.2.2) ∈ r := by
  unfold rowsEntries
  rw [List.mem_flatMap]
  constructor
  · rintro ⟨⟨row, k⟩, hk, he⟩
    rw [List.mem_zipIdx_iff_getElem?] at hk
    simp only [List.mem_map] at he
    obtain ⟨⟨c, v⟩, hcv, rfl⟩ := he
    exact ⟨row, hk, hcv⟩
  · rintro ⟨r, hr, he⟩
    refine ⟨(r, e.1), ?_, ?_⟩
    · rw [List.mem_zipIdx_iff_getElem?]; exact hr
    · simp only [List.mem_map]
      exact ⟨(e.2.1, e.2.2), he, rfl⟩

theorem mem_cscEntries {A : Csc K} {e : Entry K} :
    e ∈ A.entries ↔ ∃ r, A.cols[e.2.1]? = some r ∧ (e.1, e.2.2) ∈ r := by
  unfold Csc.entries
  rw [List.mem_flatMap]
  constructor
  · rintro ⟨⟨row, k⟩, hk, he⟩
    rw [List.mem_zipIdx_iff_getElem?] at hk
    simp only [List.mem_map] at he
    obtain ⟨⟨c, v⟩, hcv, rfl⟩ := he
    exact ⟨row, hk, hcv⟩
  · rintro ⟨r, hr, he⟩
    refine ⟨(r, e.2.1), ?_, ?_⟩
    · rw [List.mem_zipIdx_iff_getElem?]; exact hr
    · simp only [List.mem_map]
      exact ⟨(e.1, e.2.2), he, rfl⟩

theorem Coo.WF_iff {A : Coo K} :
    A.WF = true ↔ ∀ e ∈ A.ents, e.1 < A.nRows ∧ e.2.1 < A.nCols := by
  simp [Coo.WF]

theorem Csr.WF_iff {A : Csr K} :
    A.WF = true ↔ A.rows.length = A.nRows ∧ ∀ r ∈ A.rows, ∀ e ∈ r, e.1 < A.nCols := by
  simp [Csr.WF]

theorem Csc.WF_iff {A : Csc K} :
    A.WF = true ↔ A.cols.length = A.nCols ∧ ∀ r ∈ A.cols, ∀ e ∈ r, e.1 < A.nRows := by
  simp [Csc.WF]

theorem Csr.entries_lt {A : Csr K} (h : A.WF = true) {e : Entry K} (he : e ∈ A.entries) :
    e.1 < A.nRows ∧ e.2.1 < A.nCols := by
  rw [Csr.WF_iff] at h
  obtain ⟨r, hr, hmem⟩ := mem_rowsEntries.mp he
  obtain ⟨hlt, hget⟩ := List.getElem?_eq_some_iff.mp hr
  exact ⟨h.1 ▸ hlt, h.2 r (hget ▸ List.getElem_mem hlt) _ hmem⟩

theorem Csc.entries_lt {A : Csc K} (h : A.WF = true) {e : Entry K} (he : e ∈ A.entries) :
    e.1 < A.nRows ∧ e.2.1 < A.nCols := by
  rw [Csc.WF_iff] at h
  obtain ⟨r, hr, hmem⟩ := mem_cscEntries.mp he
  obtain ⟨hlt, hget⟩ := List.getElem?_eq_some_iff.mp hr
  exact ⟨h.2 r (hget ▸ List.getElem_mem hlt) _ hmem, h.1 ▸ hlt⟩

/-! ## `bucket` -/

theorem bucket_length {α : Type} (n : Nat) (l : List (Nat × α)) : (bucket n l).length = n := by
  simp [bucket]

theorem bucket_getElem? {α : Type} (n : Nat) (l : List (Nat × α)) (k : Nat) :
    (bucket n l)[k]? =
      if k < n then some ((l.filter (fun e => e.1 == k)).map (·.2)) else none := by
  unfold bucket
  by_cases h : k < n
  · simp [h]
  · simp [h]

theorem mem_bucket {α : Type} {n : Nat} {l : List (Nat × α)} {b : List α} {a : α}
    (hb : b ∈ bucket n l) (ha : a ∈ b) : ∃ k, (k, a) ∈ l := by
  unfold bucket at hb
  simp only [List.mem_map, List.mem_range] at hb
  obtain ⟨k, _, rfl⟩ := hb
  simp only [List.mem_map, List.mem_filter] at ha
  obtain ⟨⟨k', a'⟩, ⟨hm, _⟩, rfl⟩ := ha
  exact ⟨k', hm⟩

theorem bucket_all_lt {n m : Nat} {l : List (Nat × Nat × K)} (h : ∀ x ∈ l, x.2.1 < m) :
    ∀ b ∈ bucket n l, ∀ a ∈ b, a.1 < m := by
  intro b hb a ha
  obtain ⟨k, hk⟩ := mem_bucket hb ha
  exact h (k, a) hk

/-- index ranges are inherited by rows whose indices all occur in the source rows -/
theorem all_lt_of_keys {m : Nat} {rows rows' : List (List (Nat × K))}
    (h : ∀ r ∈ rows, ∀ e ∈ r, e.1 < m)
    (hk : ∀ r' ∈ rows', ∀ e ∈ r', ∃ r ∈ rows, ∃ e' ∈ r, e'.1 = e.1) :
    ∀ r' ∈ rows', ∀ e ∈ r', e.1 < m := by
  intro r' hr' e he
  obtain ⟨r, hr, e', he', hee⟩ := hk r' hr' e he
  exact hee ▸ h r hr e' he'

section Monoid
variable [AddCommMonoid K]

theorem rowDen_bucketRow (es : List (Entry K)) (i j : Nat) :
    rowDen (((es.map fun (r, c, v) => (r, (c, v))).filter (fun e => e.1 == i)).map (·.2)) j
      = denE es i j := by
  induction es with
  | nil => rfl
  | cons e es ih =>
    rw [List.map_cons, List.filter_cons, denE_cons]
    by_cases h : e.1 = i
    · simp only [h, beq_self_eq_true, if_true, List.map_cons, rowDen_cons, ih, Bool.true_and]
    · have hb : (e.1 == i) = false := beq_eq_false_iff_ne.mpr h
      simp only [hb, Bool.false_eq_true, if_false, ih, Bool.false_and, zero_add]

theorem rowDen_bucketCol (es : List (Entry K)) (i j : Nat) :
    rowDen (((es.map fun (r, c, v) => (c, (r, v))).filter (fun e => e.1 == j)).map (·.2)) i
      = denE es i j := by
  induction es with
  | nil => rfl
  | cons e es ih =>
    rw [List.map_cons, List.filter_cons, denE_cons]
    by_cases h : e.2.1 = j
    · simp only [h, beq_self_eq_true, if_true, List.map_cons, rowDen_cons, ih, Bool.and_true]
    · have hb : (e.2.1 == j) = false := beq_eq_false_iff_ne.mpr h
      simp only [hb, Bool.false_eq_true, if_false, ih, Bool.and_false, zero_add]

/-- dense image of rows obtained by bucketing an entry list by row -/
theorem denE_bucketRows (n : Nat) (es : List (Entry K)) (h : ∀ e ∈ es, e.1 < n) (i j : Nat) :
    rowDen ((bucket n (es.map fun (r, c, v) => (r, (c, v))))[i]?.getD []) j = denE es i j := by
  rw [bucket_getElem?]
  split
  · exact rowDen_bucketRow es i j
  · rename_i hi
    rw [denE_eq_zero]; · rfl
    intro e he hc
    exact hi (hc.1 ▸ h e he)

/-- dense image of columns obtained by bucketing an entry list by column -/
theorem denE_bucketCols (n : Nat) (es : List (Entry K)) (h : ∀ e ∈ es, e.2.1 < n) (i j : Nat) :
    rowDen ((bucket n (es.map fun (r, c, v) => (c, (r, v))))[j]?.getD []) i = denE es i j := by
  rw [bucket_getElem?]
  split
  · exact rowDen_bucketCol es i j
  · rename_i hj
    rw [denE_eq_zero]; · rfl
    intro e he hc
    exact hj (hc.2 ▸ h e he)

end Monoid

/-! ## `sortBy` : a permutation, sorted -/

theorem insertBy_perm {α : Type} (key : α → Nat) (x : α) (l : List α) :
    (insertBy key x l).Perm (x :: l) := by
  induction l with
  | nil => exact List.Perm.refl _
  | cons y ys ih =>
    simp only [insertBy]
    split
    · exact List.Perm.refl _
    · exact (ih.cons y).trans (List.Perm.swap x y ys)

theorem sortBy_cons {α : Type} (key : α → Nat) (x : α) (l : List α) :
    sortBy key (x :: l) = insertBy key x (sortBy key l) := rfl

theorem sortBy_perm {α : Type} (key : α → Nat) (l : List α) : (sortBy key l).Perm l := by
  induction l with
  | nil => exact List.Perm.refl _
  | cons x xs ih =>
    rw [sortBy_cons]
    exact (insertBy_perm key x _).trans (ih.cons x)

theorem insertBy_sorted {α : Type} (key : α → Nat) (x : α) (l : List α)
    (h : l.Pairwise (fun a b => key a ≤ key b)) :
    (insertBy key x l).Pairwise (fun a b => key a ≤ key b) := by
  induction l with
  | nil => simp [insertBy]
  | cons y ys ih =>
    rw [List.pairwise_cons] at h
    simp only [insertBy]
    split
    · rename_i hlt
      refine List.Pairwise.cons ?_ (List.Pairwise.cons h.1 h.2)
      intro b hb
      rcases List.mem_cons.mp hb with rfl | hb
      · omega
      · have := h.1 b hb; omega
    · rename_i hnlt
      refine List.Pairwise.cons ?_ (ih h.2)
      intro b hb
      have hb' := (insertBy_perm key x ys).mem_iff.mp hb
      rcases List.mem_cons.mp hb' with rfl | hb''
      · omega
      · exact h.1 b hb''

theorem sortBy_pairwise {α : Type} (key : α → Nat) (l : List α) :
    (sortBy key l).Pairwise (fun a b => key a ≤ key b) := by
  induction l with
  | nil => exact List.Pairwise.nil
  | cons x xs ih => rw [sortBy_cons]; exact insertBy_sorted key x _ ih

/-! ## `moveFront`, `rowRuns` : permutations -/

theorem find?_eraseP_perm {α : Type} (p : α → Bool) (l : List α) (e : α)
    (h : l.find? p = some e) : (e :: l.eraseP p).Perm l := by
  induction l with
  | nil => simp at h
  | cons y ys ih =>
    by_cases hy : p y = true
    · rw [List.find?_cons_of_pos hy] at h
      cases h
      rw [List.eraseP_cons_of_pos hy]
    · rw [List.find?_cons_of_neg hy] at h
      rw [List.eraseP_cons_of_neg hy]
      exact (List.Perm.swap y e _).trans ((ih h).cons y)

theorem moveFront_perm (d : Nat) (row : List (Nat × K)) : (moveFront d row).Perm row := by
  unfold moveFront
  split
  · rename_i e he
    exact find?_eraseP_perm _ row e he
  · exact List.Perm.refl _

theorem moveFront_head (d : Nat) (row : List (Nat × K)) (h : ∃ e ∈ row, e.1 = d) :
    ∃ e tl, moveFront d row = e :: tl ∧ e.1 = d := by
  unfold moveFront
  cases hf : row.find? (fun e => e.1 == d) with
  | none =>
    obtain ⟨e, he, hd⟩ := h
    have := List.find?_eq_none.mp hf e he
    simp [hd] at this
  | some e =>
    have hp : (e.1 == d) = true := List.find?_some (p := fun e : Nat × K => e.1 == d) hf
    exact ⟨e, _, rfl, beq_iff_eq.mp hp⟩

theorem getElem?_zipIdx_map_rows {α : Type} (f : Nat → List α → List α)
    (rows : List (List α)) (i : Nat) (row : List α) (h : rows[i]? = some row) :
    (rows.zipIdx.map fun (row, r) => f r row)[i]? = some (f i row) := by
  rw [List.getElem?_map, List.getElem?_zipIdx, h]
  simp

theorem moveFront_nil (d : Nat) : moveFront d ([] : List (Nat × K)) = [] := rfl

theorem rowRuns_ne_nil (l : List (Entry K)) : ∀ r ∈ rowRuns l, r ≠ [] := by
  induction l with
  | nil => intro r hr; simp [rowRuns] at hr
  | cons e rest ih =>
    intro r hr
    simp only [rowRuns] at hr
    split at hr
    · rename_i f run tl heq
      rw [heq] at ih
      split at hr
      · rcases List.mem_cons.mp hr with rfl | h
        · exact List.cons_ne_nil _ _
        · exact ih r (List.mem_cons_of_mem _ h)
      · rcases List.mem_cons.mp hr with rfl | h
        · exact List.cons_ne_nil _ _
        · exact ih r h
    · rcases List.mem_cons.mp hr with rfl | h
      · exact List.cons_ne_nil _ _
      · simp at h

theorem rowRuns_flatten (l : List (Entry K)) : (rowRuns l).flatten = l := by
  induction l with
  | nil => simp [rowRuns]
  | cons e rest ih =>
    have hne := rowRuns_ne_nil rest
    simp only [rowRuns]
    split
    · rename_i f run tl heq
      rw [heq] at ih
      split
      · rw [← ih]; simp
      · rw [← ih]; simp
    · rename_i hno
      cases hrr : rowRuns rest with
      | nil => rw [hrr] at ih; simp at ih; simp [← ih]
      | cons r tl =>
        cases r with
        | nil => exact absurd rfl (hne [] (hrr ▸ List.mem_cons_self))
        | cons f run => exact absurd hrr (hno f run tl)

theorem flatMap_perm_flatten {α : Type} (L : List (List α)) (g : List α → List α)
    (h : ∀ r, (g r).Perm r) : (L.flatMap g).Perm L.flatten := by
  induction L with
  | nil => exact List.Perm.refl _
  | cons r L ih =>
    rw [List.flatMap_cons, List.flatten_cons]
    exact (h r).append ih

theorem diagFirst_perm (run : List (Entry K)) :
    ((run.filter fun e => e.1 == e.2.1).reverse ++ run.filter fun e => !(e.1 == e.2.1)).Perm run :=
  ((List.reverse_perm _).append_right _).trans (List.filter_append_perm _ run)

/-! ## index lemmas for row-wise maps -/

theorem getD_map_rows {α : Type} (f : List α → List α) (hf : f [] = [])
    (rows : List (List α)) (i : Nat) :
    (rows.map f)[i]?.getD [] = f (rows[i]?.getD []) := by
  rw [List.getElem?_map]
  cases rows[i]? with
  | none => simp [hf]
  | some r => simp

theorem getD_zipIdx_map_rows {α : Type} (f : Nat → List α → List α) (hf : ∀ i, f i [] = [])
    (rows : List (List α)) (i : Nat) :
    (rows.zipIdx.map fun (row, r) => f r row)[i]?.getD [] = f i (rows[i]?.getD []) := by
  rw [List.getElem?_map, List.getElem?_zipIdx]
  cases rows[i]? with
  | none => simp [hf]
  | some r => simp

theorem getD_zipRows (a b : List (List (Nat × K))) (h : b.length ≤ a.length) (i : Nat) :
    (zipRows a b)[i]?.getD [] = a[i]?.getD [] ++ b[i]?.getD [] := by
  unfold zipRows
  by_cases hi : i < a.length
  · simp [hi]
  · have h1 : a.length ≤ i := by omega
    have h2 : b.length ≤ i := by omega
    simp [hi, List.getElem?_eq_none h2]

theorem zipRows_length (a b : List (List (Nat × K))) : (zipRows a b).length = a.length := by
  simp [zipRows]

/-! ## merging adjacent duplicates -/

section Monoid
variable [AddCommMonoid K]

theorem denE_mergeAdjCoo (l : List (Entry K)) (i j : Nat) :
    denE (mergeAdjCoo l) i j = denE l i j := by
  induction l with
  | nil => rfl
  | cons e rest ih =>
    obtain ⟨r, c, v⟩ := e
    simp only [mergeAdjCoo]
    split
    · rename_i r' c' v' tl heq
      rw [heq] at ih
      split
      · rename_i hc
        simp only [Bool.and_eq_true, beq_iff_eq] at hc
        obtain ⟨rfl, rfl⟩ := hc
        rw [denE_cons, denE_cons (r, c, v) rest, ← ih, denE_cons]
        simp only
        split
        · rw [add_assoc]
        · simp
      · rw [denE_cons, denE_cons (r, c, v) rest, ← ih]
    · rename_i heq
      rw [heq] at ih
      rw [denE_cons, denE_cons, ← ih]

theorem rowDen_mergeAdj (l : List (Nat × K)) (j : Nat) :
    rowDen (mergeAdj l) j = rowDen l j := by
  induction l with
  | nil => rfl
  | cons e rest ih =>
    obtain ⟨c, v⟩ := e
    simp only [mergeAdj]
    split
    · rename_i c' v' tl heq
      rw [heq] at ih
      split
      · rename_i hc
        have hc' : c = c' := beq_iff_eq.mp hc
        subst hc'
        rw [rowDen_cons, rowDen_cons (c, v) rest, ← ih, rowDen_cons]
        simp only
        split
        · rw [add_assoc]
        · simp
      · rw [rowDen_cons, rowDen_cons (c, v) rest, ← ih]
    · rename_i heq
      rw [heq] at ih
      rw [rowDen_cons, rowDen_cons, ← ih]

theorem mergeAdj_keys (l : List (Nat × K)) : ∀ e ∈ mergeAdj l, ∃ e' ∈ l, e'.1 = e.1 := by
  induction l with
  | nil => intro e he; simp [mergeAdj] at he
  | cons x rest ih =>
    obtain ⟨c, v⟩ := x
    intro e he
    simp only [mergeAdj] at he
    split at he
    · rename_i c' v' tl heq
      rw [heq] at ih
      split at he
      · rcases List.mem_cons.mp he with rfl | h
        · exact ⟨(c, v), List.mem_cons_self, rfl⟩
        · obtain ⟨e', he', hk⟩ := ih e (List.mem_cons_of_mem _ h)
          exact ⟨e', List.mem_cons_of_mem _ he', hk⟩
      · rcases List.mem_cons.mp he with rfl | h
        · exact ⟨(c, v), List.mem_cons_self, rfl⟩
        · obtain ⟨e', he', hk⟩ := ih e h
          exact ⟨e', List.mem_cons_of_mem _ he', hk⟩
    · rcases List.mem_cons.mp he with rfl | h
      · exact ⟨(c, v), List.mem_cons_self, rfl⟩
      · simp at h

/-- merging a list sorted by index gives strictly increasing indices -/
theorem mergeAdj_strict (l : List (Nat × K)) (h : l.Pairwise (fun a b => a.1 ≤ b.1)) :
    (mergeAdj l).Pairwise (fun a b => a.1 < b.1) := by
  induction l with
  | nil => simp [mergeAdj]
  | cons x rest ih =>
    obtain ⟨c, v⟩ := x
    rw [List.pairwise_cons] at h
    have ih' := ih h.2
    have hk := mergeAdj_keys rest
    simp only [mergeAdj]
    split
    · rename_i c' v' tl heq
      rw [heq] at ih' hk
      rw [List.pairwise_cons] at ih'
      have hcc' : c ≤ c' := by
        obtain ⟨e', he', hke⟩ := hk (c', v') List.mem_cons_self
        have := h.1 e' he'
        simp only at this hke
        omega
      split
      · rename_i hc
        have hc' : c = c' := beq_iff_eq.mp hc
        subst hc'
        exact List.Pairwise.cons (fun b hb => ih'.1 b hb) ih'.2
      · rename_i hc
        have hne : c ≠ c' := fun h => hc (beq_iff_eq.mpr h)
        refine List.Pairwise.cons ?_ (List.Pairwise.cons ih'.1 ih'.2)
        intro b hb
        rcases List.mem_cons.mp hb with rfl | hb
        · simp only; omega
        · have := ih'.1 b hb; simp only at this ⊢; omega
    · exact List.pairwise_singleton _ _

/-- for strictly increasing indices at most one entry has index `j`, so dropping the entries that
    `tiny` flags replaces the stored value by `0` exactly when it is flagged -/
theorem rowDen_filter_tiny (tiny : K → Bool) (l : List (Nat × K))
    (h : l.Pairwise (fun a b => a.1 < b.1)) (j : Nat) :
    rowDen (l.filter fun e => !tiny e.2) j
      = if tiny (rowDen l j) = true then 0 else rowDen l j := by
  induction l with
  | nil =>
    rw [List.filter_nil, rowDen_nil]
    split <;> rfl
  | cons x rest ih =>
    rw [List.pairwise_cons] at h
    have ih' := ih h.2
    by_cases hx : x.1 = j
    · have hz : rowDen rest j = 0 := rowDen_eq_zero (fun e he => by have := h.1 e he; omega)
      have hz' : rowDen (rest.filter fun e => !tiny e.2) j = 0 :=
        rowDen_eq_zero (fun e he => by have := h.1 e (List.mem_of_mem_filter he); omega)
      have hb : (x.1 == j) = true := beq_iff_eq.mpr hx
      rw [rowDen_cons, hz, if_pos hb, add_zero, List.filter_cons]
      by_cases ht : tiny x.2 = true
      · simp only [ht, Bool.not_true, Bool.false_eq_true, if_false, if_true, hz']
      · simp only [ht, Bool.not_false, if_true, rowDen_cons, if_pos hb, hz', add_zero]
        simp
    · have hb : ¬ (x.1 == j) = true := fun hc => hx (beq_iff_eq.mp hc)
      rw [rowDen_cons, if_neg hb, zero_add, List.filter_cons]
      split
      · rw [rowDen_cons, if_neg hb, zero_add, ih']
      · exact ih'

/-- one row of `remove_duplicates` -/
theorem rowDen_removeDup (tiny : K → Bool) (r : List (Nat × K)) (j : Nat) :
    rowDen ((mergeAdj (sortBy (·.1) r)).filter fun e => !tiny e.2) j
      = if tiny (rowDen r j) = true then 0 else rowDen r j := by
  rw [rowDen_filter_tiny tiny _ (mergeAdj_strict _ (sortBy_pairwise _ r)), rowDen_mergeAdj,
    rowDen_perm (sortBy_perm _ r)]

theorem rowDen_zipRows (a b : List (List (Nat × K))) (h : b.length ≤ a.length) (i j : Nat) :
    rowDen ((zipRows a b)[i]?.getD []) j
      = rowDen (a[i]?.getD []) j + rowDen (b[i]?.getD []) j := by
  rw [getD_zipRows a b h, rowDen_append]

theorem removeDup_keys (tiny : K → Bool) (r : List (Nat × K)) :
    ∀ e ∈ (mergeAdj (sortBy (·.1) r)).filter (fun e => !tiny e.2), ∃ e' ∈ r, e'.1 = e.1 := by
  intro e he
  obtain ⟨e', he', hk⟩ := mergeAdj_keys _ e (List.mem_of_mem_filter he)
  exact ⟨e', (sortBy_perm _ r).mem_iff.mp he', hk⟩

end Monoid

theorem mem_getD_rows {α : Type} {a : List (List α)} {i : Nat} {e : α}
    (he : e ∈ a.getD i []) : ∃ r ∈ a, e ∈ r := by
  rw [List.getD_eq_getElem?_getD] at he
  cases h : a[i]? with
  | none => rw [h] at he; simp at he
  | some r => rw [h] at he; exact ⟨r, List.mem_of_getElem? h, he⟩

theorem mem_zipRows {a b : List (List (Nat × K))} {r : List (Nat × K)} (hr : r ∈ zipRows a b)
    {e : Nat × K} (he : e ∈ r) : (∃ r' ∈ a, e ∈ r') ∨ (∃ r' ∈ b, e ∈ r') := by
  unfold zipRows at hr
  obtain ⟨i, _, rfl⟩ := List.mem_map.mp hr
  rcases List.mem_append.mp he with h | h
  · exact Or.inl (mem_getD_rows h)
  · exact Or.inr (mem_getD_rows h)

/-! ## `sortBy` is stable; lexicographic consequences -/

/-- `insertBy` puts `x` in front of every element whose key is `≥ key x` -/
theorem insertBy_stable {α : Type} (key : α → Nat) (R : α → α → Prop) (x : α) (l : List α)
    (hl : l.Pairwise (fun a b => key a < key b ∨ (key a = key b ∧ R a b)))
    (hx : ∀ y ∈ l, R x y) :
    (insertBy key x l).Pairwise (fun a b => key a < key b ∨ (key a = key b ∧ R a b)) := by
  induction l with
  | nil => simp [insertBy]
  | cons y ys ih =>
    rw [List.pairwise_cons] at hl
    simp only [insertBy]
    split
    · rename_i hle
      refine List.Pairwise.cons ?_ (List.Pairwise.cons hl.1 hl.2)
      intro b hb
      have hyb : key y ≤ key b := by
        rcases List.mem_cons.mp hb with rfl | hb'
        · exact Nat.le_refl _
        · rcases hl.1 b hb' with h | h <;> omega
      by_cases heq : key x = key b
      · exact Or.inr ⟨heq, hx b hb⟩
      · exact Or.inl (by omega)
    · rename_i hnle
      refine List.Pairwise.cons ?_ (ih hl.2 (fun y hy => hx y (List.mem_cons_of_mem _ hy)))
      intro b hb
      have hb' := (insertBy_perm key x ys).mem_iff.mp hb
      rcases List.mem_cons.mp hb' with rfl | hb''
      · exact Or.inl (by omega)
      · exact hl.1 b hb''

/-- `sortBy` sorts by key and KEEPS the original order among equal keys -/
theorem sortBy_stable_aux {α : Type} (key : α → Nat) (R : α → α → Prop) (l : List α)
    (hl : l.Pairwise R) :
    (sortBy key l).Pairwise (fun a b => key a < key b ∨ (key a = key b ∧ R a b)) := by
  induction l with
  | nil => exact List.Pairwise.nil
  | cons x xs ih =>
    rw [List.pairwise_cons] at hl
    rw [sortBy_cons]
    exact insertBy_stable key R x _ (ih hl.2)
      (fun y hy => hl.1 y ((sortBy_perm key xs).mem_iff.mp hy))

section Monoid
variable [AddCommMonoid K]

theorem mergeAdjCoo_keys (l : List (Entry K)) :
    ∀ e ∈ mergeAdjCoo l, ∃ e' ∈ l, e'.1 = e.1 ∧ e'.2.1 = e.2.1 := by
  induction l with
  | nil => intro e he; simp [mergeAdjCoo] at he
  | cons x rest ih =>
    obtain ⟨r, c, v⟩ := x
    intro e he
    simp only [mergeAdjCoo] at he
    split at he
    · rename_i r' c' v' tl heq
      rw [heq] at ih
      split at he
      · rcases List.mem_cons.mp he with rfl | h
        · exact ⟨(r, c, v), List.mem_cons_self, rfl, rfl⟩
        · obtain ⟨e', he', hk⟩ := ih e (List.mem_cons_of_mem _ h)
          exact ⟨e', List.mem_cons_of_mem _ he', hk⟩
      · rcases List.mem_cons.mp he with rfl | h
        · exact ⟨(r, c, v), List.mem_cons_self, rfl, rfl⟩
        · obtain ⟨e', he', hk⟩ := ih e h
          exact ⟨e', List.mem_cons_of_mem _ he', hk⟩
    · rcases List.mem_cons.mp he with rfl | h
      · exact ⟨(r, c, v), List.mem_cons_self, rfl, rfl⟩
      · simp at h

/-- merging a list sorted by (row, column) leaves it strictly sorted: no two entries with the
    same position -/
theorem mergeAdjCoo_strict (l : List (Entry K))
    (h : l.Pairwise (fun a b => a.1 < b.1 ∨ (a.1 = b.1 ∧ a.2.1 ≤ b.2.1))) :
    (mergeAdjCoo l).Pairwise (fun a b => a.1 < b.1 ∨ (a.1 = b.1 ∧ a.2.1 < b.2.1)) := by
  induction l with
  | nil => simp [mergeAdjCoo]
  | cons x rest ih =>
    obtain ⟨r, c, v⟩ := x
    rw [List.pairwise_cons] at h
    have ih' := ih h.2
    have hk := mergeAdjCoo_keys rest
    simp only [mergeAdjCoo]
    split
    · rename_i r' c' v' tl heq
      rw [heq] at ih' hk
      rw [List.pairwise_cons] at ih'
      have hhead : r < r' ∨ (r = r' ∧ c ≤ c') := by
        obtain ⟨e', he', hke⟩ := hk (r', c', v') List.mem_cons_self
        have := h.1 e' he'
        simp only at this hke
        omega
      split
      · rename_i hc
        simp only [Bool.and_eq_true, beq_iff_eq] at hc
        obtain ⟨rfl, rfl⟩ := hc
        exact List.Pairwise.cons (fun b hb => ih'.1 b hb) ih'.2
      · rename_i hc
        simp only [Bool.and_eq_true, beq_iff_eq] at hc
        refine List.Pairwise.cons ?_ (List.Pairwise.cons ih'.1 ih'.2)
        intro b hb
        rcases List.mem_cons.mp hb with rfl | hb
        · simp only; omega
        · have := ih'.1 b hb; simp only at this ⊢; omega
    · exact List.pairwise_singleton _ _

end Monoid

section Group
variable [AddCommGroup K]

theorem rowDen_map_neg (r : List (Nat × K)) (j : Nat) :
    rowDen (r.map fun (c, v) => (c, -v)) j = - rowDen r j := by
  induction r with
  | nil => simp [rowDen_nil]
  | cons e r ih =>
    rw [List.map_cons, rowDen_cons, rowDen_cons, ih, neg_add]
    congr 1
    simp only
    split <;> simp

end Group

end Raptor.Sparse
