import RaptorModel.Model.Repart
import RaptorModel.Lemmas.SparseLemmas
import RaptorModel.Lemmas.CommLemmas
import RaptorModel.Lemmas.SpmvLemmas
import Mathlib.Data.List.Perm.Basic
import Mathlib.Data.List.Nodup
import Mathlib.Data.List.Range
/-!
# Helper lemmas for repartitioning and scaling (C20)

Nothing here changes the model: every lemma is about the functions of `Model/Repart.lean`.
-/
namespace Raptor.Repart
open Raptor.Sparse

/-! ## `sortLe` : a permutation, sorted, and unique -/
section Sorting
variable {α : Type}

theorem insertLe_perm (le : α → α → Bool) (x : α) (l : List α) : (insertLe le x l).Perm (x :: l) := by
  induction l with
  | nil => exact List.Perm.refl _
  | cons y ys ih =>
    simp only [insertLe]
    split
    · exact List.Perm.refl _
    · exact (ih.cons y).trans (List.Perm.swap x y ys)

theorem sortLe_cons (le : α → α → Bool) (x : α) (l : List α) :
    sortLe le (x :: l) = insertLe le x (sortLe le l) := rfl

theorem sortLe_perm (le : α → α → Bool) (l : List α) : (sortLe le l).Perm l := by
  induction l with
  | nil => exact List.Perm.refl _
  | cons x xs ih =>
    rw [sortLe_cons]
    exact (insertLe_perm le x _).trans (ih.cons x)

theorem mem_sortLe (le : α → α → Bool) (l : List α) (x : α) : x ∈ sortLe le l ↔ x ∈ l :=
  (sortLe_perm le l).mem_iff

theorem insertLe_sorted (le : α → α → Bool)
    (total : ∀ a b, le a b = true ∨ le b a = true)
    (trans : ∀ a b c, le a b = true → le b c = true → le a c = true)
    (x : α) (l : List α) (h : l.Pairwise (fun a b => le a b = true)) :
    (insertLe le x l).Pairwise (fun a b => le a b = true) := by
  induction l with
  | nil => simp [insertLe]
  | cons y ys ih =>
    rw [List.pairwise_cons] at h
    simp only [insertLe]
    split
    · rename_i hxy
      refine List.Pairwise.cons ?_ (List.Pairwise.cons h.1 h.2)
      intro b hb
      rcases List.mem_cons.mp hb with rfl | hb
      · exact hxy
      · exact trans _ _ _ hxy (h.1 b hb)
    · rename_i hxy
      refine List.Pairwise.cons ?_ (ih h.2)
      intro b hb
      have hb' := (insertLe_perm le x ys).mem_iff.mp hb
      rcases List.mem_cons.mp hb' with rfl | hb''
      · rcases total b y with h1 | h1
        · exact absurd h1 hxy
        · exact h1
      · exact h.1 b hb''

/-- the result of `sortLe` is sorted as soon as `le` is total and transitive -/
theorem sortLe_sorted (le : α → α → Bool)
    (total : ∀ a b, le a b = true ∨ le b a = true)
    (trans : ∀ a b c, le a b = true → le b c = true → le a c = true) (l : List α) :
    (sortLe le l).Pairwise (fun a b => le a b = true) := by
  induction l with
  | nil => exact List.Pairwise.nil
  | cons x xs ih => rw [sortLe_cons]; exact insertLe_sorted le total trans x _ ih

/-- two sorted permutations of each other coincide when `le` is antisymmetric on the members -/
theorem sorted_unique (le : α → α → Bool) {l₁ l₂ : List α} (hp : l₁.Perm l₂)
    (anti : ∀ a b, a ∈ l₁ → b ∈ l₁ → le a b = true → le b a = true → a = b)
    (h₁ : l₁.Pairwise (fun a b => le a b = true)) (h₂ : l₂.Pairwise (fun a b => le a b = true)) :
    l₁ = l₂ :=
  List.Perm.eq_of_pairwise (fun a b ha hb => anti a b ha (hp.mem_iff.mpr hb)) h₁ h₂ hp

/-- two lists that are permutations of each other, both sorted by a key whose values are pairwise
    distinct, are equal -/
theorem sorted_by_key_unique (key : α → Nat) {l₁ l₂ : List α} (hp : l₁.Perm l₂)
    (hk : (l₁.map key).Nodup)
    (h₁ : l₁.Pairwise (fun a b => key a ≤ key b)) (h₂ : l₂.Pairwise (fun a b => key a ≤ key b)) :
    l₁ = l₂ :=
  List.Perm.eq_of_pairwise
    (fun _ _ ha hb hab hba =>
      List.inj_on_of_nodup_map hk ha (hp.mem_iff.mpr hb) (Nat.le_antisymm hab hba)) h₁ h₂ hp

/-- sorting is insensitive to the order of its input -/
theorem sortLe_eq_of_perm (le : α → α → Bool)
    (total : ∀ a b, le a b = true ∨ le b a = true)
    (trans : ∀ a b c, le a b = true → le b c = true → le a c = true)
    {l₁ l₂ : List α} (hp : l₁.Perm l₂)
    (anti : ∀ a b, a ∈ l₁ → b ∈ l₁ → le a b = true → le b a = true → a = b) :
    sortLe le l₁ = sortLe le l₂ := by
  apply sorted_unique le (((sortLe_perm le l₁).trans hp).trans (sortLe_perm le l₂).symm)
  · intro a b ha hb
    exact anti a b ((mem_sortLe le l₁ a).mp ha) ((mem_sortLe le l₁ b).mp hb)
  · exact sortLe_sorted le total trans l₁
  · exact sortLe_sorted le total trans l₂

/-- a list that is already sorted (antisymmetric order on its members) is a fixed point -/
theorem sortLe_eq_self_of_perm_sorted (le : α → α → Bool)
    (total : ∀ a b, le a b = true ∨ le b a = true)
    (trans : ∀ a b c, le a b = true → le b c = true → le a c = true)
    {l s : List α} (hp : l.Perm s)
    (anti : ∀ a b, a ∈ l → b ∈ l → le a b = true → le b a = true → a = b)
    (hs : s.Pairwise (fun a b => le a b = true)) :
    sortLe le l = s := by
  apply sorted_unique le ((sortLe_perm le l).trans hp)
  · intro a b ha hb
    exact anti a b ((mem_sortLe le l a).mp ha) ((mem_sortLe le l b).mp hb)
  · exact sortLe_sorted le total trans l
  · exact hs

end Sorting

/-! ### the two orders used by the receiver -/

def leId {K : Type} : GRow K → GRow K → Bool := fun a b => a.1 ≤ b.1
def leCol : Nat × Nat → Nat × Nat → Bool := fun a b => a.2 < b.2 || (a.2 == b.2 && a.1 ≤ b.1)

theorem leId_total {K : Type} (a b : GRow K) : leId a b = true ∨ leId b a = true := by
  simp only [leId, decide_eq_true_eq]; omega
theorem leId_trans {K : Type} (a b c : GRow K) : leId a b = true → leId b c = true → leId a c = true := by
  simp only [leId, decide_eq_true_eq]; omega

theorem leCol_iff (a b : Nat × Nat) : leCol a b = true ↔ a.2 < b.2 ∨ (a.2 = b.2 ∧ a.1 ≤ b.1) := by
  simp [leCol]
theorem leCol_total (a b : Nat × Nat) : leCol a b = true ∨ leCol b a = true := by
  simp only [leCol_iff]; omega
theorem leCol_trans (a b c : Nat × Nat) : leCol a b = true → leCol b c = true → leCol a c = true := by
  simp only [leCol_iff]; omega
theorem leCol_antisymm (a b : Nat × Nat) : leCol a b = true → leCol b a = true → a = b := by
  simp only [leCol_iff]
  intro h1 h2
  apply Prod.ext <;> omega

/-! ## list combinatorics -/
section ListAux
variable {α β : Type}

theorem map_getD_range (l : List α) (d : α) : (List.range l.length).map (fun r => l.getD r d) = l := by
  apply List.ext_getElem (by simp)
  intro i h1 h2
  simp [List.getElem?_eq_getElem h2]

theorem flatMap_range_getD (l : List α) (d : α) (g : α → List β) :
    (List.range l.length).flatMap (fun r => g (l.getD r d)) = l.flatMap g := by
  conv => rhs; rw [← map_getD_range l d]
  rw [List.flatMap_map]

theorem flatMap_filter_nonempty (l : List α) (g : α → List β) :
    (l.filter fun r => !(g r).isEmpty).flatMap g = l.flatMap g := by
  induction l with
  | nil => rfl
  | cons a t ih =>
    by_cases h : (g a).isEmpty = true
    · have h' : g a = [] := List.isEmpty_iff.mp h
      simp [ih, h']
    · simp [h, ih]

theorem filter_or_perm (l : List α) (p q : α → Bool) (hd : ∀ x ∈ l, ¬ (p x = true ∧ q x = true)) :
    (l.filter p ++ l.filter q).Perm (l.filter fun x => p x || q x) := by
  induction l with
  | nil => exact List.Perm.refl _
  | cons a t ih =>
    have ih' := ih (fun x hx => hd x (List.mem_cons_of_mem _ hx))
    have ha := hd a List.mem_cons_self
    cases hp : p a <;> cases hq : q a
    · simpa [List.filter_cons, hp, hq] using ih'
    · simp only [List.filter_cons, hp, hq, Bool.false_eq_true, if_false, if_true, Bool.or_true]
      exact List.perm_middle.trans (ih'.cons a)
    · simp only [List.filter_cons, hp, hq, Bool.false_eq_true, if_false, if_true, Bool.or_false,
        List.cons_append]
      exact ih'.cons a
    · exact absurd ⟨hp, hq⟩ ha

theorem flatMap_range_filter_perm (l : List α) (f : α → Nat) (L : Nat) :
    ((List.range L).flatMap fun p => l.filter (fun x => f x == p)).Perm (l.filter fun x => decide (f x < L)) := by
  induction L with
  | zero => simp
  | succ L ih =>
    rw [List.range_succ, List.flatMap_append]
    simp only [List.flatMap_cons, List.flatMap_nil, List.append_nil]
    refine (ih.append_right _).trans ?_
    refine (filter_or_perm l _ _ ?_).trans ?_
    · intro x _ h
      simp only [decide_eq_true_eq, beq_iff_eq] at h
      omega
    · apply List.Perm.of_eq
      apply List.filter_congr
      intro x _
      rw [Bool.eq_iff_iff]
      simp only [Bool.or_eq_true, decide_eq_true_eq, beq_iff_eq]
      omega

/-- bucketing a list by a bounded key and concatenating the buckets is a permutation -/
theorem flatMap_range_filter_perm_self (l : List α) (f : α → Nat) (L : Nat) (hf : ∀ x ∈ l, f x < L) :
    ((List.range L).flatMap fun p => l.filter (fun x => f x == p)).Perm l := by
  refine (flatMap_range_filter_perm l f L).trans (List.Perm.of_eq ?_)
  rw [List.filter_eq_self]
  intro x hx
  simp [hf x hx]

end ListAux

/-! ## standing hypotheses -/
section Hyp
variable {K : Type}

/-- global ids of all rows of all ranks, rank by rank -/
def allIds (ranks : List (List (GRow K))) : List Nat := ranks.flatMap (·.map (·.1))

/-- every global row `0..n-1` is owned exactly once and every column id is a row id -/
def WFInput (ranks : List (List (GRow K))) (n : Nat) : Prop :=
  (ranks.flatMap (·.map (·.1))).Perm (List.range n) ∧
  ∀ rows ∈ ranks, ∀ r ∈ rows, ∀ e ∈ r.2, e.1 < n

instance (ranks : List (List (GRow K))) (n : Nat) : Decidable (WFInput ranks n) := by
  unfold WFInput; infer_instance

/-- every row has a target rank that exists -/
def TgtOk (tgt : Nat → Nat) (np n : Nat) : Prop := ∀ g, g < n → tgt g < np

instance (tgt : Nat → Nat) (np n : Nat) : Decidable (TgtOk tgt np n) := by
  unfold TgtOk; infer_instance

/-- at every receiver the arrival order names every sender exactly once -/
def ValidOrders (tgt : Nat → Nat) (ranks : List (List (GRow K))) (orders : Nat → List Nat) : Prop :=
  ∀ p, p < ranks.length → (orders p).Perm (senders tgt ranks p)

instance (tgt : Nat → Nat) (ranks : List (List (GRow K))) (orders : Nat → List Nat) :
    Decidable (ValidOrders tgt ranks orders) := by
  unfold ValidOrders; infer_instance

/-- all rows with target `p`, rank by rank, local order -/
def rowsTo (tgt : Nat → Nat) (ranks : List (List (GRow K))) (p : Nat) : List (GRow K) :=
  ranks.flatten.filter fun r => tgt r.1 == p

/-- the ids rank `p` is to hold -/
def idsTo (tgt : Nat → Nat) (n p : Nat) : List Nat := (List.range n).filter fun g => tgt g == p

theorem map_fst_flatten (ranks : List (List (GRow K))) : ranks.flatten.map (·.1) = allIds ranks := by
  unfold allIds
  rw [List.map_flatten, List.flatMap_def]

theorem WFInput.ids_perm {ranks : List (List (GRow K))} {n : Nat} (h : WFInput ranks n) :
    (ranks.flatten.map (·.1)).Perm (List.range n) := by
  rw [map_fst_flatten]; exact h.1

theorem WFInput.col_lt {ranks : List (List (GRow K))} {n : Nat} (h : WFInput ranks n)
    {r : GRow K} (hr : r ∈ ranks.flatten) {e : Nat × K} (he : e ∈ r.2) : e.1 < n := by
  obtain ⟨rows, hrows, hr'⟩ := List.mem_flatten.mp hr
  exact h.2 rows hrows r hr' e he

theorem WFInput.row_lt {ranks : List (List (GRow K))} {n : Nat} (h : WFInput ranks n)
    {r : GRow K} (hr : r ∈ ranks.flatten) : r.1 < n := by
  have : r.1 ∈ ranks.flatten.map (·.1) := List.mem_map_of_mem hr
  exact List.mem_range.mp (h.ids_perm.mem_iff.mp this)

theorem rowsTo_ids (tgt : Nat → Nat) (ranks : List (List (GRow K))) (p : Nat) :
    (rowsTo tgt ranks p).map (·.1) = (ranks.flatten.map (·.1)).filter fun g => tgt g == p := by
  unfold rowsTo
  rw [List.filter_map]; rfl

theorem rowsTo_ids_perm {tgt : Nat → Nat} {ranks : List (List (GRow K))} {n : Nat}
    (h : WFInput ranks n) (p : Nat) : ((rowsTo tgt ranks p).map (·.1)).Perm (idsTo tgt n p) := by
  rw [rowsTo_ids]
  exact h.ids_perm.filter _

theorem idsTo_nodup (tgt : Nat → Nat) (n p : Nat) : (idsTo tgt n p).Nodup :=
  List.nodup_range.filter _

theorem idsTo_sorted (tgt : Nat → Nat) (n p : Nat) : (idsTo tgt n p).Pairwise (· < ·) :=
  List.pairwise_lt_range.filter _

theorem mem_idsTo {tgt : Nat → Nat} {n p g : Nat} : g ∈ idsTo tgt n p ↔ g < n ∧ tgt g = p := by
  simp [idsTo]

theorem rowsTo_ids_nodup {tgt : Nat → Nat} {ranks : List (List (GRow K))} {n : Nat}
    (h : WFInput ranks n) (p : Nat) : ((rowsTo tgt ranks p).map (·.1)).Nodup :=
  (rowsTo_ids_perm h p).nodup_iff.mpr (idsTo_nodup tgt n p)

theorem senders_flatMap (tgt : Nat → Nat) (ranks : List (List (GRow K))) (p : Nat) :
    (senders tgt ranks p).flatMap (fun r => msgRows tgt (ranks.getD r []) p) = rowsTo tgt ranks p := by
  unfold senders
  rw [flatMap_filter_nonempty (List.range ranks.length) (fun r => msgRows tgt (ranks.getD r []) p)]
  rw [flatMap_range_getD ranks [] (fun rows => msgRows tgt rows p)]
  unfold msgRows rowsTo
  rw [List.flatten_eq_flatMap, List.filter_flatMap]
  rfl

/-- whatever the arrival order, the rows received by `p` are the rows with target `p` -/
theorem received_rows_perm {tgt : Nat → Nat} {ranks : List (List (GRow K))} {p : Nat} {o : List Nat}
    (ho : o.Perm (senders tgt ranks p)) :
    (o.flatMap fun r => msgRows tgt (ranks.getD r []) p).Perm (rowsTo tgt ranks p) := by
  rw [← senders_flatMap]
  exact ho.flatMap_right _

theorem recvRows_def (tgt : Nat → Nat) (ranks : List (List (GRow K))) (p : Nat) (o : List Nat) :
    recvRows tgt ranks p o = sortLe leId (o.flatMap fun r => msgRows tgt (ranks.getD r []) p) := rfl

theorem leId_anti_of_nodup {l : List (GRow K)} (hn : (l.map (·.1)).Nodup) :
    ∀ a b, a ∈ l → b ∈ l → leId a b = true → leId b a = true → a = b := by
  intro a b ha hb h1 h2
  simp only [leId, decide_eq_true_eq] at h1 h2
  exact List.inj_on_of_nodup_map hn ha hb (Nat.le_antisymm h1 h2)

/-- the received rows do not depend on the arrival order: they are the sorted rows with target `p` -/
theorem recvRows_spec {tgt : Nat → Nat} {ranks : List (List (GRow K))} {n p : Nat} {o : List Nat}
    (h : WFInput ranks n) (ho : o.Perm (senders tgt ranks p)) :
    recvRows tgt ranks p o = sortLe leId (rowsTo tgt ranks p) := by
  rw [recvRows_def]
  have hp := received_rows_perm ho
  apply sortLe_eq_of_perm leId leId_total leId_trans hp
  apply leId_anti_of_nodup
  exact ((hp.map _).nodup_iff).mpr (rowsTo_ids_nodup h p)

theorem recvRows_perm {tgt : Nat → Nat} {ranks : List (List (GRow K))} {n p : Nat} {o : List Nat}
    (h : WFInput ranks n) (ho : o.Perm (senders tgt ranks p)) :
    (recvRows tgt ranks p o).Perm (rowsTo tgt ranks p) := by
  rw [recvRows_spec h ho]; exact sortLe_perm _ _

/-- rank `p` holds exactly the rows with target `p`, increasing -/
theorem recvRows_ids {tgt : Nat → Nat} {ranks : List (List (GRow K))} {n p : Nat} {o : List Nat}
    (h : WFInput ranks n) (ho : o.Perm (senders tgt ranks p)) :
    (recvRows tgt ranks p o).map (·.1) = idsTo tgt n p := by
  have hp : ((recvRows tgt ranks p o).map (·.1)).Perm (idsTo tgt n p) :=
    ((recvRows_perm h ho).map _).trans (rowsTo_ids_perm h p)
  apply sorted_by_key_unique id hp
  · rw [List.map_id]; exact hp.nodup_iff.mpr (idsTo_nodup tgt n p)
  · rw [List.pairwise_map, recvRows_spec h ho]
    refine (sortLe_sorted leId leId_total leId_trans _).imp ?_
    intro a b hab
    simpa [leId] using hab
  · exact (idsTo_sorted tgt n p).imp (fun hab => Nat.le_of_lt hab)

end Hyp

/-! ## foreign columns -/
section Cols
variable {K : Type}

theorem mem_of_mem_dedupCols {l : List (Nat × Nat)} {x : Nat × Nat} (h : x ∈ dedupCols l) : x ∈ l := by
  induction l with
  | nil => simp [dedupCols] at h
  | cons a t ih =>
    simp only [dedupCols, List.mem_cons] at h
    rcases h with rfl | h
    · exact List.mem_cons_self
    · exact List.mem_cons_of_mem _ (ih (List.mem_filter.mp h).1)

theorem dedupCols_fst_nodup (l : List (Nat × Nat)) : ((dedupCols l).map (·.1)).Nodup := by
  induction l with
  | nil => simp [dedupCols]
  | cons a t ih =>
    simp only [dedupCols, List.map_cons, List.nodup_cons]
    refine ⟨?_, ih.sublist (List.filter_sublist.map _)⟩
    intro hm
    obtain ⟨x, hx, hxa⟩ := List.mem_map.mp hm
    have := (List.mem_filter.mp hx).2
    simp [hxa] at this

theorem dedupCols_nodup (l : List (Nat × Nat)) : (dedupCols l).Nodup :=
  List.Nodup.of_map _ (dedupCols_fst_nodup l)

/-- when a column determines its pair, deduplication loses no pair -/
theorem mem_dedupCols_of_functional {l : List (Nat × Nat)}
    (hf : ∀ a ∈ l, ∀ b ∈ l, a.1 = b.1 → a = b) {x : Nat × Nat} (hx : x ∈ l) : x ∈ dedupCols l := by
  induction l with
  | nil => simp at hx
  | cons a t ih =>
    simp only [dedupCols, List.mem_cons]
    by_cases hxa : x.1 = a.1
    · exact Or.inl (hf x hx a List.mem_cons_self hxa)
    · right
      rcases List.mem_cons.mp hx with rfl | hxt
      · exact absurd rfl hxa
      · refine List.mem_filter.mpr ⟨ih (fun a ha b hb => hf a (List.mem_cons_of_mem _ ha) b
          (List.mem_cons_of_mem _ hb)) hxt, ?_⟩
        simpa using hxa

theorem dedupCols_perm {l₁ l₂ : List (Nat × Nat)} (hp : l₁.Perm l₂)
    (hf : ∀ a ∈ l₁, ∀ b ∈ l₁, a.1 = b.1 → a = b) : (dedupCols l₁).Perm (dedupCols l₂) := by
  rw [List.perm_ext_iff_of_nodup (dedupCols_nodup l₁) (dedupCols_nodup l₂)]
  have hf₂ : ∀ a ∈ l₂, ∀ b ∈ l₂, a.1 = b.1 → a = b :=
    fun a ha b hb => hf a (hp.mem_iff.mpr ha) b (hp.mem_iff.mpr hb)
  intro x
  constructor
  · intro hx
    exact mem_dedupCols_of_functional hf₂ (hp.mem_iff.mp (mem_of_mem_dedupCols hx))
  · intro hx
    exact mem_dedupCols_of_functional hf (hp.mem_iff.mpr (mem_of_mem_dedupCols hx))

/-- the `(column, target)` pairs of all rows with target `p` whose own row goes elsewhere -/
def colsTo (tgt : Nat → Nat) (ranks : List (List (GRow K))) (p : Nat) : List (Nat × Nat) :=
  ((rowsTo tgt ranks p).flatMap fun r => r.2.map (·.1)).filterMap fun c =>
    if tgt c != p then some (c, tgt c) else none

theorem mem_colsTo {tgt : Nat → Nat} {ranks : List (List (GRow K))} {p : Nat} {x : Nat × Nat} :
    x ∈ colsTo tgt ranks p ↔
      (∃ r ∈ rowsTo tgt ranks p, ∃ e ∈ r.2, e.1 = x.1) ∧ x.2 = tgt x.1 ∧ tgt x.1 ≠ p := by
  unfold colsTo
  simp only [List.mem_filterMap, List.mem_flatMap, List.mem_map]
  constructor
  · rintro ⟨c, ⟨r, hr, e, he, rfl⟩, hc⟩
    split at hc
    · rename_i hne
      cases hc
      exact ⟨⟨r, hr, e, he, rfl⟩, rfl, by simpa using hne⟩
    · cases hc
  · rintro ⟨⟨r, hr, e, he, hex⟩, h2, h3⟩
    refine ⟨x.1, ⟨r, hr, e, he, hex⟩, ?_⟩
    have : (tgt x.1 != p) = true := by simpa using h3
    rw [if_pos this, ← h2]

theorem colsTo_functional (tgt : Nat → Nat) (ranks : List (List (GRow K))) (p : Nat) :
    ∀ a ∈ colsTo tgt ranks p, ∀ b ∈ colsTo tgt ranks p, a.1 = b.1 → a = b := by
  intro a ha b hb hab
  have h1 := (mem_colsTo.mp ha).2.1
  have h2 := (mem_colsTo.mp hb).2.1
  apply Prod.ext hab
  rw [h1, h2, hab]

theorem received_cols_perm {tgt : Nat → Nat} {ranks : List (List (GRow K))} {p : Nat} {o : List Nat}
    (ho : o.Perm (senders tgt ranks p)) :
    (o.flatMap fun r => msgCols tgt (ranks.getD r []) p).Perm (colsTo tgt ranks p) := by
  have e : (o.flatMap fun r => msgCols tgt (ranks.getD r []) p) =
      (((o.flatMap fun r => msgRows tgt (ranks.getD r []) p).flatMap fun r => r.2.map (·.1)).filterMap
        fun c => if tgt c != p then some (c, tgt c) else none) := by
    simp only [msgCols, List.filterMap_flatMap, List.flatMap_assoc]
  rw [e]
  exact ((received_rows_perm ho).flatMap_right _).filterMap _

theorem recvCols_def (tgt : Nat → Nat) (ranks : List (List (GRow K))) (p : Nat) (o : List Nat) :
    recvCols tgt ranks p o =
      sortLe leCol (dedupCols (o.flatMap fun r => msgCols tgt (ranks.getD r []) p)) := rfl

/-- the foreign column list does not depend on the arrival order -/
theorem recvCols_spec {tgt : Nat → Nat} {ranks : List (List (GRow K))} {p : Nat} {o : List Nat}
    (ho : o.Perm (senders tgt ranks p)) :
    recvCols tgt ranks p o = sortLe leCol (dedupCols (colsTo tgt ranks p)) := by
  rw [recvCols_def]
  have hp := received_cols_perm ho
  have hf : ∀ a ∈ (o.flatMap fun r => msgCols tgt (ranks.getD r []) p),
      ∀ b ∈ (o.flatMap fun r => msgCols tgt (ranks.getD r []) p), a.1 = b.1 → a = b :=
    fun a ha b hb => colsTo_functional tgt ranks p a (hp.mem_iff.mp ha) b (hp.mem_iff.mp hb)
  apply sortLe_eq_of_perm leCol leCol_total leCol_trans (dedupCols_perm hp hf)
  intro a b _ _
  exact leCol_antisymm a b

theorem mem_recvCols {tgt : Nat → Nat} {ranks : List (List (GRow K))} {p : Nat} {o : List Nat}
    (ho : o.Perm (senders tgt ranks p)) {x : Nat × Nat} :
    x ∈ recvCols tgt ranks p o ↔ x ∈ colsTo tgt ranks p := by
  rw [recvCols_spec ho, mem_sortLe]
  exact ⟨mem_of_mem_dedupCols, mem_dedupCols_of_functional (colsTo_functional tgt ranks p)⟩

theorem recvCols_fst_nodup (tgt : Nat → Nat) (ranks : List (List (GRow K))) (p : Nat) (o : List Nat) :
    ((recvCols tgt ranks p o).map (·.1)).Nodup := by
  rw [recvCols_def]
  exact (((sortLe_perm leCol _).map _).nodup_iff).mpr (dedupCols_fst_nodup _)

theorem recvCols_sorted (tgt : Nat → Nat) (ranks : List (List (GRow K))) (p : Nat) (o : List Nat) :
    (recvCols tgt ranks p o).Pairwise (fun a b => leCol a b = true) := by
  rw [recvCols_def]
  exact sortLe_sorted leCol leCol_total leCol_trans _

end Cols

/-! ## independence of the arrival order -/
section Indep
variable {K : Type}

theorem heldIds_congr {tgt : Nat → Nat} {ranks : List (List (GRow K))} {orders₁ orders₂ : Nat → List Nat}
    (hr : ∀ q, q < ranks.length →
      recvRows tgt ranks q (orders₁ q) = recvRows tgt ranks q (orders₂ q)) :
    heldIds tgt ranks orders₁ = heldIds tgt ranks orders₂ := by
  unfold heldIds
  apply List.map_congr_left
  intro q hq
  rw [hr q (List.mem_range.mp hq)]

theorem repartRank_congr {tgt : Nat → Nat} {ranks : List (List (GRow K))} {orders₁ orders₂ : Nat → List Nat}
    {p : Nat} (hh : heldIds tgt ranks orders₁ = heldIds tgt ranks orders₂)
    (hr : recvRows tgt ranks p (orders₁ p) = recvRows tgt ranks p (orders₂ p))
    (hc : recvCols tgt ranks p (orders₁ p) = recvCols tgt ranks p (orders₂ p)) :
    repartRank tgt ranks orders₁ p = repartRank tgt ranks orders₂ p := by
  unfold repartRank
  rw [hh, hr, hc]

end Indep

/-! ## `posOf` : interface -/
section PosOf

theorem findIdx?_beq_of_mem {l : List Nat} {x : Nat} (h : x ∈ l) :
    l.findIdx? (· == x) = some (l.idxOf x) := by
  induction l with
  | nil => simp at h
  | cons a t ih =>
    rw [List.findIdx?_cons, List.idxOf_cons]
    by_cases hax : a = x
    · subst hax; simp
    · have hx : x ∈ t := by
        rcases List.mem_cons.mp h with rfl | h'
        · exact absurd rfl hax
        · exact h'
      have hb : (a == x) = false := by simpa using hax
      simp [hb, ih hx]

theorem posOf_eq_idxOf {l : List Nat} {x : Nat} (h : x ∈ l) : posOf l x = l.idxOf x := by
  unfold posOf; rw [findIdx?_beq_of_mem h]; rfl

theorem posOf_lt {l : List Nat} {x : Nat} (h : x ∈ l) : posOf l x < l.length := by
  rw [posOf_eq_idxOf h]; exact List.idxOf_lt_length_iff.mpr h

theorem getElem?_posOf {l : List Nat} {x : Nat} (h : x ∈ l) : l[posOf l x]? = some x := by
  rw [List.getElem?_eq_getElem (posOf_lt h)]
  simp only [posOf_eq_idxOf h, List.getElem_idxOf]

theorem getD_posOf {l : List Nat} {x : Nat} (h : x ∈ l) (d : Nat) : l.getD (posOf l x) d = x := by
  rw [List.getD_eq_getElem?_getD, getElem?_posOf h]; rfl

theorem posOf_getElem {l : List Nat} (hn : l.Nodup) {i : Nat} (hi : i < l.length) :
    posOf l l[i] = i := by
  rw [posOf_eq_idxOf (List.getElem_mem hi)]
  exact hn.idxOf_getElem i hi

theorem posOf_inj {l : List Nat} {x y : Nat} (hx : x ∈ l) (hy : y ∈ l) (h : posOf l x = posOf l y) :
    x = y := by
  have h1 := getElem?_posOf hx
  have h2 := getElem?_posOf hy
  rw [h] at h1
  rw [h1] at h2
  exact Option.some.inj h2

theorem posOf_append_left {A B : List Nat} {x : Nat} (h : x ∈ A) : posOf (A ++ B) x = posOf A x := by
  rw [posOf_eq_idxOf h, posOf_eq_idxOf (List.mem_append_left _ h), List.idxOf_append_of_mem h]

theorem posOf_append_right {A B : List Nat} {x : Nat} (h : x ∉ A) (hB : x ∈ B) :
    posOf (A ++ B) x = A.length + posOf B x := by
  rw [posOf_eq_idxOf hB, posOf_eq_idxOf (List.mem_append_right _ hB), List.idxOf_append_of_notMem h]

/-- position in a strictly increasing list is strictly monotone on its members -/
theorem posOf_lt_posOf {l : List Nat} (hs : l.Pairwise (· < ·)) {x y : Nat} (hx : x ∈ l) (hy : y ∈ l)
    (hxy : x < y) : posOf l x < posOf l y := by
  rcases Nat.lt_or_ge (posOf l x) (posOf l y) with h | h
  · exact h
  · exfalso
    have hi := posOf_lt hx
    have hj := posOf_lt hy
    have ex : l[posOf l x] = x := by
      have := getElem?_posOf hx
      rw [List.getElem?_eq_getElem hi] at this
      exact Option.some.inj this
    have ey : l[posOf l y] = y := by
      have := getElem?_posOf hy
      rw [List.getElem?_eq_getElem hj] at this
      exact Option.some.inj this
    rcases Nat.lt_or_eq_of_le h with h' | h'
    · have := List.pairwise_iff_getElem.mp hs _ _ hj hi h'
      rw [ex, ey] at this
      omega
    · have : x = y := posOf_inj hx hy h'.symm
      omega

theorem mem_flatten_of_mem_getD {L : List (List Nat)} {q x : Nat} (h : x ∈ L.getD q []) :
    x ∈ L.flatten := by
  rw [List.getD_eq_getElem?_getD] at h
  cases hq : L[q]? with
  | none => rw [hq] at h; simp at h
  | some A =>
    rw [hq] at h
    exact List.mem_flatten.mpr ⟨A, List.mem_of_getElem? hq, h⟩

/-- position in a concatenation of disjoint blocks: offset of the block plus position inside it -/
theorem posOf_flatten {L : List (List Nat)} (hn : L.flatten.Nodup) {q x : Nat} (h : x ∈ L.getD q []) :
    posOf L.flatten x = ((L.take q).map List.length).sum + posOf (L.getD q []) x := by
  induction L generalizing q with
  | nil => simp at h
  | cons A T ih =>
    rw [List.flatten_cons] at hn ⊢
    cases q with
    | zero =>
      rw [List.getD_cons_zero] at h ⊢
      rw [posOf_append_left h]
      simp
    | succ q =>
      rw [List.getD_cons_succ] at h ⊢
      have hT := mem_flatten_of_mem_getD h
      have hd := List.nodup_append.mp hn
      have hA : x ∉ A := fun hxA => hd.2.2 x hxA x hT rfl
      rw [posOf_append_right hA hT, ih hd.2.1 h, List.take_succ_cons, List.map_cons, List.sum_cons]
      omega

end PosOf

/-! ## who holds what, the reported permutation and the numbering -/
section Numbering
variable {K : Type}

theorem heldIds_eq {tgt : Nat → Nat} {ranks : List (List (GRow K))} {n : Nat} {orders : Nat → List Nat}
    (h : WFInput ranks n) (ho : ValidOrders tgt ranks orders) :
    heldIds tgt ranks orders = (List.range ranks.length).map (idsTo tgt n) := by
  unfold heldIds
  apply List.map_congr_left
  intro p hp
  exact recvRows_ids h (ho p (List.mem_range.mp hp))

theorem heldIds_getD {tgt : Nat → Nat} {ranks : List (List (GRow K))} {n : Nat} {orders : Nat → List Nat}
    (h : WFInput ranks n) (ho : ValidOrders tgt ranks orders) {q : Nat} (hq : q < ranks.length) :
    (heldIds tgt ranks orders).getD q [] = idsTo tgt n q := by
  rw [heldIds_eq h ho, List.getD_eq_getElem?_getD, List.getElem?_map, List.getElem?_range hq]
  rfl

theorem heldIds_length (tgt : Nat → Nat) (ranks : List (List (GRow K))) (orders : Nat → List Nat) :
    (heldIds tgt ranks orders).length = ranks.length := by
  simp [heldIds]

theorem reported_eq (tgt : Nat → Nat) (ranks : List (List (GRow K))) (orders : Nat → List Nat) :
    reported (repartition tgt ranks orders) = (heldIds tgt ranks orders).flatten := by
  unfold reported repartition heldIds
  rw [List.flatMap_map, List.flatMap_def]
  rfl

theorem idsTo_flatMap_perm {tgt : Nat → Nat} {np n : Nat} (ht : TgtOk tgt np n) :
    ((List.range np).flatMap (idsTo tgt n)).Perm (List.range n) :=
  flatMap_range_filter_perm_self (List.range n) tgt np (fun g hg => ht g (List.mem_range.mp hg))

/-- the rows named to the caller form one permutation of the global ids -/
theorem reported_perm_range {tgt : Nat → Nat} {ranks : List (List (GRow K))} {n : Nat}
    {orders : Nat → List Nat} (h : WFInput ranks n) (ht : TgtOk tgt ranks.length n)
    (ho : ValidOrders tgt ranks orders) :
    (reported (repartition tgt ranks orders)).Perm (List.range n) := by
  rw [reported_eq, heldIds_eq h ho, ← List.flatMap_def]
  exact idsTo_flatMap_perm ht

theorem firstOf_succ (held : List (List Nat)) (q : Nat) :
    firstOf held (q + 1) = firstOf held q + (held.getD q []).length := by
  unfold firstOf
  rw [List.take_add_one, List.map_append, List.sum_append, List.getD_eq_getElem?_getD]
  cases held[q]? <;> simp

theorem firstOf_mono (held : List (List Nat)) {a b : Nat} (hab : a ≤ b) : firstOf held a ≤ firstOf held b := by
  induction b with
  | zero => have : a = 0 := by omega
            subst this; exact Nat.le_refl _
  | succ b ih =>
    rcases Nat.lt_or_ge a (b + 1) with h | h
    · have := ih (by omega)
      rw [firstOf_succ]; omega
    · have : a = b + 1 := by omega
      subst this; exact Nat.le_refl _

/-- the id `make_contiguous` fetches from the owner is the position in the reported permutation -/
theorem newOf_eq_newIdAt {tgt : Nat → Nat} {ranks : List (List (GRow K))} {n : Nat}
    {orders : Nat → List Nat} (h : WFInput ranks n) (ht : TgtOk tgt ranks.length n)
    (ho : ValidOrders tgt ranks orders) {g : Nat} (hg : g < n) :
    newOf (reported (repartition tgt ranks orders)) g = newIdAt (heldIds tgt ranks orders) (tgt g) g := by
  unfold newOf newIdAt firstOf
  rw [reported_eq]
  apply posOf_flatten
  · rw [← reported_eq]
    exact (reported_perm_range h ht ho).nodup_iff.mpr List.nodup_range
  · rw [heldIds_getD h ho (ht g hg)]
    exact mem_idsTo.mpr ⟨hg, rfl⟩

end Numbering

/-! ## the entries of the result -/
section Entries
variable {K : Type}

theorem zipIdx_map_zipIdx {α β : Type} (l : List α) (F : α → Nat → β) :
    (l.zipIdx.map fun (x, i) => F x i).zipIdx = l.zipIdx.map fun (x, i) => (F x i, i) := by
  apply List.ext_getElem?
  intro j
  simp only [List.getElem?_zipIdx, List.getElem?_map]
  cases l[j]? <;> simp

theorem flatMap_zipIdx_map_zipIdx {α β γ : Type} (l : List α) (F : α → Nat → β) (G : β → Nat → List γ) :
    ((l.zipIdx.map fun (x, i) => F x i).zipIdx.flatMap fun (y, i) => G y i) =
      l.zipIdx.flatMap fun (x, i) => G (F x i) i := by
  rw [zipIdx_map_zipIdx, List.flatMap_map]

theorem flatMap_zipIdx_map {α β γ : Type} (l : List α) (f : α → β) (G : β → Nat → List γ) :
    ((l.map f).zipIdx.flatMap fun (y, i) => G y i) = l.zipIdx.flatMap fun (x, i) => G (f x) i := by
  rw [List.zipIdx_map, List.flatMap_map]
  apply List.flatMap_congr
  rintro ⟨x, i⟩ _
  rfl

theorem flatMap_zipIdx_const {α γ : Type} (l : List α) (φ : α → List γ) :
    (l.zipIdx.flatMap fun (x, _) => φ x) = l.flatMap φ := by
  conv => rhs; rw [← List.zipIdx_map_fst (l := l) (i := 0), List.flatMap_map]

theorem split_filterMap_perm {α β γ δ : Type} (l : List α) (c : α → Bool) (f : α → β) (f' : α → γ)
    (gA : β → δ) (gB : γ → δ) (h : α → δ)
    (hA : ∀ e ∈ l, c e = true → gA (f e) = h e) (hB : ∀ e ∈ l, c e = false → gB (f' e) = h e) :
    ((l.filterMap fun e => if c e then some (f e) else none).map gA ++
      (l.filterMap fun e => if c e then none else some (f' e)).map gB).Perm (l.map h) := by
  induction l with
  | nil => exact List.Perm.refl _
  | cons a t ih =>
    have ih' := ih (fun e he => hA e (List.mem_cons_of_mem _ he)) (fun e he => hB e (List.mem_cons_of_mem _ he))
    cases hc : c a
    · have := hB a List.mem_cons_self hc
      simp only [List.filterMap_cons, hc, Bool.false_eq_true, if_false, List.map_cons, this]
      exact List.perm_middle.trans (ih'.cons _)
    · have := hA a List.mem_cons_self hc
      simp only [List.filterMap_cons, hc, if_true, List.map_cons, this, List.cons_append]
      exact ih'.cons _

/-- the on/off split of one received row into local numbering -/
def splitRow (ids colIds : List Nat) (r : GRow K) : List (Nat × K) × List (Nat × K) :=
  (r.2.filterMap fun e => if ids.contains e.1 then some (posOf ids e.1, e.2) else none,
   r.2.filterMap fun e => if ids.contains e.1 then none else some (posOf colIds e.1, e.2))

theorem repartRank_eq (tgt : Nat → Nat) (ranks : List (List (GRow K))) (orders : Nat → List Nat) (p : Nat) :
    repartRank tgt ranks orders p =
      let held := heldIds tgt ranks orders
      let rows := recvRows tgt ranks p (orders p)
      let ids := rows.map (·.1)
      let cols := recvCols tgt ranks p (orders p)
      { first := firstOf held p
        oldIds := ids
        on := ((rows.map (splitRow ids (cols.map (·.1)))).map (·.1)).zipIdx.map fun (row, i) =>
          moveFront i (sortBy (·.1) row)
        off := (rows.map (splitRow ids (cols.map (·.1)))).map fun s => sortBy (·.1) s.2
        offOld := cols
        offNew := cols.map fun c => newIdAt held c.2 c.1 } := rfl

theorem rank_entries_perm_aux (ν : Nat → Nat) (first : Nat) (rows : List (GRow K))
    (ids colIds offNew : List Nat)
    (hrow : ∀ i (hi : i < rows.length), first + i = ν rows[i].1)
    (hon : ∀ r ∈ rows, ∀ e ∈ r.2, ids.contains e.1 = true → first + posOf ids e.1 = ν e.1)
    (hoff : ∀ r ∈ rows, ∀ e ∈ r.2, ids.contains e.1 = false →
      offNew.getD (posOf colIds e.1) 0 = ν e.1)
    (sp : List (List (Nat × K) × List (Nat × K))) (hsp : sp = rows.map (splitRow ids colIds)) :
    List.Perm (α := Entry K)
      ((((sp.map Prod.fst).zipIdx.map fun ((row, i) : List (Nat × K) × Nat) =>
          moveFront i (sortBy (·.1) row)).zipIdx.flatMap fun ((row, i) : List (Nat × K) × Nat) =>
            row.map fun e => (first + i, first + e.1, e.2)) ++
      ((sp.map fun s => sortBy (·.1) s.2).zipIdx.flatMap fun ((row, i) : List (Nat × K) × Nat) =>
            row.map fun e => (first + i, offNew.getD e.1 0, e.2)))
      (rows.flatMap fun r => r.2.map fun e => (ν r.1, ν e.1, e.2)) := by
  subst hsp
  rw [List.map_map, List.map_map]
  rw [flatMap_zipIdx_map_zipIdx _
    (fun (row : List (Nat × K)) i => moveFront i (sortBy (·.1) row))
    (fun (row : List (Nat × K)) i => row.map fun e => (first + i, first + e.1, e.2))]
  rw [flatMap_zipIdx_map rows _
    (fun (row : List (Nat × K)) i => (moveFront i (sortBy (·.1) row)).map fun e => (first + i, first + e.1, e.2))]
  rw [flatMap_zipIdx_map rows _
    (fun (row : List (Nat × K)) i => row.map fun e => (first + i, offNew.getD e.1 0, e.2))]
  refine (List.flatMap_append_perm _ _ _).trans ?_
  rw [← flatMap_zipIdx_const rows (fun r => r.2.map fun e => (ν r.1, ν e.1, e.2))]
  apply List.Perm.flatMap_left
  rintro ⟨r, i⟩ hri
  obtain ⟨_, hi, hr⟩ := List.mem_zipIdx hri
  simp only [Nat.zero_add, Nat.sub_zero] at hi hr
  have hrm : r ∈ rows := hr ▸ List.getElem_mem hi
  have h1 : first + i = ν r.1 := by rw [hr]; exact hrow i hi
  simp only [Function.comp_apply]
  have pA : ((moveFront i (sortBy (·.1) (splitRow ids colIds r).1)).map fun e => (first + i, first + e.1, e.2)).Perm
      ((splitRow ids colIds r).1.map fun e => (first + i, first + e.1, e.2)) :=
    ((moveFront_perm i _).trans (sortBy_perm _ _)).map _
  have pB : ((sortBy (·.1) (splitRow ids colIds r).2).map fun e => (first + i, offNew.getD e.1 0, e.2)).Perm
      ((splitRow ids colIds r).2.map fun e => (first + i, offNew.getD e.1 0, e.2)) :=
    (sortBy_perm _ _).map _
  refine (pA.append pB).trans ?_
  unfold splitRow
  apply split_filterMap_perm r.2 (fun e => ids.contains e.1)
  · intro e he hc
    simp only [h1, hon r hrm e he hc]
  · intro e he hc
    simp only [h1, hoff r hrm e he hc]

theorem getD_map_posOf_cols {tgt : Nat → Nat} {cols : List (Nat × Nat)} (F : Nat × Nat → Nat)
    (hmem : ∀ x ∈ cols, x.2 = tgt x.1) {c : Nat} (hc : (c, tgt c) ∈ cols) :
    (cols.map F).getD (posOf (cols.map (·.1)) c) 0 = F (c, tgt c) := by
  have hcm : c ∈ cols.map (·.1) := List.mem_map.mpr ⟨(c, tgt c), hc, rfl⟩
  have hk := getElem?_posOf hcm
  rw [List.getElem?_map] at hk
  cases hx : cols[posOf (cols.map (·.1)) c]? with
  | none => rw [hx] at hk; simp at hk
  | some x =>
    rw [hx] at hk
    have hx1 : x.1 = c := by simpa using hk
    have hx2 : x.2 = tgt x.1 := hmem x (List.mem_of_getElem? hx)
    have : x = (c, tgt c) := Prod.ext hx1 (by rw [hx2, hx1])
    rw [List.getD_eq_getElem?_getD, List.getElem?_map, hx, this]
    rfl

/-- the specification of a rank's entries: its rows renumbered by `ν` -/
def renumRows (ν : Nat → Nat) (rows : List (GRow K)) : List (Entry K) :=
  rows.flatMap fun r => r.2.map fun e => (ν r.1, ν e.1, e.2)

theorem mem_rowsTo_flatten {tgt : Nat → Nat} {ranks : List (List (GRow K))} {p : Nat} {r : GRow K}
    (h : r ∈ rowsTo tgt ranks p) : r ∈ ranks.flatten := (List.mem_filter.mp h).1

/-- one rank of the result holds its received rows renumbered by the reported permutation -/
theorem repartRank_entries_perm {tgt : Nat → Nat} {ranks : List (List (GRow K))} {n : Nat}
    {orders : Nat → List Nat} (h : WFInput ranks n) (ht : TgtOk tgt ranks.length n)
    (ho : ValidOrders tgt ranks orders) {p : Nat} (hp : p < ranks.length) :
    (repartRank tgt ranks orders p).entries.Perm
      (renumRows (newOf (reported (repartition tgt ranks orders)))
        (recvRows tgt ranks p (orders p))) := by
  have hids := recvRows_ids h (ho p hp)
  have hheld := heldIds_getD h ho hp
  have hrp := recvRows_perm h (ho p hp)
  rw [repartRank_eq]
  unfold NewRank.entries renumRows
  apply rank_entries_perm_aux _ _ _ ((recvRows tgt ranks p (orders p)).map (·.1))
    ((recvCols tgt ranks p (orders p)).map (·.1)) _ _ _ _ _ rfl
  · -- row ids
    intro i hi
    have hi' : i < ((recvRows tgt ranks p (orders p)).map (·.1)).length := by simpa using hi
    have hg : ((recvRows tgt ranks p (orders p)).map (·.1))[i] ∈ idsTo tgt n p := by
      rw [← hids]; exact List.getElem_mem hi'
    have hg' := mem_idsTo.mp hg
    rw [List.getElem_map] at hg'
    rw [newOf_eq_newIdAt h ht ho hg'.1, hg'.2]
    unfold newIdAt
    rw [hheld, ← hids]
    have := posOf_getElem (hids ▸ idsTo_nodup tgt n p) hi'
    rw [List.getElem_map] at this
    rw [this]
  · -- on-process columns
    intro r _ e _ hc
    have hm : e.1 ∈ idsTo tgt n p := by
      rw [← hids]; simpa using hc
    have hm' := mem_idsTo.mp hm
    rw [newOf_eq_newIdAt h ht ho hm'.1, hm'.2]
    unfold newIdAt
    rw [hheld, ← hids]
  · -- halo columns
    intro r hr e he hc
    have hrt : r ∈ rowsTo tgt ranks p := hrp.mem_iff.mp hr
    have hlt : e.1 < n := h.col_lt (mem_rowsTo_flatten hrt) he
    have hne : tgt e.1 ≠ p := by
      intro heq
      have : e.1 ∈ (recvRows tgt ranks p (orders p)).map (·.1) := by
        rw [hids]; exact mem_idsTo.mpr ⟨hlt, heq⟩
      have hc' : ¬ (e.1 ∈ (recvRows tgt ranks p (orders p)).map (·.1)) := by
        intro hmem
        have : ((recvRows tgt ranks p (orders p)).map (·.1)).contains e.1 = true := by simpa using hmem
        rw [this] at hc; cases hc
      exact hc' this
    have hcol : (e.1, tgt e.1) ∈ recvCols tgt ranks p (orders p) :=
      (mem_recvCols (ho p hp)).mpr (mem_colsTo.mpr ⟨⟨r, hrt, e, he, rfl⟩, rfl, hne⟩)
    have hmem : ∀ x ∈ recvCols tgt ranks p (orders p), x.2 = tgt x.1 :=
      fun x hx => (mem_colsTo.mp ((mem_recvCols (ho p hp)).mp hx)).2.1
    rw [getD_map_posOf_cols (tgt := tgt) _ hmem hcol, newOf_eq_newIdAt h ht ho hlt]

theorem outputEntries_repartition (tgt : Nat → Nat) (ranks : List (List (GRow K))) (orders : Nat → List Nat) :
    outputEntries (repartition tgt ranks orders) =
      (List.range ranks.length).flatMap fun p => (repartRank tgt ranks orders p).entries := by
  unfold outputEntries repartition
  rw [List.flatMap_map]

theorem inputEntries_eq (ranks : List (List (GRow K))) :
    inputEntries ranks = ranks.flatten.flatMap fun r => r.2.map fun e => (r.1, e.1, e.2) := by
  unfold inputEntries
  rw [List.flatten_eq_flatMap, List.flatMap_assoc]
  rfl

theorem renumRows_eq_map (ν : Nat → Nat) (rows : List (GRow K)) :
    renumRows ν rows =
      (rows.flatMap fun r => r.2.map fun e => (r.1, e.1, e.2)).map fun e => (ν e.1, ν e.2.1, e.2.2) := by
  unfold renumRows
  rw [List.map_flatMap]
  apply List.flatMap_congr
  intro r _
  rw [List.map_map]
  rfl

theorem rowsTo_flatMap_perm {tgt : Nat → Nat} {ranks : List (List (GRow K))} {n : Nat}
    (h : WFInput ranks n) (ht : TgtOk tgt ranks.length n) :
    ((List.range ranks.length).flatMap (rowsTo tgt ranks)).Perm ranks.flatten :=
  flatMap_range_filter_perm_self ranks.flatten (fun r => tgt r.1) ranks.length
    (fun r hr => ht r.1 (h.row_lt hr))

/-- **main theorem**: the new matrix is the old one renumbered by the one reported permutation -/
theorem repartition_entries_perm {tgt : Nat → Nat} {ranks : List (List (GRow K))} {n : Nat}
    {orders : Nat → List Nat} (h : WFInput ranks n) (ht : TgtOk tgt ranks.length n)
    (ho : ValidOrders tgt ranks orders) :
    (outputEntries (repartition tgt ranks orders)).Perm
      ((inputEntries ranks).map fun e =>
        (newOf (reported (repartition tgt ranks orders)) e.1,
         newOf (reported (repartition tgt ranks orders)) e.2.1, e.2.2)) := by
  rw [outputEntries_repartition, inputEntries_eq, ← renumRows_eq_map]
  have step1 : ((List.range ranks.length).flatMap fun p => (repartRank tgt ranks orders p).entries).Perm
      ((List.range ranks.length).flatMap fun p =>
        renumRows (newOf (reported (repartition tgt ranks orders))) (rowsTo tgt ranks p)) := by
    apply List.Perm.flatMap_left
    intro p hp
    have hp' := List.mem_range.mp hp
    refine (repartRank_entries_perm h ht ho hp').trans ?_
    exact (recvRows_perm h (ho p hp')).flatMap_right _
  refine step1.trans ?_
  unfold renumRows
  rw [← List.flatMap_assoc]
  exact (rowsTo_flatMap_perm h ht).flatMap_right _

end Entries

/-! ## dense image and action under a renumbering -/
section Dense
open Raptor.Spmv
variable {K : Type}

theorem denE_map_renum [AddCommMonoid K] (ν : Nat → Nat) (es : List (Entry K)) (n : Nat)
    (hinj : ∀ a b, a < n → b < n → ν a = ν b → a = b)
    (hb : ∀ e ∈ es, e.1 < n ∧ e.2.1 < n) {i j : Nat} (hi : i < n) (hj : j < n) :
    denE (es.map fun e => (ν e.1, ν e.2.1, e.2.2)) (ν i) (ν j) = denE es i j := by
  unfold denE
  rw [List.filter_map, List.map_map]
  have hf : es.filter ((fun e : Entry K => e.1 == ν i && e.2.1 == ν j) ∘
      fun e : Entry K => (ν e.1, ν e.2.1, e.2.2)) = es.filter (fun e => e.1 == i && e.2.1 == j) := by
    apply List.filter_congr
    intro e he
    obtain ⟨h1, h2⟩ := hb e he
    simp only [Function.comp_apply]
    rw [Bool.eq_iff_iff]
    simp only [Bool.and_eq_true, beq_iff_eq]
    constructor
    · rintro ⟨a, b⟩; exact ⟨hinj _ _ h1 hi a, hinj _ _ h2 hj b⟩
    · rintro ⟨rfl, rfl⟩; exact ⟨rfl, rfl⟩
  rw [hf]; rfl

theorem actE_perm [CommSemiring K] {l₁ l₂ : List (Entry K)} (h : l₁.Perm l₂) (x : List K) (i : Nat) :
    actE l₁ x i = actE l₂ x i :=
  ((h.filter _).map _).sum_eq

theorem actE_map_renum [CommSemiring K] (ν : Nat → Nat) (es : List (Entry K)) (n : Nat) (x Px : List K)
    (hinj : ∀ a b, a < n → b < n → ν a = ν b → a = b)
    (hb : ∀ e ∈ es, e.1 < n ∧ e.2.1 < n)
    (hx : ∀ c, c < n → at' Px (ν c) = at' x c) {i : Nat} (hi : i < n) :
    actE (es.map fun e => (ν e.1, ν e.2.1, e.2.2)) Px (ν i) = actE es x i := by
  unfold actE
  rw [List.filter_map, List.map_map]
  have hf : es.filter ((fun e : Entry K => e.1 == ν i) ∘
      fun e : Entry K => (ν e.1, ν e.2.1, e.2.2)) = es.filter (fun e => e.1 == i) := by
    apply List.filter_congr
    intro e he
    obtain ⟨h1, _⟩ := hb e he
    simp only [Function.comp_apply]
    rw [Bool.eq_iff_iff]
    simp only [beq_iff_eq]
    constructor
    · intro a; exact hinj _ _ h1 hi a
    · rintro rfl; rfl
  rw [hf]
  congr 1
  apply List.map_congr_left
  intro e he
  have := hb e (List.mem_filter.mp he).1
  simp only [Function.comp_apply, hx e.2.1 this.2]

theorem inputEntries_lt {ranks : List (List (GRow K))} {n : Nat} (h : WFInput ranks n) :
    ∀ e ∈ inputEntries ranks, e.1 < n ∧ e.2.1 < n := by
  intro e he
  rw [inputEntries_eq] at he
  obtain ⟨r, hr, hm⟩ := List.mem_flatMap.mp he
  obtain ⟨c, hc, rfl⟩ := List.mem_map.mp hm
  exact ⟨h.row_lt hr, h.col_lt hr hc⟩

theorem newOf_inj {perm : List Nat} {n : Nat} (hp : perm.Perm (List.range n)) :
    ∀ a b, a < n → b < n → newOf perm a = newOf perm b → a = b := by
  intro a b ha hb hab
  exact posOf_inj (hp.mem_iff.mpr (List.mem_range.mpr ha)) (hp.mem_iff.mpr (List.mem_range.mpr hb)) hab

theorem at'_permuted [Zero K] {perm : List Nat} {n : Nat} (hp : perm.Perm (List.range n)) (x : List K)
    {c : Nat} (hc : c < n) : at' (perm.map fun g => x.getD g 0) (newOf perm c) = at' x c := by
  unfold at' newOf
  have hm : c ∈ perm := hp.mem_iff.mpr (List.mem_range.mpr hc)
  rw [List.getD_eq_getElem?_getD, List.getElem?_map, getElem?_posOf hm]
  rfl

theorem newOf_lt {perm : List Nat} {n : Nat} (hp : perm.Perm (List.range n)) {g : Nat} (hg : g < n) :
    newOf perm g < n := by
  have := posOf_lt (hp.mem_iff.mpr (List.mem_range.mpr hg))
  rw [hp.length_eq, List.length_range] at this
  exact this

end Dense

/-! ## validity of the halo map and of the package built on it -/
section Halo
variable {K : Type}

/-- a column of a received row that is not a received row is in the foreign column list -/
theorem halo_col_mem {tgt : Nat → Nat} {ranks : List (List (GRow K))} {n : Nat}
    {orders : Nat → List Nat} (h : WFInput ranks n) (ho : ValidOrders tgt ranks orders)
    {p : Nat} (hp : p < ranks.length) {r : GRow K} (hr : r ∈ recvRows tgt ranks p (orders p))
    {e : Nat × K} (he : e ∈ r.2)
    (hc : ((recvRows tgt ranks p (orders p)).map (·.1)).contains e.1 = false) :
    e.1 < n ∧ tgt e.1 ≠ p ∧ (e.1, tgt e.1) ∈ recvCols tgt ranks p (orders p) := by
  have hids := recvRows_ids h (ho p hp)
  have hrt : r ∈ rowsTo tgt ranks p := (recvRows_perm h (ho p hp)).mem_iff.mp hr
  have hlt : e.1 < n := h.col_lt (mem_rowsTo_flatten hrt) he
  have hne : tgt e.1 ≠ p := by
    intro heq
    have hm : e.1 ∈ (recvRows tgt ranks p (orders p)).map (·.1) := by
      rw [hids]; exact mem_idsTo.mpr ⟨hlt, heq⟩
    have : ((recvRows tgt ranks p (orders p)).map (·.1)).contains e.1 = true := by simpa using hm
    rw [this] at hc; cases hc
  exact ⟨hlt, hne, (mem_recvCols (ho p hp)).mpr (mem_colsTo.mpr ⟨⟨r, hrt, e, he, rfl⟩, rfl, hne⟩)⟩

/-- what is known of a foreign column pair -/
theorem recvCols_mem_spec {tgt : Nat → Nat} {ranks : List (List (GRow K))} {n : Nat}
    {orders : Nat → List Nat} (h : WFInput ranks n) (ho : ValidOrders tgt ranks orders)
    {p : Nat} (hp : p < ranks.length) {x : Nat × Nat} (hx : x ∈ recvCols tgt ranks p (orders p)) :
    x.1 < n ∧ x.2 = tgt x.1 ∧ x.2 ≠ p := by
  obtain ⟨⟨r, hr, e, he, hex⟩, h2, h3⟩ := mem_colsTo.mp ((mem_recvCols (ho p hp)).mp hx)
  refine ⟨?_, h2, by rw [h2]; exact h3⟩
  rw [← hex]; exact h.col_lt (mem_rowsTo_flatten hr) he

theorem newIdAt_bounds {tgt : Nat → Nat} {ranks : List (List (GRow K))} {n : Nat}
    {orders : Nat → List Nat} (h : WFInput ranks n) (ht : TgtOk tgt ranks.length n)
    (ho : ValidOrders tgt ranks orders) {g : Nat} (hg : g < n) :
    firstOf (heldIds tgt ranks orders) (tgt g) ≤ newIdAt (heldIds tgt ranks orders) (tgt g) g ∧
    newIdAt (heldIds tgt ranks orders) (tgt g) g < firstOf (heldIds tgt ranks orders) (tgt g + 1) := by
  rw [firstOf_succ]
  unfold newIdAt
  have hm : g ∈ (heldIds tgt ranks orders).getD (tgt g) [] := by
    rw [heldIds_getD h ho (ht g hg)]; exact mem_idsTo.mpr ⟨hg, rfl⟩
  have := posOf_lt hm
  omega

theorem firstOf_total {tgt : Nat → Nat} {ranks : List (List (GRow K))} {n : Nat}
    {orders : Nat → List Nat} (h : WFInput ranks n) (ht : TgtOk tgt ranks.length n)
    (ho : ValidOrders tgt ranks orders) :
    firstOf (heldIds tgt ranks orders) ranks.length = n := by
  have hl := (reported_perm_range h ht ho).length_eq
  rw [reported_eq, List.length_range, List.length_flatten] at hl
  unfold firstOf
  rw [← heldIds_length tgt ranks orders, List.take_length]
  exact hl

/-- the gathered first ids of the new contiguous partition -/
def newFc (held : List (List Nat)) : List Nat := (List.range (held.length + 1)).map (firstOf held)

theorem newFc_getD (held : List (List Nat)) {q : Nat} (hq : q ≤ held.length) :
    (newFc held).getD q 0 = firstOf held q := by
  unfold newFc
  rw [List.getD_eq_getElem?_getD, List.getElem?_map, List.getElem?_range (by omega)]
  rfl

theorem newFc_ok (held : List (List Nat)) : Comm.FcOk (newFc held) held.length where
  len := by simp [newFc]
  zero := by rw [newFc_getD held (Nat.zero_le _)]; rfl
  mono := by
    intro a ha
    rw [newFc_getD held (by omega), newFc_getD held (by omega)]
    exact firstOf_mono held (Nat.le_succ a)

/-- the halo map is strictly increasing -/
theorem offNew_sorted {tgt : Nat → Nat} {ranks : List (List (GRow K))} {n : Nat}
    {orders : Nat → List Nat} (h : WFInput ranks n) (ht : TgtOk tgt ranks.length n)
    (ho : ValidOrders tgt ranks orders) {p : Nat} (hp : p < ranks.length) :
    (repartRank tgt ranks orders p).offNew.Pairwise (· < ·) := by
  rw [repartRank_eq]
  simp only
  rw [List.pairwise_map]
  have hs := (recvCols_sorted tgt ranks p (orders p)).and
    (List.Nodup.of_map _ (recvCols_fst_nodup tgt ranks p (orders p)))
  refine hs.imp_of_mem ?_
  intro a b ha hb ⟨hle, hne⟩
  obtain ⟨ha1, ha2, _⟩ := recvCols_mem_spec h ho hp ha
  obtain ⟨hb1, hb2, _⟩ := recvCols_mem_spec h ho hp hb
  have ba := newIdAt_bounds h ht ho ha1
  have bb := newIdAt_bounds h ht ho hb1
  rw [← ha2] at ba
  rw [← hb2] at bb
  rcases (leCol_iff a b).mp hle with hlt | ⟨heq, hle1⟩
  · have := firstOf_mono (heldIds tgt ranks orders) (show a.2 + 1 ≤ b.2 by omega)
    omega
  · have hne1 : a.1 ≠ b.1 := fun h1 => hne (Prod.ext h1 heq)
    have hlt1 : a.1 < b.1 := by omega
    unfold newIdAt
    rw [← heq]
    have hq : a.2 < ranks.length := by rw [ha2]; exact ht _ ha1
    rw [heldIds_getD h ho hq]
    have := posOf_lt_posOf (idsTo_sorted tgt n a.2) (mem_idsTo.mpr ⟨ha1, ha2.symm⟩)
      (mem_idsTo.mpr ⟨hb1, by rw [heq]; exact hb2.symm⟩) hlt1
    omega

/-- no halo id lies in the rank's own range, and all are global ids -/
theorem offNew_range {tgt : Nat → Nat} {ranks : List (List (GRow K))} {n : Nat}
    {orders : Nat → List Nat} (h : WFInput ranks n) (ht : TgtOk tgt ranks.length n)
    (ho : ValidOrders tgt ranks orders) {p : Nat} (hp : p < ranks.length) :
    ∀ y ∈ (repartRank tgt ranks orders p).offNew,
      y < n ∧ ¬ ((repartRank tgt ranks orders p).first ≤ y ∧
        y < (repartRank tgt ranks orders p).first + (repartRank tgt ranks orders p).oldIds.length) := by
  intro y hy
  rw [repartRank_eq] at hy ⊢
  simp only at hy ⊢
  obtain ⟨x, hx, rfl⟩ := List.mem_map.mp hy
  obtain ⟨hx1, hx2, hx3⟩ := recvCols_mem_spec h ho hp hx
  have bx := newIdAt_bounds h ht ho hx1
  rw [← hx2] at bx
  have hq : x.2 < ranks.length := by rw [hx2]; exact ht _ hx1
  have hlen : ((recvRows tgt ranks p (orders p)).map (·.1)).length =
      ((heldIds tgt ranks orders).getD p []).length := by
    rw [heldIds_getD h ho hp, recvRows_ids h (ho p hp)]
  rw [hlen, ← firstOf_succ]
  constructor
  · have := firstOf_mono (heldIds tgt ranks orders) (show x.2 + 1 ≤ ranks.length by omega)
    rw [firstOf_total h ht ho] at this
    omega
  · rcases Nat.lt_or_gt_of_ne hx3 with hlt | hgt
    · have := firstOf_mono (heldIds tgt ranks orders) (show x.2 + 1 ≤ p by omega)
      omega
    · have := firstOf_mono (heldIds tgt ranks orders) (show p + 1 ≤ x.2 by omega)
      omega

/-- the owner the package was built with is the owner under the new contiguous partition -/
theorem offNew_owner {tgt : Nat → Nat} {ranks : List (List (GRow K))} {n : Nat}
    {orders : Nat → List Nat} (h : WFInput ranks n) (ht : TgtOk tgt ranks.length n)
    (ho : ValidOrders tgt ranks orders) {p : Nat} (hp : p < ranks.length) :
    (repartRank tgt ranks orders p).offNew.map (Comm.owner (newFc (heldIds tgt ranks orders))) =
      (repartRank tgt ranks orders p).offOld.map (·.2) := by
  rw [repartRank_eq]
  simp only
  rw [List.map_map]
  apply List.map_congr_left
  intro x hx
  obtain ⟨hx1, hx2, _⟩ := recvCols_mem_spec h ho hp hx
  have bx := newIdAt_bounds h ht ho hx1
  rw [← hx2] at bx
  have hq : x.2 < (heldIds tgt ranks orders).length := by
    rw [heldIds_length, hx2]; exact ht _ hx1
  simp only [Function.comp_apply]
  symm
  apply Comm.owner_unique_aux (newFc_ok _) hq
  · rw [newFc_getD _ (by omega)]; exact bx.1
  · rw [newFc_getD _ (by omega)]; exact bx.2

theorem mem_splitRow_on {ids colIds : List Nat} {r : GRow K} {e : Nat × K}
    (he : e ∈ (splitRow ids colIds r).1) :
    ∃ c ∈ r.2, ids.contains c.1 = true ∧ e = (posOf ids c.1, c.2) := by
  unfold splitRow at he
  obtain ⟨c, hc, hce⟩ := List.mem_filterMap.mp he
  split at hce
  · rename_i hcon
    exact ⟨c, hc, hcon, (Option.some.inj hce).symm⟩
  · cases hce

theorem mem_splitRow_off {ids colIds : List Nat} {r : GRow K} {e : Nat × K}
    (he : e ∈ (splitRow ids colIds r).2) :
    ∃ c ∈ r.2, ids.contains c.1 = false ∧ e = (posOf colIds c.1, c.2) := by
  unfold splitRow at he
  obtain ⟨c, hc, hce⟩ := List.mem_filterMap.mp he
  split at hce
  · cases hce
  · rename_i hcon
    exact ⟨c, hc, by simpa using hcon, (Option.some.inj hce).symm⟩

theorem mem_of_mem_zipIdx {α : Type} {l : List α} {x : α} {i k : Nat} (h : (x, i) ∈ l.zipIdx k) : x ∈ l := by
  obtain ⟨_, _, hr⟩ := List.mem_zipIdx h
  rw [hr]; exact List.getElem_mem _

/-- every on-process entry names a local row -/
theorem on_cols_lt (tgt : Nat → Nat) (ranks : List (List (GRow K))) (orders : Nat → List Nat) (p : Nat) :
    ∀ row ∈ (repartRank tgt ranks orders p).on, ∀ e ∈ row,
      e.1 < (repartRank tgt ranks orders p).oldIds.length := by
  intro row hrow e he
  rw [repartRank_eq] at hrow ⊢
  simp only at hrow ⊢
  obtain ⟨⟨row', i⟩, hri, rfl⟩ := List.mem_map.mp hrow
  have hrow' := mem_of_mem_zipIdx hri
  obtain ⟨s, hs, rfl⟩ := List.mem_map.mp hrow'
  obtain ⟨r, _, rfl⟩ := List.mem_map.mp hs
  dsimp only at he
  have he' := (sortBy_perm _ _).mem_iff.mp ((moveFront_perm i _).mem_iff.mp he)
  obtain ⟨c, _, hcon, rfl⟩ := mem_splitRow_on he'
  exact posOf_lt (by simpa using hcon)

/-- every off-process entry names a slot of the halo map -/
theorem off_cols_lt {tgt : Nat → Nat} {ranks : List (List (GRow K))} {n : Nat}
    {orders : Nat → List Nat} (h : WFInput ranks n)
    (ho : ValidOrders tgt ranks orders) {p : Nat} (hp : p < ranks.length) :
    ∀ row ∈ (repartRank tgt ranks orders p).off, ∀ e ∈ row,
      e.1 < (repartRank tgt ranks orders p).offNew.length := by
  intro row hrow e he
  rw [repartRank_eq] at hrow ⊢
  simp only at hrow ⊢
  obtain ⟨s, hs, rfl⟩ := List.mem_map.mp hrow
  obtain ⟨r, hr, rfl⟩ := List.mem_map.mp hs
  have he' := (sortBy_perm _ _).mem_iff.mp he
  obtain ⟨c, hc, hcon, rfl⟩ := mem_splitRow_off he'
  obtain ⟨_, _, hm⟩ := halo_col_mem h ho hp hr hc hcon
  have : c.1 ∈ (recvCols tgt ranks p (orders p)).map (·.1) := List.mem_map.mpr ⟨_, hm, rfl⟩
  have := posOf_lt this
  simpa using this

end Halo

/-! ## diagonal and row scaling -/
section Scale
variable {K : Type}

theorem flatMap_zipIdx_map_zipIdx₂ {α β γ δ : Type} (l : List α) (F : α → Nat → β) (F2 : β → Nat → γ)
    (G : γ → Nat → List δ) :
    (((l.zipIdx.map fun (x, i) => F x i).zipIdx.map fun (y, i) => F2 y i).zipIdx.flatMap
        fun (z, i) => G z i) = l.zipIdx.flatMap fun (x, i) => G (F2 (F x i) i) i := by
  rw [zipIdx_map_zipIdx l F, List.map_map]
  have : ((fun ((y, i) : β × Nat) => F2 y i) ∘ fun ((x, i) : α × Nat) => (F x i, i)) =
      fun ((x, i) : α × Nat) => F2 (F x i) i := by
    funext ⟨x, i⟩; rfl
  rw [this]
  exact flatMap_zipIdx_map_zipIdx l (fun x i => F2 (F x i) i) G

theorem rowScales_getElem? [Zero K] (sc : K → K) (on : List (List (Nat × K))) (i : Nat) :
    (rowScales sc on)[i]? = on[i]?.map fun row =>
      match moveFront i row with
      | (c, v) :: _ => if c == i then sc v else 0
      | [] => 0 := by
  unfold rowScales
  rw [List.getElem?_map, List.getElem?_zipIdx, Nat.zero_add]
  cases on[i]? <;> rfl

theorem rowScales_length [Zero K] (sc : K → K) (on : List (List (Nat × K))) :
    (rowScales sc on).length = on.length := by
  simp [rowScales]

/-- the scale of a row is `sc` of its diagonal value -/
theorem rowScales_spec [Zero K] (sc : K → K) (on : List (List (Nat × K))) (i : Nat)
    (row : List (Nat × K)) (a : K) (hrow : on[i]? = some row) (hmem : (i, a) ∈ row)
    (huniq : ∀ e ∈ row, e.1 = i → e = (i, a)) :
    (rowScales sc on).getD i 0 = sc a := by
  rw [List.getD_eq_getElem?_getD, rowScales_getElem?, hrow]
  obtain ⟨e, tl, hmf, he⟩ := moveFront_head i row ⟨(i, a), hmem, rfl⟩
  have hem : e ∈ row := (moveFront_perm i row).mem_iff.mp (by rw [hmf]; exact List.mem_cons_self)
  have := huniq e hem he
  subst this
  simp [hmf]

theorem mem_zipIdx_lt {α : Type} {l : List α} {x : α} {i : Nat} (h : (x, i) ∈ l.zipIdx) : i < l.length := by
  obtain ⟨_, hi, _⟩ := List.mem_zipIdx h
  omega

/-- `diagonally_scale` on one rank, global reading: entry `(i, j)` is multiplied by `d i * d j`,
    where `d` reads the local scales on the rank's own range and the halo scales on the halo ids -/
theorem diagScaleRank_entries [Zero K] [Mul K] (sc : K → K) (B : Blk K) (halo : List K)
    (first : Nat) (offMap : List Nat) (d : Nat → K)
    (hon : ∀ i, i < B.on.length → d (first + i) = (rowScales sc B.on).getD i 0)
    (hoff : ∀ k, k < offMap.length → d (offMap.getD k 0) = halo.getD k 0)
    (hlen : B.off.length ≤ B.on.length)
    (hcol : ∀ row ∈ B.on, ∀ e ∈ row, e.1 < B.on.length)
    (hpos : ∀ row ∈ B.off, ∀ e ∈ row, e.1 < offMap.length) :
    ((diagScaleRank sc B halo).1.entries first offMap).Perm
      ((B.entries first offMap).map fun e => (e.1, e.2.1, e.2.2 * (d e.1 * d e.2.1))) := by
  unfold Blk.entries diagScaleRank
  simp only
  rw [List.map_append]
  apply List.Perm.append
  · rw [flatMap_zipIdx_map_zipIdx₂ B.on (fun row i => moveFront i row)
      (fun row i => row.map fun e => (e.1, e.2 * ((rowScales sc B.on).getD i 0 * (rowScales sc B.on).getD e.1 0)))
      (fun row i => row.map fun e => (first + i, first + e.1, e.2))]
    rw [List.map_flatMap]
    apply List.Perm.flatMap_left
    rintro ⟨row, i⟩ hri
    have hi := mem_zipIdx_lt hri
    have hrow := mem_of_mem_zipIdx hri
    simp only [List.map_map]
    refine ((moveFront_perm i row).map _).trans (List.Perm.of_eq ?_)
    apply List.map_congr_left
    intro e he
    simp only [Function.comp_apply, hon i hi, hon e.1 (hcol row hrow e he)]
  · rw [flatMap_zipIdx_map_zipIdx B.off
      (fun row i => row.map fun e => (e.1, e.2 * ((rowScales sc B.on).getD i 0 * halo.getD e.1 0)))
      (fun row i => row.map fun e => (first + i, offMap.getD e.1 0, e.2))]
    rw [List.map_flatMap]
    apply List.Perm.of_eq
    apply List.flatMap_congr
    rintro ⟨row, i⟩ hri
    have hi := mem_zipIdx_lt hri
    have hrow := mem_of_mem_zipIdx hri
    simp only [List.map_map]
    apply List.map_congr_left
    intro e he
    simp only [Function.comp_apply, hon i (by omega), hoff e.1 (hpos row hrow e he)]

/-- per-block form: the on-process rows after `diagonally_scale` -/
theorem diagScaleRank_on [Zero K] [Mul K] (sc : K → K) (B : Blk K) (halo : List K) (i : Nat) :
    (diagScaleRank sc B halo).1.on[i]? = B.on[i]?.map fun row =>
      (moveFront i row).map fun e =>
        (e.1, e.2 * ((rowScales sc B.on).getD i 0 * (rowScales sc B.on).getD e.1 0)) := by
  unfold diagScaleRank
  simp only
  rw [zipIdx_map_zipIdx B.on (fun row i => moveFront i row), List.map_map, List.getElem?_map,
    List.getElem?_zipIdx, Nat.zero_add]
  cases B.on[i]? <;> rfl

theorem diagScaleRank_off [Zero K] [Mul K] (sc : K → K) (B : Blk K) (halo : List K) (i : Nat) :
    (diagScaleRank sc B halo).1.off[i]? = B.off[i]?.map fun row =>
      row.map fun e => (e.1, e.2 * ((rowScales sc B.on).getD i 0 * halo.getD e.1 0)) := by
  unfold diagScaleRank
  simp only
  rw [List.getElem?_map, List.getElem?_zipIdx, Nat.zero_add]
  cases B.off[i]? <;> rfl

theorem diagScaleRank_rhs [Zero K] [Mul K] (sc : K → K) (B : Blk K) (halo : List K) (i : Nat) :
    (diagScaleRank sc B halo).1.rhs[i]? = B.rhs[i]?.map fun b => b * (rowScales sc B.on).getD i 0 := by
  unfold diagScaleRank
  simp only
  rw [List.getElem?_map, List.getElem?_zipIdx, Nat.zero_add]
  cases B.rhs[i]? <;> rfl

theorem diagScaleRank_scales [Zero K] [Mul K] (sc : K → K) (B : Blk K) (halo : List K) :
    (diagScaleRank sc B halo).2 = rowScales sc B.on := rfl

/-- `row_scale` on one rank, global reading: every entry of row `i`, in either block, is
    multiplied by the scale of row `i` -/
theorem rowScaleRank_entries [Zero K] [Mul K] (sc : K → K) (B : Blk K) (first : Nat) (offMap : List Nat) :
    ((rowScaleRank sc B).entries first offMap).Perm
      ((B.entries first offMap).map fun e =>
        (e.1, e.2.1, e.2.2 * (rowScales sc B.on).getD (e.1 - first) 0)) := by
  unfold Blk.entries rowScaleRank
  simp only
  rw [List.map_append]
  apply List.Perm.append
  · rw [flatMap_zipIdx_map_zipIdx₂ B.on (fun row i => moveFront i row)
      (fun row i => row.map fun e => (e.1, e.2 * (rowScales sc B.on).getD i 0))
      (fun row i => row.map fun e => (first + i, first + e.1, e.2))]
    rw [List.map_flatMap]
    apply List.Perm.flatMap_left
    rintro ⟨row, i⟩ _
    simp only [List.map_map]
    refine ((moveFront_perm i row).map _).trans (List.Perm.of_eq ?_)
    apply List.map_congr_left
    intro e _
    simp only [Function.comp_apply, Nat.add_sub_cancel_left]
  · rw [flatMap_zipIdx_map_zipIdx B.off
      (fun row i => row.map fun e => (e.1, e.2 * (rowScales sc B.on).getD i 0))
      (fun row i => row.map fun e => (first + i, offMap.getD e.1 0, e.2))]
    rw [List.map_flatMap]
    apply List.Perm.of_eq
    apply List.flatMap_congr
    rintro ⟨row, i⟩ _
    simp only [List.map_map]
    apply List.map_congr_left
    intro e _
    simp only [Function.comp_apply, Nat.add_sub_cancel_left]

theorem rowScaleRank_on [Zero K] [Mul K] (sc : K → K) (B : Blk K) (i : Nat) :
    (rowScaleRank sc B).on[i]? = B.on[i]?.map fun row =>
      (moveFront i row).map fun e => (e.1, e.2 * (rowScales sc B.on).getD i 0) := by
  unfold rowScaleRank
  simp only
  rw [zipIdx_map_zipIdx B.on (fun row i => moveFront i row), List.map_map, List.getElem?_map,
    List.getElem?_zipIdx, Nat.zero_add]
  cases B.on[i]? <;> rfl

theorem rowScaleRank_off [Zero K] [Mul K] (sc : K → K) (B : Blk K) (i : Nat) :
    (rowScaleRank sc B).off[i]? = B.off[i]?.map fun row =>
      row.map fun e => (e.1, e.2 * (rowScales sc B.on).getD i 0) := by
  unfold rowScaleRank
  simp only
  rw [List.getElem?_map, List.getElem?_zipIdx, Nat.zero_add]
  cases B.off[i]? <;> rfl

theorem rowScaleRank_rhs [Zero K] [Mul K] (sc : K → K) (B : Blk K) (i : Nat) :
    (rowScaleRank sc B).rhs[i]? = B.rhs[i]?.map fun b => b * (rowScales sc B.on).getD i 0 := by
  unfold rowScaleRank
  simp only
  rw [List.getElem?_map, List.getElem?_zipIdx, Nat.zero_add]
  cases B.rhs[i]? <;> rfl

/-- a scale function that reads the local scales on the own range and the halo scales elsewhere -/
def scaleFn [Zero K] (first : Nat) (s : List K) (offMap : List Nat) (halo : List K) (g : Nat) : K :=
  if first ≤ g ∧ g < first + s.length then s.getD (g - first) 0 else halo.getD (posOf offMap g) 0

theorem scaleFn_on [Zero K] (first : Nat) (s : List K) (offMap : List Nat) (halo : List K) {i : Nat}
    (hi : i < s.length) : scaleFn first s offMap halo (first + i) = s.getD i 0 := by
  unfold scaleFn
  rw [if_pos ⟨by omega, by omega⟩, Nat.add_sub_cancel_left]

theorem scaleFn_off [Zero K] (first : Nat) (s : List K) (offMap : List Nat) (halo : List K)
    (hn : offMap.Nodup) (hout : ∀ g ∈ offMap, ¬ (first ≤ g ∧ g < first + s.length)) {k : Nat}
    (hk : k < offMap.length) : scaleFn first s offMap halo (offMap.getD k 0) = halo.getD k 0 := by
  unfold scaleFn
  have e : offMap.getD k 0 = offMap[k] := by
    rw [List.getD_eq_getElem?_getD, List.getElem?_eq_getElem hk]; rfl
  rw [e, if_neg (hout _ (List.getElem_mem hk)), posOf_getElem hn hk]

/-- the halo scales a rank uses in `diagScale` are the owners' scales -/
theorem diagScale_halo [Zero K] (sc : K → K) (fc : List Nat) (np : Nat) (offMaps : List (List Nat))
    (blks : List (Blk K)) (r : Nat) (hfc : Comm.FcOk fc np)
    (hs : (offMaps.getD r []).Pairwise (· ≤ ·)) (hb : ∀ c ∈ offMaps.getD r [], c < fc.getD np 0) :
    Comm.exchange 0 fc offMaps (blks.map fun B => rowScales sc B.on) r =
      Comm.haloSpec 0 fc offMaps (blks.map fun B => rowScales sc B.on) r :=
  Comm.exchange_eq_spec_of_sorted 0 fc offMaps _ r (Comm.owners_sorted hfc hs hb)

theorem diagScale_getElem? [Zero K] [Mul K] (sc : K → K) (fc : List Nat) (np : Nat)
    (offMaps : List (List Nat)) (blks : List (Blk K)) (r : Nat) (hfc : Comm.FcOk fc np)
    (hs : (offMaps.getD r []).Pairwise (· ≤ ·)) (hb : ∀ c ∈ offMaps.getD r [], c < fc.getD np 0) :
    (diagScale sc fc offMaps blks)[r]? = blks[r]?.map fun B =>
      diagScaleRank sc B (Comm.haloSpec 0 fc offMaps (blks.map fun B => rowScales sc B.on) r) := by
  unfold diagScale
  simp only
  rw [List.getElem?_map, List.getElem?_zipIdx, Nat.zero_add, ← diagScale_halo sc fc np offMaps blks r hfc hs hb]
  cases blks[r]? <;> rfl

/-- slot `j` of the halo scales is the scale the owner computed for global row `offMap[j]` -/
theorem haloSpec_scales_getElem? [Zero K] (sc : K → K) (fc : List Nat) (offMaps : List (List Nat))
    (blks : List (Blk K)) (r j : Nat) :
    (Comm.haloSpec 0 fc offMaps (blks.map fun B => rowScales sc B.on) r)[j]? =
      (offMaps.getD r [])[j]?.map fun c =>
        ((blks.map fun B => rowScales sc B.on).getD (Comm.owner fc c) []).getD
          (c - fc.getD (Comm.owner fc c) 0) 0 := by
  unfold Comm.haloSpec
  rw [List.getElem?_map]

theorem unscale_getElem [Mul K] (sol scales : List K) (i : Nat) (h1 : i < sol.length) (h2 : i < scales.length) :
    (unscale sol scales)[i]'(by simp [unscale]; omega) = sol[i] * scales[i] := by
  simp [unscale]

end Scale

end Raptor.Repart
-- rebuild
