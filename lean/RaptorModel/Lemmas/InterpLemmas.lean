import RaptorModel.Model.Interp
import Mathlib.Algebra.Order.Field.Basic
import Mathlib.Algebra.BigOperators.Group.List.Basic
import Mathlib.Tactic.FieldSimp
import Mathlib.Tactic.Ring
import Mathlib.Tactic.Linarith
import Mathlib.Tactic.LinearCombination
/-!
# Helper lemmas for classical interpolation (C12)

Nothing here changes the model (`Model/Interp.lean`).
-/
namespace Raptor.Interp

/-! ### coarse numbering -/
section ColToNew

theorem isC_lt_length {states : List Int} {j : Nat} (h : isC states j = true) : j < states.length := by
  by_contra hlt
  have : states[j]? = none := List.getElem?_eq_none (Nat.le_of_not_lt hlt)
  simp [isC, this] at h

theorem isF_lt_length {states : List Int} {j : Nat} (h : isF states j = true) : j < states.length := by
  by_contra hlt
  have : states[j]? = none := List.getElem?_eq_none (Nat.le_of_not_lt hlt)
  simp [isF, this] at h

theorem isC_isF_excl {states : List Int} {j : Nat} (h : isC states j = true) : isF states j = false := by
  unfold isC at h; unfold isF
  have : states.getD j (-1) = 1 := by simpa using h
  rw [this]; decide

theorem colToNew_zero (states : List Int) : colToNew states 0 = 0 := by simp [colToNew]

theorem colToNew_succ (states : List Int) (j : Nat) :
    colToNew states (j + 1) = colToNew states j + (if isC states j then 1 else 0) := by
  unfold colToNew
  rw [List.range_succ, List.filter_append]
  by_cases h : isC states j <;> simp [h]

theorem colToNew_mono (states : List Int) {i j : Nat} (h : i ≤ j) : colToNew states i ≤ colToNew states j := by
  induction j, h using Nat.le_induction with
  | base => exact Nat.le_refl _
  | succ j _ ih => rw [colToNew_succ]; omega

theorem colToNew_lt_of_isC {states : List Int} {i j : Nat} (hi : isC states i = true) (h : i < j) :
    colToNew states i < colToNew states j := by
  have h1 : colToNew states (i + 1) = colToNew states i + 1 := by rw [colToNew_succ]; simp [hi]
  have h2 : colToNew states (i + 1) ≤ colToNew states j := colToNew_mono states (Nat.succ_le_of_lt h)
  omega

theorem colToNew_eq_of_ge (states : List Int) {n : Nat} (h : states.length ≤ n) :
    colToNew states n = colToNew states states.length := by
  induction n, h using Nat.le_induction with
  | base => rfl
  | succ n hn ih =>
    rw [colToNew_succ, ih]
    have : isC states n = false := by
      cases hc : isC states n with
      | false => rfl
      | true => exact absurd (isC_lt_length hc) (by omega)
    simp [this]

end ColToNew

/-! ### sums -/
section Sums
variable {K : Type} [AddCommMonoid K] {α : Type}

theorem foldl_add_eq (g : α → K) (l : List α) (a : K) :
    l.foldl (fun s e => s + g e) a = a + (l.map g).sum := by
  induction l generalizing a with
  | nil => simp
  | cons x xs ih => simp only [List.foldl_cons, ih, List.map_cons, List.sum_cons, add_assoc]

theorem lsumK_eq_sum (l : List K) : lsumK l = l.sum := by
  have := foldl_add_eq (fun x : K => x) l 0
  simpa [lsumK] using this

theorem sum_filter_split (p : α → Prop) [DecidablePred p] (g : α → K) (l : List α) :
    ((l.filter fun e => decide (p e)).map g).sum + ((l.filter fun e => !decide (p e)).map g).sum
      = (l.map g).sum := by
  induction l with
  | nil => simp
  | cons x xs ih =>
    by_cases h : p x
    · simp only [List.filter_cons, h, decide_true, Bool.not_true, if_true, List.map_cons, List.sum_cons,
        Bool.false_eq_true, if_false]
      rw [add_assoc, ih]
    · simp only [List.filter_cons, h, decide_false, Bool.not_false, if_true, List.map_cons, List.sum_cons,
        Bool.false_eq_true, if_false]
      rw [add_left_comm, ih]

theorem sum_filter_split_id (p : K → Prop) [DecidablePred p] (l : List K) :
    (l.filter fun e => decide (p e)).sum + (l.filter fun e => !decide (p e)).sum = l.sum := by
  simpa using sum_filter_split p (fun x : K => x) l

end Sums

section SumsRing
variable {K : Type} [Semiring K] {α : Type}

theorem sum_ite_mul (p : α → Prop) [DecidablePred p] (g : α → K) (a b : K) (l : List α) :
    (l.map fun e => (if p e then a else b) * g e).sum
      = a * ((l.filter fun e => decide (p e)).map g).sum
        + b * ((l.filter fun e => !decide (p e)).map g).sum := by
  induction l with
  | nil => simp
  | cons x xs ih =>
    by_cases h : p x
    · simp only [List.filter_cons, h, decide_true, Bool.not_true, if_true, List.map_cons, List.sum_cons,
        Bool.false_eq_true, if_false, ih, mul_add, add_assoc]
    · simp only [List.filter_cons, h, decide_false, Bool.not_false, if_true, List.map_cons, List.sum_cons,
        Bool.false_eq_true, if_false, ih, mul_add]
      rw [add_left_comm]

end SumsRing

/-! ### `aVal` -/
section AVal
variable {K : Type} [Zero K]

theorem aVal_cons_ne {c j : Nat} (d : K) (offs : List (Nat × K)) (h : c ≠ j) :
    aVal ((c, d) :: offs) j = aVal offs j := by
  have : (c == j) = false := by simpa using h
  simp [aVal, this]

theorem aVal_eq_zero_or_mem (l : List (Nat × K)) (j : Nat) :
    aVal l j = 0 ∨ (j, aVal l j) ∈ l := by
  unfold aVal
  cases hf : l.find? (fun e => e.1 == j) with
  | none => left; rfl
  | some e =>
    right
    have h1 := List.mem_of_find?_eq_some hf
    have h2 := List.find?_some hf
    have h3 : e.1 = j := by simpa using h2
    simpa [← h3] using h1

end AVal

section OrderedSums
variable {K : Type} [AddCommMonoid K] [PartialOrder K] [IsOrderedAddMonoid K]

theorem list_sum_nonpos (l : List K) (h : ∀ x ∈ l, x ≤ 0) : l.sum ≤ 0 := by
  induction l with
  | nil => simp
  | cons x xs ih =>
    rw [List.sum_cons]
    exact add_nonpos (h x (by simp)) (ih fun y hy => h y (by simp [hy]))

end OrderedSums

section OrderedSums2
variable {K : Type} [AddCommMonoid K] [PartialOrder K] [IsOrderedCancelAddMonoid K]

theorem list_sum_neg (l : List K) (h : ∀ x ∈ l, x < 0) (hne : l ≠ []) : l.sum < 0 := by
  cases l with
  | nil => exact absurd rfl hne
  | cons x xs =>
    rw [List.sum_cons]
    exact add_neg_of_neg_of_nonpos (h x (by simp))
      (list_sum_nonpos xs fun y hy => le_of_lt (h y (by simp [hy])))

theorem list_sum_neg_of_exists (l : List K) (h : ∀ x ∈ l, x ≤ 0) (hex : ∃ x ∈ l, x < 0) : l.sum < 0 := by
  induction l with
  | nil => obtain ⟨x, hx, _⟩ := hex; exact absurd hx List.not_mem_nil
  | cons y ys ih =>
    rw [List.sum_cons]
    obtain ⟨x, hx, hlt⟩ := hex
    rcases List.mem_cons.mp hx with rfl | hx'
    · exact add_neg_of_neg_of_nonpos hlt (list_sum_nonpos ys fun z hz => h z (by simp [hz]))
    · exact add_neg_of_nonpos_of_neg (h y (by simp))
        (ih (fun z hz => h z (by simp [hz])) ⟨x, hx', hlt⟩)

end OrderedSums2

/-! ### the named quantities of `directRow` -/
section Direct
variable {K : Type}

/-- strong coarse neighbours of `i` with the value of `A` at that column -/
def strongC [Zero K] (states : List Int) (i : Nat) (arow srow : List (Nat × K)) : List (Nat × K) :=
  ((offDiag i srow).filter fun e => isC states e.1).map fun e => (e.1, aVal arow e.1)

variable [Field K] [LinearOrder K]

def sumStrongNeg (states : List Int) (i : Nat) (arow srow : List (Nat × K)) : K :=
  lsumK (((strongC states i arow srow).filter fun e => e.2 < 0).map (·.2))
def sumStrongPos (states : List Int) (i : Nat) (arow srow : List (Nat × K)) : K :=
  lsumK (((strongC states i arow srow).filter fun e => !(e.2 < 0)).map (·.2))
def sumAllNeg (arow : List (Nat × K)) : K := lsumK (((arow.drop 1).map (·.2)).filter fun v => v < 0)
def sumAllPos (arow : List (Nat × K)) : K := lsumK (((arow.drop 1).map (·.2)).filter fun v => !(v < 0))
/-- the (modified) diagonal `directRow` divides by -/
def directDiag (states : List Int) (i : Nat) (arow srow : List (Nat × K)) : K :=
  if sumStrongPos states i arow srow = 0 then diagVal arow + sumAllPos arow else diagVal arow
def directNegCoeff (states : List Int) (i : Nat) (arow srow : List (Nat × K)) : K :=
  -(sumAllNeg arow / sumStrongNeg states i arow srow) / directDiag states i arow srow
def directPosCoeff (states : List Int) (i : Nat) (arow srow : List (Nat × K)) : K :=
  -(if sumStrongPos states i arow srow = 0 then 0 else sumAllPos arow / sumStrongPos states i arow srow)
    / directDiag states i arow srow

theorem directRow_fine_eq {states : List Int} {i : Nat} (arow srow : List (Nat × K))
    (h : isC states i = false) :
    directRow states i arow srow = (strongC states i arow srow).map fun e =>
      (colToNew states e.1, (if e.2 < 0 then directNegCoeff states i arow srow
        else directPosCoeff states i arow srow) * e.2) := by
  unfold directRow
  rw [if_neg (by simp [h])]
  rfl

theorem sumAll_split (arow : List (Nat × K)) :
    sumAllNeg arow + sumAllPos arow = ((arow.drop 1).map (·.2)).sum := by
  unfold sumAllNeg sumAllPos
  rw [lsumK_eq_sum, lsumK_eq_sum]
  exact sum_filter_split_id (fun v : K => v < 0) _

theorem directRow_weights_sum {states : List Int} {i : Nat} (arow srow : List (Nat × K))
    (h : isC states i = false) :
    lsumK ((directRow states i arow srow).map (·.2))
      = directNegCoeff states i arow srow * sumStrongNeg states i arow srow
        + directPosCoeff states i arow srow * sumStrongPos states i arow srow := by
  rw [directRow_fine_eq arow srow h, lsumK_eq_sum, List.map_map]
  unfold sumStrongNeg sumStrongPos
  rw [lsumK_eq_sum, lsumK_eq_sum]
  exact sum_ite_mul (fun e : Nat × K => e.2 < 0) (·.2) _ _ _

end Direct

/-! ### more sums -/
section Sums2
variable {K : Type} [AddCommMonoid K] {α β : Type}

theorem list_sum_eq_zero' (l : List K) (h : ∀ x ∈ l, x = 0) : l.sum = 0 := by
  induction l with
  | nil => rfl
  | cons x xs ih => rw [List.sum_cons, h x (by simp), ih fun y hy => h y (by simp [hy]), add_zero]

theorem sum_filter_split_bool (c : α → Bool) (g : α → K) (l : List α) :
    ((l.filter c).map g).sum + ((l.filter fun e => !c e).map g).sum = (l.map g).sum := by
  have := sum_filter_split (fun e => c e = true) g l
  simpa using this

theorem foldl_ite_add (c : α → Bool) (g : α → K) (l : List α) (a : K) :
    l.foldl (fun w e => if c e = true then w + g e else w) a = a + ((l.filter c).map g).sum := by
  induction l generalizing a with
  | nil => simp
  | cons x xs ih =>
    cases hx : c x <;> simp [List.foldl_cons, ih, hx, add_assoc]

theorem sum_filter_or (a b : α → Bool) (g : α → K) (l : List α)
    (hdisj : ∀ e ∈ l, a e = true → b e = true → False) :
    ((l.filter fun e => a e || b e).map g).sum
      = ((l.filter a).map g).sum + ((l.filter b).map g).sum := by
  induction l with
  | nil => simp
  | cons x xs ih =>
    have ih' := ih fun e he => hdisj e (by simp [he])
    have hx := hdisj x (by simp)
    cases ha : a x <;> cases hb : b x
    · simp [ha, hb, ih']
    · simp [ha, hb, ih', add_left_comm]
    · simp [ha, hb, ih', add_assoc]
    · exact absurd (hx ha hb) id

theorem sum_sum_comm (l1 : List α) (l2 : List β) (f : α → β → K) :
    (l1.map fun a => (l2.map fun b => f a b).sum).sum
      = (l2.map fun b => (l1.map fun a => f a b).sum).sum := by
  induction l1 with
  | nil =>
    simp only [List.map_nil, List.sum_nil]
    exact (list_sum_eq_zero' _ (by simp)).symm
  | cons x xs ih =>
    simp only [List.map_cons, List.sum_cons, ih, List.sum_map_add]

end Sums2

section SumsRing2
variable {K : Type} [Semiring K] {α : Type}

theorem sum_map_mul_left' (r : K) (g : α → K) (l : List α) :
    (l.map fun e => r * g e).sum = r * (l.map g).sum := by
  induction l with
  | nil => simp
  | cons x xs ih => simp only [List.map_cons, List.sum_cons, ih, mul_add]

end SumsRing2

section SumsField
variable {K : Type} [DivisionRing K] {α : Type}

theorem sum_map_div' (r : K) (g : α → K) (l : List α) :
    (l.map fun e => g e / r).sum = (l.map g).sum / r := by
  induction l with
  | nil => simp
  | cons x xs ih => simp only [List.map_cons, List.sum_cons, ih, add_div]

end SumsField

/-! ### the named quantities of `modClassicalRow` -/
section ModClassical
variable {K : Type} [Field K] [LinearOrder K]

/-- the coarse entries (strong and weak) of row `k` -/
def mcQ (allParts : List (Parts K)) (k : Nat) : List (Nat × K) :=
  match allParts[k]? with
  | some q => q.ss ++ q.ns
  | none => []

/-- sum of `k`'s connections of the right sign into the strong coarse set of `p`
    (the model's `coarseSum`, verbatim) -/
def mcCoarseSum (allParts : List (Parts K)) (p : Parts K) (k : Nat) : K :=
  match allParts[k]? with
  | some q => ((q.ss ++ q.ns).filter fun e => (p.ss.any fun e' => e'.1 == e.1) && opp p.neg e.2).foldl
      (fun s e => s + e.2) 0
  | none => 0

/-- sum of `k`'s connections of the right sign to column `c` -/
def mcColSum (allParts : List (Parts K)) (p : Parts K) (k c : Nat) : K :=
  (((mcQ allParts k).filter fun e => e.1 == c && opp p.neg e.2).map (·.2)).sum

/-- the model's `scaled`, verbatim -/
def mcScaled (tiny : K → Bool) (allParts : List (Parts K)) (p : Parts K) : List (Nat × K) :=
  p.su.filterMap fun e =>
    if tiny (mcCoarseSum allParts p e.1) then none else some (e.1, e.2 / mcCoarseSum allParts p e.1)

/-- the model's `add`, verbatim -/
def mcAdd (tiny : K → Bool) (allParts : List (Parts K)) (p : Parts K) (c : Nat) : K :=
  (mcScaled tiny allParts p).foldl (fun s ke =>
    match allParts[ke.1]? with
    | some q => ((q.ss ++ q.ns).filter fun e => e.1 == c && opp p.neg e.2).foldl (fun s e => s + ke.2 * e.2) s
    | none => s) 0

/-- the model's final `weak` (the denominator before negation), verbatim -/
def mcWeak (tiny : K → Bool) (allParts : List (Parts K)) (p : Parts K) : K :=
  p.su.foldl (fun w e => if tiny (mcCoarseSum allParts p e.1) then w + e.2 else w) p.weak

theorem modClassicalRow_fine_eq (tiny : K → Bool) {states : List Int} (allParts : List (Parts K))
    {i : Nat} {p : Parts K} (hp : allParts[i]? = some p) (h : isC states i = false) :
    modClassicalRow tiny states allParts i = p.ss.map fun e =>
      (colToNew states e.1, (e.2 + mcAdd tiny allParts p e.1) / (-mcWeak tiny allParts p)) := by
  unfold modClassicalRow
  rw [if_neg (by simp [h])]
  simp only [hp]
  rfl

theorem mcCoarseSum_eq (allParts : List (Parts K)) (p : Parts K) (k : Nat) :
    mcCoarseSum allParts p k
      = (((mcQ allParts k).filter fun e => (p.ss.any fun e' => e'.1 == e.1) && opp p.neg e.2).map (·.2)).sum := by
  unfold mcCoarseSum mcQ
  cases allParts[k]? with
  | none => simp
  | some q => simp only [foldl_add_eq, zero_add]

theorem mcAdd_eq (tiny : K → Bool) (allParts : List (Parts K)) (p : Parts K) (c : Nat) :
    mcAdd tiny allParts p c
      = ((mcScaled tiny allParts p).map fun ke => ke.2 * mcColSum allParts p ke.1 c).sum := by
  unfold mcAdd
  have hstep : (fun (s : K) (ke : Nat × K) =>
      match allParts[ke.1]? with
      | some q => List.foldl (fun s e => s + ke.2 * e.2) s
          (List.filter (fun e => e.1 == c && opp p.neg e.2) (q.ss ++ q.ns))
      | none => s) = fun s ke => s + ke.2 * mcColSum allParts p ke.1 c := by
    funext s ke
    unfold mcColSum mcQ
    cases allParts[ke.1]? with
    | none => simp
    | some q => simp only [foldl_add_eq, sum_map_mul_left']
  rw [hstep, foldl_add_eq, zero_add]

theorem mcWeak_eq (tiny : K → Bool) (allParts : List (Parts K)) (p : Parts K) :
    mcWeak tiny allParts p
      = p.weak + ((p.su.filter fun e => tiny (mcCoarseSum allParts p e.1)).map (·.2)).sum := by
  unfold mcWeak
  exact foldl_ite_add (fun e => tiny (mcCoarseSum allParts p e.1)) (·.2) p.su p.weak

omit [LinearOrder K] in
/-- summing, over pairwise distinct columns `c` of `ss`, the entries of `Q` in column `c`
    is summing the entries of `Q` whose column occurs in `ss` -/
theorem sum_cols_filter (ss Q : List (Nat × K)) (P : Nat × K → Bool) (g : Nat × K → K)
    (hnd : (ss.map (·.1)).Nodup) :
    (ss.map fun e' => ((Q.filter fun e => e.1 == e'.1 && P e).map g).sum).sum
      = ((Q.filter fun e => (ss.any fun e' => e'.1 == e.1) && P e).map g).sum := by
  induction ss with
  | nil => simp
  | cons e0 rest ih =>
    rw [List.map_cons, List.nodup_cons] at hnd
    obtain ⟨hnot, hnd'⟩ := hnd
    have hfilt : Q.filter (fun e => ((e0 :: rest).any fun e' => e'.1 == e.1) && P e)
        = Q.filter (fun e => (e.1 == e0.1 && P e) || ((rest.any fun e' => e'.1 == e.1) && P e)) := by
      apply List.filter_congr
      intro e _
      have hb : (e0.1 == e.1) = (e.1 == e0.1) := by
        by_cases h : e.1 = e0.1
        · rw [h]
        · have h' : ¬ e0.1 = e.1 := fun x => h x.symm
          rw [beq_eq_false_iff_ne.mpr h, beq_eq_false_iff_ne.mpr h']
      cases P e <;> simp [List.any_cons, hb]
    rw [hfilt, sum_filter_or, List.map_cons, List.sum_cons, ih hnd']
    intro e _ h1 h2
    simp only [Bool.and_eq_true, beq_iff_eq, List.any_eq_true] at h1 h2
    obtain ⟨⟨e', he', heq⟩, _⟩ := h2
    apply hnot
    rw [← h1.1, ← heq]
    exact List.mem_map_of_mem he'

theorem sum_colSum_eq_coarseSum (allParts : List (Parts K)) (p : Parts K) (k : Nat)
    (hnd : (p.ss.map (·.1)).Nodup) :
    (p.ss.map fun e' => mcColSum allParts p k e'.1).sum = mcCoarseSum allParts p k := by
  rw [mcCoarseSum_eq]
  unfold mcColSum
  exact sum_cols_filter p.ss (mcQ allParts k) (fun e => opp p.neg e.2) (·.2) hnd

/-- `Σ_{c ∈ SS} add c = Σ_{k scaled} (a_ik / cs_k) · cs_k` -/
theorem sum_mcAdd (tiny : K → Bool) (allParts : List (Parts K)) (p : Parts K)
    (hnd : (p.ss.map (·.1)).Nodup) :
    (p.ss.map fun e => mcAdd tiny allParts p e.1).sum
      = ((mcScaled tiny allParts p).map fun ke => ke.2 * mcCoarseSum allParts p ke.1).sum := by
  simp only [mcAdd_eq]
  rw [sum_sum_comm]
  congr 1
  apply List.map_congr_left
  intro ke _
  rw [sum_map_mul_left', sum_colSum_eq_coarseSum allParts p ke.1 hnd]

/-- the scaled strong fine neighbours give back their own values -/
theorem sum_mcScaled (tiny : K → Bool) (allParts : List (Parts K)) (p : Parts K)
    (htiny : tiny 0 = true) :
    ((mcScaled tiny allParts p).map fun ke => ke.2 * mcCoarseSum allParts p ke.1).sum
      = ((p.su.filter fun e => !tiny (mcCoarseSum allParts p e.1)).map (·.2)).sum := by
  unfold mcScaled
  induction p.su with
  | nil => simp
  | cons e rest ih =>
    cases ht : tiny (mcCoarseSum allParts p e.1) with
    | true => simp [ht, ih]
    | false =>
      have hne : mcCoarseSum allParts p e.1 ≠ 0 := by
        intro h0; rw [h0, htiny] at ht; exact Bool.noConfusion ht
      simp [ht, ih, div_mul_cancel₀ _ hne]

/-- **row sum of a fine row of modified classical interpolation**, at the level of `Parts` -/
theorem modClassicalRow_weights_sum_one (tiny : K → Bool) {states : List Int} (allParts : List (Parts K))
    {i : Nat} {p : Parts K} (hp : allParts[i]? = some p) (h : isC states i = false)
    (htiny : tiny 0 = true)
    (hnd : (p.ss.map (·.1)).Nodup)
    (hsum : (p.ss.map (·.2)).sum + (p.su.map (·.2)).sum + p.weak = 0)
    (hweak : mcWeak tiny allParts p ≠ 0) :
    lsumK ((modClassicalRow tiny states allParts i).map (·.2)) = 1 := by
  rw [modClassicalRow_fine_eq tiny allParts hp h, lsumK_eq_sum, List.map_map]
  have h1 : (List.map ((·.2) ∘ fun e : Nat × K =>
        (colToNew states e.1, (e.2 + mcAdd tiny allParts p e.1) / (-mcWeak tiny allParts p))) p.ss).sum
      = ((p.ss.map (·.2)).sum + (p.ss.map fun e => mcAdd tiny allParts p e.1).sum)
          / (-mcWeak tiny allParts p) := by
    rw [← List.sum_map_add, ← sum_map_div']
    rfl
  rw [h1, sum_mcAdd tiny allParts p hnd, sum_mcScaled tiny allParts p htiny]
  have hsplit := sum_filter_split_bool (fun e : Nat × K => tiny (mcCoarseSum allParts p e.1)) (·.2) p.su
  rw [mcWeak_eq] at hweak ⊢
  have hneg : -(p.weak + ((p.su.filter fun e => tiny (mcCoarseSum allParts p e.1)).map (·.2)).sum) ≠ 0 :=
    neg_ne_zero.mpr hweak
  rw [div_eq_one_iff_eq hneg]
  linear_combination hsum + hsplit

end ModClassical

end Raptor.Interp
