import RaptorModel.Model.Strength
import Mathlib.Order.Defs.LinearOrder
import Mathlib.Order.Bounds.Defs
import Mathlib.Order.Lattice
import Mathlib.Algebra.Order.Group.Abs
import Mathlib.Algebra.Order.Ring.Defs
/-!
# Helper lemmas for the strength-of-connection property theorems (C14)

Nothing here changes the model: every lemma is about the functions of `Model/Strength.lean`, with
the `LT/Neg/Mul/Zero` instances supplied by a Mathlib linear order (and, where arithmetic is needed,
an ordered ring).
-/
namespace Raptor.Strength

/-! ### folds of `max` / `min` with an explicit start value -/
section Fold
variable {K : Type} [LinearOrder K]

theorem maxStep_eq (m v : K) : (if m < v then v else m) = max m v := by
  split
  · exact (max_eq_right (le_of_lt ‹_›)).symm
  · exact (max_eq_left (not_lt.mp ‹_›)).symm

theorem minStep_eq (m v : K) : (if v < m then v else m) = min m v := by
  split
  · exact (min_eq_right (le_of_lt ‹_›)).symm
  · exact (min_eq_left (not_lt.mp ‹_›)).symm

theorem foldl_max_ge_init (l : List K) (a : K) : a ≤ l.foldl max a := by
  induction l generalizing a with
  | nil => exact le_refl a
  | cons x l ih => exact le_trans (le_max_left a x) (ih (max a x))

theorem foldl_max_ge_mem (l : List K) (a : K) : ∀ v ∈ l, v ≤ l.foldl max a := by
  induction l generalizing a with
  | nil => intro v hv; cases hv
  | cons x l ih =>
    intro v hv
    rcases List.mem_cons.mp hv with rfl | hv
    · exact le_trans (le_max_right a v) (foldl_max_ge_init l _)
    · exact ih _ v hv

theorem foldl_max_mem (l : List K) (a : K) : l.foldl max a = a ∨ l.foldl max a ∈ l := by
  induction l generalizing a with
  | nil => exact Or.inl rfl
  | cons x l ih =>
    rcases ih (max a x) with h | h
    · rcases max_choice a x with h2 | h2
      · left; rw [List.foldl_cons, h, h2]
      · right; rw [List.foldl_cons, h, h2]; exact List.mem_cons_self
    · exact Or.inr (List.mem_cons_of_mem _ h)

theorem foldl_min_le_init (l : List K) (a : K) : l.foldl min a ≤ a := by
  induction l generalizing a with
  | nil => exact le_refl a
  | cons x l ih => exact le_trans (ih (min a x)) (min_le_left a x)

theorem foldl_min_le_mem (l : List K) (a : K) : ∀ v ∈ l, l.foldl min a ≤ v := by
  induction l generalizing a with
  | nil => intro v hv; cases hv
  | cons x l ih =>
    intro v hv
    rcases List.mem_cons.mp hv with rfl | hv
    · exact le_trans (foldl_min_le_init l _) (min_le_right a v)
    · exact ih _ v hv

theorem foldl_min_mem (l : List K) (a : K) : l.foldl min a = a ∨ l.foldl min a ∈ l := by
  induction l generalizing a with
  | nil => exact Or.inl rfl
  | cons x l ih =>
    rcases ih (min a x) with h | h
    · rcases min_choice a x with h2 | h2
      · left; rw [List.foldl_cons, h, h2]
      · right; rw [List.foldl_cons, h, h2]; exact List.mem_cons_self
    · exact Or.inr (List.mem_cons_of_mem _ h)

/-- a non-empty list has a greatest element -/
theorem exists_isGreatest_of_ne_nil (l : List K) (hne : l ≠ []) :
    ∃ M, IsGreatest {v | v ∈ l} M := by
  cases l with
  | nil => exact absurd rfl hne
  | cons a t =>
    refine ⟨t.foldl max a, ?_, ?_⟩
    · rcases foldl_max_mem t a with h | h
      · show t.foldl max a ∈ a :: t
        rw [h]; exact List.mem_cons_self
      · exact List.mem_cons_of_mem _ h
    · intro v hv
      rcases List.mem_cons.mp hv with rfl | hv
      · exact foldl_max_ge_init t v
      · exact foldl_max_ge_mem t a v hv

/-- a non-empty list has a least element -/
theorem exists_isLeast_of_ne_nil (l : List K) (hne : l ≠ []) :
    ∃ m, IsLeast {v | v ∈ l} m := by
  cases l with
  | nil => exact absurd rfl hne
  | cons a t =>
    refine ⟨t.foldl min a, ?_, ?_⟩
    · rcases foldl_min_mem t a with h | h
      · show t.foldl min a ∈ a :: t
        rw [h]; exact List.mem_cons_self
      · exact List.mem_cons_of_mem _ h
    · intro v hv
      rcases List.mem_cons.mp hv with rfl | hv
      · exact foldl_min_le_init t v
      · exact foldl_min_le_mem t a v hv

end Fold

/-! ### `rowScale` is a sentinel-started max / min -/
section RowScale
variable {K : Type} [LinearOrder K] [Neg K]

theorem rowScale_true_eq (big : K) (offs : List K) :
    rowScale true big offs = offs.foldl max (-big) := by
  unfold rowScale
  rw [if_pos rfl]
  congr 1
  funext m v
  exact maxStep_eq m v

theorem rowScale_false_eq (big : K) (offs : List K) :
    rowScale false big offs = offs.foldl min big := by
  unfold rowScale
  rw [if_neg (by decide)]
  congr 1
  funext m v
  exact minStep_eq m v

theorem rowScale_true_ge_mem (big : K) (offs : List K) :
    ∀ v ∈ offs, v ≤ rowScale true big offs := by
  rw [rowScale_true_eq]; exact foldl_max_ge_mem offs _

theorem rowScale_true_ge_sentinel (big : K) (offs : List K) :
    -big ≤ rowScale true big offs := by
  rw [rowScale_true_eq]; exact foldl_max_ge_init offs _

theorem rowScale_true_eq_or_mem (big : K) (offs : List K) :
    rowScale true big offs = -big ∨ rowScale true big offs ∈ offs := by
  rw [rowScale_true_eq]; exact foldl_max_mem offs _

theorem rowScale_false_le_mem (big : K) (offs : List K) :
    ∀ v ∈ offs, rowScale false big offs ≤ v := by
  rw [rowScale_false_eq]; exact foldl_min_le_mem offs _

theorem rowScale_false_le_sentinel (big : K) (offs : List K) :
    rowScale false big offs ≤ big := by
  rw [rowScale_false_eq]; exact foldl_min_le_init offs _

theorem rowScale_false_eq_or_mem (big : K) (offs : List K) :
    rowScale false big offs = big ∨ rowScale false big offs ∈ offs := by
  rw [rowScale_false_eq]; exact foldl_min_mem offs _

/-- no sentinel interference (max side): a non-empty list whose values are all `≥ -big` -/
theorem rowScale_true_isGreatest (big : K) (offs : List K) (hne : offs ≠ [])
    (hb : ∀ v ∈ offs, -big ≤ v) : IsGreatest {v | v ∈ offs} (rowScale true big offs) := by
  refine ⟨?_, fun v hv => rowScale_true_ge_mem big offs v hv⟩
  rcases rowScale_true_eq_or_mem big offs with h | h
  · obtain ⟨v0, hv0⟩ := List.exists_mem_of_ne_nil offs hne
    have h1 : v0 ≤ rowScale true big offs := rowScale_true_ge_mem big offs v0 hv0
    have h2 : rowScale true big offs = v0 := le_antisymm (h.symm ▸ hb v0 hv0) h1
    show rowScale true big offs ∈ offs
    rw [h2]; exact hv0
  · exact h

/-- no sentinel interference (min side) -/
theorem rowScale_false_isLeast (big : K) (offs : List K) (hne : offs ≠ [])
    (hb : ∀ v ∈ offs, v ≤ big) : IsLeast {v | v ∈ offs} (rowScale false big offs) := by
  refine ⟨?_, fun v hv => rowScale_false_le_mem big offs v hv⟩
  rcases rowScale_false_eq_or_mem big offs with h | h
  · obtain ⟨v0, hv0⟩ := List.exists_mem_of_ne_nil offs hne
    have h1 : rowScale false big offs ≤ v0 := rowScale_false_le_mem big offs v0 hv0
    have h2 : rowScale false big offs = v0 := le_antisymm h1 (h.symm ▸ hb v0 hv0)
    show rowScale false big offs ∈ offs
    rw [h2]; exact hv0
  · exact h

end RowScale

/-! ### `splitDiag`, `classicalRow` on a row that stores its diagonal first -/
section Row
variable {K : Type} [LinearOrder K] [Neg K] [Mul K] [Zero K]

omit [LinearOrder K] [Neg K] [Mul K] in
theorem splitDiag_diag_first (i : Nat) (d : K) (rest : List (Nat × K)) :
    splitDiag i ((i, d) :: rest) = (some (i, d), d, rest) := by
  simp [splitDiag]

theorem classicalRow_nil (big θ : K) (i : Nat) (sameVar : Nat → Bool) :
    classicalRow big θ i sameVar [] = [] := by
  simp [classicalRow]

theorem classicalRow_diag_first (big θ : K) (i : Nat) (sameVar : Nat → Bool) (d : K)
    (rest : List (Nat × K)) :
    classicalRow big θ i sameVar ((i, d) :: rest) =
      (i, d) :: ((rest.filter fun e => sameVar e.1).filter fun e =>
        passes (decide (d < 0))
          (rowScale (decide (d < 0)) big ((rest.filter fun e => sameVar e.1).map (·.2)) * θ) e.2) := by
  simp [classicalRow, splitDiag]

theorem classicalRow_not_diag_first (big θ : K) (i : Nat) (sameVar : Nat → Bool) (c : Nat) (d : K)
    (rest : List (Nat × K)) (hc : c ≠ i) :
    classicalRow big θ i sameVar ((c, d) :: rest) =
      (((c, d) :: rest).filter fun e => sameVar e.1).filter fun e =>
        passes (decide ((0 : K) < 0))
          (rowScale (decide ((0 : K) < 0)) big
            ((((c, d) :: rest).filter fun e => sameVar e.1).map (·.2)) * θ) e.2 := by
  simp [classicalRow, splitDiag, hc]

theorem classicalRow_sublist (big θ : K) (i : Nat) (sameVar : Nat → Bool) (row : List (Nat × K)) :
    (classicalRow big θ i sameVar row).Sublist row := by
  cases row with
  | nil => rw [classicalRow_nil]; exact List.Sublist.refl _
  | cons hd tl =>
    obtain ⟨c, d⟩ := hd
    by_cases hc : c = i
    · subst hc
      rw [classicalRow_diag_first]
      exact List.Sublist.cons_cons _ (List.Sublist.trans List.filter_sublist List.filter_sublist)
    · rw [classicalRow_not_diag_first _ _ _ _ _ _ _ hc]
      exact List.Sublist.trans List.filter_sublist List.filter_sublist

end Row

/-! ### row access for `classical` and `symmetric` -/
section Access
variable {K : Type} [LinearOrder K] [Neg K] [Mul K] [Zero K]

theorem classical_length (big θ : K) (numVars : Nat) (rows : List (List (Nat × K))) :
    (classical big θ numVars rows).length = rows.length := by
  simp [classical]

theorem classical_getElem (big θ : K) (numVars : Nat) (rows : List (List (Nat × K))) (i : Nat)
    (hi : i < rows.length) :
    (classical big θ numVars rows)[i]'(by rw [classical_length]; exact hi) =
      classicalRow big θ i (fun j => numVars ≤ 1 || (i % numVars == j % numVars)) rows[i] := by
  simp [classical]

/-- the table of per-row data used by `symmetric` -/
def infoTable (big θ : K) (rows : List (List (Nat × K))) : List (Bool × K) :=
  rows.zipIdx.map fun (row, i) => if row.isEmpty then (false, (0 : K)) else rowInfo big θ i row

theorem infoTable_getD (big θ : K) (rows : List (List (Nat × K))) (k : Nat) (hk : k < rows.length)
    (hne : rows[k] ≠ []) :
    (infoTable big θ rows).getD k (false, 0) = rowInfo big θ k rows[k] := by
  simp [infoTable, hk, hne]

theorem symmetric_length (big θ : K) (rows : List (List (Nat × K))) :
    (symmetric big θ rows).length = rows.length := by
  simp [symmetric]

/-- one row of `symmetric` -/
def symmetricRow (big θ : K) (rows : List (List (Nat × K))) (i : Nat) (row : List (Nat × K)) :
    List (Nat × K) :=
  if row.isEmpty then [] else
  let (dEntry, _, rest) := splitDiag i row
  let mine := (infoTable big θ rows).getD i (false, 0)
  dEntry.toList ++ rest.filter fun e =>
    let other := (infoTable big θ rows).getD e.1 (false, 0)
    passes mine.1 mine.2 e.2 || passes other.1 other.2 e.2

theorem symmetric_getElem (big θ : K) (rows : List (List (Nat × K))) (i : Nat)
    (hi : i < rows.length) :
    (symmetric big θ rows)[i]'(by rw [symmetric_length]; exact hi) =
      symmetricRow big θ rows i rows[i] := by
  simp [symmetric, symmetricRow, infoTable]

theorem symmetricRow_nil (big θ : K) (rows : List (List (Nat × K))) (i : Nat) :
    symmetricRow big θ rows i [] = [] := by
  simp [symmetricRow]

theorem symmetricRow_diag_first (big θ : K) (rows : List (List (Nat × K))) (i : Nat) (d : K)
    (rest : List (Nat × K)) :
    symmetricRow big θ rows i ((i, d) :: rest) =
      (i, d) :: rest.filter fun e =>
        passes ((infoTable big θ rows).getD i (false, 0)).1
            ((infoTable big θ rows).getD i (false, 0)).2 e.2 ||
          passes ((infoTable big θ rows).getD e.1 (false, 0)).1
            ((infoTable big θ rows).getD e.1 (false, 0)).2 e.2 := by
  simp [symmetricRow, splitDiag]

theorem symmetricRow_not_diag_first (big θ : K) (rows : List (List (Nat × K))) (i : Nat) (c : Nat)
    (d : K) (rest : List (Nat × K)) (hc : c ≠ i) :
    symmetricRow big θ rows i ((c, d) :: rest) =
      ((c, d) :: rest).filter fun e =>
        passes ((infoTable big θ rows).getD i (false, 0)).1
            ((infoTable big θ rows).getD i (false, 0)).2 e.2 ||
          passes ((infoTable big θ rows).getD e.1 (false, 0)).1
            ((infoTable big θ rows).getD e.1 (false, 0)).2 e.2 := by
  simp [symmetricRow, splitDiag, hc]

theorem symmetricRow_sublist (big θ : K) (rows : List (List (Nat × K))) (i : Nat)
    (row : List (Nat × K)) : (symmetricRow big θ rows i row).Sublist row := by
  cases row with
  | nil => rw [symmetricRow_nil]; exact List.Sublist.refl _
  | cons hd tl =>
    obtain ⟨c, d⟩ := hd
    by_cases hc : c = i
    · subst hc
      rw [symmetricRow_diag_first]
      exact List.Sublist.cons_cons _ List.filter_sublist
    · rw [symmetricRow_not_diag_first _ _ _ _ _ _ _ hc]
      exact List.filter_sublist

end Access

end Raptor.Strength
