import RaptorModel.Model.Stencil
import Mathlib.Algebra.BigOperators.Group.List.Basic
import Mathlib.Tactic.Ring
import Mathlib.Tactic.Linarith
/-!
# Helper lemmas for the stencil / grid numbering property theorems (C19)

Nothing here changes the model: every lemma is about the functions of `Model/Stencil.lean`
(`coords`, `index`, `numPoints`, `stencilPos`, `entry`, `matrix`) or about plain lists.
-/
namespace Raptor.Stencil

/-! ### products by `foldl` -/

theorem foldl_mul (l : List Nat) (a : Nat) :
    l.foldl (· * ·) a = a * l.foldl (· * ·) 1 := by
  induction l generalizing a with
  | nil => simp
  | cons g rest ih =>
    simp only [List.foldl_cons]
    rw [ih (a * g), ih (1 * g)]
    simp [Nat.mul_assoc]

theorem foldl_mul_eq_prod (l : List Nat) : l.foldl (· * ·) 1 = l.prod := by
  induction l with
  | nil => simp
  | cons g rest ih =>
    simp only [List.foldl_cons, List.prod_cons]
    rw [foldl_mul, ih]; simp

@[simp] theorem numPoints_nil : numPoints [] = 1 := rfl

theorem numPoints_cons (g : Nat) (rest : List Nat) :
    numPoints (g :: rest) = g * numPoints rest := by
  unfold numPoints
  simp only [List.foldl_cons]
  rw [foldl_mul]; simp

theorem numPoints_eq_prod (grid : List Nat) : numPoints grid = grid.prod :=
  foldl_mul_eq_prod grid

@[simp] theorem coords_nil (p : Nat) : coords [] p = [] := rfl

theorem coords_cons (g : Nat) (rest : List Nat) (p : Nat) :
    coords (g :: rest) p = (p / numPoints rest) :: coords rest (p % numPoints rest) := rfl

@[simp] theorem index_nil (c : List Nat) : index [] c = 0 := by
  cases c <;> rfl

theorem index_cons (g : Nat) (rest : List Nat) (c : Nat) (cs : List Nat) :
    index (g :: rest) (c :: cs) = c * numPoints rest + index rest cs := rfl

/-- every extent of a grid with at least one point is positive -/
theorem pos_of_numPoints_pos : ∀ (grid : List Nat), 0 < numPoints grid → ∀ g ∈ grid, 0 < g
  | [], _, g, hg => by cases hg
  | g0 :: rest, h, g, hg => by
    rw [numPoints_cons] at h
    have h0 : 0 < g0 := Nat.pos_of_mul_pos_right h
    have h1 : 0 < numPoints rest := Nat.pos_of_mul_pos_left h
    rcases List.mem_cons.1 hg with rfl | hg
    · exact h0
    · exact pos_of_numPoints_pos rest h1 g hg

theorem numPoints_pos : ∀ (grid : List Nat), (∀ g ∈ grid, 0 < g) → 0 < numPoints grid
  | [], _ => by simp
  | g0 :: rest, h => by
    rw [numPoints_cons]
    exact Nat.mul_pos (h g0 (by simp)) (numPoints_pos rest fun g hg => h g (by simp [hg]))

/-! ### coordinate vectors in range -/

/-- `c` is a coordinate vector of the grid: same length, every component below its extent -/
def InRange (grid c : List Nat) : Prop := List.Forall₂ (· < ·) c grid

theorem inRange_nil : InRange [] [] := List.Forall₂.nil

theorem inRange_cons {g c : Nat} {grid cs : List Nat} :
    InRange (g :: grid) (c :: cs) ↔ c < g ∧ InRange grid cs := by
  unfold InRange; exact List.forall₂_cons

theorem InRange.length_eq {grid c : List Nat} (h : InRange grid c) : c.length = grid.length :=
  List.Forall₂.length_eq h

/-- indexed form of `InRange` -/
theorem inRange_iff_getD : ∀ (grid c : List Nat),
    InRange grid c ↔ c.length = grid.length ∧ ∀ k, k < grid.length → c.getD k 0 < grid.getD k 0
  | [], [] => by simp [inRange_nil]
  | [], c :: cs => by
    constructor
    · intro h; cases h
    · intro h; simp at h
  | g :: grid, [] => by
    constructor
    · intro h; cases h
    · intro h; simp at h
  | g :: grid, c :: cs => by
    rw [inRange_cons, inRange_iff_getD grid cs]
    constructor
    · rintro ⟨h0, hl, hk⟩
      refine ⟨by simp [hl], ?_⟩
      intro k hk'
      cases k with
      | zero => simpa using h0
      | succ k =>
        simp only [List.length_cons, Nat.add_lt_add_iff_right] at hk'
        simpa using hk k hk'
    · rintro ⟨hl, hk⟩
      refine ⟨by simpa using hk 0 (by simp), by simpa using hl, ?_⟩
      intro k hk'
      simpa using hk (k + 1) (by simpa using hk')

/-! ### `coords` and `index` are mutually inverse -/

theorem coords_length : ∀ (grid : List Nat) (p : Nat), (coords grid p).length = grid.length
  | [], _ => rfl
  | g :: rest, p => by
    rw [coords_cons, List.length_cons, List.length_cons, coords_length rest]

theorem coords_inRange : ∀ (grid : List Nat) (p : Nat), p < numPoints grid →
    InRange grid (coords grid p)
  | [], _, _ => inRange_nil
  | g :: rest, p, h => by
    rw [numPoints_cons] at h
    have hS : 0 < numPoints rest := Nat.pos_of_mul_pos_left (Nat.lt_of_le_of_lt (Nat.zero_le _) h)
    rw [coords_cons, inRange_cons]
    refine ⟨?_, coords_inRange rest _ (Nat.mod_lt _ hS)⟩
    exact (Nat.div_lt_iff_lt_mul hS).2 h

theorem index_coords : ∀ (grid : List Nat) (p : Nat), p < numPoints grid →
    index grid (coords grid p) = p
  | [], p, h => by
    simp at h; simp [h]
  | g :: rest, p, h => by
    rw [numPoints_cons] at h
    have hS : 0 < numPoints rest := Nat.pos_of_mul_pos_left (Nat.lt_of_le_of_lt (Nat.zero_le _) h)
    rw [coords_cons, index_cons, index_coords rest _ (Nat.mod_lt _ hS)]
    exact Nat.div_add_mod' p (numPoints rest)

theorem index_lt : ∀ (grid c : List Nat), InRange grid c → index grid c < numPoints grid
  | [], [], _ => by simp
  | [], _ :: _, h => by cases h
  | _ :: _, [], h => by cases h
  | g :: rest, c :: cs, h => by
    rw [inRange_cons] at h
    have hi := index_lt rest cs h.2
    rw [index_cons, numPoints_cons]
    calc c * numPoints rest + index rest cs
        < c * numPoints rest + numPoints rest := Nat.add_lt_add_left hi _
      _ = (c + 1) * numPoints rest := by rw [Nat.add_mul, Nat.one_mul]
      _ ≤ g * numPoints rest := Nat.mul_le_mul_right _ h.1

theorem coords_index : ∀ (grid c : List Nat), InRange grid c → coords grid (index grid c) = c
  | [], [], _ => rfl
  | [], _ :: _, h => by cases h
  | _ :: _, [], h => by cases h
  | g :: rest, c :: cs, h => by
    rw [inRange_cons] at h
    have hi := index_lt rest cs h.2
    have hS : 0 < numPoints rest := Nat.lt_of_le_of_lt (Nat.zero_le _) hi
    rw [index_cons, coords_cons]
    have h1 : (c * numPoints rest + index rest cs) / numPoints rest = c := by
      rw [Nat.mul_comm, Nat.mul_add_div hS, Nat.div_eq_of_lt hi, Nat.add_zero]
    have h2 : (c * numPoints rest + index rest cs) % numPoints rest = index rest cs := by
      rw [Nat.mul_comm, Nat.mul_add_mod, Nat.mod_eq_of_lt hi]
    rw [h1, h2, coords_index rest cs h.2]

/-! ### strides: the index is linear in the coordinates -/

/-- `stride_k = Π_{j>k} grid[j]` -/
def strides : List Nat → List Nat
  | [] => []
  | _ :: rest => numPoints rest :: strides rest

/-- integer dot product of a list of strides with a list of (signed) offsets -/
def dotInt : List Nat → List Int → Int
  | s :: ss, o :: os => (s : Int) * o + dotInt ss os
  | _, _ => 0

/-- componentwise sum of a coordinate vector and a signed offset vector -/
def addOff (c : List Nat) (o : List Int) : List Int := List.zipWith (fun a b => (a : Int) + b) c o

theorem strides_length : ∀ grid : List Nat, (strides grid).length = grid.length
  | [] => rfl
  | _ :: rest => by simp [strides, strides_length rest]

@[simp] theorem addOff_cons (c : Nat) (cs : List Nat) (o : Int) (os : List Int) :
    addOff (c :: cs) (o :: os) = ((c : Int) + o) :: addOff cs os := rfl

/-- the general linearity statement: only the lengths and non-negativity of the sum matter -/
theorem index_add_offset_gen : ∀ (grid c : List Nat) (o : List Int),
    c.length = grid.length → o.length = grid.length → (∀ x ∈ addOff c o, 0 ≤ x) →
    (index grid ((addOff c o).map Int.toNat) : Int) = index grid c + dotInt (strides grid) o
  | [], _, _, _, _, _ => by simp [strides, dotInt]
  | _ :: _, [], _, h, _, _ => by simp at h
  | _ :: _, _ :: _, [], _, h, _ => by simp at h
  | g :: rest, c :: cs, o :: os, hc, ho, hnn => by
    simp only [List.length_cons, Nat.add_right_cancel_iff] at hc ho
    have h0 : 0 ≤ (c : Int) + o := hnn _ (by simp)
    have ih := index_add_offset_gen rest cs os hc ho (fun x hx => hnn x (by simp [hx]))
    simp only [addOff_cons, List.map_cons, index_cons, strides, dotInt]
    push_cast
    rw [ih, Int.toNat_of_nonneg h0]
    ring

/-! ### base-3 positions in the stencil array -/

/-- all entries in `{-1,0,1}` -/
def Unit3 (o : List Int) : Prop := ∀ x ∈ o, -1 ≤ x ∧ x ≤ 1

theorem unit3_cons {x : Int} {o : List Int} : Unit3 (x :: o) ↔ (-1 ≤ x ∧ x ≤ 1) ∧ Unit3 o := by
  simp [Unit3]

theorem stencilPos_cons (x : Int) (o : List Int) :
    stencilPos (x :: o) = (x + 1).toNat * 3 ^ o.length + stencilPos o := rfl

theorem stencilPos_lt : ∀ o : List Int, Unit3 o → stencilPos o < 3 ^ o.length
  | [], _ => by simp [stencilPos]
  | x :: o, h => by
    rw [unit3_cons] at h
    have ih := stencilPos_lt o h.2
    rw [stencilPos_cons, List.length_cons, Nat.pow_succ]
    have hx : (x + 1).toNat ≤ 2 := by omega
    calc (x + 1).toNat * 3 ^ o.length + stencilPos o
        < (x + 1).toNat * 3 ^ o.length + 3 ^ o.length := Nat.add_lt_add_left ih _
      _ = ((x + 1).toNat + 1) * 3 ^ o.length := by rw [Nat.add_mul, Nat.one_mul]
      _ ≤ 3 * 3 ^ o.length := Nat.mul_le_mul_right _ (by omega)
      _ = 3 ^ o.length * 3 := Nat.mul_comm _ _

theorem stencilPos_injective : ∀ o₁ o₂ : List Int, o₁.length = o₂.length → Unit3 o₁ → Unit3 o₂ →
    stencilPos o₁ = stencilPos o₂ → o₁ = o₂
  | [], [], _, _, _, _ => rfl
  | [], _ :: _, h, _, _, _ => by simp at h
  | _ :: _, [], h, _, _, _ => by simp at h
  | x :: o₁, y :: o₂, hl, h₁, h₂, he => by
    simp only [List.length_cons, Nat.add_right_cancel_iff] at hl
    rw [unit3_cons] at h₁ h₂
    have l₁ := stencilPos_lt o₁ h₁.2
    have l₂ := stencilPos_lt o₂ h₂.2
    rw [stencilPos_cons, stencilPos_cons, hl] at he
    rw [hl] at l₁
    generalize 3 ^ o₂.length = P at he l₁ l₂
    have hxy : x = y ∧ stencilPos o₁ = stencilPos o₂ := by
      obtain ⟨⟨hx1, hx2⟩, _⟩ := h₁
      obtain ⟨⟨hy1, hy2⟩, _⟩ := h₂
      have cx : x = -1 ∨ x = 0 ∨ x = 1 := by omega
      have cy : y = -1 ∨ y = 0 ∨ y = 1 := by omega
      rcases cx with rfl | rfl | rfl <;> rcases cy with rfl | rfl | rfl <;>
        simp at he <;> omega
    rw [hxy.1, stencilPos_injective o₁ o₂ hl h₁.2 h₂.2 hxy.2]

/-! ### the offset between two points and `entry` -/

/-- the signed coordinate offset from point `p` to point `q` -/
def offset (grid : List Nat) (p q : Nat) : List Int :=
  ((coords grid p).zip (coords grid q)).map fun c => (c.2 : Int) - (c.1 : Int)

theorem offset_length (grid : List Nat) (p q : Nat) : (offset grid p q).length = grid.length := by
  simp [offset, coords_length]

theorem all_unit3_iff (o : List Int) :
    o.all (fun x => decide (-1 ≤ x) && decide (x ≤ 1)) = true ↔ Unit3 o := by
  simp [Unit3]

theorem entry_eq {K : Type} (grid : List Nat) (stencil : List K) (p q : Nat) :
    entry grid stencil p q =
      if (offset grid p q).all (fun x => decide (-1 ≤ x) && decide (x ≤ 1)) then
        stencil[stencilPos (offset grid p q)]? else none := rfl

theorem entry_of_unit3 {K : Type} (grid : List Nat) (stencil : List K) (p q : Nat)
    (h : Unit3 (offset grid p q)) :
    entry grid stencil p q = stencil[stencilPos (offset grid p q)]? := by
  rw [entry_eq, if_pos ((all_unit3_iff _).2 h)]

theorem entry_of_not_unit3 {K : Type} (grid : List Nat) (stencil : List K) (p q : Nat)
    (h : ¬ Unit3 (offset grid p q)) : entry grid stencil p q = none := by
  rw [entry_eq, if_neg (fun h' => h ((all_unit3_iff _).1 h'))]

/-- offsets reverse sign when the two points are exchanged (on lists of coordinates) -/
theorem zip_sub_neg : ∀ (a b : List Nat),
    ((b.zip a).map fun c => (c.2 : Int) - (c.1 : Int)) =
      ((a.zip b).map fun c => (c.2 : Int) - (c.1 : Int)).map Neg.neg
  | [], [] => rfl
  | [], _ :: _ => rfl
  | _ :: _, [] => rfl
  | x :: a, y :: b => by
    simp only [List.zip_cons_cons, List.map_cons, zip_sub_neg a b]
    congr 1
    omega

theorem offset_swap (grid : List Nat) (p q : Nat) :
    offset grid q p = (offset grid p q).map Neg.neg := zip_sub_neg _ _

theorem unit3_neg {o : List Int} (h : Unit3 o) : Unit3 (o.map Neg.neg) := by
  intro x hx
  obtain ⟨y, hy, rfl⟩ := List.mem_map.1 hx
  have := h y hy
  constructor <;> omega

theorem zip_self_sub : ∀ (a : List Nat),
    ((a.zip a).map fun c => (c.2 : Int) - (c.1 : Int)) = List.replicate a.length 0
  | [] => rfl
  | x :: a => by
    simp only [List.zip_cons_cons, List.map_cons, zip_self_sub a, List.length_cons,
      List.replicate_succ]
    congr 1
    omega

theorem offset_self (grid : List Nat) (p : Nat) :
    offset grid p p = List.replicate grid.length 0 := by
  rw [offset, zip_self_sub, coords_length]

theorem unit3_replicate_zero (d : Nat) : Unit3 (List.replicate d 0) := by
  intro x hx
  rw [List.eq_of_mem_replicate hx]
  omega

/-- twice the centre position plus one is `3^dim` -/
theorem two_mul_stencilPos_zero : ∀ d : Nat, 2 * stencilPos (List.replicate d 0) + 1 = 3 ^ d
  | 0 => rfl
  | d + 1 => by
    have ih := two_mul_stencilPos_zero d
    rw [List.replicate_succ, stencilPos_cons, List.length_replicate, Nat.pow_succ]
    have : ((0 : Int) + 1).toNat = 1 := rfl
    rw [this]
    omega

theorem stencilPos_zero (d : Nat) : stencilPos (List.replicate d 0) = (3 ^ d - 1) / 2 := by
  have := two_mul_stencilPos_zero d
  omega

/-! ### membership in `matrix` -/

theorem matrix_mem_iff {K : Type} (zero : K → Bool) (grid : List Nat) (stencil : List K)
    (p q : Nat) (w : K) :
    (p, q, w) ∈ matrix zero grid stencil ↔
      p < numPoints grid ∧ q < numPoints grid ∧ entry grid stencil p q = some w ∧
        zero w = false := by
  unfold matrix
  simp only [List.mem_flatMap, List.mem_filterMap, List.mem_range]
  constructor
  · rintro ⟨p', hp', q', hq', h⟩
    cases he : entry grid stencil p' q' with
    | none => rw [he] at h; simp at h
    | some w' =>
      rw [he] at h
      dsimp only at h
      cases hz : zero w' with
      | true => rw [hz] at h; simp at h
      | false =>
        rw [hz] at h
        simp only [Bool.false_eq_true, if_false, Option.some.injEq, Prod.mk.injEq] at h
        obtain ⟨rfl, rfl, rfl⟩ := h
        exact ⟨hp', hq', he, hz⟩
  · rintro ⟨hp, hq, he, hz⟩
    exact ⟨p, hp, q, hq, by rw [he]; simp [hz]⟩

/-! ### neighbours: `c + o` inside / outside the grid -/

/-- the componentwise integer sum `c + o` is a coordinate vector of the grid -/
def AddInRange (grid c : List Nat) (o : List Int) : Prop :=
  List.Forall₂ (fun (x : Int) (g : Nat) => 0 ≤ x ∧ x < (g : Int)) (addOff c o) grid

theorem forall₂_nonneg : ∀ (l : List Int) (grid : List Nat),
    List.Forall₂ (fun (x : Int) (g : Nat) => 0 ≤ x ∧ x < (g : Int)) l grid → ∀ x ∈ l, 0 ≤ x
  | [], _, _, x, hx => by cases hx
  | _ :: _, [], h, _, _ => by cases h
  | y :: l, g :: grid, h, x, hx => by
    rw [List.forall₂_cons] at h
    rcases List.mem_cons.1 hx with rfl | hx
    · exact h.1.1
    · exact forall₂_nonneg l grid h.2 x hx

theorem forall₂_toNat_inRange : ∀ (l : List Int) (grid : List Nat),
    List.Forall₂ (fun (x : Int) (g : Nat) => 0 ≤ x ∧ x < (g : Int)) l grid → InRange grid (l.map Int.toNat)
  | [], [], _ => inRange_nil
  | [], _ :: _, h => by cases h
  | _ :: _, [], h => by cases h
  | y :: l, g :: grid, h => by
    rw [List.forall₂_cons] at h
    rw [List.map_cons, inRange_cons]
    exact ⟨by omega, forall₂_toNat_inRange l grid h.2⟩

theorem forall₂_ofNat_of_inRange : ∀ (grid c : List Nat), InRange grid c →
    List.Forall₂ (fun (x : Int) (g : Nat) => 0 ≤ x ∧ x < (g : Int)) (c.map Int.ofNat) grid
  | [], [], _ => List.Forall₂.nil
  | [], _ :: _, h => by cases h
  | _ :: _, [], h => by cases h
  | g :: grid, c :: cs, h => by
    rw [inRange_cons] at h
    rw [List.map_cons, List.forall₂_cons]
    exact ⟨⟨Int.natCast_nonneg c, Int.ofNat_lt.2 h.1⟩, forall₂_ofNat_of_inRange grid cs h.2⟩

theorem zip_addOff_sub : ∀ (c : List Nat) (o : List Int), c.length = o.length →
    (∀ x ∈ addOff c o, 0 ≤ x) →
    ((c.zip ((addOff c o).map Int.toNat)).map fun c => (c.2 : Int) - (c.1 : Int)) = o
  | [], [], _, _ => rfl
  | [], _ :: _, h, _ => by simp at h
  | _ :: _, [], h, _ => by simp at h
  | c :: cs, o :: os, hl, hnn => by
    simp only [List.length_cons, Nat.add_right_cancel_iff] at hl
    have h0 : 0 ≤ (c : Int) + o := hnn _ (by simp)
    have ih := zip_addOff_sub cs os hl (fun x hx => hnn x (by simp [hx]))
    simp only [addOff_cons, List.map_cons, List.zip_cons_cons, ih]
    congr 1
    omega

theorem addOff_of_zip_sub : ∀ (a b : List Nat) (o : List Int), a.length = b.length →
    ((a.zip b).map fun c => (c.2 : Int) - (c.1 : Int)) = o → addOff a o = b.map Int.ofNat
  | [], [], _, _, h => by subst h; rfl
  | [], _ :: _, _, h, _ => by simp at h
  | _ :: _, [], _, h, _ => by simp at h
  | x :: a, y :: b, o, hl, h => by
    simp only [List.length_cons, Nat.add_right_cancel_iff] at hl
    subst h
    simp only [List.zip_cons_cons, List.map_cons, addOff_cons]
    rw [addOff_of_zip_sub a b _ hl rfl]
    congr 1
    simp

/-- the offset from the point at `c` to the point at `c + o` is `o` when both are in the grid -/
theorem offset_index_add (grid c : List Nat) (o : List Int) (hc : InRange grid c)
    (ho : o.length = grid.length) (hco : AddInRange grid c o) :
    offset grid (index grid c) (index grid ((addOff c o).map Int.toNat)) = o := by
  unfold offset
  rw [coords_index grid c hc, coords_index grid _ (forall₂_toNat_inRange _ _ hco)]
  exact zip_addOff_sub c o (by rw [hc.length_eq, ho]) (forall₂_nonneg _ _ hco)

/-- conversely: if some grid point `q` has offset `o` from grid point `p`, then `coords p + o`
    is in range -/
theorem addInRange_of_offset_eq (grid : List Nat) (p q : Nat) (o : List Int)
    (hq : q < numPoints grid) (h : offset grid p q = o) : AddInRange grid (coords grid p) o := by
  unfold AddInRange
  rw [addOff_of_zip_sub (coords grid p) (coords grid q) o
    (by rw [coords_length, coords_length]) h]
  exact forall₂_ofNat_of_inRange grid _ (coords_inRange grid q hq)

/-- indexed form of `AddInRange` (on the list of sums) -/
theorem forall₂_below_iff_getD : ∀ (l : List Int) (grid : List Nat),
    List.Forall₂ (fun (x : Int) (g : Nat) => 0 ≤ x ∧ x < (g : Int)) l grid ↔
      l.length = grid.length ∧
        ∀ k, k < grid.length → 0 ≤ l.getD k 0 ∧ l.getD k 0 < (grid.getD k 0 : Int)
  | [], [] => by simp
  | [], g :: grid => by
    constructor
    · intro h; cases h
    · intro h; simp at h
  | x :: l, [] => by
    constructor
    · intro h; cases h
    · intro h; simp at h
  | x :: l, g :: grid => by
    rw [List.forall₂_cons, forall₂_below_iff_getD l grid]
    constructor
    · rintro ⟨h0, hl, hk⟩
      refine ⟨by simp [hl], ?_⟩
      intro k hk'
      cases k with
      | zero => simpa using h0
      | succ k =>
        simp only [List.length_cons, Nat.add_lt_add_iff_right] at hk'
        simpa using hk k hk'
    · rintro ⟨hl, hk⟩
      refine ⟨by simpa using hk 0 (by simp), by simpa using hl, ?_⟩
      intro k hk'
      simpa using hk (k + 1) (by simpa using hk')

theorem addInRange_iff_getD (grid c : List Nat) (o : List Int) :
    AddInRange grid c o ↔ (addOff c o).length = grid.length ∧
      ∀ k, k < grid.length →
        0 ≤ (addOff c o).getD k 0 ∧ (addOff c o).getD k 0 < (grid.getD k 0 : Int) :=
  forall₂_below_iff_getD _ _

end Raptor.Stencil
