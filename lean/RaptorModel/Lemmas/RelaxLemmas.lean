import RaptorModel.Model.Relax
import Mathlib.Algebra.Field.Defs
import Mathlib.Algebra.Field.Basic
import Mathlib.Algebra.BigOperators.Group.List.Basic
import Mathlib.Tactic.Ring
import Mathlib.Tactic.FieldSimp
import Mathlib.Tactic.LinearCombination
/-!
# Helper lemmas for the relaxation property theorems (C11)

Nothing here changes the model: every lemma is about the functions of `Model/Relax.lean`, with the
`Add/Sub/Mul/Div/Zero/One` instances supplied by Mathlib's `Field`.
-/
namespace Raptor.Relax

/-! ### generic list / fold facts -/
section Generic

/-- a fold whose every step is the identity at `x` returns `x` -/
theorem foldl_fixed {α β : Type} (f : β → α → β) (l : List α) (x : β)
    (h : ∀ a ∈ l, f x a = x) : l.foldl f x = x := by
  induction l with
  | nil => rfl
  | cons a l ih =>
    rw [List.foldl_cons, h a List.mem_cons_self]
    exact ih fun a' ha' => h a' (List.mem_cons_of_mem _ ha')

theorem iter_fixed {α : Type} (f : α → α) (a : α) (h : f a = a) (n : Nat) : iter f n a = a := by
  induction n with
  | zero => rfl
  | succ n ih => simp only [iter, h, ih]

/-- split an indexed list around position `i` -/
theorem zipIdx_split {α : Type} (l : List α) (i : Nat) (hi : i < l.length) :
    l.zipIdx = (l.take i).zipIdx ++ (l[i], i) :: (l.drop (i + 1)).zipIdx (i + 1) := by
  conv_lhs => rw [← List.take_append_drop i l]
  rw [List.zipIdx_append, List.drop_eq_getElem_cons hi, List.zipIdx_cons, List.length_take,
    Nat.zero_add, Nat.min_eq_left (Nat.le_of_lt hi)]

theorem zipIdx_take_snd_lt {α : Type} (l : List α) (i : Nat) (ri : α × Nat)
    (h : ri ∈ (l.take i).zipIdx) : ri.2 < i := by
  obtain ⟨a, j⟩ := ri
  have := (List.mem_zipIdx' h).1
  rw [List.length_take] at this
  exact Nat.lt_of_lt_of_le this (Nat.min_le_left _ _)

theorem zipIdx_drop_snd_gt {α : Type} (l : List α) (i : Nat) (ri : α × Nat)
    (h : ri ∈ (l.drop (i + 1)).zipIdx (i + 1)) : i < ri.2 := by
  obtain ⟨a, j⟩ := ri
  exact (List.mem_zipIdx h).1

end Generic

/-! ### `at'` -/
section At
variable {K : Type} [Zero K]

theorem at'_eq_getElem (x : List K) (i : Nat) (h : i < x.length) : at' x i = x[i] := by
  simp [at', h]

theorem at'_set_self (x : List K) (i : Nat) (v : K) (h : i < x.length) : at' (x.set i v) i = v := by
  simp [at', h]

theorem at'_set_ne (x : List K) (i j : Nat) (v : K) (h : j ≠ i) : at' (x.set i v) j = at' x j := by
  simp [at', List.getElem?_set_ne (Ne.symm h)]

theorem set_at'_self (x : List K) (i : Nat) (h : i < x.length) : x.set i (at' x i) = x := by
  rw [at'_eq_getElem x i h, List.set_getElem_self]

/-- two lists of the same length with the same `at'` everywhere are equal -/
theorem ext_at' (x y : List K) (hl : x.length = y.length) (h : ∀ i, i < y.length → at' x i = at' y i) :
    x = y := by
  apply List.ext_getElem hl
  intro i h1 h2
  rw [← at'_eq_getElem x i h1, ← at'_eq_getElem y i h2]
  exact h i h2

end At

variable {K : Type} [Field K]

/-! ### dot products -/

theorem subDot_eq (row : List (Nat × K)) (x : List K) (init : K) :
    subDot row x init = init - (row.map fun e => e.2 * at' x e.1).sum := by
  induction row generalizing init with
  | nil => simp [subDot]
  | cons e r ih =>
    have : subDot (e :: r) x init = subDot r x (init - e.2 * at' x e.1) := rfl
    rw [this, ih, List.map_cons, List.sum_cons]
    ring

theorem addDot_eq (row : List (Nat × K)) (x : List K) (init : K) :
    addDot row x init = init + (row.map fun e => e.2 * at' x e.1).sum := by
  induction row generalizing init with
  | nil => simp [addDot]
  | cons e r ih =>
    have : addDot (e :: r) x init = addDot r x (init + e.2 * at' x e.1) := rfl
    rw [this, ih, List.map_cons, List.sum_cons]
    ring

/-- the weighted sum of a row depends only on the entries of `x` at the row's columns -/
theorem dot_congr (row : List (Nat × K)) (x y : List K)
    (h : ∀ e ∈ row, at' x e.1 = at' y e.1) :
    (row.map fun e => e.2 * at' x e.1).sum = (row.map fun e => e.2 * at' y e.1).sum := by
  congr 1
  apply List.map_congr_left
  intro e he
  rw [h e he]

/-! ### one SOR row -/

theorem sorRow_length (row : List (Nat × K)) (b : List K) (ω : K) (x : List K) (i : Nat) :
    (sorRow row b ω x i).length = x.length := by
  cases row <;> simp [sorRow]

theorem sorRow_at'_ne (row : List (Nat × K)) (b : List K) (ω : K) (x : List K) (i j : Nat)
    (h : j ≠ i) : at' (sorRow row b ω x i) j = at' x j := by
  cases row <;> simp only [sorRow] <;> exact at'_set_ne _ _ _ _ h

theorem sorRow_at'_self (e : Nat × K) (rest : List (Nat × K)) (b : List K) (ω : K) (x : List K)
    (i : Nat) (h : i < x.length) :
    at' (sorRow (e :: rest) b ω x i) i
      = (ω / e.2) * (at' b i - (rest.map fun e => e.2 * at' x e.1).sum) + (1 - ω) * at' x i := by
  simp only [sorRow]
  rw [at'_set_self _ _ _ h, subDot_eq]

/-- the algebra behind every fixed-point statement of the SOR form -/
theorem sor_alg (ω d xi s bi : K) (hd : d ≠ 0) (h : d * xi + s = bi) :
    (ω / d) * (bi - s) + (1 - ω) * xi = xi := by
  rw [← h]
  field_simp
  ring

/-- converse: with `ω ≠ 0` a row left unchanged satisfies its equation -/
theorem sor_alg_conv (ω d xi s bi : K) (hω : ω ≠ 0) (hd : d ≠ 0)
    (h : xi = (ω / d) * (bi - s) + (1 - ω) * xi) : d * xi + s = bi := by
  have h2 : ω * (bi - s) = ω * (xi * d) := by
    have : (ω / d) * (bi - s) = ω * xi := by linear_combination (-1 : K) * h
    rw [div_mul_eq_mul_div, div_eq_iff hd] at this
    rw [this]; ring
  have h3 := mul_left_cancel₀ hω h2
  linear_combination (-1 : K) * h3

/-- the algebra behind every fixed-point statement of the Jacobi form -/
theorem jac_alg (ω d xi s bi : K) (hd : d ≠ 0) (h : d * xi + s = bi) :
    (1 - ω) * xi + ω * ((bi - s) / d) = xi := by
  rw [← h]
  field_simp
  ring

/-! ### folds of SOR rows over an arbitrary visiting order -/

theorem foldl_sorRow_length (l : List (List (Nat × K) × Nat)) (b : List K) (ω : K) (x : List K) :
    (l.foldl (fun x ri => sorRow ri.1 b ω x ri.2) x).length = x.length := by
  induction l generalizing x with
  | nil => rfl
  | cons a l ih => rw [List.foldl_cons, ih, sorRow_length]

/-- an entry whose index is not visited keeps its value -/
theorem foldl_sorRow_at'_of_not_mem (l : List (List (Nat × K) × Nat)) (b : List K) (ω : K)
    (x : List K) (j : Nat) (h : ∀ ri ∈ l, ri.2 ≠ j) :
    at' (l.foldl (fun x ri => sorRow ri.1 b ω x ri.2) x) j = at' x j := by
  induction l generalizing x with
  | nil => rfl
  | cons a l ih =>
    rw [List.foldl_cons, ih _ (fun ri hri => h ri (List.mem_cons_of_mem _ hri)),
      sorRow_at'_ne _ _ _ _ _ _ (Ne.symm (h a List.mem_cons_self))]

/-! ### one hybrid row -/

theorem hybridRow_length (onRow offRow : List (Nat × K)) (b dist : List K) (ω : K) (x : List K)
    (i : Nat) : (hybridRow onRow offRow b dist ω x i).length = x.length := by
  cases onRow with
  | nil => rfl
  | cons d rest =>
    simp only [hybridRow]
    split <;> simp

theorem hybridRow_at'_ne (onRow offRow : List (Nat × K)) (b dist : List K) (ω : K) (x : List K)
    (i j : Nat) (h : j ≠ i) : at' (hybridRow onRow offRow b dist ω x i) j = at' x j := by
  cases onRow with
  | nil => rfl
  | cons d rest =>
    simp only [hybridRow]
    split
    · rfl
    · exact at'_set_ne _ _ _ _ h

theorem hybridRow_at'_self (d : K) (rest offRow : List (Nat × K)) (b dist : List K) (ω : K)
    (x : List K) (i : Nat) (h : i < x.length) :
    at' (hybridRow ((i, d) :: rest) offRow b dist ω x i) i
      = (1 - ω) * at' x i + ω * ((at' b i - ((rest.map fun e => e.2 * at' x e.1).sum
          + (offRow.map fun e => e.2 * at' dist e.1).sum)) / d) := by
  simp only [hybridRow, bne_self_eq_false, Bool.false_eq_true, if_false]
  rw [at'_set_self _ _ _ h, addDot_eq, addDot_eq, zero_add]

theorem foldl_hybridRow_length (l : List ((List (Nat × K) × List (Nat × K)) × Nat))
    (b dist : List K) (ω : K) (x : List K) :
    (l.foldl (fun x ri => hybridRow ri.1.1 ri.1.2 b dist ω x ri.2) x).length = x.length := by
  induction l generalizing x with
  | nil => rfl
  | cons a l ih => rw [List.foldl_cons, ih, hybridRow_length]

theorem foldl_hybridRow_at'_of_not_mem (l : List ((List (Nat × K) × List (Nat × K)) × Nat))
    (b dist : List K) (ω : K) (x : List K) (j : Nat) (h : ∀ ri ∈ l, ri.2 ≠ j) :
    at' (l.foldl (fun x ri => hybridRow ri.1.1 ri.1.2 b dist ω x ri.2) x) j = at' x j := by
  induction l generalizing x with
  | nil => rfl
  | cons a l ih =>
    rw [List.foldl_cons, ih _ (fun ri hri => h ri (List.mem_cons_of_mem _ hri)),
      hybridRow_at'_ne _ _ _ _ _ _ _ _ (Ne.symm (h a List.mem_cons_self))]

end Raptor.Relax
