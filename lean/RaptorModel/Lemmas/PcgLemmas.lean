import RaptorModel.Lemmas.KrylovLemmas
import RaptorModel.Model.Pcg

/-!
# Lemmas for the preconditioned CG loop (`Raptor.Pcg`)

* the one-step functions of `step` (`stepAlpha`, `stepX`, `stepR`, `stepNext`, `stepP`) and the
  normal form `step_eq`;
* structural facts about `loop`: composition of fuel (`loop_add`), the halting test, iteration
  counts, the reported history as a function of the intermediate states (`loop_res_eq`);
* independence of `loop` from the iteration limit while fuel is the binding constraint
  (`loop_limit`) and from the recompute period when the "full" flags agree (`loop_period_congr`).

No algebraic hypotheses here: everything holds for arbitrary operations on `K`.
-/

namespace Raptor.Pcg
open Raptor.Krylov

section Step
variable {K : Type} [Add K] [Mul K] [Div K] [Neg K] [Zero K]

/-- "this iteration recomputes the residual explicitly": `recompute ≠ 0 ∧ recompute ∣ it` -/
def fullAt (rc it : Nat) : Bool := rc != 0 && it % rc == 0

/-- step length `α = ⟨r,z⟩ / ⟨Ap,p⟩` -/
def stepAlpha (mv : List K → List K) (s : St K) : K := s.rz / dot (mv s.p) s.p
/-- next iterate `x + α p` -/
def stepX (mv : List K → List K) (s : St K) : List K := axpy s.x s.p (stepAlpha mv s)
/-- next residual: explicit at the iterations selected by `fullAt`, else the recurrence -/
def stepR (mv resid : List K → List K) (rc : Nat) (s : St K) : List K :=
  if fullAt rc (s.iter + 1) then resid (stepX mv s) else axpy s.r (mv s.p) (-(stepAlpha mv s))
/-- `next = ⟨r', prec r'⟩` -/
def stepNext (mv resid prec : List K → List K) (rc : Nat) (s : St K) : K :=
  dot (stepR mv resid rc s) (prec (stepR mv resid rc s))
/-- next direction: `z` at a "full" iteration, else `β p + z` -/
def stepP (mv resid prec : List K → List K) (rc : Nat) (s : St K) : List K :=
  if fullAt rc (s.iter + 1) then prec (stepR mv resid rc s)
  else ((scale s.p (stepNext mv resid prec rc s / s.rz)).zip (prec (stepR mv resid rc s))).map
    fun q => q.1 + q.2

variable [Sub K] [LT K] [DecidableLT K]

/-- normal form of the loop body (definitional) -/
theorem step_eq (mv resid prec : List K → List K) (bInner tol : K) (rc : Nat) (s : St K) :
    step mv resid prec bInner tol rc s =
      if stepNext mv resid prec rc s < tol then
        { x := stepX mv s, r := stepR mv resid rc s, p := s.p, rz := s.rz,
          res := s.res ++ [stepNext mv resid prec rc s / bInner], iter := s.iter + 1,
          stopped := true }
      else
        { x := stepX mv s, r := stepR mv resid rc s, p := stepP mv resid prec rc s,
          rz := stepNext mv resid prec rc s,
          res := s.res ++ [stepNext mv resid prec rc s / bInner], iter := s.iter + 1,
          stopped := false } := rfl

variable (mv resid prec : List K → List K) (bInner tol : K) (rc : Nat) (s : St K)

theorem step_x : (step mv resid prec bInner tol rc s).x = stepX mv s := by
  rw [step_eq]; split <;> rfl
theorem step_r : (step mv resid prec bInner tol rc s).r = stepR mv resid rc s := by
  rw [step_eq]; split <;> rfl
theorem step_iter : (step mv resid prec bInner tol rc s).iter = s.iter + 1 := by
  rw [step_eq]; split <;> rfl
theorem step_res : (step mv resid prec bInner tol rc s).res =
    s.res ++ [stepNext mv resid prec rc s / bInner] := by
  rw [step_eq]; split <;> rfl
theorem step_p : (step mv resid prec bInner tol rc s).p =
    if stepNext mv resid prec rc s < tol then s.p else stepP mv resid prec rc s := by
  rw [step_eq]; split <;> rfl
theorem step_stopped : (step mv resid prec bInner tol rc s).stopped =
    decide (stepNext mv resid prec rc s < tol) := by
  rw [step_eq]; split <;> simp [*]

/-- the entry a step appends is `⟨r', prec r'⟩ / bInner` for the NEW residual vector `r'` -/
theorem step_res_r : (step mv resid prec bInner tol rc s).res =
    s.res ++ [dot (step mv resid prec bInner tol rc s).r
      (prec (step mv resid prec bInner tol rc s).r) / bInner] := by
  rw [step_res, step_r]; rfl

/-- the break test of a step is `⟨r', prec r'⟩ < tol` for the NEW residual vector `r'` -/
theorem step_stopped_iff : (step mv resid prec bInner tol rc s).stopped = true ↔
    dot (step mv resid prec bInner tol rc s).r (prec (step mv resid prec bInner tol rc s).r)
      < tol := by
  rw [step_stopped, step_r]; unfold stepNext; exact decide_eq_true_iff

/-- a step depends on the recompute period only through the flag `fullAt rc (iter+1)` -/
theorem step_period_congr (rc' : Nat) (h : fullAt rc (s.iter + 1) = fullAt rc' (s.iter + 1)) :
    step mv resid prec bInner tol rc s = step mv resid prec bInner tol rc' s := by
  have hR : stepR mv resid rc s = stepR mv resid rc' s := by unfold stepR; rw [h]
  have hN : stepNext mv resid prec rc s = stepNext mv resid prec rc' s := by
    unfold stepNext; rw [hR]
  have hP : stepP mv resid prec rc s = stepP mv resid prec rc' s := by
    unfold stepP; rw [h, hR, hN]
  rw [step_eq, step_eq, hR, hN, hP]

end Step

section Halted
variable {K : Type}

/-- the loop's exit test: `break` was taken, or the iteration limit is reached -/
def halted (maxIter : Nat) (s : St K) : Bool := s.stopped || !(s.iter < maxIter)

theorem halted_iff (maxIter : Nat) (s : St K) :
    halted maxIter s = true ↔ s.stopped = true ∨ maxIter ≤ s.iter := by
  simp [halted]

theorem halted_false_iff (maxIter : Nat) (s : St K) :
    halted maxIter s = false ↔ s.stopped = false ∧ s.iter < maxIter := by
  simp [halted]

end Halted

section Loop
variable {K : Type} [Add K] [Sub K] [Mul K] [Div K] [Neg K] [Zero K] [LT K] [DecidableLT K]

variable (mv resid prec : List K → List K) (bInner tol : K) (rc maxIter : Nat)

theorem loop_zero (s : St K) : loop mv resid prec bInner tol rc maxIter 0 s = s := rfl

theorem loop_succ (fuel : Nat) (s : St K) :
    loop mv resid prec bInner tol rc maxIter (fuel + 1) s =
      if halted maxIter s then s
      else loop mv resid prec bInner tol rc maxIter fuel (step mv resid prec bInner tol rc s) :=
  rfl

/-- a halted state is a fixed point of the loop -/
theorem loop_halted (fuel : Nat) (s : St K) (h : halted maxIter s = true) :
    loop mv resid prec bInner tol rc maxIter fuel s = s := by
  cases fuel with
  | zero => rfl
  | succ f => rw [loop_succ, if_pos h]

/-- **fuel composes**: running `k` trips and then `m` more is running `k + m` -/
theorem loop_add (k m : Nat) (s : St K) :
    loop mv resid prec bInner tol rc maxIter (k + m) s =
      loop mv resid prec bInner tol rc maxIter m
        (loop mv resid prec bInner tol rc maxIter k s) := by
  induction k generalizing s with
  | zero => rw [Nat.zero_add, loop_zero]
  | succ k ih =>
    rw [Nat.add_right_comm, loop_succ, loop_succ]
    by_cases h : halted maxIter s = true
    · rw [if_pos h, if_pos h, loop_halted _ _ _ _ _ _ _ _ _ h]
    · rw [if_neg h, if_neg h, ih]

theorem loop_one (s : St K) :
    loop mv resid prec bInner tol rc maxIter 1 s =
      if halted maxIter s then s else step mv resid prec bInner tol rc s := rfl

/-- the state after `k + 1` trips from the state after `k` trips -/
theorem loop_succ_right (k : Nat) (s : St K) :
    loop mv resid prec bInner tol rc maxIter (k + 1) s =
      if halted maxIter (loop mv resid prec bInner tol rc maxIter k s) then
        loop mv resid prec bInner tol rc maxIter k s
      else step mv resid prec bInner tol rc (loop mv resid prec bInner tol rc maxIter k s) := by
  rw [loop_add, loop_one]

/-- once halted, more fuel changes nothing -/
theorem loop_stable (j k : Nat) (s : St K) (hjk : j ≤ k)
    (h : halted maxIter (loop mv resid prec bInner tol rc maxIter j s) = true) :
    loop mv resid prec bInner tol rc maxIter k s = loop mv resid prec bInner tol rc maxIter j s := by
  obtain ⟨d, rfl⟩ := Nat.exists_eq_add_of_le hjk
  rw [loop_add, loop_halted _ _ _ _ _ _ _ _ _ h]

theorem loop_not_halted_le (j k : Nat) (s : St K) (hjk : j ≤ k)
    (h : halted maxIter (loop mv resid prec bInner tol rc maxIter k s) = false) :
    halted maxIter (loop mv resid prec bInner tol rc maxIter j s) = false := by
  cases hj : halted maxIter (loop mv resid prec bInner tol rc maxIter j s) with
  | false => rfl
  | true =>
    rw [loop_stable _ _ _ _ _ _ _ j k s hjk hj, hj] at h
    exact h

theorem loop_iter_ge (k : Nat) (s : St K) :
    s.iter ≤ (loop mv resid prec bInner tol rc maxIter k s).iter := by
  induction k generalizing s with
  | zero => exact Nat.le_refl _
  | succ k ih =>
    rw [loop_succ]
    split
    · exact Nat.le_refl _
    · have := ih (step mv resid prec bInner tol rc s)
      rw [step_iter] at this; omega

theorem loop_iter_le_fuel (k : Nat) (s : St K) :
    (loop mv resid prec bInner tol rc maxIter k s).iter ≤ s.iter + k := by
  induction k generalizing s with
  | zero => exact Nat.le_refl _
  | succ k ih =>
    rw [loop_succ]
    split
    · omega
    · have := ih (step mv resid prec bInner tol rc s)
      rw [step_iter] at this; omega

theorem loop_iter_le_max (k : Nat) (s : St K) (h : s.iter ≤ maxIter) :
    (loop mv resid prec bInner tol rc maxIter k s).iter ≤ maxIter := by
  induction k generalizing s with
  | zero => exact h
  | succ k ih =>
    rw [loop_succ]
    split
    · exact h
    · next hh =>
      have hh' := (halted_false_iff maxIter s).1 (by simpa using hh)
      exact ih _ (by rw [step_iter]; omega)

/-- while the loop has not halted, every unit of fuel was one iteration -/
theorem loop_iter_of_not_halted (k : Nat) (s : St K)
    (h : halted maxIter (loop mv resid prec bInner tol rc maxIter k s) = false) :
    (loop mv resid prec bInner tol rc maxIter k s).iter = s.iter + k := by
  induction k with
  | zero => rfl
  | succ k ih =>
    have hk := loop_not_halted_le mv resid prec bInner tol rc maxIter k (k + 1) s (Nat.le_succ _) h
    rw [loop_succ_right, hk]
    simp only [Bool.false_eq_true, if_false]
    rw [step_iter, ih hk]; omega

/-- with fuel at least `maxIter − iter` the loop ends in a halted state -/
theorem loop_halted_of_fuel (k : Nat) (s : St K) (h : maxIter ≤ s.iter + k) :
    halted maxIter (loop mv resid prec bInner tol rc maxIter k s) = true := by
  induction k generalizing s with
  | zero => rw [loop_zero, halted_iff]; right; omega
  | succ k ih =>
    rw [loop_succ]
    split
    · next hh => exact hh
    · exact ih _ (by rw [step_iter]; omega)

/-- the quantity the loop reports for a state: `⟨r, prec r⟩ / bInner` -/
def rhoSt (prec : List K → List K) (bInner : K) (s : St K) : K := dot s.r (prec s.r) / bInner

/-- **history = entry history ++ the reports of the states after 1, 2, … trips** -/
theorem loop_res_eq (k : Nat) (s : St K) :
    (loop mv resid prec bInner tol rc maxIter k s).res =
      s.res ++ (List.range ((loop mv resid prec bInner tol rc maxIter k s).iter - s.iter)).map
        fun j => rhoSt prec bInner (loop mv resid prec bInner tol rc maxIter (j + 1) s) := by
  induction k with
  | zero => simp [loop_zero]
  | succ k ih =>
    rw [loop_succ_right]
    cases hk : halted maxIter (loop mv resid prec bInner tol rc maxIter k s) with
    | true => simpa using ih
    | false =>
      have hit := loop_iter_of_not_halted mv resid prec bInner tol rc maxIter k s hk
      simp only [Bool.false_eq_true, if_false]
      rw [step_res_r, step_iter, ih, hit]
      have e : s.iter + k + 1 - s.iter = k + 1 := by omega
      have e' : s.iter + k - s.iter = k := by omega
      rw [e, e', List.range_succ, List.map_append, List.append_assoc]
      congr 2
      simp only [List.map_cons, List.map_nil, rhoSt]
      rw [loop_succ_right, hk]
      simp only [Bool.false_eq_true, if_false]

theorem loop_res_length (k : Nat) (s : St K) :
    (loop mv resid prec bInner tol rc maxIter k s).res.length =
      s.res.length + ((loop mv resid prec bInner tol rc maxIter k s).iter - s.iter) := by
  rw [loop_res_eq]; simp

/-- while fuel (not the limit) is what bounds the number of trips, the limit is irrelevant -/
theorem loop_limit (m M : Nat) (k : Nat) (s : St K) (hm : s.iter + k ≤ m) (hM : s.iter + k ≤ M) :
    loop mv resid prec bInner tol rc m k s = loop mv resid prec bInner tol rc M k s := by
  induction k generalizing s with
  | zero => rfl
  | succ k ih =>
    rw [loop_succ, loop_succ]
    have e : halted m s = halted M s := by
      have h1 : decide (s.iter < m) = true := by simp; omega
      have h2 : decide (s.iter < M) = true := by simp; omega
      simp only [halted, h1, h2]
    rw [e]
    split
    · rfl
    · exact ih _ (by rw [step_iter]; omega) (by rw [step_iter]; omega)

/-- the loop depends on the recompute period only through the flags at the iteration numbers
    it can reach -/
theorem loop_period_congr (rc' : Nat) (k : Nat) (s : St K)
    (h : ∀ i, s.iter < i → i ≤ maxIter → fullAt rc i = fullAt rc' i) :
    loop mv resid prec bInner tol rc maxIter k s = loop mv resid prec bInner tol rc' maxIter k s := by
  induction k generalizing s with
  | zero => rfl
  | succ k ih =>
    rw [loop_succ, loop_succ]
    split
    · rfl
    · next hh =>
      have hh' := (halted_false_iff maxIter s).1 (by simpa using hh)
      rw [step_period_congr mv resid prec bInner tol rc s rc' (h _ (by omega) (by omega))]
      apply ih
      intro i hi1 hi2
      rw [step_iter] at hi1
      exact h i (by omega) hi2

/-- "the tolerance is met": below it (the `break` test inside the loop) or not above it (the test before the loop) -/
def MetTol [LT K] (tol v : K) : Prop := v < tol ∨ ¬ tol < v

/-- whenever the `stopped` flag is set, the stored residual meets the tolerance (entry states that are stopped already —
    the start met the tolerance — included) -/
theorem loop_stopMet (k : Nat) (s : St K)
    (h : s.stopped = true → MetTol tol (dot s.r (prec s.r))) :
    (loop mv resid prec bInner tol rc maxIter k s).stopped = true →
      MetTol tol (dot (loop mv resid prec bInner tol rc maxIter k s).r
        (prec (loop mv resid prec bInner tol rc maxIter k s).r)) := by
  induction k with
  | zero => exact h
  | succ k ih =>
    rw [loop_succ_right]
    split
    · exact ih
    · exact fun hs => Or.inl ((step_stopped_iff mv resid prec bInner tol rc _).1 hs)

/-- whenever the `stopped` flag is set, the stored residual meets the break test -/
theorem loop_stopOk (k : Nat) (s : St K)
    (h : s.stopped = true → dot s.r (prec s.r) < tol) :
    (loop mv resid prec bInner tol rc maxIter k s).stopped = true →
      dot (loop mv resid prec bInner tol rc maxIter k s).r
        (prec (loop mv resid prec bInner tol rc maxIter k s).r) < tol := by
  induction k with
  | zero => exact h
  | succ k ih =>
    rw [loop_succ_right]
    split
    · exact ih
    · exact (step_stopped_iff mv resid prec bInner tol rc _).1

end Loop

end Raptor.Pcg
