import RaptorModel.Model.Tap
import RaptorModel.Lemmas.CommLemmas
/-!
# Helper lemmas for the node-aware exchange property theorems (C04)

Nothing here changes the model: every lemma is about the functions of `Model/Tap.lean`.
-/
namespace Raptor.Tap
open Raptor.Comm

variable {α β : Type}

/-! ### naturality of the sub-package exchange -/
section Natural

theorem subMsg_natural_aux (f : α → β) (d : α) (pk : List SubPkg) (vals : List (List α)) (p r : Nat) :
    subMsg (f d) pk (vals.map (List.map f)) p r = (subMsg d pk vals p r).map f := by
  unfold subMsg
  cases (pk.getD p default).send.find? (fun m => m.1 == r) with
  | none => rfl
  | some m =>
    dsimp only
    rw [List.map_map]
    apply List.map_congr_left
    intro i _
    rw [getD_map_nil (List.map f) rfl, getD_map_apply]
    rfl

theorem subExchange_natural_aux (f : α → β) (d : α) (pk : List SubPkg) (vals : List (List α)) (r : Nat) :
    subExchange (f d) pk (vals.map (List.map f)) r = (subExchange d pk vals r).map f := by
  unfold subExchange
  rw [List.map_flatMap]
  apply List.flatMap_congr
  intro m _
  exact subMsg_natural_aux f d pk vals m.1 r

theorem subExchangeAll_natural_aux (f : α → β) (d : α) (np : Nat) (pk : List SubPkg)
    (vals : List (List α)) :
    subExchangeAll (f d) np pk (vals.map (List.map f)) = (subExchangeAll d np pk vals).map (List.map f) := by
  unfold subExchangeAll
  rw [List.map_map]
  apply List.map_congr_left
  intro r _
  exact subExchange_natural_aux f d pk vals r

end Natural

/-! ### `scatter` -/
section Scatter

theorem scatter_nil_idx (buf : List (Option α)) (vals : List α) : scatter buf [] vals = buf := rfl

theorem scatter_nil_vals (buf : List (Option α)) (idx : List Nat) : scatter buf idx [] = buf := by
  unfold scatter
  rw [List.zip_nil_right]
  rfl

theorem scatter_cons (buf : List (Option α)) (i : Nat) (idx : List Nat) (v : α) (vals : List α) :
    scatter buf (i :: idx) (v :: vals) = scatter (buf.set i (some v)) idx vals := rfl

theorem scatter_natural_aux (f : α → β) (idx : List Nat) :
    ∀ (buf : List (Option α)) (vals : List α),
      scatter (buf.map (Option.map f)) idx (vals.map f) = (scatter buf idx vals).map (Option.map f) := by
  induction idx with
  | nil => intro buf vals; rfl
  | cons i t ih =>
    intro buf vals
    cases vals with
    | nil => rw [List.map_nil, scatter_nil_vals, scatter_nil_vals]
    | cons v vs =>
      rw [List.map_cons, scatter_cons, scatter_cons, ← ih, List.map_set]
      rfl

theorem scatter_length (idx : List Nat) :
    ∀ (buf : List (Option α)) (vals : List α), (scatter buf idx vals).length = buf.length := by
  induction idx with
  | nil => intro buf vals; rfl
  | cons i t ih =>
    intro buf vals
    cases vals with
    | nil => rw [scatter_nil_vals]
    | cons v vs => rw [scatter_cons, ih, List.length_set]

/-- a position that is not a target keeps its content -/
theorem scatter_getElem?_of_not_mem (idx : List Nat) (j : Nat) (hj : j ∉ idx) :
    ∀ (buf : List (Option α)) (vals : List α), (scatter buf idx vals)[j]? = buf[j]? := by
  induction idx with
  | nil => intro buf vals; rfl
  | cons i t ih =>
    intro buf vals
    cases vals with
    | nil => rw [scatter_nil_vals]
    | cons v vs =>
      rw [scatter_cons, ih (fun h => hj (List.mem_cons_of_mem _ h)), List.getElem?_set_ne]
      intro e; exact hj (e ▸ List.mem_cons_self)

end Scatter

/-! ### the whole node-aware exchange -/
section Forward

theorem tapForward_natural_aux (f : α → β) (d : α) (T : TapPkg) (x : List (List α)) (r : Nat) :
    tapForward (f d) T (x.map (List.map f)) r = (tapForward d T x r).map (Option.map f) := by
  unfold tapForward
  dsimp only
  have e1 : (if T.hasS = true then subExchangeAll (f d) T.np T.S (x.map (List.map f)) else x.map (List.map f))
      = (if T.hasS = true then subExchangeAll d T.np T.S x else x).map (List.map f) := by
    split
    · exact subExchangeAll_natural_aux f d T.np T.S x
    · rfl
  have e2 : List.replicate (T.recvSize.getD r 0) (none : Option β)
      = (List.replicate (T.recvSize.getD r 0) (none : Option α)).map (Option.map f) := by
    rw [List.map_replicate]; rfl
  rw [e1, subExchangeAll_natural_aux, subExchange_natural_aux, subExchange_natural_aux, e2,
    scatter_natural_aux, scatter_natural_aux]

theorem tapForward_length_aux (d : α) (T : TapPkg) (x : List (List α)) (r : Nat) :
    (tapForward d T x r).length = T.recvSize.getD r 0 := by
  unfold tapForward
  dsimp only
  rw [scatter_length, scatter_length, List.length_replicate]

end Forward

/-! ### the identity payload -/
section Ids

theorem ids_eq_globalIdx (fc : List Nat) (np : Nat) : ids fc np = globalIdx fc np := by
  unfold ids globalIdx
  apply List.map_congr_left
  intro p _
  rw [List.range'_eq_map_range]

theorem ids_length (fc : List Nat) (np : Nat) : (ids fc np).length = np := by
  unfold ids
  rw [List.length_map, List.length_range]

theorem ids_getElem (fc : List Nat) (np : Nat) (p : Nat) (hp : p < (ids fc np).length) :
    (ids fc np)[p] = (List.range (fc.getD (p+1) 0 - fc.getD p 0)).map fun i => fc.getD p 0 + i := by
  simp only [ids, List.getElem_map, List.getElem_range]

/-- the value attached to global index `c` by a distributed payload `x` -/
def valOf (d : α) (fc : List Nat) (x : List (List α)) (c : Nat) : α :=
  (x.getD (owner fc c) []).getD (c - fc.getD (owner fc c) 0) d

theorem haloSpec_eq_map_valOf (d : α) (fc : List Nat) (off : List (List Nat)) (x : List (List α)) (r : Nat) :
    haloSpec d fc off x r = (off.getD r []).map (valOf d fc x) := rfl

/-- a payload with the right shape is the identity payload mapped through its own values -/
theorem payload_eq_ids_map {fc : List Nat} {np : Nat} (h : FcOk fc np) (d : α) (x : List (List α))
    (hx : x.length = np)
    (hxl : ∀ p, p < np → (x.getD p []).length = fc.getD (p+1) 0 - fc.getD p 0) :
    (ids fc np).map (List.map (valOf d fc x)) = x := by
  apply List.ext_getElem
  · rw [List.length_map, ids_length, hx]
  · intro p h1 h2
    have hp : p < np := by rw [hx] at h2; exact h2
    have hlen := hxl p hp
    have exp : x.getD p [] = x[p] := by
      rw [List.getD_eq_getElem?_getD, List.getElem?_eq_getElem h2]; rfl
    rw [exp] at hlen
    rw [List.getElem_map, ids_getElem, List.map_map]
    apply List.ext_getElem
    · rw [List.length_map, List.length_range, hlen]
    · intro i hi1 hi2
      rw [List.getElem_map, List.getElem_range]
      have hi : i < fc.getD (p+1) 0 - fc.getD p 0 := by rw [← hlen]; exact hi2
      have ho : p = owner fc (fc.getD p 0 + i) :=
        owner_unique_aux h hp (Nat.le_add_right _ _) (by omega)
      simp only [Function.comp_apply]
      unfold valOf
      rw [← ho, exp, Nat.add_sub_cancel_left, List.getD_eq_getElem?_getD,
        List.getElem?_eq_getElem hi2]
      rfl

end Ids

/-! ### `subConsistent` -/
section Consistent

/-- the first clause of `subConsistent` for rank `r`: every receive message is matched by a send
    message of the announced length -/
theorem subConsistent_recv {np : Nat} {pk : List SubPkg} (hc : subConsistent np pk = true)
    {r : Nat} (hr : r < np) :
    ∀ m ∈ (pk.getD r default).recv,
      ∃ s, (pk.getD m.1 default).send.find? (fun s => s.1 == r) = some s ∧ s.2.length = m.2 := by
  unfold subConsistent at hc
  rw [List.all_eq_true] at hc
  have h := hc r (List.mem_range.2 hr)
  simp only [Bool.and_eq_true] at h
  obtain ⟨⟨⟨h1, _⟩, _⟩, _⟩ := h
  rw [List.all_eq_true] at h1
  intro m hm
  have h2 := h1 m hm
  cases hf : (pk.getD m.1 default).send.find? (fun s => s.1 == r) with
  | none => rw [hf] at h2; cases h2
  | some s =>
    rw [hf] at h2
    exact ⟨s, rfl, by simpa using h2⟩

theorem subMsg_length_of_find {d : α} {pk : List SubPkg} {vals : List (List α)} {p r : Nat}
    {s : Nat × List Nat} (hf : (pk.getD p default).send.find? (fun s => s.1 == r) = some s) :
    (subMsg d pk vals p r).length = s.2.length := by
  unfold subMsg
  rw [hf]
  dsimp only
  rw [List.length_map]

theorem subExchange_length_aux (d : α) {np : Nat} {pk : List SubPkg} (vals : List (List α))
    (hc : subConsistent np pk = true) {r : Nat} (hr : r < np) :
    (subExchange d pk vals r).length = ((pk.getD r default).recv.map (·.2)).sum := by
  unfold subExchange
  rw [List.length_flatMap]
  congr 1
  apply List.map_congr_left
  intro m hm
  obtain ⟨s, hf, hl⟩ := subConsistent_recv hc hr m hm
  rw [subMsg_length_of_find hf, hl]

end Consistent

end Raptor.Tap
