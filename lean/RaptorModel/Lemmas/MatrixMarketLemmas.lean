import RaptorModel.Model.MatrixMarket
import RaptorModel.Lemmas.SparseLemmas
import Mathlib.Data.List.Perm.Subperm
import Mathlib.Data.List.Nodup
/-!
# Helper lemmas for C19MM (Matrix Market coordinate files)

* `lineEntries sym l` is what one line of the file contributes; `readEntries` is the `flatMap` of it
  over the declared prefix of the lines (`readEntries_eq`, by `rfl`).
* `shiftE e` is the 1-based line `write_mm` prints for the entry `e`; reading it back with a general
  banner gives `[e]`, with a symmetric banner `e` and, off the diagonal, its mirror image `swapE e`.
* `denE` of a position filter (`denE_filter_pos`) and the operator symmetry of an entry list closed
  under `swapE` without repetitions (`map_swapE_perm`, `denE_symm_of_closed`).
-/
namespace Raptor.MatrixMarket
open Raptor.Sparse

variable {K : Type}

/-- the entries one line `(row, col, value)` (1-based) stands for -/
def lineEntries (sym : Bool) (l : Nat × Nat × K) : List (Entry K) :=
  (l.1 - 1, l.2.1 - 1, l.2.2) :: (if sym && l.1 != l.2.1 then [(l.2.1 - 1, l.1 - 1, l.2.2)] else [])

/-- the line printed for an entry: indices shifted to 1-based -/
def shiftE (e : Entry K) : Nat × Nat × K := (e.1 + 1, e.2.1 + 1, e.2.2)

theorem readEntries_eq (f : MMFile K) :
    readEntries f = (f.lines.take f.nnzDeclared).flatMap (lineEntries f.symmetric) := rfl

theorem writeMM_lines (A : Csr K) : (writeMM A).lines = A.entries.map shiftE := rfl

theorem symmetricFile_lines (n : Nat) (es : List (Entry K)) :
    (symmetricFile n es).lines = (lowerTriangle es).map shiftE := rfl

theorem lineEntries_false (l : Nat × Nat × K) :
    lineEntries false l = [(l.1 - 1, l.2.1 - 1, l.2.2)] := by
  simp [lineEntries]

theorem lineEntries_true_diag (r : Nat) (v : K) :
    lineEntries true (r, r, v) = [(r - 1, r - 1, v)] := by
  simp [lineEntries]

theorem lineEntries_true_offdiag (r c : Nat) (v : K) (h : r ≠ c) :
    lineEntries true (r, c, v) = [(r - 1, c - 1, v), (c - 1, r - 1, v)] := by
  simp [lineEntries, h]

theorem lineEntries_false_shiftE (e : Entry K) : lineEntries false (shiftE e) = [e] := by
  simp [lineEntries, shiftE]

theorem lineEntries_true_shiftE_diag (e : Entry K) (h : e.1 = e.2.1) :
    lineEntries true (shiftE e) = [e] := by
  obtain ⟨r, c, v⟩ := e
  simp only at h
  subst h
  simp [lineEntries, shiftE]

theorem lineEntries_true_shiftE_offdiag (e : Entry K) (h : e.1 ≠ e.2.1) :
    lineEntries true (shiftE e) = [e, swapE e] := by
  simp [lineEntries, shiftE, swapE, h]

theorem flatMap_lineEntries_false_shiftE (es : List (Entry K)) :
    (es.map shiftE).flatMap (lineEntries false) = es := by
  induction es with
  | nil => rfl
  | cons e es ih =>
    rw [List.map_cons, List.flatMap_cons, ih, lineEntries_false_shiftE]
    rfl

/-- general banner: one entry per line -/
theorem flatMap_lineEntries_false (ls : List (Nat × Nat × K)) :
    ls.flatMap (lineEntries false) = ls.map fun l => (l.1 - 1, l.2.1 - 1, l.2.2) := by
  induction ls with
  | nil => rfl
  | cons l ls ih =>
    rw [List.flatMap_cons, ih, lineEntries_false]
    rfl

/-- symmetric banner: every line gives its entry, the off-diagonal ones also the mirror image -/
theorem flatMap_lineEntries_true_perm (es : List (Entry K)) :
    ((es.map shiftE).flatMap (lineEntries true)).Perm
      (es ++ (es.filter fun e => e.1 != e.2.1).map swapE) := by
  induction es with
  | nil => exact List.Perm.refl _
  | cons e es ih =>
    rw [List.map_cons, List.flatMap_cons, List.filter_cons]
    by_cases h : e.1 = e.2.1
    · have hb : (e.1 != e.2.1) = false := by simp [h]
      rw [lineEntries_true_shiftE_diag e h, hb]
      exact ih.cons e
    · have hb : (e.1 != e.2.1) = true := by simp [h]
      rw [lineEntries_true_shiftE_offdiag e h, hb, if_pos rfl, List.map_cons]
      refine List.Perm.cons e ?_
      exact (ih.cons (swapE e)).trans List.perm_middle.symm

theorem length_flatMap_lineEntries_true (ls : List (Nat × Nat × K)) :
    (ls.flatMap (lineEntries true)).length
      = ls.length + (ls.filter fun l => l.1 != l.2.1).length := by
  induction ls with
  | nil => rfl
  | cons l ls ih =>
    rw [List.flatMap_cons, List.length_append, ih, List.filter_cons]
    by_cases h : l.1 = l.2.1
    · have hb : (l.1 != l.2.1) = false := by simp [h]
      simp only [lineEntries, hb, Bool.and_false, Bool.false_eq_true, if_false,
        List.length_cons, List.length_nil]
      omega
    · have hb : (l.1 != l.2.1) = true := by simp [h]
      simp only [lineEntries, hb, Bool.and_true, if_true, List.length_cons, List.length_nil]
      omega

/-! ## index ranges -/

theorem mem_lineEntries {sym : Bool} {l : Nat × Nat × K} {e : Entry K} (he : e ∈ lineEntries sym l) :
    e = (l.1 - 1, l.2.1 - 1, l.2.2) ∨ (sym = true ∧ e = (l.2.1 - 1, l.1 - 1, l.2.2)) := by
  unfold lineEntries at he
  rcases List.mem_cons.mp he with h | h
  · exact Or.inl h
  · split at h
    · rename_i hc
      simp only [Bool.and_eq_true] at hc
      exact Or.inr ⟨hc.1, List.mem_singleton.mp h⟩
    · simp at h

theorem MMFile.WF_iff {f : MMFile K} :
    f.WF = true ↔ f.nnzDeclared = f.lines.length ∧
      ∀ l ∈ f.lines, 1 ≤ l.1 ∧ l.1 ≤ f.nRows ∧ 1 ≤ l.2.1 ∧ l.2.1 ≤ f.nCols := by
  simp [MMFile.WF, and_assoc]

/-! ## dense image of position filters, symmetric entry lists -/

section Monoid
variable [AddCommMonoid K]

/-- a filter that only looks at the position keeps or kills the whole dense image at `(i, j)` -/
theorem denE_filter_pos (p : Nat → Nat → Bool) (es : List (Entry K)) (i j : Nat) :
    denE (es.filter fun e => p e.1 e.2.1) i j = if p i j = true then denE es i j else 0 := by
  induction es with
  | nil => simp [denE_nil]
  | cons e es ih =>
    rw [List.filter_cons]
    by_cases hpos : e.1 = i ∧ e.2.1 = j
    · obtain ⟨h1, h2⟩ := hpos
      by_cases hp : p i j = true
      · have hq : p e.1 e.2.1 = true := by rw [h1, h2]; exact hp
        rw [if_pos hq, denE_cons, denE_cons, ih]
        simp only [hp, if_true]
      · have hq : ¬ p e.1 e.2.1 = true := by rw [h1, h2]; exact hp
        rw [if_neg hq, ih, if_neg hp, if_neg hp]
    · have hb : ¬ ((e.1 == i && e.2.1 == j) = true) := by
        simpa only [Bool.and_eq_true, beq_iff_eq] using hpos
      split
      · rw [denE_cons, ih, if_neg hb, zero_add]
        split
        · rw [denE_cons, if_neg hb, zero_add]
        · rfl
      · rw [ih]
        split
        · rw [denE_cons, if_neg hb, zero_add]
        · rfl

end Monoid

theorem swapE_swapE (e : Entry K) : swapE (swapE e) = e := rfl

theorem swapE_injective : Function.Injective (swapE : Entry K → Entry K) := by
  intro a b h
  have := congrArg swapE h
  simpa only [swapE_swapE] using this

/-- an entry list without repetitions that contains the mirror image of each of its entries is
    a permutation of its own mirror image -/
theorem map_swapE_perm {es : List (Entry K)} (hnd : es.Nodup) (hsym : ∀ e ∈ es, swapE e ∈ es) :
    (es.map swapE).Perm es := by
  have hnd' : (es.map swapE).Nodup := hnd.map swapE_injective
  have hsub : es.map swapE ⊆ es := by
    intro x hx
    obtain ⟨e, he, rfl⟩ := List.mem_map.mp hx
    exact hsym e he
  exact (List.subperm_of_subset hnd' hsub).perm_of_length_le (by rw [List.length_map]; exact Nat.le_refl _)

theorem nodup_of_nodup_pos {es : List (Entry K)} (h : (es.map fun e => (e.1, e.2.1)).Nodup) :
    es.Nodup := List.Nodup.of_map _ h

section Monoid
variable [AddCommMonoid K]

theorem denE_symm_of_closed {es : List (Entry K)} (hnd : es.Nodup)
    (hsym : ∀ e ∈ es, swapE e ∈ es) (i j : Nat) : denE es i j = denE es j i := by
  rw [← denE_map_swapE es j i]
  exact denE_perm (map_swapE_perm hnd hsym) j i

end Monoid

end Raptor.MatrixMarket
