import RaptorModel.Model.Comm
import Mathlib.Algebra.BigOperators.Group.List.Basic
import Mathlib.Algebra.Ring.Defs
import Mathlib.Tactic.Ring
/-!
# Helper lemmas for the halo-exchange property theorems (C03)

Nothing here changes the model: every lemma is about the functions of `Model/Comm.lean`.
-/
namespace Raptor.Comm

/-- validity of a gathered `first_cols` array: one entry per rank plus the total, starting at 0,
    non-decreasing (empty ranks allowed) -/
structure FcOk (fc : List Nat) (np : Nat) : Prop where
  len : fc.length = np + 1
  zero : fc.getD 0 0 = 0
  mono : ∀ a, a < np → fc.getD a 0 ≤ fc.getD (a+1) 0

/-! ### `owner` -/
section Owner

theorem FcOk.mono_le {fc : List Nat} {np : Nat} (h : FcOk fc np) {a b : Nat} (hab : a ≤ b) (hb : b ≤ np) :
    fc.getD a 0 ≤ fc.getD b 0 := by
  induction b with
  | zero => have : a = 0 := by omega
            subst this; exact Nat.le_refl _
  | succ n ih =>
    rcases Nat.lt_or_ge a (n+1) with h1 | h1
    · exact Nat.le_trans (ih (by omega) (by omega)) (h.mono n (by omega))
    · have : a = n + 1 := by omega
      subst this; exact Nat.le_refl _

/-- some rank's range contains `c` (needs only `fc[0] = 0`) -/
theorem exists_range_of_lt {fc : List Nat} (h0 : fc.getD 0 0 = 0) {c : Nat} :
    ∀ n, c < fc.getD n 0 → ∃ p, p < n ∧ fc.getD p 0 ≤ c ∧ c < fc.getD (p+1) 0 := by
  intro n
  induction n with
  | zero => intro h; omega
  | succ n ih =>
    intro h
    rcases Nat.lt_or_ge c (fc.getD n 0) with h1 | h1
    · obtain ⟨p, hp, h2⟩ := ih h1
      exact ⟨p, by omega, h2⟩
    · exact ⟨n, by omega, h1, h⟩

/-- whatever `find?` returns satisfies the range test -/
theorem owner_of_find {fc : List Nat} {c p : Nat}
    (h : (List.range (fc.length - 1)).find? (fun p => fc.getD p 0 ≤ c && c < fc.getD (p+1) 0) = some p) :
    owner fc c = p ∧ p < fc.length - 1 ∧ fc.getD p 0 ≤ c ∧ c < fc.getD (p+1) 0 := by
  have h1 := List.find?_some h
  have h2 := List.mem_of_find?_eq_some h
  rw [List.mem_range] at h2
  simp only [Bool.and_eq_true, decide_eq_true_eq] at h1
  refine ⟨?_, h2, h1.1, h1.2⟩
  unfold owner; rw [h]; rfl

theorem owner_spec_aux {fc : List Nat} {np : Nat} (h : FcOk fc np) {c : Nat} (hc : c < fc.getD np 0) :
    owner fc c < np ∧ fc.getD (owner fc c) 0 ≤ c ∧ c < fc.getD (owner fc c + 1) 0 := by
  obtain ⟨p, hp, hp1, hp2⟩ := exists_range_of_lt h.zero np hc
  cases hf : (List.range (fc.length - 1)).find? (fun p => fc.getD p 0 ≤ c && c < fc.getD (p+1) 0) with
  | none =>
    rw [List.find?_eq_none] at hf
    have := hf p (by rw [List.mem_range, h.len]; omega)
    simp only [Bool.and_eq_true, decide_eq_true_eq] at this
    exact absurd ⟨hp1, hp2⟩ this
  | some q =>
    obtain ⟨e, hq, h1, h2⟩ := owner_of_find hf
    rw [e]; rw [h.len] at hq
    exact ⟨by omega, h1, h2⟩

theorem owner_unique_aux {fc : List Nat} {np : Nat} (h : FcOk fc np) {c p : Nat} (hp : p < np)
    (h1 : fc.getD p 0 ≤ c) (h2 : c < fc.getD (p+1) 0) : p = owner fc c := by
  have hc : c < fc.getD np 0 := Nat.lt_of_lt_of_le h2 (h.mono_le (by omega) (Nat.le_refl _))
  obtain ⟨hq, hq1, hq2⟩ := owner_spec_aux h hc
  rcases Nat.lt_trichotomy p (owner fc c) with hlt | heq | hgt
  · have := h.mono_le (a := p+1) (b := owner fc c) (by omega) (by omega)
    omega
  · exact heq
  · have := h.mono_le (a := owner fc c + 1) (b := p) (by omega) (by omega)
    omega

theorem owner_mono_aux {fc : List Nat} {np : Nat} (h : FcOk fc np) {c c' : Nat} (hcc : c ≤ c')
    (hc' : c' < fc.getD np 0) : owner fc c ≤ owner fc c' := by
  obtain ⟨hq, hq1, hq2⟩ := owner_spec_aux h (Nat.lt_of_le_of_lt hcc hc')
  obtain ⟨hr, hr1, hr2⟩ := owner_spec_aux h hc'
  rcases Nat.lt_or_ge (owner fc c') (owner fc c) with hlt | hge
  · have := h.mono_le (a := owner fc c' + 1) (b := owner fc c) (by omega) (by omega)
    omega
  · exact hge

/-- `owner` never leaves `0..np-1` (as soon as there is at least one rank), whatever `fc` holds -/
theorem owner_lt_of_len {fc : List Nat} {np : Nat} (hl : fc.length = np + 1) (hnp : 0 < np) (c : Nat) :
    owner fc c < np := by
  cases hf : (List.range (fc.length - 1)).find? (fun p => fc.getD p 0 ≤ c && c < fc.getD (p+1) 0) with
  | none => unfold owner; rw [hf]; exact hnp
  | some q =>
    obtain ⟨e, hq, _, _⟩ := owner_of_find hf
    rw [e]; omega

/-- on sorted in-range columns the owners are sorted -/
theorem owners_sorted {fc : List Nat} {np : Nat} (h : FcOk fc np) {cols : List Nat}
    (hs : cols.Pairwise (· ≤ ·)) (hb : ∀ c ∈ cols, c < fc.getD np 0) :
    (cols.map (owner fc)).Pairwise (· ≤ ·) := by
  rw [List.pairwise_map]
  induction cols with
  | nil => exact List.Pairwise.nil
  | cons a t ih =>
    rw [List.pairwise_cons] at hs ⊢
    refine ⟨fun b hbm => owner_mono_aux h (hs.1 b hbm) (hb b (List.mem_cons_of_mem _ hbm)), ?_⟩
    exact ih hs.2 (fun c hc => hb c (List.mem_cons_of_mem _ hc))

end Owner

/-! ### `groupRuns` -/
section GroupRuns

theorem groupRuns_nil : groupRuns [] = [] := rfl

theorem groupRuns_cons (p : Nat) (rest : List Nat) :
    groupRuns (p :: rest) =
      match groupRuns rest with
      | (q, k) :: tl => if p == q then (q, k + 1) :: tl else (p, 1) :: (q, k) :: tl
      | [] => [(p, 1)] := rfl

/-- expanding the runs gives the list back -/
theorem groupRuns_expand_aux (l : List Nat) :
    (groupRuns l).flatMap (fun m => List.replicate m.2 m.1) = l := by
  induction l with
  | nil => rfl
  | cons p rest ih =>
    rw [groupRuns_cons]
    cases hg : groupRuns rest with
    | nil =>
      rw [hg] at ih
      simp only [List.flatMap_nil] at ih
      subst ih
      rfl
    | cons m tl =>
      obtain ⟨q, k⟩ := m
      rw [hg] at ih
      simp only [List.flatMap_cons] at ih
      by_cases hpq : p = q
      · subst hpq
        simp only [beq_self_eq_true, if_true, List.flatMap_cons, List.replicate_succ, List.cons_append]
        rw [ih]
      · have : (p == q) = false := by simpa using hpq
        simp only [this, Bool.false_eq_true, if_false, List.flatMap_cons, List.replicate_succ,
          List.replicate_zero, List.cons_append, List.nil_append]
        rw [ih]

/-- every run is non-empty -/
theorem groupRuns_pos (l : List Nat) : ∀ m ∈ groupRuns l, 0 < m.2 := by
  induction l with
  | nil => intro m hm; cases hm
  | cons p rest ih =>
    rw [groupRuns_cons]
    cases hg : groupRuns rest with
    | nil => intro m hm; simp only [List.mem_singleton] at hm; subst hm; exact Nat.one_pos
    | cons m0 tl =>
      obtain ⟨q, k⟩ := m0
      rw [hg] at ih
      by_cases hpq : p = q
      · subst hpq
        simp only [beq_self_eq_true, if_true]
        intro m hm
        rcases List.mem_cons.1 hm with e | e
        · subst e; exact Nat.succ_pos _
        · exact ih m (List.mem_cons_of_mem _ e)
      · have : (p == q) = false := by simpa using hpq
        simp only [this, Bool.false_eq_true, if_false]
        intro m hm
        rcases List.mem_cons.1 hm with e | e
        · subst e; exact Nat.one_pos
        · exact ih m e

/-- adjacent runs have different procs -/
theorem groupRuns_chain (l : List Nat) : (groupRuns l).IsChain (fun a b => a.1 ≠ b.1) := by
  induction l with
  | nil => exact List.IsChain.nil
  | cons p rest ih =>
    rw [groupRuns_cons]
    cases hg : groupRuns rest with
    | nil => exact List.IsChain.singleton _
    | cons m0 tl =>
      obtain ⟨q, k⟩ := m0
      rw [hg] at ih
      by_cases hpq : p = q
      · subst hpq
        simp only [beq_self_eq_true, if_true]
        cases tl with
        | nil => exact List.IsChain.singleton _
        | cons m1 tl' =>
          rw [List.isChain_cons_cons] at ih ⊢
          exact ih
      · have : (p == q) = false := by simpa using hpq
        simp only [this, Bool.false_eq_true, if_false]
        rw [List.isChain_cons_cons]
        exact ⟨hpq, ih⟩

/-- the procs of the runs are exactly the elements of the list -/
theorem mem_groupRuns_fst (l : List Nat) (p : Nat) :
    p ∈ (groupRuns l).map Prod.fst ↔ p ∈ l := by
  conv => rhs; rw [← groupRuns_expand_aux l]
  have hpos := groupRuns_pos l
  rw [List.mem_map, List.mem_flatMap]
  constructor
  · rintro ⟨m, hm, e⟩
    refine ⟨m, hm, ?_⟩
    rw [List.mem_replicate]
    exact ⟨Nat.pos_iff_ne_zero.1 (hpos m hm), e.symm⟩
  · rintro ⟨m, hm, e⟩
    rw [List.mem_replicate] at e
    exact ⟨m, hm, e.2.symm⟩

/-- on a sorted list the procs of the runs are strictly increasing -/
theorem groupRuns_sorted_lt (l : List Nat) (hs : l.Pairwise (· ≤ ·)) :
    ((groupRuns l).map Prod.fst).Pairwise (· < ·) := by
  induction l with
  | nil => exact List.Pairwise.nil
  | cons p rest ih =>
    rw [List.pairwise_cons] at hs
    have ih := ih hs.2
    have hmem := mem_groupRuns_fst rest
    rw [groupRuns_cons]
    cases hg : groupRuns rest with
    | nil => simp
    | cons m0 tl =>
      obtain ⟨q, k⟩ := m0
      rw [hg] at ih hmem
      simp only [List.map_cons, List.pairwise_cons] at ih
      by_cases hpq : p = q
      · subst hpq
        simp only [beq_self_eq_true, if_true, List.map_cons, List.pairwise_cons]
        exact ih
      · have : (p == q) = false := by simpa using hpq
        simp only [this, Bool.false_eq_true, if_false, List.map_cons, List.pairwise_cons]
        have hq : p ≤ q := hs.1 q ((hmem q).1 (by simp))
        have hlt : p < q := by omega
        refine ⟨?_, ih⟩
        intro a ha
        rcases List.mem_cons.1 ha with e | e
        · omega
        · have := ih.1 a e; omega

/-- if the procs of a run list are pairwise distinct, the expansion contains `p` exactly `k` times
    for the run `(p, k)` -/
theorem count_expand_of_mem (G : List (Nat × Nat)) (hG : (G.map Prod.fst).Pairwise (· < ·))
    (p k : Nat) (hm : (p, k) ∈ G) :
    (G.flatMap (fun m => List.replicate m.2 m.1)).count p = k := by
  induction G with
  | nil => cases hm
  | cons m0 tl ih =>
    obtain ⟨q, n⟩ := m0
    simp only [List.map_cons, List.pairwise_cons] at hG
    simp only [List.flatMap_cons, List.count_append, List.count_replicate]
    rcases List.mem_cons.1 hm with e | e
    · obtain ⟨rfl, rfl⟩ := Prod.mk.inj e
      have : (tl.flatMap (fun m => List.replicate m.2 m.1)).count p = 0 := by
        rw [List.count_eq_zero]
        intro hmem
        rw [List.mem_flatMap] at hmem
        obtain ⟨m, hm1, hm2⟩ := hmem
        rw [List.mem_replicate] at hm2
        have := hG.1 m.1 (List.mem_map_of_mem hm1)
        omega
      simp [this]
    · have hne : q ≠ p := by
        have := hG.1 p (List.mem_map_of_mem (f := Prod.fst) e)
        omega
      have : (q == p) = false := by simpa using hne
      simp only [this, Bool.false_eq_true, if_false, Nat.zero_add]
      exact ih hG.2 e

/-- on a sorted list, the run of `p` counts all the occurrences of `p` -/
theorem groupRuns_count (l : List Nat) (hs : l.Pairwise (· ≤ ·)) (p k : Nat) (hm : (p, k) ∈ groupRuns l) :
    k = l.count p := by
  have := count_expand_of_mem (groupRuns l) (groupRuns_sorted_lt l hs) p k hm
  rw [groupRuns_expand_aux] at this
  exact this.symm

/-- key lemma, abstract form: if the keys of `cols` are the expansion of a run list with strictly
    increasing procs, then concatenating, run by run, the columns having that run's key gives `cols` -/
theorem flatMap_filter_of_expand {γ : Type} (k : γ → Nat) (G : List (Nat × Nat))
    (hG : (G.map Prod.fst).Pairwise (· < ·)) :
    ∀ cols : List γ, cols.map k = G.flatMap (fun m => List.replicate m.2 m.1) →
      G.flatMap (fun m => cols.filter (fun c => k c == m.1)) = cols := by
  induction G with
  | nil =>
    intro cols h
    simp only [List.flatMap_nil, List.map_eq_nil_iff] at h
    subst h; rfl
  | cons m0 tl ih =>
    obtain ⟨q, n⟩ := m0
    intro cols h
    simp only [List.map_cons, List.pairwise_cons] at hG
    simp only [List.flatMap_cons] at h
    obtain ⟨c1, c2, rfl, h1, h2⟩ := List.map_eq_append_iff.1 h
    have hk2 : ∀ c ∈ c2, ∃ m ∈ tl, k c = m.1 := by
      intro c hc
      have : k c ∈ c2.map k := List.mem_map_of_mem hc
      rw [h2, List.mem_flatMap] at this
      obtain ⟨m, hm1, hm2⟩ := this
      rw [List.mem_replicate] at hm2
      exact ⟨m, hm1, hm2.2⟩
    have hk1 : ∀ c ∈ c1, k c = q := by
      intro c hc
      have : k c ∈ c1.map k := List.mem_map_of_mem hc
      rw [h1, List.mem_replicate] at this
      exact this.2
    have e1 : c1.filter (fun c => k c == q) = c1 := by
      rw [List.filter_eq_self]
      intro c hc; simp [hk1 c hc]
    have e2 : c2.filter (fun c => k c == q) = [] := by
      rw [List.filter_eq_nil_iff]
      intro c hc
      obtain ⟨m, hm, e⟩ := hk2 c hc
      have := hG.1 m.1 (List.mem_map_of_mem hm)
      simp only [beq_iff_eq]; omega
    have e3 : tl.flatMap (fun m => (c1 ++ c2).filter (fun c => k c == m.1))
        = tl.flatMap (fun m => c2.filter (fun c => k c == m.1)) := by
      apply List.flatMap_congr
      intro m hm
      rw [List.filter_append]
      have : c1.filter (fun c => k c == m.1) = [] := by
        rw [List.filter_eq_nil_iff]
        intro c hc
        have := hG.1 m.1 (List.mem_map_of_mem hm)
        simp only [beq_iff_eq]; rw [hk1 c hc]; omega
      rw [this, List.nil_append]
    simp only [List.flatMap_cons]
    rw [List.filter_append, e1, e2, List.append_nil, e3, ih hG.2 c2 h2]

/-- key lemma: for a list `cols` whose keys are sorted, concatenating run by run the columns with
    that run's key gives back `cols` -/
theorem groupRuns_flatMap_filter {γ : Type} (k : γ → Nat) (cols : List γ)
    (hs : (cols.map k).Pairwise (· ≤ ·)) :
    (groupRuns (cols.map k)).flatMap (fun m => cols.filter (fun c => k c == m.1)) = cols :=
  flatMap_filter_of_expand k _ (groupRuns_sorted_lt _ hs) cols (groupRuns_expand_aux _).symm

end GroupRuns

/-! ### receive side / requests -/
section Recv

theorem request_length (fc : List Nat) (offR : List Nat) (p : Nat) :
    (request fc offR p).length = (offR.map (owner fc)).count p := by
  unfold request
  rw [List.length_map, List.count_eq_countP, List.countP_map, List.countP_eq_length_filter]
  rfl

/-- with sorted owners, the receive messages are exactly the non-empty requests -/
theorem mem_recvSide_iff (fc : List Nat) (offR : List Nat)
    (hs : (offR.map (owner fc)).Pairwise (· ≤ ·)) (p k : Nat) :
    (p, k) ∈ recvSide fc offR ↔ k = (request fc offR p).length ∧ 0 < k := by
  unfold recvSide
  rw [request_length]
  constructor
  · intro hm
    exact ⟨groupRuns_count _ hs p k hm, groupRuns_pos _ _ hm⟩
  · rintro ⟨e, hk⟩
    have hp : p ∈ offR.map (owner fc) := by
      rw [← List.count_pos_iff]; omega
    rw [← mem_groupRuns_fst, List.mem_map] at hp
    obtain ⟨m, hm, rfl⟩ := hp
    have := groupRuns_count _ hs m.1 m.2 hm
    rw [e, ← this]
    exact hm

theorem mem_sendSide_iff (fc : List Nat) (off : List (List Nat)) (p : Nat) (order : List Nat)
    (r : Nat) (req : List Nat) :
    (r, req) ∈ sendSide fc off p order ↔ r ∈ order ∧ req = request fc (off.getD r []) p ∧ req ≠ [] := by
  unfold sendSide
  rw [List.mem_filterMap]
  constructor
  · rintro ⟨r', hr', e⟩
    dsimp only at e
    cases h : request fc (off.getD r' []) p with
    | nil =>
      rw [h] at e
      simp only [List.isEmpty_nil, if_true] at e
      cases e
    | cons a t =>
      rw [h] at e
      simp only [List.isEmpty_cons, Bool.false_eq_true, if_false, Option.some.injEq,
        Prod.mk.injEq] at e
      obtain ⟨rfl, rfl⟩ := e
      exact ⟨hr', h.symm, List.cons_ne_nil _ _⟩
  · rintro ⟨hr, rfl, hne⟩
    refine ⟨r, hr, ?_⟩
    dsimp only
    cases h : request fc (off.getD r []) p with
    | nil => exact absurd h hne
    | cons a t => rfl

end Recv

/-! ### forward exchange -/
section Exchange
variable {α : Type}

theorem getD_map_nil {β γ : Type} (F : List β → List γ) (hF : F [] = []) (off : List (List β)) (r : Nat) :
    (off.map F).getD r [] = F (off.getD r []) := by
  simp only [List.getD_eq_getElem?_getD, List.getElem?_map]
  cases off[r]? with
  | none => simp [hF]
  | some v => simp

theorem getD_map_apply {β : Type} (f : α → β) (l : List α) (i : Nat) (d : α) :
    (l.map f).getD i (f d) = f (l.getD i d) := by
  simp only [List.getD_eq_getElem?_getD, List.getElem?_map]
  cases l[i]? with
  | none => simp
  | some v => simp

/-- the exchange delivers the specification as soon as the owners of `off r` are sorted -/
theorem exchange_eq_spec_of_sorted (d : α) (fc : List Nat) (off : List (List Nat)) (x : List (List α))
    (r : Nat) (hs : ((off.getD r []).map (owner fc)).Pairwise (· ≤ ·)) :
    exchange d fc off x r = haloSpec d fc off x r := by
  unfold exchange haloSpec recvSide fwdMsg request
  generalize off.getD r [] = cols at *
  have key := groupRuns_flatMap_filter (owner fc) cols hs
  conv => rhs; rw [← key]
  rw [List.map_flatMap]
  apply List.flatMap_congr
  intro m _
  rw [List.map_map]
  apply List.map_congr_left
  intro c hc
  have := (List.mem_filter.1 hc).2
  simp only [beq_iff_eq] at this
  simp only [Function.comp_apply, this]

theorem exchange_natural_aux {β : Type} (f : α → β) (d : α) (fc : List Nat) (off : List (List Nat))
    (x : List (List α)) (r : Nat) :
    exchange (f d) fc off (x.map (List.map f)) r = (exchange d fc off x r).map f := by
  unfold exchange fwdMsg
  rw [List.map_flatMap]
  apply List.flatMap_congr
  intro m _
  rw [List.map_map]
  apply List.map_congr_left
  intro i _
  rw [getD_map_nil (List.map f) rfl, getD_map_apply]
  rfl

/-- the identity payload: rank `p` holds the global indices of its own range -/
def globalIdx (fc : List Nat) (np : Nat) : List (List Nat) :=
  (List.range np).map fun p => List.range' (fc.getD p 0) (fc.getD (p+1) 0 - fc.getD p 0)

theorem globalIdx_getD (fc : List Nat) (np : Nat) {p : Nat} (hp : p < np) :
    (globalIdx fc np).getD p [] = List.range' (fc.getD p 0) (fc.getD (p+1) 0 - fc.getD p 0) := by
  unfold globalIdx
  rw [List.getD_eq_getElem?_getD, List.getElem?_map, List.getElem?_range hp]
  rfl

theorem range'_getD {s n i : Nat} (d : Nat) (h : i < n) : (List.range' s n).getD i d = s + i := by
  rw [List.getD_eq_getElem?_getD, List.getElem?_range' h, Nat.one_mul]
  rfl

end Exchange

/-! ### reverse exchange -/
section ExchangeT
variable {α β : Type}

theorem foldl_modify_length (f : β → α → β) (cs : List (Nat × α)) (init : List β) :
    (cs.foldl (fun res c => res.modify c.1 (fun b => f b c.2)) init).length = init.length := by
  induction cs generalizing init with
  | nil => rfl
  | cons c t ih => rw [List.foldl_cons, ih, List.length_modify]

theorem foldl_modify_getElem? (f : β → α → β) (cs : List (Nat × α)) (init : List β) (i : Nat) :
    (cs.foldl (fun res c => res.modify c.1 (fun b => f b c.2)) init)[i]?
      = init[i]?.map (fun b0 => (cs.filter (fun c => c.1 == i)).foldl (fun b c => f b c.2) b0) := by
  induction cs generalizing init with
  | nil => simp
  | cons c t ih =>
    rw [List.foldl_cons, ih, List.getElem?_modify]
    by_cases h : c.1 = i
    · cases init[i]? with
      | none => rfl
      | some b => simp [h]
    · cases init[i]? with
      | none => rfl
      | some b => simp [h]

theorem modify_comm_of_rightComm (f : β → α → β) (hf : ∀ b a₁ a₂, f (f b a₁) a₂ = f (f b a₂) a₁)
    (res : List β) (c1 c2 : Nat × α) :
    (res.modify c1.1 (fun b => f b c1.2)).modify c2.1 (fun b => f b c2.2)
      = (res.modify c2.1 (fun b => f b c2.2)).modify c1.1 (fun b => f b c1.2) := by
  apply List.ext_getElem?
  intro i
  simp only [List.getElem?_modify]
  cases res[i]? with
  | none => rfl
  | some b =>
    by_cases h1 : c1.1 = i <;> by_cases h2 : c2.1 = i <;> simp [h1, h2, hf]

end ExchangeT

/-! ### adjointness -/
section Adjoint
variable {K : Type} [CommSemiring K]

/-- dot product of two lists (truncated to the shorter one) -/
def dot (u v : List K) : K := ((u.zip v).map fun p => p.1 * p.2).sum

theorem dot_nil_left (v : List K) : dot [] v = 0 := by simp [dot]
theorem dot_nil_right (u : List K) : dot u [] = 0 := by simp [dot]
theorem dot_cons_cons (a b : K) (u v : List K) : dot (a :: u) (b :: v) = a * b + dot u v := by
  simp [dot]

theorem dot_replicate_zero (X : List K) (n : Nat) : dot X (List.replicate n 0) = 0 := by
  induction X generalizing n with
  | nil => exact dot_nil_left _
  | cons a t ih =>
    cases n with
    | zero => exact dot_nil_right _
    | succ n => rw [List.replicate_succ, dot_cons_cons, ih]; simp

theorem dot_modify_add (X init : List K) (hl : X.length = init.length) (i : Nat) (a : K) :
    dot X (init.modify i (fun b => b + a)) = dot X init + X.getD i 0 * a := by
  induction X generalizing init i with
  | nil => simp [dot_nil_left]
  | cons x0 X' ih =>
    cases init with
    | nil => simp at hl
    | cons b0 init' =>
      simp only [List.length_cons, Nat.add_right_cancel_iff] at hl
      cases i with
      | zero =>
        simp only [List.modify_zero_cons, dot_cons_cons, List.getD_cons_zero]
        ring
      | succ j =>
        simp only [List.modify_succ_cons, dot_cons_cons, List.getD_cons_succ]
        rw [ih init' hl j]
        ring

theorem dot_foldl_modify (X : List K) (cs : List (Nat × K)) (init : List K) (hl : X.length = init.length) :
    dot X (cs.foldl (fun res c => res.modify c.1 (fun b => b + c.2)) init)
      = dot X init + (cs.map (fun c => X.getD c.1 0 * c.2)).sum := by
  induction cs generalizing init with
  | nil => simp
  | cons c t ih =>
    rw [List.foldl_cons, ih _ (by rw [List.length_modify]; exact hl), dot_modify_add X init hl]
    simp only [List.map_cons, List.sum_cons]
    rw [add_assoc]

theorem dot_map_left {γ : Type} (g : γ → K) (l : List γ) (v : List K) :
    dot (l.map g) v = ((l.zip v).map (fun cy => g cy.1 * cy.2)).sum := by
  unfold dot
  rw [List.zip_map_left, List.map_map]
  rfl

theorem sum_map_filter' {γ : Type} (P : γ → Bool) (F : γ → K) (l : List γ) :
    ((l.filter P).map F).sum = (l.map (fun a => if P a then F a else 0)).sum := by
  induction l with
  | nil => rfl
  | cons a t ih =>
    by_cases h : P a = true
    · simp [h, ih]
    · simp [h, ih]

theorem sum_map_flatMap {γ δ : Type} (g : γ → List δ) (F : δ → K) (l : List γ) :
    ((l.flatMap g).map F).sum = (l.map (fun a => ((g a).map F).sum)).sum := by
  induction l with
  | nil => rfl
  | cons a t ih => simp [List.flatMap_cons, List.sum_append, ih]

theorem sum_map_comm {γ δ : Type} (F : γ → δ → K) (l1 : List γ) (l2 : List δ) :
    (l1.map (fun a => (l2.map (fun b => F a b)).sum)).sum
      = (l2.map (fun b => (l1.map (fun a => F a b)).sum)).sum := by
  induction l1 with
  | nil => simp
  | cons a t ih =>
    simp only [List.map_cons, List.sum_cons, ih]
    rw [← List.sum_map_add]

theorem sum_range_ite (h : Nat → K) (q n : Nat) :
    ((List.range n).map (fun p => if q = p then h p else 0)).sum = if q < n then h q else 0 := by
  induction n with
  | zero => simp
  | succ n ih =>
    rw [List.range_succ, List.map_append, List.sum_append, ih]
    by_cases h1 : q < n
    · have h2 : q ≠ n := by omega
      have h3 : q < n + 1 := by omega
      simp [h1, h2, h3]
    · by_cases h2 : q = n
      · subst h2; simp
      · have h3 : ¬ q < n + 1 := by omega
        simp [h1, h2, h3]

/-- what the owner `p` gets out of a reverse exchange with sum, tested against `X` -/
theorem dot_exchangeT (fc : List Nat) (off : List (List Nat)) (y : List (List K)) (X : List K)
    (p : Nat) (order : List Nat) :
    dot X (exchangeT (· + ·) fc off y (List.replicate X.length 0) p order)
      = (order.map (fun r => (((off.getD r []).zip (y.getD r [])).map
          (fun cy => if owner fc cy.1 == p then X.getD (cy.1 - fc.getD p 0) 0 * cy.2 else 0)).sum)).sum := by
  unfold exchangeT
  have h := dot_foldl_modify X (revContribs fc off y p order) (List.replicate X.length 0)
    (by rw [List.length_replicate])
  rw [dot_replicate_zero, zero_add] at h
  refine Eq.trans h ?_
  unfold revContribs
  rw [sum_map_flatMap]
  congr 1
  apply List.map_congr_left
  intro r _
  rw [List.map_map, sum_map_filter']
  rfl

/-- adjointness, minimal hypotheses: only the length of `fc` matters -/
theorem adjoint_general (fc : List Nat) (np : Nat) (hl : fc.length = np + 1) (off : List (List Nat))
    (x y : List (List K)) :
    ((List.range np).map fun r => dot (haloSpec 0 fc off x r) (y.getD r [])).sum
      = ((List.range np).map fun p => dot (x.getD p [])
          (exchangeT (· + ·) fc off y (List.replicate (x.getD p []).length 0) p (List.range np))).sum := by
  rcases Nat.eq_zero_or_pos np with h0 | hpos
  · subst h0; rfl
  · have e : ∀ p, dot (x.getD p [])
          (exchangeT (· + ·) fc off y (List.replicate (x.getD p []).length 0) p (List.range np))
        = ((List.range np).map (fun r => (((off.getD r []).zip (y.getD r [])).map
          (fun cy => if owner fc cy.1 == p then (x.getD p []).getD (cy.1 - fc.getD p 0) 0 * cy.2 else 0)).sum)).sum :=
      fun p => dot_exchangeT fc off y (x.getD p []) p (List.range np)
    simp only [e]
    rw [sum_map_comm]
    congr 1
    apply List.map_congr_left
    intro r _
    unfold haloSpec
    rw [dot_map_left, sum_map_comm]
    congr 1
    apply List.map_congr_left
    intro cy _
    have := sum_range_ite
      (fun p => (x.getD p []).getD (cy.1 - fc.getD p 0) 0 * cy.2) (owner fc cy.1) np
    rw [if_pos (owner_lt_of_len hl hpos cy.1)] at this
    rw [← this]
    simp only [beq_iff_eq]

end Adjoint

end Raptor.Comm
