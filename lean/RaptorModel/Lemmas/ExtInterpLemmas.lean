import RaptorModel.Lemmas.InterpLemmas
/-!
# Helper lemmas for extended+i interpolation (`cHat`, `addAt`, `extPass1`, `extFine`, `extendedRow`)

Nothing here changes the model (`Model/Interp.lean`).  The loop bodies of the model are named
(`hatInner`, `hatStep`, `pass1Step`, `fineStep`) and the model is shown to be a fold of them by `rfl`.
-/
namespace Raptor.Interp

theorem or_shuffle {a b c d e : Prop} : ((a ∨ b ∨ c) ∨ d ∨ e) ↔ a ∨ (b ∨ d) ∨ (c ∨ e) := by
  constructor
  · rintro ((h | h | h) | h | h)
    · exact Or.inl h
    · exact Or.inr (Or.inl (Or.inl h))
    · exact Or.inr (Or.inr (Or.inl h))
    · exact Or.inr (Or.inl (Or.inr h))
    · exact Or.inr (Or.inr (Or.inr h))
  · rintro (h | (h | h) | (h | h))
    · exact Or.inl (Or.inl h)
    · exact Or.inl (Or.inr (Or.inl h))
    · exact Or.inr (Or.inl h)
    · exact Or.inl (Or.inr (Or.inr h))
    · exact Or.inr (Or.inr h)

theorem nodup_map_on {α β : Type} (f : α → β) (l : List α)
    (hinj : ∀ a ∈ l, ∀ b ∈ l, f a = f b → a = b) (hnd : l.Nodup) : (l.map f).Nodup := by
  induction l with
  | nil => exact List.nodup_nil
  | cons x xs ih =>
    rw [List.nodup_cons] at hnd
    rw [List.map_cons, List.nodup_cons]
    refine ⟨?_, ih (fun a ha b hb => hinj a (by simp [ha]) b (by simp [hb])) hnd.2⟩
    intro hmem
    rw [List.mem_map] at hmem
    obtain ⟨y, hy, hxy⟩ := hmem
    have := hinj y (by simp [hy]) x (by simp) hxy
    exact hnd.1 (this ▸ hy)

/-! ### keys of an association list -/
section Keys
variable {K : Type}

theorem any_key_iff (l : List (Nat × K)) (c : Nat) :
    (l.any (·.1 == c)) = true ↔ c ∈ l.map (·.1) := by
  simp only [List.any_eq_true, beq_iff_eq, List.mem_map]

theorem any_key_false_iff (l : List (Nat × K)) (c : Nat) :
    (l.any (·.1 == c)) = false ↔ c ∉ l.map (·.1) := by
  rw [← any_key_iff, Bool.not_eq_true]

theorem addAt_keys [Add K] (l : List (Nat × K)) (c : Nat) (v : K) :
    (addAt l c v).map (·.1) = l.map (·.1) := by
  unfold addAt
  rw [List.map_map]
  apply List.map_congr_left
  intro q _
  by_cases h : (q.1 == c) = true
  · simp only [Function.comp, h, if_true]
  · simp only [Function.comp, h]; rfl

theorem addAt_length [Add K] (l : List (Nat × K)) (c : Nat) (v : K) : (addAt l c v).length = l.length := by
  unfold addAt; rw [List.length_map]

theorem addAt_of_not_mem [Add K] (l : List (Nat × K)) (c : Nat) (v : K) (h : c ∉ l.map (·.1)) :
    addAt l c v = l := by
  unfold addAt
  conv_rhs => rw [← List.map_id l]
  apply List.map_congr_left
  intro q hq
  have : (q.1 == c) = false := by
    rw [beq_eq_false_iff_ne]
    intro heq; exact h (heq ▸ List.mem_map_of_mem hq)
  simp only [this, id]; rfl

/-- replacing the value at key `c` keeps the keys -/
theorem setAt_keys (l : List (Nat × K)) (c : Nat) (v : K) :
    (l.map fun q => if q.1 == c then (q.1, v) else q).map (·.1) = l.map (·.1) := by
  rw [List.map_map]
  apply List.map_congr_left
  intro q _
  by_cases h : (q.1 == c) = true
  · simp only [Function.comp, h, if_true]
  · simp only [Function.comp, h]; rfl

end Keys

/-! ### sums of the values -/
section Vals
variable {K : Type} [AddCommMonoid K]

/-- `addAt` at a key that occurs exactly once adds `v` to the sum of the values -/
theorem addAt_sum (l : List (Nat × K)) (c : Nat) (v : K)
    (hnd : (l.map (·.1)).Nodup) (hc : c ∈ l.map (·.1)) :
    ((addAt l c v).map (·.2)).sum = (l.map (·.2)).sum + v := by
  induction l with
  | nil => simp at hc
  | cons q rest ih =>
    rw [List.map_cons, List.nodup_cons] at hnd
    by_cases hq : q.1 = c
    · have hnot : c ∉ rest.map (·.1) := hq ▸ hnd.1
      have h1 : addAt (q :: rest) c v = (q.1, q.2 + v) :: addAt rest c v := by
        simp [addAt, hq]
      rw [h1, addAt_of_not_mem rest c v hnot]
      simp only [List.map_cons, List.sum_cons]
      rw [add_right_comm]
    · have hb : (q.1 == c) = false := beq_eq_false_iff_ne.mpr hq
      have h1 : addAt (q :: rest) c v = q :: addAt rest c v := by
        simp [addAt, hq]
      have hc' : c ∈ rest.map (·.1) := by
        rw [List.map_cons, List.mem_cons] at hc
        rcases hc with h | h
        · exact absurd h.symm hq
        · exact h
      rw [h1]
      simp only [List.map_cons, List.sum_cons]
      rw [ih hnd.2 hc', add_assoc]

/-- replacing a zero value at a key that occurs exactly once adds `v` to the sum of the values -/
theorem setAt_sum (l : List (Nat × K)) (c : Nat) (v : K)
    (hnd : (l.map (·.1)).Nodup) (hc : c ∈ l.map (·.1)) (h0 : ∀ q ∈ l, q.1 = c → q.2 = 0) :
    ((l.map fun q => if q.1 == c then (q.1, v) else q).map (·.2)).sum = (l.map (·.2)).sum + v := by
  have : (l.map fun q => if q.1 == c then (q.1, v) else q) = addAt l c v := by
    unfold addAt
    apply List.map_congr_left
    intro q hq
    by_cases h : q.1 = c
    · have hb : (q.1 == c) = true := beq_iff_eq.mpr h
      simp only [hb, if_true, h0 q hq h, zero_add]
    · have hb : (q.1 == c) = false := beq_eq_false_iff_ne.mpr h
      simp only [hb, Bool.false_eq_true, if_false]
  rw [this, addAt_sum l c v hnd hc]

end Vals

/-! ### the interpolation set `cHat` -/
section CHat
variable {K : Type} [Zero K]

/-- body of the inner loop of `cHat` (over the strength row of a strong fine neighbour) -/
def hatInner (states : List Int) (acc : List (Nat × K)) (k : Nat × K) : List (Nat × K) :=
  if isC states k.1 && !(acc.any (·.1 == k.1)) then acc ++ [(k.1, 0)] else acc

/-- body of the outer loop of `cHat` (over the strength row of `i`) -/
def hatStep (states : List Int) (S : List (List (Nat × K))) (acc : List (Nat × K)) (e : Nat × K) :
    List (Nat × K) :=
  if isC states e.1 then
    (if acc.any (·.1 == e.1) then acc.map (fun q => if q.1 == e.1 then (q.1, e.2) else q) else acc ++ [(e.1, e.2)])
  else if isF states e.1 then (offDiag e.1 (S.getD e.1 [])).foldl (hatInner states) acc
  else acc

theorem cHat_eq_foldl (states : List Int) (S : List (List (Nat × K))) (i : Nat) :
    cHat states S i = (offDiag i (S.getD i [])).foldl (hatStep states S) [] := rfl

theorem mem_keys_hatInner (states : List Int) (acc : List (Nat × K)) (k : Nat × K) (c : Nat) :
    c ∈ (hatInner states acc k).map (·.1) ↔ c ∈ acc.map (·.1) ∨ (isC states k.1 = true ∧ c = k.1) := by
  unfold hatInner
  cases hC : isC states k.1 with
  | false => simp
  | true =>
    cases hany : acc.any (·.1 == k.1) with
    | false =>
      simp only [Bool.not_false, Bool.and_self, if_true, List.map_append, List.map_cons, List.map_nil,
        List.mem_append, List.mem_singleton, true_and]
    | true =>
      simp only [Bool.not_true, Bool.and_false, Bool.false_eq_true, if_false, true_and]
      constructor
      · exact Or.inl
      · rintro (h | rfl)
        · exact h
        · exact (any_key_iff acc _).mp hany

theorem nodup_keys_hatInner (states : List Int) (acc : List (Nat × K)) (k : Nat × K)
    (hnd : (acc.map (·.1)).Nodup) : ((hatInner states acc k).map (·.1)).Nodup := by
  unfold hatInner
  cases hC : isC states k.1 with
  | false => simpa using hnd
  | true =>
    cases hany : acc.any (·.1 == k.1) with
    | true => simpa using hnd
    | false =>
      simp only [Bool.not_false, Bool.and_self, if_true, List.map_append, List.map_cons, List.map_nil]
      rw [List.nodup_append]
      refine ⟨hnd, by simp, ?_⟩
      intro a ha b hb
      rw [List.mem_singleton] at hb
      rw [hb]
      intro heq
      exact (any_key_false_iff acc _).mp hany (heq ▸ ha)

/-- every entry the inner loop adds has value zero -/
theorem mem_hatInner (states : List Int) (acc : List (Nat × K)) (k : Nat × K) {q : Nat × K}
    (hq : q ∈ hatInner states acc k) : q ∈ acc ∨ q.2 = 0 := by
  unfold hatInner at hq
  split at hq
  · rw [List.mem_append, List.mem_singleton] at hq
    rcases hq with h | h
    · exact Or.inl h
    · right; rw [h]
  · exact Or.inl hq

theorem mem_keys_foldl_hatInner (states : List Int) (l : List (Nat × K)) (acc : List (Nat × K)) (c : Nat) :
    c ∈ (l.foldl (hatInner states) acc).map (·.1)
      ↔ c ∈ acc.map (·.1) ∨ ∃ k ∈ l, isC states k.1 = true ∧ c = k.1 := by
  induction l generalizing acc with
  | nil => simp
  | cons k rest ih =>
    rw [List.foldl_cons, ih, mem_keys_hatInner]
    simp only [List.mem_cons, exists_eq_or_imp, or_assoc]

theorem nodup_keys_foldl_hatInner (states : List Int) (l : List (Nat × K)) (acc : List (Nat × K))
    (hnd : (acc.map (·.1)).Nodup) : ((l.foldl (hatInner states) acc).map (·.1)).Nodup := by
  induction l generalizing acc with
  | nil => exact hnd
  | cons k rest ih => rw [List.foldl_cons]; exact ih _ (nodup_keys_hatInner states acc k hnd)

theorem mem_foldl_hatInner (states : List Int) (l : List (Nat × K)) (acc : List (Nat × K)) {q : Nat × K}
    (hq : q ∈ l.foldl (hatInner states) acc) : q ∈ acc ∨ q.2 = 0 := by
  induction l generalizing acc with
  | nil => exact Or.inl hq
  | cons k rest ih =>
    rw [List.foldl_cons] at hq
    rcases ih _ hq with h | h
    · exact mem_hatInner states acc k h
    · exact Or.inr h

theorem mem_keys_hatStep (states : List Int) (S : List (List (Nat × K))) (acc : List (Nat × K))
    (e : Nat × K) (c : Nat) :
    c ∈ (hatStep states S acc e).map (·.1) ↔ c ∈ acc.map (·.1) ∨ (isC states e.1 = true ∧ c = e.1)
      ∨ (isF states e.1 = true ∧ ∃ k ∈ offDiag e.1 (S.getD e.1 []), isC states k.1 = true ∧ c = k.1) := by
  unfold hatStep
  cases hC : isC states e.1 with
  | true =>
    have hF := isC_isF_excl hC
    simp only [if_true, hF, Bool.false_eq_true, false_and, or_false, true_and]
    cases hany : acc.any (·.1 == e.1) with
    | true =>
      simp only [if_true, setAt_keys]
      constructor
      · exact Or.inl
      · rintro (h | rfl)
        · exact h
        · exact (any_key_iff acc _).mp hany
    | false =>
      simp only [Bool.false_eq_true, if_false, List.map_append, List.map_cons, List.map_nil,
        List.mem_append, List.mem_singleton]
  | false =>
    simp only [Bool.false_eq_true, if_false, false_and, false_or]
    cases hF : isF states e.1 with
    | true => simp only [if_true, true_and, mem_keys_foldl_hatInner]
    | false => simp only [Bool.false_eq_true, if_false, false_and, or_false]

theorem nodup_keys_hatStep (states : List Int) (S : List (List (Nat × K))) (acc : List (Nat × K))
    (e : Nat × K) (hnd : (acc.map (·.1)).Nodup) : ((hatStep states S acc e).map (·.1)).Nodup := by
  unfold hatStep
  cases hC : isC states e.1 with
  | true =>
    simp only [if_true]
    cases hany : acc.any (·.1 == e.1) with
    | true => simp only [if_true, setAt_keys]; exact hnd
    | false =>
      simp only [Bool.false_eq_true, if_false, List.map_append, List.map_cons, List.map_nil]
      rw [List.nodup_append]
      refine ⟨hnd, by simp, ?_⟩
      intro a ha b hb
      rw [List.mem_singleton] at hb
      rw [hb]
      intro heq
      exact (any_key_false_iff acc _).mp hany (heq ▸ ha)
  | false =>
    simp only [Bool.false_eq_true, if_false]
    cases hF : isF states e.1 with
    | true => simp only [if_true]; exact nodup_keys_foldl_hatInner states _ acc hnd
    | false => simp only [Bool.false_eq_true, if_false]; exact hnd

theorem mem_keys_foldl_hatStep (states : List Int) (S : List (List (Nat × K))) (l : List (Nat × K))
    (acc : List (Nat × K)) (c : Nat) :
    c ∈ (l.foldl (hatStep states S) acc).map (·.1) ↔ c ∈ acc.map (·.1)
      ∨ (∃ e ∈ l, isC states e.1 = true ∧ c = e.1)
      ∨ (∃ e ∈ l, isF states e.1 = true ∧ ∃ k ∈ offDiag e.1 (S.getD e.1 []), isC states k.1 = true ∧ c = k.1) := by
  induction l generalizing acc with
  | nil => simp
  | cons e rest ih =>
    rw [List.foldl_cons, ih, mem_keys_hatStep]
    simp only [List.mem_cons, exists_eq_or_imp]
    exact or_shuffle

theorem nodup_keys_foldl_hatStep (states : List Int) (S : List (List (Nat × K))) (l : List (Nat × K))
    (acc : List (Nat × K)) (hnd : (acc.map (·.1)).Nodup) :
    ((l.foldl (hatStep states S) acc).map (·.1)).Nodup := by
  induction l generalizing acc with
  | nil => exact hnd
  | cons e rest ih => rw [List.foldl_cons]; exact ih _ (nodup_keys_hatStep states S acc e hnd)

/-- **no column occurs twice in the interpolation set** -/
theorem cHat_keys_nodup (states : List Int) (S : List (List (Nat × K))) (i : Nat) :
    ((cHat states S i).map (·.1)).Nodup := by
  rw [cHat_eq_foldl]
  exact nodup_keys_foldl_hatStep states S _ [] List.nodup_nil

/-- **the interpolation set**: the strong coarse neighbours of `i` and the strong coarse neighbours of
    the strong fine neighbours of `i` -/
theorem cHat_mem_iff' (states : List Int) (S : List (List (Nat × K))) (i c : Nat) :
    c ∈ (cHat states S i).map (·.1)
      ↔ (∃ e ∈ offDiag i (S.getD i []), isC states e.1 = true ∧ c = e.1)
      ∨ (∃ e ∈ offDiag i (S.getD i []), isF states e.1 = true ∧
          ∃ k ∈ offDiag e.1 (S.getD e.1 []), isC states k.1 = true ∧ c = k.1) := by
  rw [cHat_eq_foldl, mem_keys_foldl_hatStep]
  simp only [List.map_nil, List.not_mem_nil, false_or]

end CHat

/-! ### the initial numerators: sum of the values of `cHat` -/
section CHatSum
variable {K : Type} [AddCommMonoid K]

theorem sum_hatInner (states : List Int) (acc : List (Nat × K)) (k : Nat × K) :
    ((hatInner states acc k).map (·.2)).sum = (acc.map (·.2)).sum := by
  unfold hatInner
  split
  · simp only [List.map_append, List.map_cons, List.map_nil, List.sum_append, List.sum_cons, List.sum_nil,
      add_zero]
  · rfl

theorem sum_foldl_hatInner (states : List Int) (l : List (Nat × K)) (acc : List (Nat × K)) :
    ((l.foldl (hatInner states) acc).map (·.2)).sum = (acc.map (·.2)).sum := by
  induction l generalizing acc with
  | nil => rfl
  | cons k rest ih => rw [List.foldl_cons, ih, sum_hatInner]

/-- one step of the outer loop: a coarse `e` contributes its value (provided the entry it may overwrite
    holds `0`), and the entries whose key is still to come (`∈ R`) keep the value `0` -/
theorem hatStep_sum_inv (states : List Int) (S : List (List (Nat × K))) (acc : List (Nat × K)) (e : Nat × K)
    (R : List Nat) (hnd : (acc.map (·.1)).Nodup) (heR : e.1 ∉ R)
    (h0 : ∀ q ∈ acc, (q.1 = e.1 ∨ q.1 ∈ R) → q.2 = 0) :
    ((hatStep states S acc e).map (·.2)).sum = (acc.map (·.2)).sum + (if isC states e.1 then e.2 else 0)
      ∧ ∀ q ∈ hatStep states S acc e, q.1 ∈ R → q.2 = 0 := by
  unfold hatStep
  cases hC : isC states e.1 with
  | true =>
    simp only [if_true]
    cases hany : acc.any (·.1 == e.1) with
    | true =>
      simp only [if_true]
      refine ⟨setAt_sum acc e.1 e.2 hnd ((any_key_iff acc _).mp hany) fun q hq h => h0 q hq (Or.inl h), ?_⟩
      intro q' hq' hR
      rw [List.mem_map] at hq'
      obtain ⟨q, hq, rfl⟩ := hq'
      by_cases hk : q.1 = e.1
      · have hb : (q.1 == e.1) = true := beq_iff_eq.mpr hk
        simp only [hb, if_true] at hR
        exact absurd (hk ▸ hR) heR
      · have hb : (q.1 == e.1) = false := beq_eq_false_iff_ne.mpr hk
        simp only [hb, Bool.false_eq_true, if_false] at hR ⊢
        exact h0 q hq (Or.inr hR)
    | false =>
      simp only [Bool.false_eq_true, if_false, List.map_append, List.map_cons, List.map_nil, List.sum_append,
        List.sum_cons, List.sum_nil, add_zero, true_and]
      intro q hq hR
      rw [List.mem_append, List.mem_singleton] at hq
      rcases hq with hq | rfl
      · exact h0 q hq (Or.inr hR)
      · exact absurd hR heR
  | false =>
    simp only [Bool.false_eq_true, if_false, add_zero]
    cases hF : isF states e.1 with
    | true =>
      simp only [if_true]
      refine ⟨sum_foldl_hatInner states _ acc, ?_⟩
      intro q hq hR
      rcases mem_foldl_hatInner states _ acc hq with h | h
      · exact h0 q h (Or.inr hR)
      · exact h
    | false =>
      simp only [Bool.false_eq_true, if_false, true_and]
      intro q hq hR
      exact h0 q hq (Or.inr hR)

theorem sum_foldl_hatStep (states : List Int) (S : List (List (Nat × K))) (l : List (Nat × K))
    (acc : List (Nat × K)) (hl : (l.map (·.1)).Nodup) (hnd : (acc.map (·.1)).Nodup)
    (h0 : ∀ q ∈ acc, q.1 ∈ l.map (·.1) → q.2 = 0) :
    ((l.foldl (hatStep states S) acc).map (·.2)).sum
      = (acc.map (·.2)).sum + ((l.filter fun e => isC states e.1).map (·.2)).sum := by
  induction l generalizing acc with
  | nil => simp
  | cons e rest ih =>
    rw [List.map_cons, List.nodup_cons] at hl
    obtain ⟨h1, h2⟩ := hatStep_sum_inv states S acc e (rest.map (·.1)) hnd hl.1 (by
      intro q hq h
      apply h0 q hq
      rw [List.map_cons, List.mem_cons]
      exact h)
    rw [List.foldl_cons, ih _ hl.2 (nodup_keys_hatStep states S acc e hnd) h2, h1]
    cases hC : isC states e.1 with
    | true => simp only [List.filter_cons, hC, if_true, List.map_cons, List.sum_cons, add_assoc]
    | false => simp only [List.filter_cons, hC, Bool.false_eq_true, if_false, add_zero]

/-- **initial numerators**: if the strong columns of row `i` are pairwise distinct, the values of `cHat`
    add up to the values of the strong coarse entries -/
theorem cHat_sum (states : List Int) (S : List (List (Nat × K))) (i : Nat)
    (hnd : ((offDiag i (S.getD i [])).map (·.1)).Nodup) :
    ((cHat states S i).map (·.2)).sum
      = (((offDiag i (S.getD i [])).filter fun e => isC states e.1).map (·.2)).sum := by
  rw [cHat_eq_foldl, sum_foldl_hatStep states S _ [] hnd List.nodup_nil (by simp)]
  simp

end CHatSum

/-! ### conservation: `total` = all numerators + the lumped diagonal -/
section Total
variable {K : Type} [AddCommMonoid K]

/-- all numerators plus the lumped diagonal -/
def total (pw : List (Nat × K) × K) : K := (pw.1.map (·.2)).sum + pw.2

theorem addAt_total (l : List (Nat × K)) (w : K) (c : Nat) (v : K)
    (hnd : (l.map (·.1)).Nodup) (hc : c ∈ l.map (·.1)) :
    total (addAt l c v, w) = total (l, w) + v := by
  unfold total
  simp only [addAt_sum l c v hnd hc]
  rw [add_right_comm]

theorem total_snd_add (l : List (Nat × K)) (w v : K) : total (l, w + v) = total (l, w) + v := by
  unfold total
  simp only [add_assoc]

/-- a loop whose body keeps the keys and adds `g e` to `total` adds `Σ g` to `total` -/
theorem foldl_total_inv {α : Type} (f : List (Nat × K) × K → α → List (Nat × K) × K) (g : α → K)
    (ks : List Nat) (l : List α)
    (hstep : ∀ pw, ∀ e ∈ l, pw.1.map (·.1) = ks →
      (f pw e).1.map (·.1) = ks ∧ total (f pw e) = total pw + g e)
    (pw : List (Nat × K) × K) (h : pw.1.map (·.1) = ks) :
    (l.foldl f pw).1.map (·.1) = ks ∧ total (l.foldl f pw) = total pw + (l.map g).sum := by
  induction l generalizing pw with
  | nil => simp [h]
  | cons e rest ih =>
    obtain ⟨h1, h2⟩ := hstep pw e (by simp) h
    obtain ⟨h3, h4⟩ := ih (fun pw' e' he' => hstep pw' e' (by simp [he'])) (f pw e) h1
    rw [List.foldl_cons]
    refine ⟨h3, ?_⟩
    rw [h4, h2, List.map_cons, List.sum_cons, add_assoc]

/-- body of the loop of `extPass1` -/
def pass1Step (states : List Int) (strongCols : List Nat) (chat : List (Nat × K))
    (pw : List (Nat × K) × K) (e : Nat × K) : List (Nat × K) × K :=
  if strongCols.contains e.1 then pw
  else if isC states e.1 && chat.any (·.1 == e.1) then (addAt pw.1 e.1 e.2, pw.2)
  else (pw.1, pw.2 + e.2)

theorem extPass1_eq_foldl (states : List Int) (A S : List (List (Nat × K))) (i : Nat) :
    extPass1 states A S i = ((A.getD i []).drop 1).foldl
      (pass1Step states ((offDiag i (S.getD i [])).map (·.1)) (cHat states S i))
      (cHat states S i, diagVal (A.getD i [])) := rfl

theorem pass1Step_inv (states : List Int) (strongCols : List Nat) (chat : List (Nat × K))
    (hnd : (chat.map (·.1)).Nodup) (pw : List (Nat × K) × K) (e : Nat × K)
    (h : pw.1.map (·.1) = chat.map (·.1)) :
    (pass1Step states strongCols chat pw e).1.map (·.1) = chat.map (·.1)
      ∧ total (pass1Step states strongCols chat pw e)
          = total pw + (if strongCols.contains e.1 then 0 else e.2) := by
  unfold pass1Step
  cases hs : strongCols.contains e.1 with
  | true => simp only [if_true, add_zero, h, and_self]
  | false =>
    simp only [Bool.false_eq_true, if_false]
    cases hc : (isC states e.1 && chat.any (·.1 == e.1)) with
    | true =>
      simp only [if_true, addAt_keys, h, true_and]
      rw [Bool.and_eq_true] at hc
      have hmem : e.1 ∈ pw.1.map (·.1) := by rw [h]; exact (any_key_iff chat _).mp hc.2
      exact addAt_total pw.1 pw.2 e.1 e.2 (h ▸ hnd) hmem
    | false =>
      simp only [Bool.false_eq_true, if_false, h, true_and]
      exact total_snd_add pw.1 pw.2 e.2

theorem extPass1_inv (states : List Int) (A S : List (List (Nat × K))) (i : Nat) :
    (extPass1 states A S i).1.map (·.1) = (cHat states S i).map (·.1)
      ∧ total (extPass1 states A S i) = total (cHat states S i, diagVal (A.getD i []))
          + ((((A.getD i []).drop 1)).map fun e =>
              if ((offDiag i (S.getD i [])).map (·.1)).contains e.1 then 0 else e.2).sum := by
  rw [extPass1_eq_foldl]
  exact foldl_total_inv _ _ _ _
    (fun pw e _ h => pass1Step_inv states _ _ (cHat_keys_nodup states S i) pw e h) _ rfl

/-- `extPass1` never changes the key list -/
theorem extPass1_keys (states : List Int) (A S : List (List (Nat × K))) (i : Nat) :
    (extPass1 states A S i).1.map (·.1) = (cHat states S i).map (·.1) := (extPass1_inv states A S i).1

theorem sum_map_ite_zero {α : Type} (c : α → Bool) (g : α → K) (l : List α) :
    (l.map fun e => if c e then 0 else g e).sum = ((l.filter fun e => !c e).map g).sum := by
  induction l with
  | nil => rfl
  | cons x xs ih =>
    cases hx : c x <;> simp [hx, ih]

/-- **conservation, pass 1**: after the pass over row `i`, numerators + lumped diagonal = the initial
    numerators + the diagonal + every entry of the row that is not strong -/
theorem extPass1_total (states : List Int) (A S : List (List (Nat × K))) (i : Nat) :
    total (extPass1 states A S i) = ((cHat states S i).map (·.2)).sum + diagVal (A.getD i [])
      + ((((A.getD i []).drop 1).filter fun e =>
          !((offDiag i (S.getD i [])).map (·.1)).contains e.1).map (·.2)).sum := by
  rw [(extPass1_inv states A S i).2, sum_map_ite_zero]
  rfl

end Total

/-! ### conservation: one strong fine neighbour -/
section Fine
variable {K : Type} [Field K] [LinearOrder K]

/-- body of the second loop of `extFine` (over the off-diagonal part of row `k`), multiplier `m` -/
def fineStep (states : List Int) (i : Nat) (inHat : Nat → Bool) (neg : Bool) (m : K)
    (pw : List (Nat × K) × K) (q : Nat × K) : List (Nat × K) × K :=
  if isC states q.1 then (if opp neg q.2 && inHat q.1 then (addAt pw.1 q.1 (m * q.2), pw.2) else pw)
  else if q.1 == i then (pw.1, pw.2 + m * q.2) else pw

/-- the entry of row `k` the second loop of `extFine` uses (`0` if it skips the entry) -/
def fineG (states : List Int) (i : Nat) (inHat : Nat → Bool) (neg : Bool) (q : Nat × K) : K :=
  if isC states q.1 then (if opp neg q.2 && inHat q.1 then q.2 else 0)
  else if q.1 == i then q.2 else 0

/-- the model's `cs` for the strong fine neighbour `k`, verbatim -/
def fineCs (A : List (List (Nat × K))) (i : Nat) (inHat : Nat → Bool) (k : Nat) : K :=
  (A.getD k []).foldl (fun s q =>
    if (inHat q.1 || q.1 == i) && opp (decide (diagVal (A.getD k []) < 0)) q.2 then s + q.2 else s) 0

/-- the sum of the entries of row `k` the second loop distributes over -/
def fineD (states : List Int) (A : List (List (Nat × K))) (i : Nat) (inHat : Nat → Bool) (k : Nat) : K :=
  (((A.getD k []).drop 1).map (fineG states i inHat (decide (diagVal (A.getD k []) < 0)))).sum

theorem extFine_eq_foldl (tiny : K → Bool) (states : List Int) (A : List (List (Nat × K))) (i : Nat)
    (inHat : Nat → Bool) (pw : List (Nat × K) × K) (e : Nat × K) :
    extFine tiny states A i inHat pw e = ((A.getD e.1 []).drop 1).foldl
      (fineStep states i inHat (decide (diagVal (A.getD e.1 []) < 0))
        (if tiny (fineCs A i inHat e.1) then fineCs A i inHat e.1 else e.2 / fineCs A i inHat e.1))
      (pw.1, if tiny (fineCs A i inHat e.1) then pw.2 + e.2 else pw.2) := rfl

theorem fineStep_inv (states : List Int) (i : Nat) (inHat : Nat → Bool) (neg : Bool) (m : K)
    (ks : List Nat) (hnd : ks.Nodup) (hin : ∀ c, inHat c = true → c ∈ ks)
    (pw : List (Nat × K) × K) (q : Nat × K) (h : pw.1.map (·.1) = ks) :
    (fineStep states i inHat neg m pw q).1.map (·.1) = ks
      ∧ total (fineStep states i inHat neg m pw q) = total pw + m * fineG states i inHat neg q := by
  unfold fineStep fineG
  cases hC : isC states q.1 with
  | true =>
    simp only [if_true]
    cases hc : (opp neg q.2 && inHat q.1) with
    | true =>
      simp only [if_true, addAt_keys, h, true_and]
      rw [Bool.and_eq_true] at hc
      exact addAt_total pw.1 pw.2 q.1 (m * q.2) (h ▸ hnd) (h ▸ hin _ hc.2)
    | false => simp only [Bool.false_eq_true, if_false, h, mul_zero, add_zero, and_self]
  | false =>
    simp only [Bool.false_eq_true, if_false]
    cases hi : (q.1 == i) with
    | true =>
      simp only [if_true, h, true_and]
      exact total_snd_add pw.1 pw.2 (m * q.2)
    | false => simp only [Bool.false_eq_true, if_false, h, mul_zero, add_zero, and_self]

/-- `extFine` keeps the keys; it adds `a_ik + cs·D` (tiny branch) or `(a_ik / cs)·D` to `total`, where `D` is
    the sum of the entries of row `k` the second loop uses -/
theorem extFine_inv (tiny : K → Bool) (states : List Int) (A : List (List (Nat × K))) (i : Nat)
    (inHat : Nat → Bool) (ks : List Nat) (hnd : ks.Nodup) (hin : ∀ c, inHat c = true → c ∈ ks)
    (pw : List (Nat × K) × K) (e : Nat × K) (h : pw.1.map (·.1) = ks) :
    (extFine tiny states A i inHat pw e).1.map (·.1) = ks
      ∧ total (extFine tiny states A i inHat pw e) = total pw +
          (if tiny (fineCs A i inHat e.1) then e.2 + fineCs A i inHat e.1 * fineD states A i inHat e.1
           else e.2 / fineCs A i inHat e.1 * fineD states A i inHat e.1) := by
  rw [extFine_eq_foldl]
  obtain ⟨h1, h2⟩ := foldl_total_inv
    (fineStep states i inHat (decide (diagVal (A.getD e.1 []) < 0))
      (if tiny (fineCs A i inHat e.1) then fineCs A i inHat e.1 else e.2 / fineCs A i inHat e.1))
    (fun q => (if tiny (fineCs A i inHat e.1) then fineCs A i inHat e.1 else e.2 / fineCs A i inHat e.1)
      * fineG states i inHat (decide (diagVal (A.getD e.1 []) < 0)) q)
    ks ((A.getD e.1 []).drop 1)
    (fun pw' q _ h' => fineStep_inv states i inHat _ _ ks hnd hin pw' q h')
    (pw.1, if tiny (fineCs A i inHat e.1) then pw.2 + e.2 else pw.2) h
  refine ⟨h1, ?_⟩
  rw [h2, sum_map_mul_left']
  unfold fineD
  cases ht : tiny (fineCs A i inHat e.1) with
  | true =>
    simp only [if_true]
    rw [total_snd_add, add_assoc]
  | false => simp only [Bool.false_eq_true, if_false]

theorem extFine_keys (tiny : K → Bool) (states : List Int) (A : List (List (Nat × K))) (i : Nat)
    (inHat : Nat → Bool) (pw : List (Nat × K) × K) (e : Nat × K) :
    (extFine tiny states A i inHat pw e).1.map (·.1) = pw.1.map (·.1) := by
  rw [extFine_eq_foldl]
  generalize (if tiny (fineCs A i inHat e.1) then pw.2 + e.2 else pw.2) = w0
  generalize (if tiny (fineCs A i inHat e.1) then fineCs A i inHat e.1 else e.2 / fineCs A i inHat e.1) = m
  generalize (decide (diagVal (A.getD e.1 []) < 0)) = neg
  have key : ∀ (l : List (Nat × K)) (pw' : List (Nat × K) × K),
      (l.foldl (fineStep states i inHat neg m) pw').1.map (·.1) = pw'.1.map (·.1) := by
    intro l
    induction l with
    | nil => intro pw'; rfl
    | cons q rest ih =>
      intro pw'
      rw [List.foldl_cons, ih]
      unfold fineStep
      split
      · split
        · exact addAt_keys _ _ _
        · rfl
      · split <;> rfl
  exact key _ _

theorem fineCs_eq (A : List (List (Nat × K))) (i : Nat) (inHat : Nat → Bool) (k : Nat) :
    fineCs A i inHat k = ((A.getD k []).map fun q =>
      if (inHat q.1 || q.1 == i) && opp (decide (diagVal (A.getD k []) < 0)) q.2 then q.2 else 0).sum := by
  have key : ∀ (neg : Bool) (l : List (Nat × K)) (a : K),
      l.foldl (fun s q => if (inHat q.1 || q.1 == i) && opp neg q.2 then s + q.2 else s) a
        = a + (l.map fun q => if (inHat q.1 || q.1 == i) && opp neg q.2 then q.2 else 0).sum := by
    intro neg l
    induction l with
    | nil => intro a; simp
    | cons q rest ih =>
      intro a
      rw [List.foldl_cons, ih, List.map_cons, List.sum_cons]
      split
      · rw [add_assoc]
      · rw [zero_add]
  unfold fineCs
  rw [key, zero_add]

/-- **the shares sum to one**: on a row `k` stored diagonal first with a positive diagonal and non-positive
    off-diagonals, the entries the second loop of `extFine` distributes over add up to the model's `cs`
    (`i` is not coarse, `inHat` only holds at coarse points): the second loop takes the entry at column `i`
    without the sign test, but a non-negative off-diagonal is zero -/
theorem fineD_eq_fineCs (states : List Int) (A : List (List (Nat × K))) (i : Nat) (inHat : Nat → Bool)
    (k c0 : Nat) (dk : K) (koffs : List (Nat × K)) (hrow : A.getD k [] = (c0, dk) :: koffs)
    (hd : 0 < dk) (hoff : ∀ q ∈ koffs, q.2 ≤ 0) (hi : isC states i = false)
    (hhat : ∀ c, inHat c = true → isC states c = true) :
    fineD states A i inHat k = fineCs A i inHat k := by
  rw [fineCs_eq]
  unfold fineD
  rw [hrow]
  have hneg : decide (diagVal ((c0, dk) :: koffs) < 0) = false := by
    rw [decide_eq_false_iff_not]
    exact not_lt_of_gt hd
  have hhead : opp false dk = false := by
    unfold opp
    simp only [Bool.false_eq_true, if_false, decide_eq_false_iff_not]
    exact not_lt_of_gt hd
  rw [hneg]
  simp only [List.drop_succ_cons, List.drop_zero, List.map_cons, List.sum_cons, hhead, Bool.and_false,
    Bool.false_eq_true, if_false, zero_add]
  congr 1
  apply List.map_congr_left
  intro q hq
  have hq0 := hoff q hq
  have hopp : opp false q.2 = decide (q.2 < 0) := by unfold opp; simp only [Bool.false_eq_true, if_false]
  unfold fineG
  rw [hopp]
  cases hC : isC states q.1 with
  | true =>
    have hne : (q.1 == i) = false := by
      rw [beq_eq_false_iff_ne]
      intro heq; rw [heq, hi] at hC; exact Bool.false_ne_true hC
    simp only [if_true, hne, Bool.or_false, Bool.and_comm]
  | false =>
    have hh : inHat q.1 = false := by
      cases hx : inHat q.1 with
      | false => rfl
      | true => rw [hhat _ hx] at hC; exact Bool.noConfusion hC
    simp only [Bool.false_eq_true, if_false, hh, Bool.false_or]
    cases hqi : (q.1 == i) with
    | false => simp only [Bool.false_eq_true, if_false, Bool.false_and]
    | true =>
      simp only [if_true, Bool.true_and]
      by_cases hlt : q.2 < 0
      · simp only [hlt, decide_true, if_true]
      · simp only [hlt, decide_false, Bool.false_eq_true, if_false]
        exact le_antisymm hq0 (not_lt.mp hlt)

/-- **conservation, one strong fine neighbour `k`** (entry `(k, a_ik)`): under the hypotheses of
    `fineD_eq_fineCs`, `total` grows by `a_ik` if `cs` is not tiny and non-zero, and by `a_ik + cs²` if `cs` is tiny -/
theorem extFine_total_gen (tiny : K → Bool) (states : List Int) (A : List (List (Nat × K))) (i : Nat)
    (inHat : Nat → Bool) (ks : List Nat) (hnd : ks.Nodup) (hin : ∀ c, inHat c = true → c ∈ ks)
    (pw : List (Nat × K) × K) (e : Nat × K) (h : pw.1.map (·.1) = ks)
    (c0 : Nat) (dk : K) (koffs : List (Nat × K)) (hrow : A.getD e.1 [] = (c0, dk) :: koffs)
    (hd : 0 < dk) (hoff : ∀ q ∈ koffs, q.2 ≤ 0) (hi : isC states i = false)
    (hhat : ∀ c, inHat c = true → isC states c = true)
    (hcs : tiny (fineCs A i inHat e.1) = false → fineCs A i inHat e.1 ≠ 0) :
    total (extFine tiny states A i inHat pw e) = total pw + e.2 +
      (if tiny (fineCs A i inHat e.1) then fineCs A i inHat e.1 * fineCs A i inHat e.1 else 0) := by
  rw [(extFine_inv tiny states A i inHat ks hnd hin pw e h).2,
    fineD_eq_fineCs states A i inHat e.1 c0 dk koffs hrow hd hoff hi hhat]
  cases ht : tiny (fineCs A i inHat e.1) with
  | true => simp only [if_true, add_assoc]
  | false =>
    simp only [Bool.false_eq_true, if_false, add_zero]
    rw [div_mul_cancel₀ _ (hcs ht)]

/-- with an exact test (`tiny x ↔ x = 0`) the neighbour contributes exactly `a_ik` -/
theorem extFine_total (tiny : K → Bool) (htiny : ∀ x, tiny x = true ↔ x = 0)
    (states : List Int) (A : List (List (Nat × K))) (i : Nat)
    (inHat : Nat → Bool) (ks : List Nat) (hnd : ks.Nodup) (hin : ∀ c, inHat c = true → c ∈ ks)
    (pw : List (Nat × K) × K) (e : Nat × K) (h : pw.1.map (·.1) = ks)
    (c0 : Nat) (dk : K) (koffs : List (Nat × K)) (hrow : A.getD e.1 [] = (c0, dk) :: koffs)
    (hd : 0 < dk) (hoff : ∀ q ∈ koffs, q.2 ≤ 0) (hi : isC states i = false)
    (hhat : ∀ c, inHat c = true → isC states c = true) :
    total (extFine tiny states A i inHat pw e) = total pw + e.2 := by
  rw [extFine_total_gen tiny states A i inHat ks hnd hin pw e h c0 dk koffs hrow hd hoff hi hhat
    (fun ht h0 => by rw [(htiny _).mpr h0] at ht; exact Bool.noConfusion ht)]
  cases ht : tiny (fineCs A i inHat e.1) with
  | true => simp only [if_true, (htiny _).mp ht, mul_zero, add_zero]
  | false => simp only [Bool.false_eq_true, if_false, add_zero]

omit [LinearOrder K] in
/-- the last step: if numerators + denominator add up to zero, the weights add up to one -/
theorem rowsum_one_of_total_zero (pw : List (Nat × K) × K) (h0 : total pw = 0) (hden : pw.2 ≠ 0) :
    (pw.1.map fun e => e.2 / (-pw.2)).sum = 1 := by
  rw [sum_map_div' (-pw.2) (·.2) pw.1, div_eq_one_iff_eq (neg_ne_zero.mpr hden)]
  unfold total at h0
  linear_combination h0

end Fine

/-! ### the strength row as a sub-list of the row of `A` -/
section Sublist
variable {K : Type}

/-- in a row with pairwise distinct columns, selecting the columns of a sub-list gives the sub-list back -/
theorem filter_contains_of_sublist {l' l : List (Nat × K)} (hs : l'.Sublist l) (hnd : (l.map (·.1)).Nodup) :
    l.filter (fun e => (l'.map (·.1)).contains e.1) = l' := by
  induction hs with
  | slnil => rfl
  | @cons l1 l2 a hs ih =>
    rw [List.map_cons, List.nodup_cons] at hnd
    have hnot : (l1.map (·.1)).contains a.1 = false := by
      rw [List.contains_eq_mem, decide_eq_false_iff_not]
      intro hmem
      exact hnd.1 ((hs.map (·.1)).subset hmem)
    rw [List.filter_cons, hnot]
    simp only [Bool.false_eq_true, if_false]
    exact ih hnd.2
  | @cons_cons l1 l2 a hs ih =>
    rw [List.map_cons, List.nodup_cons] at hnd
    have hyes : ((a :: l1).map (·.1)).contains a.1 = true := by simp
    rw [List.filter_cons, hyes]
    simp only [if_true]
    congr 1
    refine Eq.trans ?_ (ih hnd.2)
    apply List.filter_congr
    intro e he
    have hne : e.1 ≠ a.1 := by
      intro heq
      exact hnd.1 (heq ▸ List.mem_map_of_mem he)
    simp only [List.map_cons, List.contains_cons, beq_eq_false_iff_ne.mpr hne, Bool.false_or]

end Sublist

/-! ### the named quantities of `extendedRow` -/
section ExtRow
variable {K : Type} [Field K] [LinearOrder K]

/-- numerators and lumped diagonal after all strong fine neighbours of `i` have been distributed
    (the model's `pw2`, verbatim) -/
def extFinal (tiny : K → Bool) (states : List Int) (A S : List (List (Nat × K))) (i : Nat) :
    List (Nat × K) × K :=
  ((offDiag i (S.getD i [])).filter fun e => isF states e.1).foldl
    (extFine tiny states A i fun c => (cHat states S i).any (·.1 == c)) (extPass1 states A S i)

/-- the final denominator (before negation) of row `i` -/
def extDen (tiny : K → Bool) (states : List Int) (A S : List (List (Nat × K))) (i : Nat) : K :=
  (extFinal tiny states A S i).2

theorem extendedRow_fine_eq (tiny : K → Bool) {states : List Int} (A S : List (List (Nat × K))) {i : Nat}
    (h : isC states i = false) :
    extendedRow tiny states A S i = (extFinal tiny states A S i).1.map fun e =>
      (colToNew states e.1, e.2 / (-extDen tiny states A S i)) := by
  unfold extendedRow
  rw [if_neg (by simp [h])]
  rfl

/-- a fold of `extFine` never changes the key list -/
theorem foldl_extFine_keys (tiny : K → Bool) (states : List Int) (A : List (List (Nat × K))) (i : Nat)
    (inHat : Nat → Bool) (l : List (Nat × K)) (pw : List (Nat × K) × K) :
    (l.foldl (extFine tiny states A i inHat) pw).1.map (·.1) = pw.1.map (·.1) := by
  induction l generalizing pw with
  | nil => rfl
  | cons e rest ih => rw [List.foldl_cons, ih, extFine_keys]

theorem extFinal_keys (tiny : K → Bool) (states : List Int) (A S : List (List (Nat × K))) (i : Nat) :
    (extFinal tiny states A S i).1.map (·.1) = (cHat states S i).map (·.1) := by
  unfold extFinal
  rw [foldl_extFine_keys, extPass1_keys]

end ExtRow

/-! ### sign of the numerators (M-matrix guard): the numerators only decrease -/
section Signs
variable {K : Type} [Field K] [LinearOrder K] [IsStrictOrderedRing K]

theorem addAt_sum_le (l : List (Nat × K)) (c : Nat) (v : K) (hnd : (l.map (·.1)).Nodup) (hv : v ≤ 0) :
    ((addAt l c v).map (·.2)).sum ≤ (l.map (·.2)).sum := by
  by_cases hc : c ∈ l.map (·.1)
  · rw [addAt_sum l c v hnd hc]
    exact add_le_of_nonpos_right hv
  · rw [addAt_of_not_mem l c v hc]

omit [IsStrictOrderedRing K] in
/-- a loop whose body keeps the keys and does not increase the sum of the numerators -/
theorem foldl_numsum_le {α : Type} (f : List (Nat × K) × K → α → List (Nat × K) × K)
    (ks : List Nat) (l : List α)
    (hstep : ∀ pw, ∀ e ∈ l, pw.1.map (·.1) = ks →
      (f pw e).1.map (·.1) = ks ∧ ((f pw e).1.map (·.2)).sum ≤ (pw.1.map (·.2)).sum)
    (pw : List (Nat × K) × K) (h : pw.1.map (·.1) = ks) :
    ((l.foldl f pw).1.map (·.2)).sum ≤ (pw.1.map (·.2)).sum := by
  induction l generalizing pw with
  | nil => exact le_refl _
  | cons e rest ih =>
    obtain ⟨h1, h2⟩ := hstep pw e (by simp) h
    rw [List.foldl_cons]
    exact le_trans (ih (fun pw' e' he' => hstep pw' e' (by simp [he'])) (f pw e) h1) h2

theorem pass1Step_numsum_le (states : List Int) (strongCols : List Nat) (chat : List (Nat × K))
    (ks : List Nat) (hnd : ks.Nodup) (pw : List (Nat × K) × K) (e : Nat × K) (he : e.2 ≤ 0)
    (h : pw.1.map (·.1) = ks) :
    (pass1Step states strongCols chat pw e).1.map (·.1) = ks
      ∧ ((pass1Step states strongCols chat pw e).1.map (·.2)).sum ≤ (pw.1.map (·.2)).sum := by
  unfold pass1Step
  split
  · exact ⟨h, le_refl _⟩
  · split
    · exact ⟨by rw [addAt_keys, h], addAt_sum_le pw.1 e.1 e.2 (h ▸ hnd) he⟩
    · exact ⟨h, le_refl _⟩

theorem extPass1_numsum_le (states : List Int) (A S : List (List (Nat × K))) (i : Nat)
    (hoff : ∀ e ∈ (A.getD i []).drop 1, e.2 ≤ 0) :
    ((extPass1 states A S i).1.map (·.2)).sum ≤ ((cHat states S i).map (·.2)).sum := by
  rw [extPass1_eq_foldl]
  exact foldl_numsum_le _ ((cHat states S i).map (·.1)) _
    (fun pw e he h => pass1Step_numsum_le states _ _ _ (cHat_keys_nodup states S i) pw e (hoff e he) h) _ rfl

theorem fineStep_numsum_le (states : List Int) (i : Nat) (inHat : Nat → Bool) (neg : Bool) (m : K)
    (ks : List Nat) (hnd : ks.Nodup) (pw : List (Nat × K) × K) (q : Nat × K) (hm : 0 ≤ m) (hq : q.2 ≤ 0)
    (h : pw.1.map (·.1) = ks) :
    (fineStep states i inHat neg m pw q).1.map (·.1) = ks
      ∧ ((fineStep states i inHat neg m pw q).1.map (·.2)).sum ≤ (pw.1.map (·.2)).sum := by
  unfold fineStep
  split
  · split
    · exact ⟨by rw [addAt_keys, h],
        addAt_sum_le pw.1 q.1 (m * q.2) (h ▸ hnd) (mul_nonpos_of_nonneg_of_nonpos hm hq)⟩
    · exact ⟨h, le_refl _⟩
  · split
    · exact ⟨h, le_refl _⟩
    · exact ⟨h, le_refl _⟩

omit [IsStrictOrderedRing K] in
/-- on a row with a positive diagonal the model's `cs` is a sum of negative entries -/
theorem fineCs_nonpos (A : List (List (Nat × K))) (i : Nat) (inHat : Nat → Bool) (k c0 : Nat) (dk : K)
    (koffs : List (Nat × K)) (hrow : A.getD k [] = (c0, dk) :: koffs) (hd : 0 < dk) [IsOrderedAddMonoid K] :
    fineCs A i inHat k ≤ 0 := by
  rw [fineCs_eq]
  apply list_sum_nonpos
  intro x hx
  rw [List.mem_map] at hx
  obtain ⟨q, _, rfl⟩ := hx
  have hneg : decide (diagVal (A.getD k []) < 0) = false := by
    rw [hrow, decide_eq_false_iff_not]
    exact not_lt_of_gt hd
  rw [hneg]
  split
  · rename_i hc
    rw [Bool.and_eq_true] at hc
    have := hc.2
    unfold opp at this
    simp only [Bool.false_eq_true, if_false, decide_eq_true_eq] at this
    exact le_of_lt this
  · exact le_refl _

theorem extFine_numsum_le (tiny : K → Bool) (htiny : ∀ x, tiny x = true ↔ x = 0)
    (states : List Int) (A : List (List (Nat × K))) (i : Nat)
    (inHat : Nat → Bool) (ks : List Nat) (hnd : ks.Nodup)
    (pw : List (Nat × K) × K) (e : Nat × K) (h : pw.1.map (·.1) = ks) (he : e.2 ≤ 0)
    (c0 : Nat) (dk : K) (koffs : List (Nat × K)) (hrow : A.getD e.1 [] = (c0, dk) :: koffs)
    (hd : 0 < dk) (hoff : ∀ q ∈ koffs, q.2 ≤ 0) :
    (extFine tiny states A i inHat pw e).1.map (·.1) = ks
      ∧ ((extFine tiny states A i inHat pw e).1.map (·.2)).sum ≤ (pw.1.map (·.2)).sum := by
  refine ⟨by rw [extFine_keys, h], ?_⟩
  rw [extFine_eq_foldl]
  have hcs := fineCs_nonpos A i inHat e.1 c0 dk koffs hrow hd
  have hm : 0 ≤ (if tiny (fineCs A i inHat e.1) then fineCs A i inHat e.1 else e.2 / fineCs A i inHat e.1) := by
    cases ht : tiny (fineCs A i inHat e.1) with
    | true => simp only [if_true]; exact le_of_eq ((htiny _).mp ht).symm
    | false =>
      simp only [Bool.false_eq_true, if_false]
      exact div_nonneg_of_nonpos he hcs
  have hko : ∀ q ∈ (A.getD e.1 []).drop 1, q.2 ≤ 0 := by
    rw [hrow]; simpa using hoff
  exact foldl_numsum_le _ ks _
    (fun pw' q hq h' => fineStep_numsum_le states i inHat _ _ ks hnd pw' q hm (hko q hq) h')
    (pw.1, if tiny (fineCs A i inHat e.1) then pw.2 + e.2 else pw.2) h

end Signs

end Raptor.Interp
