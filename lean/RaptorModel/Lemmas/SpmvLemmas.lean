import RaptorModel.Model.Spmv
import Mathlib.Algebra.BigOperators.Group.List.Basic
import Mathlib.Algebra.Ring.Defs
import Mathlib.Tactic.Ring
/-!
# Helper lemmas for the SpMV property theorems (C02)

Nothing here changes the model: every lemma is about the functions of `Model/Sparse.lean` and
`Model/Spmv.lean`, with the `Add/Mul/Zero/Sub` instances supplied by Mathlib's `CommSemiring` /
`CommRing`.
-/
namespace Raptor.Spmv
open Raptor.Sparse

/-! ### generic list facts -/
section Generic
variable {M : Type} [AddCommMonoid M]

/-- sum over a filtered list = sum of the guarded terms -/
theorem sum_map_filter {α : Type} (p : α → Bool) (g : α → M) (l : List α) :
    ((l.filter p).map g).sum = (l.map fun a => if p a then g a else 0).sum := by
  induction l with
  | nil => rfl
  | cons a l ih =>
    by_cases h : p a = true
    · simp [h, ih]
    · simp [h, ih]

/-- a sum over `range n` of a term that is non-zero only at `c` -/
theorem sum_range_ite (n c : Nat) (g : Nat → M) :
    ((List.range n).map fun k => if c = k then g k else 0).sum = if c < n then g c else 0 := by
  induction n with
  | zero => simp
  | succ n ih =>
    rw [List.range_succ, List.map_append, List.sum_append, ih]
    by_cases h1 : c < n
    · have h2 : c ≠ n := by omega
      have h3 : c < n + 1 := by omega
      simp [h1, h2, h3]
    · by_cases h2 : c = n
      · subst h2; simp
      · have h3 : ¬ c < n + 1 := by omega
        simp [h1, h2, h3]

theorem sum_range_ite' (n c : Nat) (g : Nat → M) :
    ((List.range n).map fun k => if k = c then g k else 0).sum = if c < n then g c else 0 := by
  rw [← sum_range_ite n c g]
  congr 1
  apply List.map_congr_left
  intro k _
  by_cases h : c = k
  · subst h; simp
  · have h' : ¬ k = c := fun e => h e.symm
    simp [h, h']

/-- congruence of a sum over `range n` using the bound -/
theorem sum_range_congr (n : Nat) (f g : Nat → M) (h : ∀ k, k < n → f k = g k) :
    ((List.range n).map f).sum = ((List.range n).map g).sum := by
  congr 1
  apply List.map_congr_left
  intro k hk
  exact h k (List.mem_range.mp hk)

/-- the additive content of a stable bucketing: summing bucket by bucket is summing the list -/
theorem sum_bucket {α : Type} (n : Nat) (l : List (Nat × α)) (h : ∀ e ∈ l, e.1 < n)
    (φ : Nat → α → M) :
    ((List.range n).map fun k =>
        (((l.filter (fun e => e.1 == k)).map (·.2)).map (φ k)).sum).sum
      = (l.map fun e => φ e.1 e.2).sum := by
  induction l with
  | nil => simp
  | cons e l ih =>
    have hl : ∀ e ∈ l, e.1 < n := fun e he => h e (List.mem_cons_of_mem _ he)
    have he : e.1 < n := h e List.mem_cons_self
    rw [List.map_cons, List.sum_cons, ← ih hl]
    have key : ∀ k, ((((e :: l).filter (fun e => e.1 == k)).map (·.2)).map (φ k)).sum
        = (if e.1 = k then φ k e.2 else 0)
          + (((l.filter (fun e => e.1 == k)).map (·.2)).map (φ k)).sum := by
      intro k
      by_cases hk : e.1 = k
      · simp [hk]
      · simp [hk]
    rw [show (fun k => ((((e :: l).filter (fun e => e.1 == k)).map (·.2)).map (φ k)).sum)
        = fun k => (if e.1 = k then φ k e.2 else 0)
          + (((l.filter (fun e => e.1 == k)).map (·.2)).map (φ k)).sum from funext key]
    rw [List.sum_map_add, sum_range_ite n e.1 (fun k => φ k e.2)]
    simp [he]

/-- sum over the entries of a list of rows (with index offset `k`) = sum of the row sums -/
theorem sum_zipIdx_flatMap {α β : Type} (rows : List (List α)) (k : Nat)
    (g : Nat → α → β) (ψ : β → M) :
    (((rows.zipIdx k).flatMap fun p => p.1.map (g p.2)).map ψ).sum
      = ((List.range rows.length).map fun i =>
          ((rows.getD i []).map fun a => ψ (g (k + i) a)).sum).sum := by
  induction rows generalizing k with
  | nil => simp
  | cons r rows ih =>
    rw [List.zipIdx_cons, List.flatMap_cons, List.map_append, List.sum_append, ih (k + 1)]
    rw [List.length_cons, List.range_succ_eq_map, List.map_cons, List.sum_cons, List.map_map]
    congr 1
    · simp [Function.comp_def]
      congr 1
      apply List.map_congr_left
      intro i _
      rw [Nat.add_assoc, Nat.add_comm 1 i]

end Generic

/-! ### `upd`, `zeros` -/
section Upd
variable {K : Type}

theorem upd_length (b : List K) (i : Nat) (f : K → K) : (upd b i f).length = b.length := by
  simp [upd]

theorem upd_getD_self [Zero K] (b : List K) (i : Nat) (f : K → K) (hi : i < b.length) :
    (upd b i f).getD i 0 = f (b.getD i 0) := by
  simp [upd, List.getD_eq_getElem?_getD, List.getElem?_eq_getElem hi]

theorem upd_getD_ne [Zero K] (b : List K) (k i : Nat) (f : K → K) (h : k ≠ i) :
    (upd b k f).getD i 0 = b.getD i 0 := by
  simp [upd, List.getD_eq_getElem?_getD, h]

theorem zeros_length [Zero K] (n : Nat) : (zeros n : List K).length = n := by
  simp [zeros]

theorem zeros_getD [Zero K] (n i : Nat) : (zeros n : List K).getD i 0 = 0 := by
  simp only [zeros, List.getD_eq_getElem?_getD, List.getElem?_replicate]
  split <;> rfl

end Upd

/-! ### the specification-side action -/
section Act
variable {K : Type} [CommSemiring K]

/-- exchange of the row and column roles of an entry -/
abbrev swapE : Entry K → Entry K := fun (i, j, v) => (j, i, v)

theorem actE_nil (x : List K) (i : Nat) : actE ([] : List (Entry K)) x i = 0 := rfl
theorem actTE_nil (x : List K) (j : Nat) : actTE ([] : List (Entry K)) x j = 0 := rfl

theorem actE_eq_sum_ite (es : List (Entry K)) (x : List K) (i : Nat) :
    actE es x i = (es.map fun e => if e.1 = i then e.2.2 * at' x e.2.1 else 0).sum := by
  unfold actE
  rw [sum_map_filter]
  simp

theorem actTE_eq_sum_ite (es : List (Entry K)) (x : List K) (j : Nat) :
    actTE es x j = (es.map fun e => if e.2.1 = j then e.2.2 * at' x e.1 else 0).sum := by
  unfold actTE
  rw [sum_map_filter]
  simp

theorem actE_cons (e : Entry K) (es : List (Entry K)) (x : List K) (i : Nat) :
    actE (e :: es) x i = (if e.1 = i then e.2.2 * at' x e.2.1 else 0) + actE es x i := by
  simp only [actE_eq_sum_ite, List.map_cons, List.sum_cons]

theorem actTE_cons (e : Entry K) (es : List (Entry K)) (x : List K) (j : Nat) :
    actTE (e :: es) x j = (if e.2.1 = j then e.2.2 * at' x e.1 else 0) + actTE es x j := by
  simp only [actTE_eq_sum_ite, List.map_cons, List.sum_cons]

theorem actE_append (es₁ es₂ : List (Entry K)) (x : List K) (i : Nat) :
    actE (es₁ ++ es₂) x i = actE es₁ x i + actE es₂ x i := by
  simp only [actE_eq_sum_ite, List.map_append, List.sum_append]

theorem actTE_eq_actE_swap (es : List (Entry K)) (x : List K) (j : Nat) :
    actTE es x j = actE (es.map swapE) x j := by
  simp only [actE_eq_sum_ite, actTE_eq_sum_ite, List.map_map]
  rfl

theorem appendTE_eq_appendE_swap (es : List (Entry K)) (x b : List K) :
    appendTE es x b = appendE (es.map swapE) x b := by
  simp only [appendE, appendTE, List.foldl_map]

theorem appendNegTE_eq_appendNegE_swap {K : Type} [CommRing K] (es : List (Entry K))
    (x b : List K) : appendNegTE es x b = appendNegE (es.map swapE) x b := by
  simp only [appendNegE, appendNegTE, List.foldl_map]

omit [CommSemiring K] in
theorem swapE_swapE (es : List (Entry K)) : (es.map swapE).map swapE = es := by
  simp [List.map_map, Function.comp_def]

end Act

/-! ### folds of the kernels as sums -/
section Folds
variable {K : Type}

theorem foldl_add_eq [CommSemiring K] {α : Type} (f : α → K) (a : K) (l : List α) :
    l.foldl (fun acc e => acc + f e) a = a + (l.map f).sum := by
  induction l generalizing a with
  | nil => simp
  | cons e l ih => rw [List.foldl_cons, ih, List.map_cons, List.sum_cons, add_assoc]

theorem foldl_sub_eq [CommRing K] {α : Type} (f : α → K) (a : K) (l : List α) :
    l.foldl (fun acc e => acc - f e) a = a - (l.map f).sum := by
  induction l generalizing a with
  | nil => simp
  | cons e l ih => rw [List.foldl_cons, ih, List.map_cons, List.sum_cons, sub_sub]

theorem rowDot_eq_sum [CommSemiring K] (row : List (Nat × K)) (x : List K) :
    rowDot row x = (row.map fun e => e.2 * at' x e.1).sum := by
  unfold rowDot
  rw [foldl_add_eq (fun e : Nat × K => e.2 * at' x e.1), zero_add]

end Folds

/-! ### sums over the entries of compressed structures -/
section Entries
variable {K : Type} {M : Type} [AddCommMonoid M]

/-- a sum over the CSR entries is the sum over the rows of the row sums -/
theorem sum_map_rowsEntries (rows : List (List (Nat × K))) (ψ : Entry K → M) :
    ((rowsEntries rows).map ψ).sum
      = ((List.range rows.length).map fun i =>
          ((rows.getD i []).map fun a => ψ (i, a.1, a.2)).sum).sum := by
  have h := sum_zipIdx_flatMap rows 0 (fun i (a : Nat × K) => ((i, a.1, a.2) : Entry K)) ψ
  simp only [Nat.zero_add] at h
  exact h

/-- a sum over the CSC entries is the sum over the columns of the column sums -/
theorem sum_map_colsEntries (A : Csc K) (ψ : Entry K → M) :
    (A.entries.map ψ).sum
      = ((List.range A.cols.length).map fun j =>
          ((A.cols.getD j []).map fun a => ψ (a.1, j, a.2)).sum).sum := by
  have h := sum_zipIdx_flatMap A.cols 0 (fun j (a : Nat × K) => ((a.1, j, a.2) : Entry K)) ψ
  simp only [Nat.zero_add] at h
  exact h

theorem bucket_length {α : Type} (n : Nat) (l : List (Nat × α)) : (bucket n l).length = n := by
  simp [bucket]

theorem bucket_getD {α : Type} (n : Nat) (l : List (Nat × α)) (k : Nat) (hk : k < n) :
    (bucket n l).getD k [] = (l.filter (fun e => e.1 == k)).map (·.2) := by
  simp [bucket, List.getD_eq_getElem?_getD, List.getElem?_map, List.getElem?_range hk]

/-- summing any function of (bucket index, payload) over a stable bucketing = summing over the
    original list, when every key is in range -/
theorem sum_bucket_rows {α : Type} (n : Nat) (l : List (Nat × α)) (h : ∀ e ∈ l, e.1 < n)
    (φ : Nat → α → M) :
    ((List.range (bucket n l).length).map fun k =>
        (((bucket n l).getD k []).map (φ k)).sum).sum
      = (l.map fun e => φ e.1 e.2).sum := by
  rw [bucket_length, ← sum_bucket n l h φ]
  apply sum_range_congr
  intro k hk
  rw [bucket_getD n l k hk]

end Entries

/-! ### the action of CSR entries, row by row -/
section RowAct
variable {K : Type} [CommSemiring K]

theorem sum_map_ite_const {α : Type} {M : Type} [AddCommMonoid M] (c : Prop) [Decidable c]
    (g : α → M) (l : List α) :
    (l.map fun a => if c then g a else 0).sum = if c then (l.map g).sum else 0 := by
  by_cases h : c <;> simp [h]

/-- the action of the entries of a list of rows on `x`, at row `i`, is the dot product of row `i`
    (the empty row beyond the end) -/
theorem actE_rowsEntries (rows : List (List (Nat × K))) (x : List K) (i : Nat) :
    actE (rowsEntries rows) x i = ((rows.getD i []).map fun e => e.2 * at' x e.1).sum := by
  rw [actE_eq_sum_ite, sum_map_rowsEntries]
  simp only [sum_map_ite_const]
  rw [sum_range_ite' rows.length i
    (fun r => ((rows.getD r []).map fun e => e.2 * at' x e.1).sum)]
  by_cases h : i < rows.length
  · rw [if_pos h]
  · rw [if_neg h]
    have : rows.getD i [] = [] := by
      simp only [List.getD_eq_getElem?_getD]
      rw [List.getElem?_eq_none (by omega)]
      rfl
    rw [this]; rfl

end RowAct

/-! ### the dense image -/
section Den
variable {K : Type} [CommSemiring K]

theorem denE_eq_sum_ite (es : List (Entry K)) (i j : Nat) :
    denE es i j = (es.map fun e => if e.1 = i ∧ e.2.1 = j then e.2.2 else 0).sum := by
  unfold denE
  rw [sum_map_filter]
  simp

theorem denE_nil (i j : Nat) : denE ([] : List (Entry K)) i j = 0 := rfl

theorem denE_cons (e : Entry K) (es : List (Entry K)) (i j : Nat) :
    denE (e :: es) i j = (if e.1 = i ∧ e.2.1 = j then e.2.2 else 0) + denE es i j := by
  simp only [denE_eq_sum_ite, List.map_cons, List.sum_cons]

/-- one entry against `x`: the row of the dense image of a single entry times `x` -/
theorem sum_single_den (e : Entry K) (n i : Nat) (x : List K) (h : e.2.1 < n) :
    ((List.range n).map fun j => (if e.1 = i ∧ e.2.1 = j then e.2.2 else 0) * at' x j).sum
      = if e.1 = i then e.2.2 * at' x e.2.1 else 0 := by
  by_cases hi : e.1 = i
  · have : (fun j => (if e.1 = i ∧ e.2.1 = j then e.2.2 else 0) * at' x j)
        = fun j => if e.2.1 = j then e.2.2 * at' x j else 0 := by
      funext j
      by_cases hj : e.2.1 = j <;> simp [hi, hj]
    rw [this, sum_range_ite n e.2.1 (fun j => e.2.2 * at' x j), if_pos h, if_pos hi]
  · simp [hi]

/-- same with the roles exchanged -/
theorem sum_single_denT (e : Entry K) (n j : Nat) (x : List K) (h : e.1 < n) :
    ((List.range n).map fun i => (if e.1 = i ∧ e.2.1 = j then e.2.2 else 0) * at' x i).sum
      = if e.2.1 = j then e.2.2 * at' x e.1 else 0 := by
  by_cases hj : e.2.1 = j
  · have : (fun i => (if e.1 = i ∧ e.2.1 = j then e.2.2 else 0) * at' x i)
        = fun i => if e.1 = i then e.2.2 * at' x i else 0 := by
      funext i
      by_cases hi : e.1 = i <;> simp [hi, hj]
    rw [this, sum_range_ite n e.1 (fun i => e.2.2 * at' x i), if_pos h, if_pos hj]
  · simp [hj]

end Den

/-! ### the format conversions keep every sum over the entries -/
section Conv
variable {K : Type} {M : Type} [AddCommMonoid M]

theorem Coo.WF_bounds (A : Coo K) (h : A.WF = true) :
    ∀ e ∈ A.ents, e.1 < A.nRows ∧ e.2.1 < A.nCols := by
  intro e he
  have := List.all_eq_true.mp h e he
  simpa using this

theorem mem_rowsEntries {rows : List (List (Nat × K))} {e : Entry K}
    (h : e ∈ rowsEntries rows) : ∃ hr : e.1 < rows.length, (e.2.1, e.2.2) ∈ rows[e.1] := by
  unfold rowsEntries at h
  obtain ⟨⟨row, i⟩, hp, he⟩ := List.mem_flatMap.mp h
  obtain ⟨hlt, hrow⟩ := List.mem_zipIdx' hp
  obtain ⟨⟨j, v⟩, ha, rfl⟩ := List.mem_map.mp he
  refine ⟨hlt, ?_⟩
  show (j, v) ∈ rows[i]
  rw [← hrow]; exact ha

theorem mem_colsEntries {A : Csc K} {e : Entry K}
    (h : e ∈ A.entries) : ∃ hc : e.2.1 < A.cols.length, (e.1, e.2.2) ∈ A.cols[e.2.1] := by
  unfold Csc.entries at h
  obtain ⟨⟨col, j⟩, hp, he⟩ := List.mem_flatMap.mp h
  obtain ⟨hlt, hcol⟩ := List.mem_zipIdx' hp
  obtain ⟨⟨i, v⟩, ha, rfl⟩ := List.mem_map.mp he
  refine ⟨hlt, ?_⟩
  show (i, v) ∈ A.cols[j]
  rw [← hcol]; exact ha

theorem Csr.WF_bounds (A : Csr K) (h : A.WF = true) :
    ∀ e ∈ A.entries, e.1 < A.nRows ∧ e.2.1 < A.nCols := by
  intro e he
  obtain ⟨hr, hmem⟩ := mem_rowsEntries he
  simp only [Csr.WF, Bool.and_eq_true, beq_iff_eq, List.all_eq_true, decide_eq_true_eq] at h
  exact ⟨h.1 ▸ hr, h.2 _ (List.getElem_mem hr) _ hmem⟩

theorem Csc.WF_bounds (A : Csc K) (h : A.WF = true) :
    ∀ e ∈ A.entries, e.1 < A.nRows ∧ e.2.1 < A.nCols := by
  intro e he
  obtain ⟨hc, hmem⟩ := mem_colsEntries he
  simp only [Csc.WF, Bool.and_eq_true, beq_iff_eq, List.all_eq_true, decide_eq_true_eq] at h
  exact ⟨h.2 _ (List.getElem_mem hc) _ hmem, h.1 ▸ hc⟩

/-- bucketing an entry list by row and reading the buckets as CSR keeps every sum -/
theorem sum_map_rowsEntries_bucket (n : Nat) (es : List (Entry K)) (h : ∀ e ∈ es, e.1 < n)
    (ψ : Entry K → M) :
    ((rowsEntries (bucket n (es.map fun (i, j, v) => (i, (j, v))))).map ψ).sum
      = (es.map ψ).sum := by
  have hl : ∀ p ∈ es.map (fun (e : Entry K) => (e.1, (e.2.1, e.2.2))), p.1 < n := by
    intro p hp
    obtain ⟨e, he, rfl⟩ := List.mem_map.mp hp
    exact h e he
  rw [sum_map_rowsEntries]
  exact (sum_bucket_rows n _ hl (fun k (a : Nat × K) => ψ (k, a.1, a.2))).trans
    (by rw [List.map_map]; rfl)

/-- bucketing an entry list by column and reading the buckets as CSC keeps every sum -/
theorem sum_map_colsEntries_bucket (nR nC n : Nat) (es : List (Entry K))
    (h : ∀ e ∈ es, e.2.1 < n) (ψ : Entry K → M) :
    ((Csc.entries ⟨nR, nC, bucket n (es.map fun (i, j, v) => (j, (i, v)))⟩).map ψ).sum
      = (es.map ψ).sum := by
  have hl : ∀ p ∈ es.map (fun (e : Entry K) => (e.2.1, (e.1, e.2.2))), p.1 < n := by
    intro p hp
    obtain ⟨e, he, rfl⟩ := List.mem_map.mp hp
    exact h e he
  rw [sum_map_colsEntries]
  exact (sum_bucket_rows n _ hl (fun k (a : Nat × K) => ψ (a.1, k, a.2))).trans
    (by rw [List.map_map]; rfl)

/-- two lists on which every `Nat`-valued additive functional agrees are permutations -/
theorem perm_of_sum_map_eq {α : Type} (l₁ l₂ : List α)
    (h : ∀ ψ : α → Nat, (l₁.map ψ).sum = (l₂.map ψ).sum) : l₁.Perm l₂ := by
  classical
  have hc : ∀ (a : α) (l : List α), l.count a = (l.map fun e => if e = a then 1 else 0).sum := by
    intro a l
    induction l with
    | nil => rfl
    | cons b l ih =>
      rw [List.count_cons, ih, List.map_cons, List.sum_cons, Nat.add_comm]
      simp
  rw [List.perm_iff_count]
  intro a
  rw [hc, hc, h]

end Conv

end Raptor.Spmv
