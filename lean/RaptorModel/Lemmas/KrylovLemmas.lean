import Mathlib.Algebra.BigOperators.Group.List.Basic
import Mathlib.Algebra.Ring.Basic
import Mathlib.Tactic.Ring
import RaptorModel.Model.Krylov

/-!
# Lemmas for property C17 (Krylov solvers report true residuals)

* vector algebra on lists (`dot`, `axpy`, `scale`);
* the one-step functions of the CG / BiCGStab loops and the trace functions `cgIterates`,
  `bicgIterates` (the list of `(x_k, r_k)` the loops produce, same recursion as the loops);
* structural facts about the loops (history, iteration count, returned iterate, stopping);
* the residual invariant `r = resid x`;
* the NaN-extended inner product / sum of squares;
* block (distributed) inner product = sequential inner product.
-/

namespace Raptor.Krylov

/-! ## A. vector algebra -/

section Algebra
variable {K : Type}

theorem length_axpy [Add K] [Mul K] (y x : List K) (a : K) :
    (axpy y x a).length = min y.length x.length := by
  simp [axpy]

theorem length_axpy_of_eq [Add K] [Mul K] {n : Nat} {y x : List K} (a : K)
    (hy : y.length = n) (hx : x.length = n) : (axpy y x a).length = n := by
  simp [axpy, hy, hx]

theorem length_scale [Mul K] (y : List K) (a : K) : (scale y a).length = y.length := by
  simp [scale]

theorem getElem_axpy [Add K] [Mul K] (y x : List K) (a : K) (i : Nat)
    (h : i < (axpy y x a).length) :
    (axpy y x a)[i] =
      y[i]'(by rw [length_axpy] at h; omega) + a * x[i]'(by rw [length_axpy] at h; omega) := by
  simp [axpy]

theorem getElem_scale [Mul K] (y : List K) (a : K) (i : Nat) (h : i < (scale y a).length) :
    (scale y a)[i] = a * y[i]'(by rw [length_scale] at h; exact h) := by
  simp [scale]

/-- length of the search-direction update `p ← β p + r` -/
theorem length_pupdate [Add K] [Mul K] {n : Nat} {p r : List K} (beta : K)
    (hp : p.length = n) (hr : r.length = n) :
    (((scale p beta).zip r).map fun q => q.1 + q.2).length = n := by
  simp [scale, hp, hr]

@[simp] theorem axpy_nil_left [Add K] [Mul K] (x : List K) (a : K) : axpy [] x a = [] := by
  simp [axpy]
@[simp] theorem axpy_nil_right [Add K] [Mul K] (y : List K) (a : K) : axpy y [] a = [] := by
  simp [axpy]
@[simp] theorem axpy_cons [Add K] [Mul K] (y0 x0 : K) (y x : List K) (a : K) :
    axpy (y0 :: y) (x0 :: x) a = (y0 + a * x0) :: axpy y x a := by
  simp [axpy]

theorem foldl_add_mul [AddCommMonoid K] [Mul K] (l : List (K × K)) (s : K) :
    l.foldl (fun s p => s + p.1 * p.2) s = s + (l.map fun p => p.1 * p.2).sum := by
  induction l generalizing s with
  | nil => simp
  | cons a l ih => simp [List.foldl_cons, ih, add_assoc]

/-- the left fold of `dot` is the sum of the entrywise products -/
theorem dot_eq_sum [NonUnitalNonAssocSemiring K] (u v : List K) :
    dot u v = ((u.zip v).map fun p => p.1 * p.2).sum := by
  unfold dot; rw [foldl_add_mul, zero_add]

@[simp] theorem dot_nil_left [NonUnitalNonAssocSemiring K] (v : List K) : dot [] v = 0 := by
  simp [dot]
@[simp] theorem dot_nil_right [NonUnitalNonAssocSemiring K] (u : List K) : dot u [] = 0 := by
  simp [dot]
theorem dot_cons [NonUnitalNonAssocSemiring K] (a b : K) (u v : List K) :
    dot (a :: u) (b :: v) = a * b + dot u v := by
  simp [dot_eq_sum]

theorem dot_comm [CommSemiring K] (u v : List K) : dot u v = dot v u := by
  induction u generalizing v with
  | nil => simp
  | cons a u ih =>
    cases v with
    | nil => simp
    | cons b v => rw [dot_cons, dot_cons, ih, mul_comm]

/-- `⟨u, y + a x⟩ = ⟨u, y⟩ + a ⟨u, x⟩` (`y`, `x` of equal length, `u` arbitrary) -/
theorem dot_axpy_right [CommSemiring K] (u y x : List K) (a : K) (h : y.length = x.length) :
    dot u (axpy y x a) = dot u y + a * dot u x := by
  induction u generalizing y x with
  | nil => simp
  | cons u0 u ih =>
    cases y with
    | nil => cases x with
      | nil => simp
      | cons x0 x => simp at h
    | cons y0 y => cases x with
      | nil => simp at h
      | cons x0 x =>
        simp only [List.length_cons, Nat.add_right_cancel_iff] at h
        rw [axpy_cons, dot_cons, dot_cons, dot_cons, ih y x h]; ring

theorem dot_axpy_left [CommSemiring K] (u y x : List K) (a : K) (h : y.length = x.length) :
    dot (axpy y x a) u = dot y u + a * dot x u := by
  rw [dot_comm, dot_axpy_right u y x a h, dot_comm u y, dot_comm u x]

theorem dot_scale_right [CommSemiring K] (u v : List K) (a : K) :
    dot u (scale v a) = a * dot u v := by
  induction u generalizing v with
  | nil => simp
  | cons u0 u ih =>
    cases v with
    | nil => simp [scale]
    | cons v0 v =>
      have : scale (v0 :: v) a = (a * v0) :: scale v a := by simp [scale]
      rw [this, dot_cons, dot_cons, ih]; ring

theorem dot_scale_left [CommSemiring K] (u v : List K) (a : K) :
    dot (scale u a) v = a * dot u v := by
  rw [dot_comm, dot_scale_right, dot_comm]

/-- `(b − u) − α w = b − (u + α w)`, entrywise, for arbitrary lists (zips truncate alike) -/
theorem axpy_axpy_neg [CommRing K] (b u w : List K) (al : K) :
    axpy (axpy b u (-1)) w (-al) = axpy b (axpy u w al) (-1) := by
  apply List.ext_getElem
  · simp only [length_axpy]; omega
  · intro i h1 h2
    rw [getElem_axpy, getElem_axpy, getElem_axpy, getElem_axpy]; ring

end Algebra

/-! ## B/C. the CG loop: one-step functions, trace, structural facts -/

section CGStep
variable {K : Type} [Add K] [Mul K] [Div K] [Neg K] [Zero K]

/-- step length `α = ⟨r,r⟩ / ⟨Ap,p⟩` -/
def cgAlpha (mv : List K → List K) (p : List K) (rr : K) : K := rr / dot (mv p) p
/-- next iterate `x + α p` -/
def cgNextX (mv : List K → List K) (x p : List K) (rr : K) : List K := axpy x p (cgAlpha mv p rr)
/-- next residual: recurrence, or explicit recomputation at iterations 0, 8, 16, … -/
def cgNextR (mv resid : List K → List K) (it : Nat) (x r p : List K) (rr : K) : List K :=
  if it % 8 != 0 && it > 0 then axpy r (mv p) (-(cgAlpha mv p rr)) else resid (cgNextX mv x p rr)
/-- next search direction `β p + r'` -/
def cgNextP (mv resid : List K → List K) (it : Nat) (x r p : List K) (rr : K) : List K :=
  let r' := cgNextR mv resid it x r p rr
  ((scale p (dot r' r' / rr)).zip r').map fun q => q.1 + q.2

end CGStep

section CGStruct
variable {K : Type} [Add K] [Mul K] [Div K] [Neg K] [Zero K] [SqrtOp K] [LT K]
  [DecidableLT K]

/-- unfolding equation of the loop in terms of the one-step functions (definitional) -/
theorem cgLoop_succ [Sub K] (mv resid : List K → List K) (tol : K) (maxIter : Nat) (report : K → K)
    (fuel it : Nat) (x r p : List K) (rr normr : K) (res : List K) :
    cgLoop mv resid tol maxIter report (fuel+1) it x r p rr normr res =
      if tol < normr ∧ it < maxIter then
        cgLoop mv resid tol maxIter report fuel (it+1) (cgNextX mv x p rr)
          (cgNextR mv resid it x r p rr) (cgNextP mv resid it x r p rr)
          (dot (cgNextR mv resid it x r p rr) (cgNextR mv resid it x r p rr))
          (SqrtOp.sqrt (dot (cgNextR mv resid it x r p rr) (cgNextR mv resid it x r p rr)))
          (res ++ [report (SqrtOp.sqrt
            (dot (cgNextR mv resid it x r p rr) (cgNextR mv resid it x r p rr)))])
      else { x := x, res := res, iters := it } := rfl

/-- The iterates `(x_k, r_k)` produced by `cgLoop` after the entry state (same recursion, same
    tests, same updates; only the output differs). -/
def cgIterates (mv resid : List K → List K) (tol : K) (maxIter : Nat) :
    Nat → Nat → List K → List K → List K → K → K → List (List K × List K)
  | 0, _, _, _, _, _, _ => []
  | fuel+1, it, x, r, p, rr, normr =>
    if tol < normr ∧ it < maxIter then
      let x' := cgNextX mv x p rr
      let r' := cgNextR mv resid it x r p rr
      (x', r') :: cgIterates mv resid tol maxIter fuel (it+1) x' r' (cgNextP mv resid it x r p rr)
        (dot r' r') (SqrtOp.sqrt (dot r' r'))
    else []

theorem cgIterates_succ (mv resid : List K → List K) (tol : K) (maxIter : Nat)
    (fuel it : Nat) (x r p : List K) (rr normr : K) :
    cgIterates mv resid tol maxIter (fuel+1) it x r p rr normr =
      if tol < normr ∧ it < maxIter then
        (cgNextX mv x p rr, cgNextR mv resid it x r p rr) ::
          cgIterates mv resid tol maxIter fuel (it+1) (cgNextX mv x p rr)
            (cgNextR mv resid it x r p rr) (cgNextP mv resid it x r p rr)
            (dot (cgNextR mv resid it x r p rr) (cgNextR mv resid it x r p rr))
            (SqrtOp.sqrt (dot (cgNextR mv resid it x r p rr) (cgNextR mv resid it x r p rr)))
      else [] := rfl

/-- the norm the loop attaches to an iterate `(x_k, r_k)` -/
def nrm (xr : List K × List K) : K := SqrtOp.sqrt (dot xr.2 xr.2)

/-- reported history = entry history ++ reports of the produced iterates -/
theorem cgLoop_res [Sub K] (mv resid : List K → List K) (tol : K) (maxIter : Nat) (report : K → K)
    (fuel it : Nat) (x r p : List K) (rr normr : K) (res : List K) :
    (cgLoop mv resid tol maxIter report fuel it x r p rr normr res).res =
      res ++ (cgIterates mv resid tol maxIter fuel it x r p rr normr).map fun xr => report (nrm xr) := by
  induction fuel generalizing it x r p rr normr res with
  | zero => simp [cgLoop, cgIterates]
  | succ fuel ih =>
    rw [cgLoop_succ, cgIterates_succ]
    split
    · rw [ih]; simp [nrm]
    · simp

theorem cgLoop_iters [Sub K] (mv resid : List K → List K) (tol : K) (maxIter : Nat) (report : K → K)
    (fuel it : Nat) (x r p : List K) (rr normr : K) (res : List K) :
    (cgLoop mv resid tol maxIter report fuel it x r p rr normr res).iters =
      it + (cgIterates mv resid tol maxIter fuel it x r p rr normr).length := by
  induction fuel generalizing it x r p rr normr res with
  | zero => simp [cgLoop, cgIterates]
  | succ fuel ih =>
    rw [cgLoop_succ, cgIterates_succ]
    split
    · rw [ih]; simp; omega
    · simp

/-- the returned vector is the last produced iterate -/
theorem cgLoop_x [Sub K] (mv resid : List K → List K) (tol : K) (maxIter : Nat) (report : K → K)
    (fuel it : Nat) (x r p : List K) (rr normr : K) (res : List K) :
    (x :: (cgIterates mv resid tol maxIter fuel it x r p rr normr).map Prod.fst)[
        (cgIterates mv resid tol maxIter fuel it x r p rr normr).length]? =
      some (cgLoop mv resid tol maxIter report fuel it x r p rr normr res).x := by
  induction fuel generalizing it x r p rr normr res with
  | zero => simp [cgLoop, cgIterates]
  | succ fuel ih =>
    rw [cgLoop_succ, cgIterates_succ]
    split
    · simp only [List.map_cons, List.length_cons, List.getElem?_cons_succ]
      exact ih ..
    · simp

theorem cgLoop_iters_le [Sub K] (mv resid : List K → List K) (tol : K) (maxIter : Nat) (report : K → K)
    (fuel it : Nat) (x r p : List K) (rr normr : K) (res : List K) (h : it ≤ maxIter) :
    (cgLoop mv resid tol maxIter report fuel it x r p rr normr res).iters ≤ maxIter := by
  induction fuel generalizing it x r p rr normr res with
  | zero => simpa [cgLoop] using h
  | succ fuel ih =>
    rw [cgLoop_succ]
    split
    · next hc => exact ih _ _ _ _ _ _ _ (by omega)
    · simpa using h

/-- every iterate before the last one failed the tolerance test -/
theorem cgIterates_before (mv resid : List K → List K) (tol : K) (maxIter : Nat)
    (fuel it : Nat) (x r p : List K) (rr normr : K) (k : Nat) (v : K)
    (hk : k < (cgIterates mv resid tol maxIter fuel it x r p rr normr).length)
    (hv : (normr :: (cgIterates mv resid tol maxIter fuel it x r p rr normr).map nrm)[k]? = some v) :
    tol < v := by
  induction fuel generalizing it x r p rr normr k with
  | zero => simp [cgIterates] at hk
  | succ fuel ih =>
    rw [cgIterates_succ] at hk hv
    split at hk
    · next hc =>
      rw [if_pos hc] at hv
      cases k with
      | zero => simp at hv; rw [← hv]; exact hc.1
      | succ k =>
        simp only [List.map_cons, List.getElem?_cons_succ] at hv
        simp only [List.length_cons, Nat.add_lt_add_iff_right] at hk
        exact ih _ _ _ _ _ _ _ hk hv
    · simp at hk

/-- if the loop stopped before the iteration limit (with enough fuel), the last iterate meets the
    tolerance -/
theorem cgIterates_last (mv resid : List K → List K) (tol : K) (maxIter : Nat)
    (fuel it : Nat) (x r p : List K) (rr normr : K) (v : K)
    (hfuel : maxIter ≤ it + fuel)
    (hlt : it + (cgIterates mv resid tol maxIter fuel it x r p rr normr).length < maxIter)
    (hv : (normr :: (cgIterates mv resid tol maxIter fuel it x r p rr normr).map nrm)[
        (cgIterates mv resid tol maxIter fuel it x r p rr normr).length]? = some v) :
    ¬ tol < v := by
  induction fuel generalizing it x r p rr normr with
  | zero => simp [cgIterates] at hlt; omega
  | succ fuel ih =>
    rw [cgIterates_succ] at hlt hv
    split at hlt
    · next hc =>
      rw [if_pos hc] at hv
      simp only [List.map_cons, List.length_cons, List.getElem?_cons_succ] at hv
      simp only [List.length_cons] at hlt
      refine ih _ _ _ _ _ _ (by omega) ?_ hv
      simp only [nrm]; omega
    · next hc =>
      rw [if_neg hc] at hv
      simp at hv hlt
      rw [← hv]; intro ht; exact hc ⟨ht, hlt⟩


/-- fuel beyond `maxIter − it` is never used -/
theorem cgIterates_fuel (mv resid : List K → List K) (tol : K) (maxIter : Nat)
    (fuel fuel' it : Nat) (x r p : List K) (rr normr : K)
    (h1 : maxIter ≤ it + fuel) (h2 : maxIter ≤ it + fuel') :
    cgIterates mv resid tol maxIter fuel it x r p rr normr =
      cgIterates mv resid tol maxIter fuel' it x r p rr normr := by
  induction fuel generalizing fuel' it x r p rr normr with
  | zero =>
    cases fuel' with
    | zero => rfl
    | succ f =>
      rw [cgIterates_succ, if_neg (by intro h; omega)]; rfl
  | succ fuel ih =>
    cases fuel' with
    | zero => rw [cgIterates_succ, if_neg (by intro h; omega)]; rfl
    | succ f =>
      rw [cgIterates_succ, cgIterates_succ]
      split
      · rw [ih f]
        all_goals omega
      · rfl

/-- lowering the iteration limit truncates the sequence of iterates -/
theorem cgIterates_take (mv resid : List K → List K) (tol : K) (m M : Nat) (hm : m ≤ M)
    (fuel it : Nat) (x r p : List K) (rr normr : K) :
    cgIterates mv resid tol m fuel it x r p rr normr =
      (cgIterates mv resid tol M fuel it x r p rr normr).take (m - it) := by
  induction fuel generalizing it x r p rr normr with
  | zero => simp [cgIterates]
  | succ fuel ih =>
    rw [cgIterates_succ, cgIterates_succ]
    by_cases hc : tol < normr
    · by_cases hi : it < m
      · rw [if_pos ⟨hc, hi⟩, if_pos ⟨hc, by omega⟩, ih]
        have : m - it = (m - (it + 1)) + 1 := by omega
        rw [this, List.take_succ_cons]
      · rw [if_neg (by intro h; exact hi h.2)]
        have : m - it = 0 := by omega
        rw [this, List.take_zero]
    · rw [if_neg (by intro h; exact hc h.1), if_neg (by intro h; exact hc h.1)]; simp

end CGStruct

/-! ## B. the residual invariant of CG -/

section CGInv
variable {K : Type} [CommRing K]

/-- The operator hypotheses: `mv` maps length-`n` vectors to length-`n` vectors, is additive
    and homogeneous in the `axpy` form, and `resid x = b − mv x`. -/
structure LinSys (n : Nat) (mv resid : List K → List K) (b : List K) : Prop where
  hb : b.length = n
  hlen : ∀ v, v.length = n → (mv v).length = n
  hadd : ∀ y x a, y.length = n → x.length = n → mv (axpy y x a) = axpy (mv y) (mv x) a
  hres : ∀ x, x.length = n → resid x = axpy b (mv x) (-1)

theorem LinSys.length_resid {n : Nat} {mv resid : List K → List K} {b : List K}
    (L : LinSys n mv resid b) {x : List K} (hx : x.length = n) : (resid x).length = n := by
  rw [L.hres x hx]; exact length_axpy_of_eq _ L.hb (L.hlen x hx)

/-- **recurrence residual = true residual**: `(b − A x) − α A p = b − A (x + α p)` -/
theorem LinSys.resid_step {n : Nat} {mv resid : List K → List K} {b : List K}
    (L : LinSys n mv resid b) {x p : List K} (al : K) (hx : x.length = n) (hp : p.length = n) :
    axpy (resid x) (mv p) (-al) = resid (axpy x p al) := by
  rw [L.hres x hx, L.hres _ (length_axpy_of_eq al hx hp), L.hadd x p al hx hp, axpy_axpy_neg]

variable [Div K]

theorem cgNextX_length {n : Nat} (mv : List K → List K) {x p : List K} (rr : K)
    (hx : x.length = n) (hp : p.length = n) : (cgNextX mv x p rr).length = n :=
  length_axpy_of_eq _ hx hp

/-- one CG step preserves `r = resid x`, whichever branch computes the new residual -/
theorem cgNextR_eq {n : Nat} {mv resid : List K → List K} {b : List K}
    (L : LinSys n mv resid b) (it : Nat) {x r p : List K} (rr : K)
    (hx : x.length = n) (hp : p.length = n) (hr : r = resid x) :
    cgNextR mv resid it x r p rr = resid (cgNextX mv x p rr) := by
  unfold cgNextR
  split
  · rw [hr]; exact L.resid_step _ hx hp
  · rfl

theorem cgNextP_length {n : Nat} {mv resid : List K → List K} {b : List K}
    (L : LinSys n mv resid b) (it : Nat) {x r p : List K} (rr : K)
    (hx : x.length = n) (hp : p.length = n) (hr : r = resid x) :
    (cgNextP mv resid it x r p rr).length = n := by
  unfold cgNextP
  apply length_pupdate _ hp
  rw [cgNextR_eq L it rr hx hp hr]
  exact L.length_resid (cgNextX_length mv rr hx hp)

variable [SqrtOp K] [LT K] [DecidableLT K]

/-- **loop invariant**: every produced pair `(x_k, r_k)` has `r_k = resid x_k` -/
theorem cgIterates_inv {n : Nat} {mv resid : List K → List K} {b : List K}
    (L : LinSys n mv resid b) (tol : K) (maxIter : Nat)
    (fuel it : Nat) (x r p : List K) (rr normr : K)
    (hx : x.length = n) (hp : p.length = n) (hr : r = resid x) :
    ∀ xr ∈ cgIterates mv resid tol maxIter fuel it x r p rr normr, xr.2 = resid xr.1 := by
  induction fuel generalizing it x r p rr normr with
  | zero => simp [cgIterates]
  | succ fuel ih =>
    rw [cgIterates_succ]
    split
    · intro xr hmem
      rcases List.mem_cons.1 hmem with h | h
      · rw [h]; exact cgNextR_eq L it rr hx hp hr
      · exact ih _ _ _ _ _ _ (cgNextX_length mv rr hx hp) (cgNextP_length L it rr hx hp hr)
          (cgNextR_eq L it rr hx hp hr) xr h
    · simp

end CGInv


/-! ### the hypotheses are satisfiable: dense matrices -/

section Mat
variable {K : Type} [CommRing K]

/-- dense matrix (list of rows) times vector -/
def matMv (A : List (List K)) (v : List K) : List K := A.map fun row => dot row v

/-- every `n`-row matrix with `resid x = b − A x` is a `LinSys` -/
theorem matMv_linSys {n : Nat} (A : List (List K)) (b : List K) (hA : A.length = n)
    (hb : b.length = n) :
    LinSys n (matMv A) (fun x => axpy b (matMv A x) (-1)) b where
  hb := hb
  hlen := by intro v _; simp [matMv, hA]
  hadd := by
    intro y x a hy hx
    apply List.ext_getElem
    · simp [matMv, length_axpy]
    · intro i h1 h2
      rw [getElem_axpy]
      simp only [matMv, List.getElem_map]
      exact dot_axpy_right _ y x a (hy.trans hx.symm)
  hres := by intro x _; rfl

end Mat

/-! ## D. the BiCGStab loop -/

section BiCGStep
variable {K : Type} [Add K] [Mul K] [Div K] [Neg K] [Zero K]

def bicgAlpha (mv : List K → List K) (rstar p : List K) (rr : K) : K := rr / dot (mv p) rstar
/-- half-step residual `s = r − α A p` -/
def bicgS (mv : List K → List K) (rstar r p : List K) (rr : K) : List K :=
  axpy r (mv p) (-(bicgAlpha mv rstar p rr))
variable [DecidableEq K]
/-- `ω = ⟨As,s⟩/⟨As,As⟩`, and `0` when `⟨As,As⟩ = 0` -/
def bicgOmega (mv : List K → List K) (rstar r p : List K) (rr : K) : K :=
  if dot (mv (bicgS mv rstar r p rr)) (mv (bicgS mv rstar r p rr)) = 0 then 0
  else dot (mv (bicgS mv rstar r p rr)) (bicgS mv rstar r p rr) /
    dot (mv (bicgS mv rstar r p rr)) (mv (bicgS mv rstar r p rr))
/-- next iterate `x + α p + ω s` -/
def bicgNextX (mv : List K → List K) (rstar x r p : List K) (rr : K) : List K :=
  axpy (axpy x p (bicgAlpha mv rstar p rr)) (bicgS mv rstar r p rr) (bicgOmega mv rstar r p rr)
/-- next residual `s − ω A s` -/
def bicgNextR (mv : List K → List K) (rstar r p : List K) (rr : K) : List K :=
  axpy (bicgS mv rstar r p rr) (mv (bicgS mv rstar r p rr)) (-(bicgOmega mv rstar r p rr))
def bicgNextP (mv : List K → List K) (rstar r p : List K) (rr : K) : List K :=
  let r' := bicgNextR mv rstar r p rr
  let beta := (dot r' rstar / rr) * (bicgAlpha mv rstar p rr / bicgOmega mv rstar r p rr)
  axpy (((scale p beta).zip r').map fun q => q.1 + q.2) (mv p)
    (-(beta * bicgOmega mv rstar r p rr))

end BiCGStep

section BiCGStruct
variable {K : Type} [Add K] [Mul K] [Div K] [Neg K] [Zero K] [LT K] [DecidableLT K]
  [DecidableEq K]

theorem bicgLoop_succ [Sub K] (mv : List K → List K) (norm : List K → K) (rstar : List K) (tol : K)
    (maxIter : Nat) (fuel it : Nat) (x r p : List K) (rr normr : K) (res : List K) :
    bicgLoop mv norm rstar tol maxIter (fuel+1) it x r p rr normr res =
      if tol < normr ∧ it < maxIter then
        bicgLoop mv norm rstar tol maxIter fuel (it+1) (bicgNextX mv rstar x r p rr)
          (bicgNextR mv rstar r p rr) (bicgNextP mv rstar r p rr)
          (dot (bicgNextR mv rstar r p rr) rstar) (norm (bicgNextR mv rstar r p rr))
          (res ++ [norm (bicgNextR mv rstar r p rr)])
      else { x := x, res := res, iters := it } := rfl

/-- The iterates `(x_k, r_k)` produced by `bicgLoop` after the entry state. -/
def bicgIterates (mv : List K → List K) (norm : List K → K) (rstar : List K) (tol : K)
    (maxIter : Nat) : Nat → Nat → List K → List K → List K → K → K → List (List K × List K)
  | 0, _, _, _, _, _, _ => []
  | fuel+1, it, x, r, p, rr, normr =>
    if tol < normr ∧ it < maxIter then
      let x' := bicgNextX mv rstar x r p rr
      let r' := bicgNextR mv rstar r p rr
      (x', r') :: bicgIterates mv norm rstar tol maxIter fuel (it+1) x' r'
        (bicgNextP mv rstar r p rr) (dot r' rstar) (norm r')
    else []

theorem bicgIterates_succ (mv : List K → List K) (norm : List K → K) (rstar : List K) (tol : K)
    (maxIter : Nat) (fuel it : Nat) (x r p : List K) (rr normr : K) :
    bicgIterates mv norm rstar tol maxIter (fuel+1) it x r p rr normr =
      if tol < normr ∧ it < maxIter then
        (bicgNextX mv rstar x r p rr, bicgNextR mv rstar r p rr) ::
          bicgIterates mv norm rstar tol maxIter fuel (it+1) (bicgNextX mv rstar x r p rr)
            (bicgNextR mv rstar r p rr) (bicgNextP mv rstar r p rr)
            (dot (bicgNextR mv rstar r p rr) rstar) (norm (bicgNextR mv rstar r p rr))
      else [] := rfl

theorem bicgLoop_res [Sub K] (mv : List K → List K) (norm : List K → K) (rstar : List K) (tol : K)
    (maxIter : Nat) (fuel it : Nat) (x r p : List K) (rr normr : K) (res : List K) :
    (bicgLoop mv norm rstar tol maxIter fuel it x r p rr normr res).res =
      res ++ (bicgIterates mv norm rstar tol maxIter fuel it x r p rr normr).map
        fun xr => norm xr.2 := by
  induction fuel generalizing it x r p rr normr res with
  | zero => simp [bicgLoop, bicgIterates]
  | succ fuel ih =>
    rw [bicgLoop_succ, bicgIterates_succ]
    split
    · rw [ih]; simp
    · simp

theorem bicgLoop_iters [Sub K] (mv : List K → List K) (norm : List K → K) (rstar : List K) (tol : K)
    (maxIter : Nat) (fuel it : Nat) (x r p : List K) (rr normr : K) (res : List K) :
    (bicgLoop mv norm rstar tol maxIter fuel it x r p rr normr res).iters =
      it + (bicgIterates mv norm rstar tol maxIter fuel it x r p rr normr).length := by
  induction fuel generalizing it x r p rr normr res with
  | zero => simp [bicgLoop, bicgIterates]
  | succ fuel ih =>
    rw [bicgLoop_succ, bicgIterates_succ]
    split
    · rw [ih]; simp; omega
    · simp

theorem bicgLoop_x [Sub K] (mv : List K → List K) (norm : List K → K) (rstar : List K) (tol : K)
    (maxIter : Nat) (fuel it : Nat) (x r p : List K) (rr normr : K) (res : List K) :
    (x :: (bicgIterates mv norm rstar tol maxIter fuel it x r p rr normr).map Prod.fst)[
        (bicgIterates mv norm rstar tol maxIter fuel it x r p rr normr).length]? =
      some (bicgLoop mv norm rstar tol maxIter fuel it x r p rr normr res).x := by
  induction fuel generalizing it x r p rr normr res with
  | zero => simp [bicgLoop, bicgIterates]
  | succ fuel ih =>
    rw [bicgLoop_succ, bicgIterates_succ]
    split
    · simp only [List.map_cons, List.length_cons, List.getElem?_cons_succ]
      exact ih ..
    · simp

theorem bicgLoop_iters_le [Sub K] (mv : List K → List K) (norm : List K → K) (rstar : List K) (tol : K)
    (maxIter : Nat) (fuel it : Nat) (x r p : List K) (rr normr : K) (res : List K)
    (h : it ≤ maxIter) :
    (bicgLoop mv norm rstar tol maxIter fuel it x r p rr normr res).iters ≤ maxIter := by
  induction fuel generalizing it x r p rr normr res with
  | zero => simpa [bicgLoop] using h
  | succ fuel ih =>
    rw [bicgLoop_succ]
    split
    · next hc => exact ih _ _ _ _ _ _ _ (by omega)
    · simpa using h

theorem bicgIterates_before (mv : List K → List K) (norm : List K → K) (rstar : List K) (tol : K)
    (maxIter : Nat) (fuel it : Nat) (x r p : List K) (rr normr : K) (k : Nat) (v : K)
    (hk : k < (bicgIterates mv norm rstar tol maxIter fuel it x r p rr normr).length)
    (hv : (normr :: (bicgIterates mv norm rstar tol maxIter fuel it x r p rr normr).map
        fun xr => norm xr.2)[k]? = some v) :
    tol < v := by
  induction fuel generalizing it x r p rr normr k with
  | zero => simp [bicgIterates] at hk
  | succ fuel ih =>
    rw [bicgIterates_succ] at hk hv
    split at hk
    · next hc =>
      rw [if_pos hc] at hv
      cases k with
      | zero => simp at hv; rw [← hv]; exact hc.1
      | succ k =>
        simp only [List.map_cons, List.getElem?_cons_succ] at hv
        simp only [List.length_cons, Nat.add_lt_add_iff_right] at hk
        exact ih _ _ _ _ _ _ _ hk hv
    · simp at hk

theorem bicgIterates_last (mv : List K → List K) (norm : List K → K) (rstar : List K) (tol : K)
    (maxIter : Nat) (fuel it : Nat) (x r p : List K) (rr normr : K) (v : K)
    (hfuel : maxIter ≤ it + fuel)
    (hlt : it + (bicgIterates mv norm rstar tol maxIter fuel it x r p rr normr).length < maxIter)
    (hv : (normr :: (bicgIterates mv norm rstar tol maxIter fuel it x r p rr normr).map
        fun xr => norm xr.2)[
        (bicgIterates mv norm rstar tol maxIter fuel it x r p rr normr).length]? = some v) :
    ¬ tol < v := by
  induction fuel generalizing it x r p rr normr with
  | zero => simp [bicgIterates] at hlt; omega
  | succ fuel ih =>
    rw [bicgIterates_succ] at hlt hv
    split at hlt
    · next hc =>
      rw [if_pos hc] at hv
      simp only [List.map_cons, List.length_cons, List.getElem?_cons_succ] at hv
      simp only [List.length_cons] at hlt
      exact ih _ _ _ _ _ _ (by omega) (by omega) hv
    · next hc =>
      rw [if_neg hc] at hv
      simp at hv hlt
      rw [← hv]; intro ht; exact hc ⟨ht, hlt⟩

end BiCGStruct

section BiCGInv
variable {K : Type} [CommRing K] [Div K] [DecidableEq K]

omit [DecidableEq K] in
theorem bicgS_eq {n : Nat} {mv resid : List K → List K} {b : List K}
    (L : LinSys n mv resid b) (rstar : List K) {x r p : List K} (rr : K)
    (hx : x.length = n) (hp : p.length = n) (hr : r = resid x) :
    bicgS mv rstar r p rr = resid (axpy x p (bicgAlpha mv rstar p rr)) := by
  unfold bicgS; rw [hr]; exact L.resid_step _ hx hp

theorem bicgNextX_length {n : Nat} {mv resid : List K → List K} {b : List K}
    (L : LinSys n mv resid b) (rstar : List K) {x r p : List K} (rr : K)
    (hx : x.length = n) (hp : p.length = n) (hr : r = resid x) :
    (bicgNextX mv rstar x r p rr).length = n := by
  unfold bicgNextX
  apply length_axpy_of_eq _ (length_axpy_of_eq _ hx hp)
  rw [bicgS_eq L rstar rr hx hp hr]
  exact L.length_resid (length_axpy_of_eq _ hx hp)

/-- one BiCGStab step preserves `r = resid x` (for whatever values `α`, `ω` take, in particular
    in both branches of the `⟨As,As⟩ = 0` test): two applications of `resid_step` -/
theorem bicgNextR_eq {n : Nat} {mv resid : List K → List K} {b : List K}
    (L : LinSys n mv resid b) (rstar : List K) {x r p : List K} (rr : K)
    (hx : x.length = n) (hp : p.length = n) (hr : r = resid x) :
    bicgNextR mv rstar r p rr = resid (bicgNextX mv rstar x r p rr) := by
  have hy : (axpy x p (bicgAlpha mv rstar p rr)).length = n := length_axpy_of_eq _ hx hp
  have hs := bicgS_eq L rstar rr hx hp hr
  have hsl : (bicgS mv rstar r p rr).length = n := by rw [hs]; exact L.length_resid hy
  unfold bicgNextR bicgNextX
  rw [← L.resid_step _ hy hsl, ← hs]

theorem bicgNextP_length {n : Nat} {mv resid : List K → List K} {b : List K}
    (L : LinSys n mv resid b) (rstar : List K) {x r p : List K} (rr : K)
    (hx : x.length = n) (hp : p.length = n) (hr : r = resid x) :
    (bicgNextP mv rstar r p rr).length = n := by
  unfold bicgNextP
  apply length_axpy_of_eq _ _ (L.hlen p hp)
  apply length_pupdate _ hp
  rw [bicgNextR_eq L rstar rr hx hp hr]
  exact L.length_resid (bicgNextX_length L rstar rr hx hp hr)

variable [LT K] [DecidableLT K]

theorem bicgIterates_inv {n : Nat} {mv resid : List K → List K} {b : List K}
    (L : LinSys n mv resid b) (norm : List K → K) (rstar : List K) (tol : K) (maxIter : Nat)
    (fuel it : Nat) (x r p : List K) (rr normr : K)
    (hx : x.length = n) (hp : p.length = n) (hr : r = resid x) :
    ∀ xr ∈ bicgIterates mv norm rstar tol maxIter fuel it x r p rr normr, xr.2 = resid xr.1 := by
  induction fuel generalizing it x r p rr normr with
  | zero => simp [bicgIterates]
  | succ fuel ih =>
    rw [bicgIterates_succ]
    split
    · intro xr hmem
      rcases List.mem_cons.1 hmem with h | h
      · rw [h]; exact bicgNextR_eq L rstar rr hx hp hr
      · exact ih _ _ _ _ _ _ (bicgNextX_length L rstar rr hx hp hr)
          (bicgNextP_length L rstar rr hx hp hr) (bicgNextR_eq L rstar rr hx hp hr) xr h
    · simp

end BiCGInv

/-! ## E. NaN-extended inner product and sum of squares -/

section NaN
variable {K : Type}

@[simp] theorem NF.nan_add [Add K] (a : NF K) : NF.add .nan a = .nan := by cases a <;> rfl
@[simp] theorem NF.add_nan [Add K] (a : NF K) : NF.add a .nan = .nan := by cases a <;> rfl
@[simp] theorem NF.nan_mul [Mul K] (a : NF K) : NF.mul .nan a = .nan := by cases a <;> rfl
@[simp] theorem NF.mul_nan [Mul K] (a : NF K) : NF.mul a .nan = .nan := by cases a <;> rfl
@[simp] theorem NF.fin_add [Add K] (a b : K) : NF.add (.fin a) (.fin b) = .fin (a + b) := rfl
@[simp] theorem NF.fin_mul [Mul K] (a b : K) : NF.mul (.fin a) (.fin b) = .fin (a * b) := rfl

theorem NF.add_eq_nan [Add K] (a b : NF K) : NF.add a b = .nan ↔ a = .nan ∨ b = .nan := by
  cases a <;> cases b <;> simp [NF.add]
theorem NF.mul_eq_nan [Mul K] (a b : NF K) : NF.mul a b = .nan ↔ a = .nan ∨ b = .nan := by
  cases a <;> cases b <;> simp [NF.mul]

theorem dotNF_foldl_nan_iff [Add K] [Mul K] (l : List (NF K × NF K)) (s : NF K) :
    l.foldl (fun s p => NF.add s (NF.mul p.1 p.2)) s = .nan ↔
      s = .nan ∨ ∃ q ∈ l, q.1 = .nan ∨ q.2 = .nan := by
  induction l generalizing s with
  | nil => simp
  | cons a l ih =>
    rw [List.foldl_cons, ih, NF.add_eq_nan, NF.mul_eq_nan]
    simp only [List.mem_cons, exists_eq_or_imp, or_assoc]

/-- the inner product is NaN iff some pair of multiplied entries contains a NaN -/
theorem dotNF_nan_iff_mem [Add K] [Mul K] [Zero K] (u v : List (NF K)) :
    dotNF u v = .nan ↔ ∃ q ∈ u.zip v, q.1 = .nan ∨ q.2 = .nan := by
  unfold dotNF; rw [dotNF_foldl_nan_iff]; simp

theorem sumSqNF_foldl_nan_iff [Add K] [Mul K] (small : K → Bool) (v : List (NF K)) (s : NF K) :
    v.foldl (fun s a => match a with
      | .fin k => if small k then s else NF.add s (.fin (k * k))
      | .nan => .nan) s = .nan ↔ s = .nan ∨ .nan ∈ v := by
  induction v generalizing s with
  | nil => simp
  | cons a v ih =>
    rw [List.foldl_cons, ih]
    cases a with
    | nan => simp
    | fin k =>
      by_cases hk : small k = true
      · simp [hk]
      · simp [hk, NF.add_eq_nan]

theorem dotNF_foldl_fin [Add K] [Mul K] (l : List (K × K)) (s : K) :
    (l.map fun p => ((NF.fin p.1 : NF K), (NF.fin p.2 : NF K))).foldl
        (fun s p => NF.add s (NF.mul p.1 p.2)) (.fin s) =
      .fin (l.foldl (fun s p => s + p.1 * p.2) s) := by
  induction l generalizing s with
  | nil => rfl
  | cons a l ih => simp only [List.map_cons, List.foldl_cons, NF.fin_mul, NF.fin_add, ih]

theorem sumSqNF_foldl_fin [Add K] [Mul K] (small : K → Bool) (v : List K) (s : K) :
    (v.map NF.fin).foldl (fun s a => match a with
      | .fin k => if small k then s else NF.add s (.fin (k * k))
      | .nan => .nan) (.fin s) =
    .fin (((v.filter fun k => !small k).map fun k => k * k).foldl (· + ·) s) := by
  induction v generalizing s with
  | nil => rfl
  | cons a v ih =>
    by_cases hk : small a = true
    · simp only [List.map_cons, List.foldl_cons, hk, if_true]
      rw [ih]; simp [hk]
    · simp only [List.map_cons, List.foldl_cons, hk]
      simp only [Bool.false_eq_true, if_false, NF.fin_add]
      rw [ih]; simp [hk]

end NaN

/-! ## F. block (distributed) inner product = sequential inner product -/

section Blocks
variable {K : Type}

theorem dot_append [NonUnitalNonAssocSemiring K] (u1 u2 v1 v2 : List K)
    (h : u1.length = v1.length) : dot (u1 ++ u2) (v1 ++ v2) = dot u1 v1 + dot u2 v2 := by
  simp only [dot_eq_sum, List.zip_append h, List.map_append, List.sum_append]

theorem axpy_append [Add K] [Mul K] (y1 y2 x1 x2 : List K) (a : K)
    (h : y1.length = x1.length) : axpy (y1 ++ y2) (x1 ++ x2) a = axpy y1 x1 a ++ axpy y2 x2 a := by
  simp only [axpy, List.zip_append h, List.map_append]

end Blocks

end Raptor.Krylov
