import RaptorModel.Model.Candidates
import Mathlib.Analysis.Real.Sqrt
import Mathlib.Logic.Function.Iterate
/-!
# Helper lemmas for the tentative-prolongator / prolongator-smoothing property theorems (C16)

Nothing here changes the model: every lemma is about the functions of `Model/Candidates.lean`
(`members`, `coarseCandidate`, `tentative`, `smoothStep`) or about plain lists.

The norm facts are over `ℝ` with `SqrtOp.sqrt := Real.sqrt` and `AbsOp.abs := |·|` (scoped
instances of this namespace); the shape/entry facts about `smoothStep` are over an arbitrary type
`K` carrying exactly the operator classes the model asks for.
-/
namespace Raptor.Candidates

/-! ### plain list facts -/
section ListFacts
variable {α : Type}

/-- `getD` beyond the end returns the default -/
theorem getD_of_length_le (l : List α) (i : Nat) (d : α) (h : l.length ≤ i) : l.getD i d = d := by
  simp [List.getD_eq_getElem?_getD, h]

/-- `getD` inside the list does not depend on the default -/
theorem getD_congr_default (l : List α) (i : Nat) (d d' : α) (h : i < l.length) :
    l.getD i d = l.getD i d' := by
  simp [List.getD_eq_getElem?_getD, h]

/-- `getD` inside the list is a member -/
theorem getD_mem (l : List α) (i : Nat) (d : α) (h : i < l.length) : l.getD i d ∈ l := by
  simp [List.getD_eq_getElem?_getD, h]

/-- entry of a tabulated list -/
theorem getD_map_range (f : Nat → α) (n i : Nat) (d : α) (h : i < n) :
    ((List.range n).map f).getD i d = f i := by
  simp [List.getD_eq_getElem?_getD, h]

/-- entry of a replicated list -/
theorem getD_replicate (n i : Nat) (d : α) : (List.replicate n d).getD i d = d := by
  by_cases h : i < n <;> simp [List.getD_eq_getElem?_getD, h]

/-- a left fold that adds `f i` is the start value plus the sum of the `f i` -/
theorem foldl_add_eq (f : α → ℝ) :
    ∀ (l : List α) (a : ℝ), l.foldl (fun s i => s + f i) a = a + (l.map f).sum
  | [], a => by simp
  | x :: l, a => by
    rw [List.foldl_cons, foldl_add_eq f l, List.map_cons, List.sum_cons, add_assoc]

/-- a sum of products `f k * f k` is non-negative -/
theorem sum_mul_self_nonneg (f : α → ℝ) (l : List α) : 0 ≤ (l.map fun k => f k * f k).sum := by
  apply List.sum_nonneg
  intro x hx
  obtain ⟨k, _, rfl⟩ := List.mem_map.mp hx
  exact mul_self_nonneg _

end ListFacts

/-! ### entrywise difference of two zipped lists -/
section ZipSub
variable {K : Type} [Sub K] [Zero K]

omit [Zero K] in
/-- length of the entrywise difference -/
theorem zip_sub_length (l₁ l₂ : List K) :
    ((l₁.zip l₂).map fun q => q.1 - q.2).length = min l₁.length l₂.length := by
  simp

/-- entry of the entrywise difference -/
theorem zip_sub_getD (l₁ l₂ : List K) (c : Nat) (h₁ : c < l₁.length) (h₂ : c < l₂.length) :
    ((l₁.zip l₂).map fun q => q.1 - q.2).getD c 0 = l₁.getD c 0 - l₂.getD c 0 := by
  simp [List.getD_eq_getElem?_getD, h₁, h₂]

end ZipSub

/-! ### aggregates -/
section Members

/-- membership in an aggregate: in range and labelled `c` -/
theorem mem_members {agg : List (Option Nat)} {c k : Nat} :
    k ∈ members agg c ↔ k < agg.length ∧ agg.getD k none = some c := by
  simp [members, List.mem_filter]

/-- every member of aggregate `c` is labelled `c` -/
theorem agg_of_mem_members {agg : List (Option Nat)} {c k : Nat} (h : k ∈ members agg c) :
    agg.getD k none = some c := (mem_members.mp h).2

/-- a vertex labelled `c` is a member of aggregate `c` -/
theorem mem_members_of_agg {agg : List (Option Nat)} {c i : Nat} (h : agg.getD i none = some c) :
    i ∈ members agg c := by
  refine mem_members.mpr ⟨?_, h⟩
  by_contra hlt
  rw [getD_of_length_le _ _ _ (Nat.le_of_not_lt hlt)] at h
  cases h

/-- distinct aggregates have no common member -/
theorem members_disjoint {agg : List (Option Nat)} {c c' : Nat} (hne : c ≠ c') :
    List.Disjoint (members agg c) (members agg c') := by
  intro k hk hk'
  have h := agg_of_mem_members hk
  rw [agg_of_mem_members hk'] at h
  exact hne (Option.some.inj h).symm

/-- an aggregate lists each vertex at most once -/
theorem members_nodup (agg : List (Option Nat)) (c : Nat) : (members agg c).Nodup :=
  List.Nodup.filter _ List.nodup_range

end Members

/-! ### the candidate norm and the tentative prolongator over `ℝ` -/
noncomputable section RealNorm

/-- `SqrtOp` on `ℝ` is `Real.sqrt` -/
scoped instance instSqrtOpReal : Raptor.SqrtOp ℝ := ⟨Real.sqrt⟩
/-- `AbsOp` on `ℝ` is the absolute value -/
scoped instance instAbsOpReal : Raptor.AbsOp ℝ := ⟨fun x => |x|⟩

/-- squared norm of `B` restricted to the index list `l`, as the model's left fold -/
def sqFold (B : List ℝ) (l : List Nat) : ℝ := l.foldl (fun s i => s + B.getD i 0 * B.getD i 0) 0

/-- value of the tentative prolongator on row `k` (0 when `k` is not aggregated) -/
def Tval (tol : ℝ) (agg : List (Option Nat)) (B : List ℝ) (k : Nat) : ℝ :=
  ((tentative tol agg B k).map (·.2)).getD 0

/-- the sum-of-squares fold is a `List.sum` -/
theorem foldl_eq_sum (B : List ℝ) (l : List Nat) :
    l.foldl (fun s i => s + B.getD i 0 * B.getD i 0) 0
      = (l.map fun k => B.getD k 0 * B.getD k 0).sum := by
  rw [foldl_add_eq (fun i => B.getD i 0 * B.getD i 0), zero_add]

/-- the sum-of-squares fold is non-negative -/
theorem foldl_sq_nonneg (B : List ℝ) (l : List Nat) :
    0 ≤ l.foldl (fun s i => s + B.getD i 0 * B.getD i 0) 0 := by
  rw [foldl_eq_sum]
  exact sum_mul_self_nonneg (fun k => B.getD k 0) l

/-- `coarseCandidate` is either the norm of the restriction or 0 -/
theorem coarseCandidate_eq (tol : ℝ) (agg : List (Option Nat)) (B : List ℝ) (c : Nat) :
    coarseCandidate tol agg B c
      = if √(sqFold B (members agg c)) * tol < √(sqFold B (members agg c))
        then √(sqFold B (members agg c)) else 0 := rfl

/-- `tentative` on a vertex of aggregate `c`: `B[i]` times the inverse norm (or 0) -/
theorem tentative_eq (tol : ℝ) {agg : List (Option Nat)} (B : List ℝ) {i c : Nat}
    (h : agg.getD i none = some c) :
    tentative tol agg B i
      = some (c, B.getD i 0 *
          (if √(sqFold B (members agg c)) * tol < √(sqFold B (members agg c))
           then 1 / √(sqFold B (members agg c)) else 0)) := by
  simp only [tentative, h]
  rfl

/-- the threshold test succeeds when the restriction is non-zero and `tol < 1` -/
theorem test_pos {tol S : ℝ} (htol : tol < 1) (hS : 0 < S) : √S * tol < √S :=
  mul_lt_of_lt_one_right (Real.sqrt_pos.mpr hS) htol

/-- the threshold test fails when the restriction is zero -/
theorem test_zero {tol S : ℝ} (hS : S ≤ 0) : ¬ (√S * tol < √S) := by
  rw [Real.sqrt_eq_zero_of_nonpos hS]
  simp

/-- with a non-zero restriction and `tol < 1`, `R[c]` is the norm of the restriction -/
theorem coarseCandidate_pos {tol : ℝ} (agg : List (Option Nat)) (B : List ℝ) (c : Nat)
    (htol : tol < 1) (hS : 0 < sqFold B (members agg c)) :
    coarseCandidate tol agg B c = √(sqFold B (members agg c)) := by
  rw [coarseCandidate_eq, if_pos (test_pos htol hS)]

/-- with a zero restriction `R[c] = 0` -/
theorem coarseCandidate_zero (tol : ℝ) (agg : List (Option Nat)) (B : List ℝ) (c : Nat)
    (hS : sqFold B (members agg c) = 0) : coarseCandidate tol agg B c = 0 := by
  rw [coarseCandidate_eq, if_neg (test_zero (le_of_eq hS))]

/-- with a non-zero restriction and `tol < 1`, `T[i, c] = B[i] / ‖B|c‖` -/
theorem tentative_pos {tol : ℝ} {agg : List (Option Nat)} (B : List ℝ) {i c : Nat}
    (htol : tol < 1) (h : agg.getD i none = some c) (hS : 0 < sqFold B (members agg c)) :
    tentative tol agg B i = some (c, B.getD i 0 * (1 / √(sqFold B (members agg c)))) := by
  rw [tentative_eq tol B h, if_pos (test_pos htol hS)]

/-- the value of `T` on a member of a non-degenerate aggregate -/
theorem Tval_of_mem {tol : ℝ} {agg : List (Option Nat)} (B : List ℝ) {k c : Nat}
    (htol : tol < 1) (hk : k ∈ members agg c) (hS : 0 < sqFold B (members agg c)) :
    Tval tol agg B k = B.getD k 0 * (1 / √(sqFold B (members agg c))) := by
  simp [Tval, tentative_pos B htol (agg_of_mem_members hk) hS]

end RealNorm

/-! ### the old prolongator row with the model's default -/
section OldRow
variable {K : Type} [Zero K]

/-- old row `i` with the model's default has `nc` entries -/
theorem oldRow_length {nc : Nat} {P : List (List K)} (hP : ∀ row ∈ P, row.length = nc) (i : Nat) :
    (P.getD i (List.replicate nc 0)).length = nc := by
  by_cases h : i < P.length
  · exact hP _ (getD_mem _ _ _ h)
  · rw [getD_of_length_le _ _ _ (Nat.le_of_not_lt h), List.length_replicate]

/-- entries of the old row do not depend on which default (zeros or `[]`) is used -/
theorem oldRow_getD (nc : Nat) (P : List (List K)) (i c : Nat) :
    (P.getD i (List.replicate nc 0)).getD c 0 = (P.getD i []).getD c 0 := by
  by_cases h : i < P.length
  · rw [getD_congr_default _ _ _ [] h]
  · rw [getD_of_length_le _ _ _ (Nat.le_of_not_lt h), getD_of_length_le _ _ _ (Nat.le_of_not_lt h),
      getD_replicate]
    rfl

end OldRow

/-! ### one smoothing step, over any `K` with the model's operator classes -/
section Smooth
variable {K : Type} [Add K] [Sub K] [Mul K] [Div K] [Zero K] [One K] [AbsOp K] [DecidableEq K]

/-- absolute row sum (the diagonal entry of `D`) -/
def absRowSum (row : List (Nat × K)) : K := row.foldl (fun s e => s + AbsOp.abs e.2) 0

/-- the row scaling `ω / |d|` (0 for a zero row sum) -/
def rowScale (ω : K) (row : List (Nat × K)) : K :=
  if absRowSum row = 0 then 0 else (1 / AbsOp.abs (absRowSum row)) * ω

/-- entry `c` of `(ω D⁻¹ A) P` for one row of `A`, as the model's left fold -/
def apEntry (ω : K) (P : List (List K)) (row : List (Nat × K)) (c : Nat) : K :=
  row.foldl (fun acc e => acc + (e.2 * rowScale ω row) * ((P.getD e.1 []).getD c 0)) 0

/-- one step keeps the number of rows of `A` -/
theorem smoothStep_length (A : List (List (Nat × K))) (ω : K) (nc : Nat) (P : List (List K)) :
    (smoothStep A ω nc P).length = A.length := by
  simp [smoothStep]

/-- row `i` of one step: old row (or zeros) minus the tabulated `apEntry` -/
theorem smoothStep_getD (A : List (List (Nat × K))) (ω : K) (nc : Nat) (P : List (List K))
    (i : Nat) (hi : i < A.length) :
    (smoothStep A ω nc P).getD i []
      = ((P.getD i (List.replicate nc 0)).zip
          ((List.range nc).map fun c => apEntry ω P (A.getD i []) c)).map fun q => q.1 - q.2 := by
  simp only [smoothStep, List.getD_eq_getElem?_getD, List.getElem?_map, List.getElem?_zipIdx,
    List.getElem?_eq_getElem hi, Option.map_some, Option.getD_some, Nat.zero_add]
  rfl

/-- every row produced by one step has `nc` entries -/
theorem smoothStep_row_length (A : List (List (Nat × K))) (ω : K) {nc : Nat} {P : List (List K)}
    (hP : ∀ row ∈ P, row.length = nc) : ∀ row ∈ smoothStep A ω nc P, row.length = nc := by
  intro row hrow
  obtain ⟨i, hi, rfl⟩ := List.getElem_of_mem hrow
  rw [smoothStep_length] at hi
  have h := smoothStep_getD A ω nc P i hi
  rw [List.getD_eq_getElem?_getD, List.getElem?_eq_getElem (by rw [smoothStep_length]; exact hi),
    Option.getD_some] at h
  rw [h, zip_sub_length, oldRow_length hP, List.length_map, List.length_range, Nat.min_self]

/-- entry `(i, c)` of one step is the old entry minus `((ω D⁻¹ A) P)[i, c]` -/
theorem smoothStep_entry (A : List (List (Nat × K))) (ω : K) {nc : Nat} {P : List (List K)}
    (hP : ∀ row ∈ P, row.length = nc) {i c : Nat} (hi : i < A.length) (hc : c < nc) :
    ((smoothStep A ω nc P).getD i []).getD c 0
      = (P.getD i []).getD c 0 - apEntry ω P (A.getD i []) c := by
  rw [smoothStep_getD A ω nc P i hi,
    zip_sub_getD _ _ c (by rw [oldRow_length hP]; exact hc) (by simpa using hc),
    getD_map_range _ _ _ _ hc, oldRow_getD]

end Smooth

end Raptor.Candidates
