import RaptorModel.Model.Split
import Mathlib.Order.Defs.LinearOrder
/-!
# Helper lemmas for the coarse/fine splitting property theorems (C13)

Nothing here changes the model: every lemma is about the functions of `Model/Split.lean`
(`dependents`, `newCoarse`, `pmisRound`, `cljpRound`, `iterN`) or about plain lists.
-/
namespace Raptor.Split

/-! ### plain list facts -/
section ListFacts
variable {α : Type}

theorem getD_map_range (f : Nat → α) (n i : Nat) (d : α) (h : i < n) :
    ((List.range n).map f).getD i d = f i := by
  simp [List.getD_eq_getElem?_getD, h]

theorem getD_map_range_ge (f : Nat → α) (n i : Nat) (d : α) (h : n ≤ i) :
    ((List.range n).map f).getD i d = d := by
  simp [List.getD_eq_getElem?_getD, h]

theorem getD_of_length_le (l : List α) (i : Nat) (d : α) (h : l.length ≤ i) : l.getD i d = d := by
  simp [List.getD_eq_getElem?_getD, h]

/-- strict decrease of a count: `p` implies `q` everywhere and some element has `q` but not `p` -/
theorem countP_lt_countP (p q : α → Bool) :
    ∀ l : List α, (∀ x ∈ l, p x = true → q x = true) → (∃ x ∈ l, q x = true ∧ p x = false) →
      l.countP p < l.countP q
  | [], _, hex => by obtain ⟨x, hx, _⟩ := hex; cases hx
  | a :: l, hpq, hex => by
    have hle : l.countP p ≤ l.countP q :=
      List.countP_mono_left fun x hx => hpq x (List.mem_cons_of_mem _ hx)
    obtain ⟨x, hx, hqx, hpx⟩ := hex
    rcases List.mem_cons.mp hx with rfl | hx'
    · rw [List.countP_cons_of_pos hqx, List.countP_cons_of_neg (by simp [hpx])]
      omega
    · have ih := countP_lt_countP p q l (fun y hy => hpq y (List.mem_cons_of_mem _ hy))
        ⟨x, hx', hqx, hpx⟩
      by_cases hpa : p a = true
      · rw [List.countP_cons_of_pos hpa, List.countP_cons_of_pos (hpq a List.mem_cons_self hpa)]
        omega
      · rw [List.countP_cons_of_neg hpa]
        by_cases hqa : q a = true
        · rw [List.countP_cons_of_pos hqa]; omega
        · rw [List.countP_cons_of_neg hqa]; exact ih

theorem countP_le_of_imp (p q : α → Bool) (l : List α) (hpq : ∀ x ∈ l, p x = true → q x = true) :
    l.countP p ≤ l.countP q := List.countP_mono_left hpq

/-- a non-empty list has an element maximising `f` -/
theorem exists_max_of_ne_nil {W : Type} [LinearOrder W] (f : α → W) :
    ∀ l : List α, l ≠ [] → ∃ x ∈ l, ∀ y ∈ l, f y ≤ f x
  | [], h => absurd rfl h
  | [a], _ => ⟨a, List.mem_cons_self, fun y hy => by
      rcases List.mem_cons.mp hy with rfl | h
      · exact le_refl _
      · cases h⟩
  | a :: b :: l, _ => by
    obtain ⟨x, hx, hmax⟩ := exists_max_of_ne_nil f (b :: l) (List.cons_ne_nil _ _)
    rcases le_total (f a) (f x) with hax | hxa
    · refine ⟨x, List.mem_cons_of_mem _ hx, fun y hy => ?_⟩
      rcases List.mem_cons.mp hy with rfl | h
      · exact hax
      · exact hmax y h
    · refine ⟨a, List.mem_cons_self, fun y hy => ?_⟩
      rcases List.mem_cons.mp hy with rfl | h
      · exact le_refl _
      · exact le_trans (hmax y h) hxa

end ListFacts

/-! ### `iterN` -/
section Iter
variable {α : Type}

theorem iterN_succ' (f : α → α) : ∀ (n : Nat) (a : α), iterN f (n + 1) a = f (iterN f n a)
  | 0, _ => rfl
  | n + 1, a => by
    show iterN f (n + 1) (f a) = f (iterN f n (f a))
    exact iterN_succ' f n (f a)

theorem iterN_add (f : α → α) : ∀ (m n : Nat) (a : α), iterN f (m + n) a = iterN f n (iterN f m a)
  | 0, n, a => by simp [iterN]
  | m + 1, n, a => by
    have : m + 1 + n = (m + n) + 1 := by omega
    rw [this]
    show iterN f (m + n) (f a) = iterN f n (iterN f m (f a))
    exact iterN_add f m n (f a)

/-- an invariant of `f` is an invariant of `iterN f n` -/
theorem iterN_inv (f : α → α) (P : α → Prop) (hP : ∀ a, P a → P (f a)) :
    ∀ (n : Nat) (a : α), P a → P (iterN f n a)
  | 0, _, h => h
  | n + 1, a, h => iterN_inv f P hP n (f a) (hP a h)

end Iter

variable {W : Type}

/-! ### graph access -/

theorem mem_dependents {S : Graph} {c r : Nat} :
    r ∈ dependents S c ↔ r < S.length ∧ c ∈ S.getD r [] := by
  simp [dependents, List.mem_filter]

/-! ### one round -/
section Round
variable [Zero W] [LT W] [DecidableLT W]

theorem mem_newCoarse {S : Graph} {s : St W} {u : Nat} :
    u ∈ newCoarse S s ↔ u < S.length ∧ lab s u = -1 ∧ (∀ v ∈ S.getD u [], ¬ wt s u < wt s v) ∧
      (∀ v, v < S.length → u ∈ S.getD v [] → ¬ wt s u < wt s v) := by
  simp [newCoarse, List.mem_filter, mem_dependents, and_assoc]

/-- the "becomes fine in this round" test of `pmisRound` -/
def newF (S : Graph) (s : St W) (r : Nat) : Bool :=
  lab s r == -1 && !(newCoarse S s).contains r && (S.getD r []).any fun c => (newCoarse S s).contains c

theorem newF_iff {S : Graph} {s : St W} {r : Nat} :
    newF S s r = true ↔ lab s r = -1 ∧ r ∉ newCoarse S s ∧ ∃ c ∈ S.getD r [], c ∈ newCoarse S s := by
  simp [newF, and_assoc]

theorem pmisRound_labels (S : Graph) (s : St W) :
    (pmisRound S s).labels = (List.range S.length).map fun i =>
      if (newCoarse S s).contains i then 1 else if newF S s i then 0 else lab s i := rfl

theorem pmisRound_weights (S : Graph) (s : St W) :
    (pmisRound S s).weights = (List.range S.length).map fun i =>
      if (newCoarse S s).contains i || newF S s i then 0 else wt s i := rfl

theorem lab_pmisRound {S : Graph} {s : St W} {i : Nat} (h : i < S.length) :
    lab (pmisRound S s) i =
      if i ∈ newCoarse S s then 1 else if newF S s i = true then 0 else lab s i := by
  unfold lab
  rw [pmisRound_labels, getD_map_range _ _ _ _ h]
  simp only [List.contains_iff_mem]
  rfl

theorem wt_pmisRound {S : Graph} {s : St W} {i : Nat} (h : i < S.length) :
    wt (pmisRound S s) i = if i ∈ newCoarse S s ∨ newF S s i = true then 0 else wt s i := by
  unfold wt
  rw [pmisRound_weights, getD_map_range _ _ _ _ h]
  simp only [Bool.or_eq_true, List.contains_iff_mem]
  rfl

end Round

/-! ### one CLJP round: the label/weight lists as functions of the decremented weights `w1` -/
section Cljp
variable [Zero W] [One W] [Sub W] [LT W] [DecidableLT W]

/-- labels after a CLJP round, given the list `w1` of decremented weights -/
def cljpLabels (S : Graph) (s : St W) (w1 : List W) : List Int :=
  (List.range S.length).map fun i =>
    if (newCoarse S s).contains i then 1 else if lab s i == -1 && w1.getD i 0 < 1 then 0 else lab s i

/-- weights after a CLJP round, given the list `w1` of decremented weights -/
def cljpWeights (S : Graph) (s : St W) (w1 : List W) : List W :=
  (List.range S.length).map fun i => if (cljpLabels S s w1).getD i 0 != -1 then 0 else w1.getD i 0

/-- whatever the edge bookkeeping does, the new state has this shape for some list `w1` -/
theorem cljpRound_shape (S : Graph) (cs : CSt W) :
    ∃ w1 : List W, (cljpRound S cs).st.labels = cljpLabels S cs.st w1 ∧
      (cljpRound S cs).st.weights = cljpWeights S cs.st w1 := by
  unfold cljpRound
  exact ⟨_, rfl, rfl⟩

/-- pointwise form of `cljpRound_shape` -/
theorem cljpRound_pointwise (S : Graph) (cs : CSt W) :
    ∃ w1 : List W, ∀ i, i < S.length →
      lab (cljpRound S cs).st i =
        (if i ∈ newCoarse S cs.st then 1
         else if lab cs.st i = -1 ∧ w1.getD i 0 < 1 then 0 else lab cs.st i) ∧
      wt (cljpRound S cs).st i = if lab (cljpRound S cs).st i ≠ -1 then 0 else w1.getD i 0 := by
  obtain ⟨w1, hl, hw⟩ := cljpRound_shape S cs
  refine ⟨w1, fun i hi => ?_⟩
  have h1 : lab (cljpRound S cs).st i = (cljpLabels S cs.st w1).getD i 0 := by unfold lab; rw [hl]
  constructor
  · rw [h1]; unfold cljpLabels
    rw [getD_map_range _ _ _ _ hi]
    simp only [List.contains_iff_mem, Bool.and_eq_true, beq_iff_eq, decide_eq_true_eq]
  · rw [h1]; unfold wt; rw [hw]; unfold cljpWeights
    rw [getD_map_range _ _ _ _ hi]
    simp only [bne_iff_ne, ne_eq, ite_not]

theorem cljpRound_length (S : Graph) (cs : CSt W) :
    (cljpRound S cs).st.labels.length = S.length ∧ (cljpRound S cs).st.weights.length = S.length := by
  obtain ⟨w1, hl, hw⟩ := cljpRound_shape S cs
  rw [hl, hw]; unfold cljpLabels cljpWeights; simp

end Cljp

end Raptor.Split
