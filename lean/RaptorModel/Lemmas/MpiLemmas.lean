import RaptorModel.Model.Mpi
/-!
# Helper lemmas for the MPI phase-isolation theorems (C05), core Lean only

Nothing here changes the model: every lemma is about the definitions of `Model/Mpi.lean`.
-/
namespace Raptor.Mpi

/-! ### `passed`, `reached` -/

theorem passed_le_reached (s : Script) (i : Nat) : passed s i ≤ reached s i := by
  unfold passed reached
  exact ((List.take_sublist_take_left (Nat.le_succ i)).filter _).length_le

theorem passed_mono (s : Script) {i j : Nat} (h : i ≤ j) : passed s i ≤ passed s j := by
  unfold passed
  exact ((List.take_sublist_take_left h).filter _).length_le

theorem reached_mono (s : Script) {i j : Nat} (h : i ≤ j) : reached s i ≤ reached s j := by
  unfold reached
  exact ((List.take_sublist_take_left (Nat.succ_le_succ h)).filter _).length_le

theorem reached_eq_passed_succ (s : Script) (i : Nat) : reached s i = passed s (i+1) := rfl

theorem passed_succ_of_not_coll {s : Script} {i : Nat} {op : Op}
    (h : s[i]? = some op) (hc : op.isColl = false) : passed s (i+1) = passed s i := by
  unfold passed
  rw [List.take_add_one, h]
  simp [List.filter_append, hc]

theorem passed_succ_of_coll {s : Script} {i : Nat} {op : Op}
    (h : s[i]? = some op) (hc : op.isColl = true) : passed s (i+1) = passed s i + 1 := by
  unfold passed
  rw [List.take_add_one, h]
  simp [List.filter_append, hc]

theorem passed_succ_of_none {s : Script} {i : Nat}
    (h : s[i]? = none) : passed s (i+1) = passed s i := by
  unfold passed
  rw [List.take_add_one, h]
  simp

theorem reached_of_not_coll {s : Script} {i : Nat} {op : Op}
    (h : s[i]? = some op) (hc : op.isColl = false) : reached s i = passed s i :=
  passed_succ_of_not_coll h hc

theorem reached_of_coll {s : Script} {i : Nat} {op : Op}
    (h : s[i]? = some op) (hc : op.isColl = true) : reached s i = passed s i + 1 :=
  passed_succ_of_coll h hc

theorem passed_le_total (s : Script) (i : Nat) : passed s i ≤ passed s s.length := by
  unfold passed
  rw [List.take_length]
  exact ((List.take_sublist i s).filter _).length_le

theorem reached_le_total (s : Script) (i : Nat) : reached s i ≤ passed s s.length :=
  passed_le_total s (i+1)

theorem passed_of_length_le (s : Script) {i : Nat} (h : s.length ≤ i) :
    passed s i = passed s s.length := by
  unfold passed
  rw [List.take_of_length_le h, List.take_length]

theorem reached_of_length_le (s : Script) {i : Nat} (h : s.length ≤ i) :
    reached s i = passed s s.length :=
  passed_of_length_le s (Nat.le_succ_of_le h)

/-- a position whose epoch is smaller than that of `k` is before `k` -/
theorem lt_of_passed_lt (s : Script) {i k : Nat} (h : passed s i < passed s k) : i < k := by
  apply Nat.lt_of_not_le
  intro hle
  exact Nat.lt_irrefl _ (Nat.lt_of_lt_of_le h (passed_mono s hle))

/-! ### Configurations: the step relation moves one program counter by one -/

variable {N : Nat} {S : Nat → Script}

/-- Every step is performed by one rank `r < N` whose current operation exists; its pc moves by
    one, other pcs are unchanged. -/
theorem Step.pc_cases {c c' : Cfg} (h : Step N S c c') :
    ∃ r op, r < N ∧ (S r)[c.pc r]? = some op ∧
      c'.pc = fun q => if q = r then c.pc r + 1 else c.pc q := by
  cases h with
  | send r d t b hr hop => exact ⟨r, _, hr, hop, rfl⟩
  | recvAny r t m hr hop hm hd ht hold => exact ⟨r, _, hr, hop, rfl⟩
  | recvFrom r s t m hr hop hm hd hs ht hold => exact ⟨r, _, hr, hop, rfl⟩
  | coll r hr hop hall => exact ⟨r, _, hr, hop, rfl⟩

theorem Reach.pc_le_length {c : Cfg} (h : Reach N S c) (p : Nat) : c.pc p ≤ (S p).length := by
  induction h with
  | init => exact Nat.zero_le _
  | step _ hs ih =>
    obtain ⟨r, op, _, hop, hpc⟩ := hs.pc_cases
    rw [hpc]
    by_cases hq : p = r
    · subst hq
      simp only [if_true]
      have := (List.getElem?_eq_some_iff.mp hop).1
      omega
    · simp only [if_neg hq]; exact ih

/-! ### Target 1: the barrier invariant -/

/-- J1: no rank has passed more collectives than any other rank has reached. -/
theorem Reach.barrier {c : Cfg} (h : Reach N S c) :
    ∀ p q, p < N → q < N → passed (S p) (c.pc p) ≤ reached (S q) (c.pc q) := by
  induction h with
  | init =>
    intro p q _ _
    show passed (S p) 0 ≤ _
    simp [passed]
  | @step c c' _ hs ih =>
    intro p q hp hq
    have key : ∀ (r : Nat) (op : Op), r < N → (S r)[c.pc r]? = some op →
        (op.isColl = true → ∀ q, q < N → reached (S r) (c.pc r) ≤ reached (S q) (c.pc q)) →
        passed (S p) (if p = r then c.pc r + 1 else c.pc p) ≤
          reached (S q) (if q = r then c.pc r + 1 else c.pc q) := by
      intro r op hr hop hall
      have hq' : reached (S q) (c.pc q) ≤ reached (S q) (if q = r then c.pc r + 1 else c.pc q) := by
        by_cases hqr : q = r
        · subst hqr; simp only [if_true]; exact reached_mono _ (Nat.le_succ _)
        · simp only [if_neg hqr]; exact Nat.le_refl _
      by_cases hpr : p = r
      · subst hpr
        simp only [if_true]
        cases hc : op.isColl
        · rw [passed_succ_of_not_coll hop hc]
          exact Nat.le_trans (ih p q hp hq) hq'
        · rw [passed_succ_of_coll hop hc, ← reached_of_coll hop hc]
          exact Nat.le_trans (hall hc q hq) hq'
      · simp only [if_neg hpr]
        exact Nat.le_trans (ih p q hp hq) hq'
    cases hs with
    | send r d t b hr hop => exact key r _ hr hop (fun h => by simp [Op.isColl] at h)
    | recvAny r t m hr hop hm hd ht hold => exact key r _ hr hop (fun h => by simp [Op.isColl] at h)
    | recvFrom r s t m hr hop hm hd hs ht hold =>
      exact key r _ hr hop (fun h => by simp [Op.isColl] at h)
    | coll r hr hop hall => exact key r _ hr hop (fun _ => hall)

/-- Uniform case analysis of a step: a send, a receive (wildcard or specific) or a collective. -/
theorem Step.cases' {c c' : Cfg} (h : Step N S c c') :
    ∃ r op, r < N ∧ (S r)[c.pc r]? = some op ∧
      c'.pc = (fun q => if q = r then c.pc r + 1 else c.pc q) ∧
      ((∃ d t b, op = .send d t b ∧
          c'.net = c.net ++ [⟨r, c.pc r, d, t, b, passed (S r) (c.pc r)⟩] ∧ c'.log = c.log)
      ∨ (∃ m, m ∈ c.net ∧ m.dst = r ∧ (op = .recvAny m.tag ∨ op = .recvFrom m.src m.tag) ∧
          oldestOfSource c.net m ∧ c'.net = c.net.erase m ∧ c'.log = (r, c.pc r, m) :: c.log)
      ∨ (op = .coll ∧ (∀ q, q < N → reached (S r) (c.pc r) ≤ reached (S q) (c.pc q)) ∧
          c'.net = c.net ∧ c'.log = c.log)) := by
  cases h with
  | send r d t b hr hop =>
    exact ⟨r, _, hr, hop, rfl, Or.inl ⟨d, t, b, rfl, rfl, rfl⟩⟩
  | recvAny r t m hr hop hm hd ht hold =>
    subst ht
    exact ⟨r, _, hr, hop, rfl, Or.inr (Or.inl ⟨m, hm, hd, Or.inl rfl, hold, rfl, rfl⟩)⟩
  | recvFrom r s t m hr hop hm hd hs ht hold =>
    subst ht; subst hs
    exact ⟨r, _, hr, hop, rfl, Or.inr (Or.inl ⟨m, hm, hd, Or.inr rfl, hold, rfl, rfl⟩)⟩
  | coll r hr hop hall =>
    exact ⟨r, _, hr, hop, rfl, Or.inr (Or.inr ⟨rfl, hall, rfl, rfl⟩)⟩

/-! ### Sums and `flatMap` over `List.range N` -/

theorem flatMap_range_congr {α : Type} {f f' : Nat → List α} {N : Nat}
    (h : ∀ p, p < N → f' p = f p) : (List.range N).flatMap f' = (List.range N).flatMap f := by
  induction N with
  | zero => rfl
  | succ n ih =>
    rw [List.range_succ, List.flatMap_append, List.flatMap_append,
      ih (fun p hp => h p (Nat.lt_succ_of_lt hp))]
    simp [h n (Nat.lt_succ_self n)]

/-- appending `extra` to the `r`-th block of a `flatMap` over `range N` is, up to permutation,
    appending it at the end -/
theorem flatMap_range_update {α : Type} {f f' : Nat → List α} {N r : Nat} {extra : List α}
    (hr : r < N) (hr' : f' r = f r ++ extra) (hne : ∀ p, p ≠ r → f' p = f p) :
    ((List.range N).flatMap f').Perm ((List.range N).flatMap f ++ extra) := by
  induction N with
  | zero => exact absurd hr (Nat.not_lt_zero _)
  | succ n ih =>
    rw [List.range_succ, List.flatMap_append, List.flatMap_append]
    simp only [List.flatMap_cons, List.flatMap_nil, List.append_nil]
    by_cases hrn : r = n
    · subst hrn
      rw [flatMap_range_congr (f := f) (f' := f') (fun p hp => hne p (Nat.ne_of_lt hp)), hr',
        List.append_assoc]
    · have hlt : r < n := Nat.lt_of_le_of_ne (Nat.le_of_lt_succ hr) hrn
      rw [hne n (fun h => hrn h.symm)]
      refine List.Perm.trans (List.Perm.append_right _ (ih hlt)) ?_
      rw [List.append_assoc, List.append_assoc]
      exact List.Perm.append_left _ List.perm_append_comm

theorem sum_map_range_le {f g : Nat → Nat} {N : Nat} (h : ∀ p, p < N → f p ≤ g p) :
    ((List.range N).map f).sum ≤ ((List.range N).map g).sum := by
  induction N with
  | zero => exact Nat.le_refl _
  | succ n ih =>
    rw [List.range_succ]
    simp only [List.map_append, List.sum_append_nat, List.map_cons, List.map_nil, List.sum_cons,
      List.sum_nil]
    have h1 := ih (fun p hp => h p (Nat.lt_succ_of_lt hp))
    have h2 := h n (Nat.lt_succ_self n)
    omega

theorem sum_map_range_congr {f g : Nat → Nat} {N : Nat} (h : ∀ p, p < N → f p = g p) :
    ((List.range N).map f).sum = ((List.range N).map g).sum :=
  Nat.le_antisymm (sum_map_range_le fun p hp => Nat.le_of_eq (h p hp))
    (sum_map_range_le fun p hp => Nat.le_of_eq (h p hp).symm)

/-- termwise `≤` and equal sums force termwise equality -/
theorem eq_of_sum_map_range_le {f g : Nat → Nat} {N : Nat} (h : ∀ p, p < N → f p ≤ g p)
    (hs : ((List.range N).map g).sum ≤ ((List.range N).map f).sum) :
    ∀ p, p < N → f p = g p := by
  induction N with
  | zero => intro p hp; exact absurd hp (Nat.not_lt_zero _)
  | succ n ih =>
    rw [List.range_succ] at hs
    simp only [List.map_append, List.sum_append_nat, List.map_cons, List.map_nil, List.sum_cons,
      List.sum_nil] at hs
    have h1 := sum_map_range_le (f := f) (g := g) (N := n) (fun p hp => h p (Nat.lt_succ_of_lt hp))
    have h2 := h n (Nat.lt_succ_self n)
    intro p hp
    by_cases hpn : p = n
    · subst hpn; omega
    · exact ih (fun p hp => h p (Nat.lt_succ_of_lt hp)) (by omega) p
        (Nat.lt_of_le_of_ne (Nat.le_of_lt_succ hp) hpn)

/-- a minimiser of `f` on `{0,…,N-1}` -/
theorem exists_min_range (f : Nat → Nat) {N : Nat} (hN : 0 < N) :
    ∃ r, r < N ∧ ∀ q, q < N → f r ≤ f q := by
  induction N with
  | zero => exact absurd hN (Nat.lt_irrefl _)
  | succ n ih =>
    by_cases hn : 0 < n
    · obtain ⟨r, hr, hmin⟩ := ih hn
      by_cases hle : f r ≤ f n
      · refine ⟨r, Nat.lt_succ_of_lt hr, fun q hq => ?_⟩
        by_cases hqn : q = n
        · subst hqn; exact hle
        · exact hmin q (Nat.lt_of_le_of_ne (Nat.le_of_lt_succ hq) hqn)
      · refine ⟨n, Nat.lt_succ_self n, fun q hq => ?_⟩
        by_cases hqn : q = n
        · subst hqn; exact Nat.le_refl _
        · have := hmin q (Nat.lt_of_le_of_ne (Nat.le_of_lt_succ hq) hqn)
          omega
    · have : n = 0 := by omega
      subst this
      refine ⟨0, Nat.zero_lt_one, fun q hq => ?_⟩
      have : q = 0 := by omega
      subst this; exact Nat.le_refl _

/-! ### The messages of the executed sends -/

/-- the message produced by position `i` of rank `p` (if that position is a send) -/
def msgAt (S : Nat → Script) (p i : Nat) : Option Msg :=
  match (S p)[i]? with
  | some (.send d t b) => some ⟨p, i, d, t, b, passed (S p) i⟩
  | _ => none

/-- the messages of the sends among the first `k` operations of rank `p`, in program order -/
def sentBy (S : Nat → Script) (p k : Nat) : List Msg := (List.range k).filterMap (msgAt S p)

/-- the messages of all sends executed so far (given the program counters) -/
def sentList (N : Nat) (S : Nat → Script) (pc : Nat → Nat) : List Msg :=
  (List.range N).flatMap fun p => sentBy S p (pc p)

/-- the messages in flight followed by the messages already received -/
def Cfg.allMsgs (c : Cfg) : List Msg := c.net ++ c.log.map (·.2.2)

theorem msgAt_send {p i d t b : Nat} (h : (S p)[i]? = some (.send d t b)) :
    msgAt S p i = some ⟨p, i, d, t, b, passed (S p) i⟩ := by
  simp [msgAt, h]

theorem msgAt_eq_some_iff {p i : Nat} {m : Msg} :
    msgAt S p i = some m ↔
      m.src = p ∧ m.pos = i ∧ (S p)[i]? = some (.send m.dst m.tag m.body) ∧
        m.epoch = passed (S p) i := by
  unfold msgAt
  constructor
  · intro h
    split at h
    · next d t b heq =>
      cases h
      exact ⟨rfl, rfl, heq, rfl⟩
    · cases h
  · rintro ⟨h1, h2, h3, h4⟩
    rw [h3]
    cases m
    simp_all

theorem msgAt_of_not_send {p i : Nat} (h : ∀ d t b, (S p)[i]? ≠ some (.send d t b)) :
    msgAt S p i = none := by
  cases hm : msgAt S p i with
  | none => rfl
  | some m => exact absurd (msgAt_eq_some_iff.mp hm).2.2.1 (h _ _ _)

theorem sentBy_succ (p k : Nat) : sentBy S p (k+1) = sentBy S p k ++ (msgAt S p k).toList := by
  unfold sentBy
  rw [List.range_succ, List.filterMap_append]
  cases h : msgAt S p k <;> simp [h]

theorem mem_sentBy {p k : Nat} {m : Msg} :
    m ∈ sentBy S p k ↔ m.src = p ∧ m.pos < k ∧ (S p)[m.pos]? = some (.send m.dst m.tag m.body) ∧
        m.epoch = passed (S p) m.pos := by
  unfold sentBy
  rw [List.mem_filterMap]
  constructor
  · rintro ⟨i, hi, hm⟩
    have := msgAt_eq_some_iff.mp hm
    obtain ⟨h1, h2, h3, h4⟩ := this
    subst h2
    exact ⟨h1, List.mem_range.mp hi, h3, h4⟩
  · rintro ⟨h1, h2, h3, h4⟩
    exact ⟨m.pos, List.mem_range.mpr h2, msgAt_eq_some_iff.mpr ⟨h1, rfl, h3, h4⟩⟩

theorem mem_sentList {pc : Nat → Nat} {m : Msg} :
    m ∈ sentList N S pc ↔ m.src < N ∧ m.pos < pc m.src ∧
      (S m.src)[m.pos]? = some (.send m.dst m.tag m.body) ∧
        m.epoch = passed (S m.src) m.pos := by
  unfold sentList
  rw [List.mem_flatMap]
  constructor
  · rintro ⟨p, hp, hm⟩
    obtain ⟨h1, h2, h3, h4⟩ := mem_sentBy.mp hm
    subst h1
    exact ⟨List.mem_range.mp hp, h2, h3, h4⟩
  · rintro ⟨h1, h2, h3, h4⟩
    exact ⟨m.src, List.mem_range.mpr h1, mem_sentBy.mpr ⟨rfl, h2, h3, h4⟩⟩

/-- one more operation of rank `r` adds its message (if it is a send) to the sent list -/
theorem sentList_step (pc : Nat → Nat) {r : Nat} (hr : r < N) :
    (sentList N S (fun q => if q = r then pc r + 1 else pc q)).Perm
      (sentList N S pc ++ (msgAt S r (pc r)).toList) := by
  unfold sentList
  apply flatMap_range_update hr
  · simp only [if_true]; exact sentBy_succ r (pc r)
  · intro p hp; simp only [if_neg hp]

/-! ### Target 3: bookkeeping — `net ++ log` is a permutation of the executed sends -/

/-- J2 -/
theorem Reach.allMsgs_perm {c : Cfg} (h : Reach N S c) :
    c.allMsgs.Perm (sentList N S c.pc) := by
  induction h with
  | init =>
    have : sentList N S Mpi.init.pc = [] := by
      unfold sentList
      rw [List.flatMap_eq_nil_iff]
      intro p _; rfl
    rw [this]; exact List.Perm.refl _
  | @step c c' _ hs ih =>
    obtain ⟨r, op, hr, hop, hpc, hcase⟩ := hs.cases'
    rw [hpc]
    refine List.Perm.trans ?_ (sentList_step c.pc hr).symm
    unfold Cfg.allMsgs at ih ⊢
    rcases hcase with ⟨d, t, b, rfl, hnet, hlog⟩ | ⟨m, hm, hd, hop', hold, hnet, hlog⟩ |
      ⟨rfl, hall, hnet, hlog⟩
    · rw [hnet, hlog, msgAt_send hop, List.append_assoc]
      refine List.Perm.trans (List.Perm.append_left _ List.perm_append_comm) ?_
      rw [← List.append_assoc]
      exact List.Perm.append_right _ ih
    · have hnone : msgAt S r (c.pc r) = none := by
        apply msgAt_of_not_send
        intro d t b hh
        rw [hop] at hh
        rcases hop' with h | h <;> rw [h] at hh <;> cases hh
      rw [hnet, hlog, hnone]
      simp only [List.map_cons, Option.toList_none, List.append_nil]
      refine List.Perm.trans List.perm_middle ?_
      refine List.Perm.trans ?_ ih
      exact (List.Perm.append_right _ (List.perm_cons_erase hm)).symm
    · have hnone : msgAt S r (c.pc r) = none := by
        apply msgAt_of_not_send
        intro d t b hh
        rw [hop] at hh; cases hh
      rw [hnet, hlog, hnone]
      simpa using ih

theorem Reach.mem_allMsgs {c : Cfg} (h : Reach N S c) {m : Msg} :
    m ∈ c.allMsgs ↔ m.src < N ∧ m.pos < c.pc m.src ∧
      (S m.src)[m.pos]? = some (.send m.dst m.tag m.body) ∧
        m.epoch = passed (S m.src) m.pos :=
  h.allMsgs_perm.mem_iff.trans mem_sentList

theorem mem_allMsgs_of_net {c : Cfg} {m : Msg} (h : m ∈ c.net) : m ∈ c.allMsgs :=
  List.mem_append_left _ h

theorem mem_allMsgs_of_log {c : Cfg} {x : Nat × Nat × Msg} (h : x ∈ c.log) : x.2.2 ∈ c.allMsgs :=
  List.mem_append_right _ (List.mem_map.mpr ⟨x, h, rfl⟩)

/-- consuming a message moves it from `net` to `log` -/
theorem recv_perm {net : List Msg} {logs : List Msg} {m : Msg} (hm : m ∈ net) :
    (net.erase m ++ m :: logs).Perm (net ++ logs) :=
  List.Perm.trans List.perm_middle (List.Perm.append_right _ (List.perm_cons_erase hm)).symm

theorem Reach.nodup_allMsgs {c : Cfg} (h : Reach N S c) : c.allMsgs.Nodup := by
  induction h with
  | init => exact List.nodup_nil
  | @step c c' hc hs ih =>
    obtain ⟨r, op, hr, hop, hpc, hcase⟩ := hs.cases'
    rcases hcase with ⟨d, t, b, rfl, hnet, hlog⟩ | ⟨m, hm, hd, hop', hold, hnet, hlog⟩ |
      ⟨rfl, hall, hnet, hlog⟩
    · have hp : c'.allMsgs.Perm (⟨r, c.pc r, d, t, b, passed (S r) (c.pc r)⟩ :: c.allMsgs) := by
        unfold Cfg.allMsgs
        rw [hnet, hlog, List.append_assoc]
        refine List.Perm.trans (List.Perm.append_left _ List.perm_append_comm) ?_
        rw [← List.append_assoc]
        exact List.perm_append_comm
      rw [hp.nodup_iff, List.nodup_cons]
      refine ⟨fun hmem => ?_, ih⟩
      have := (hc.mem_allMsgs.mp hmem).2.1
      exact Nat.lt_irrefl _ this
    · have hp : c'.allMsgs.Perm c.allMsgs := by
        unfold Cfg.allMsgs
        rw [hnet, hlog]
        exact recv_perm hm
      exact hp.nodup_iff.mpr ih
    · have : c'.allMsgs = c.allMsgs := by unfold Cfg.allMsgs; rw [hnet, hlog]
      rw [this]; exact ih

/-! ### Counting positions of a script and messages -/

/-- position `i` of `s` holds an operation satisfying `f` and has epoch `e` -/
def posPred (s : Script) (f : Op → Bool) (e i : Nat) : Bool :=
  match s[i]? with
  | some op => f op && passed s i == e
  | none => false

/-- number of positions `< k` satisfying `posPred` -/
def cntUpto (s : Script) (f : Op → Bool) (e k : Nat) : Nat :=
  ((List.range k).filter (posPred s f e)).length

theorem countAt_eq (s : Script) (f : Op → Bool) (e : Nat) :
    countAt s f e = cntUpto s f e s.length := rfl

theorem posPred_of_op {s : Script} {i : Nat} {op : Op} (h : s[i]? = some op)
    (f : Op → Bool) (e : Nat) : posPred s f e i = (f op && passed s i == e) := by
  simp [posPred, h]

theorem posPred_of_none {s : Script} {i : Nat} (h : s[i]? = none)
    (f : Op → Bool) (e : Nat) : posPred s f e i = false := by
  simp [posPred, h]

theorem posPred_iff {s : Script} {f : Op → Bool} {e i : Nat} :
    posPred s f e i = true ↔ ∃ op, s[i]? = some op ∧ f op = true ∧ passed s i = e := by
  cases h : s[i]? with
  | none => simp [posPred, h]
  | some op => simp [posPred, h]

theorem isRecvAny_iff {t : Nat} {op : Op} : Op.isRecvAny t op = true ↔ op = .recvAny t := by
  cases op <;> simp [Op.isRecvAny]

theorem isSendTo_iff {q t : Nat} {op : Op} :
    Op.isSendTo q t op = true ↔ ∃ b, op = .send q t b := by
  cases op <;> simp [Op.isSendTo]

theorem cntUpto_succ (s : Script) (f : Op → Bool) (e k : Nat) :
    cntUpto s f e (k+1) = cntUpto s f e k + if posPred s f e k then 1 else 0 := by
  unfold cntUpto
  rw [List.range_succ, List.filter_append, List.length_append]
  cases h : posPred s f e k <;> simp [h]

theorem cntUpto_add_of_false (s : Script) (f : Op → Bool) (e k : Nat) :
    ∀ d, (∀ i, k ≤ i → i < k + d → posPred s f e i = false) →
      cntUpto s f e (k + d) = cntUpto s f e k := by
  intro d
  induction d with
  | zero => intro _; rfl
  | succ d ih =>
    intro h
    rw [← Nat.add_assoc, cntUpto_succ, h (k+d) (Nat.le_add_right _ _) (by omega),
      ih (fun i h1 h2 => h i h1 (by omega))]
    simp

theorem cntUpto_mono (s : Script) (f : Op → Bool) (e : Nat) {k k' : Nat} (h : k ≤ k') :
    cntUpto s f e k ≤ cntUpto s f e k' := by
  obtain ⟨d, rfl⟩ := Nat.exists_eq_add_of_le h
  induction d with
  | zero => exact Nat.le_refl _
  | succ d ih =>
    rw [← Nat.add_assoc, cntUpto_succ]
    exact Nat.le_trans (ih (Nat.le_add_right _ _)) (Nat.le_add_right _ _)

theorem cntUpto_le_countAt (s : Script) (f : Op → Bool) (e : Nat) {k : Nat} (h : k ≤ s.length) :
    cntUpto s f e k ≤ countAt s f e :=
  cntUpto_mono s f e h

/-- if no later position counts, the count up to `k` is the count over the whole script -/
theorem cntUpto_eq_countAt (s : Script) (f : Op → Bool) (e : Nat) {k : Nat} (hk : k ≤ s.length)
    (h : ∀ i, k ≤ i → i < s.length → posPred s f e i = false) :
    cntUpto s f e k = countAt s f e := by
  obtain ⟨d, hd⟩ := Nat.exists_eq_add_of_le hk
  rw [countAt_eq, hd]
  exact (cntUpto_add_of_false s f e k d (fun i h1 h2 => h i h1 (by omega))).symm

/-- positions at or after `k` have epoch at least that of `k`; so if the epoch of `k` exceeds
    `e`, every epoch-`e` position is before `k` -/
theorem cntUpto_eq_countAt_of_lt (s : Script) (f : Op → Bool) {e k : Nat} (hk : k ≤ s.length)
    (h : e < passed s k) : cntUpto s f e k = countAt s f e := by
  apply cntUpto_eq_countAt s f e hk
  intro i hi _
  cases hp : posPred s f e i with
  | false => rfl
  | true =>
    obtain ⟨op, _, _, h3⟩ := posPred_iff.mp hp
    have := passed_mono s hi
    omega

/-- a message is addressed to `q` with tag `t` and was sent in epoch `e` -/
def msgIs (q t e : Nat) (m : Msg) : Bool := m.dst == q && m.tag == t && m.epoch == e

theorem msgIs_iff {q t e : Nat} {m : Msg} :
    msgIs q t e m = true ↔ m.dst = q ∧ m.tag = t ∧ m.epoch = e := by
  simp [msgIs, and_assoc]

theorem countP_msgAt (q t e p k : Nat) :
    List.countP (msgIs q t e) (msgAt S p k).toList =
      if posPred (S p) (Op.isSendTo q t) e k then 1 else 0 := by
  unfold msgAt posPred
  cases h : (S p)[k]? with
  | none => simp
  | some op => cases op <;> simp [msgIs, Op.isSendTo, List.countP_cons]

theorem countP_sentBy (q t e p k : Nat) :
    List.countP (msgIs q t e) (sentBy S p k) = cntUpto (S p) (Op.isSendTo q t) e k := by
  induction k with
  | zero => rfl
  | succ k ih => rw [sentBy_succ, List.countP_append, cntUpto_succ, ih, countP_msgAt]

theorem countP_sentList (q t e : Nat) (pc : Nat → Nat) :
    List.countP (msgIs q t e) (sentList N S pc) =
      ((List.range N).map fun p => cntUpto (S p) (Op.isSendTo q t) e (pc p)).sum := by
  unfold sentList
  rw [List.countP_flatMap]
  congr 1
  apply List.map_congr_left
  intro p _
  exact countP_sentBy q t e p (pc p)

/-- K1: per (destination, tag, epoch), messages in flight plus messages received are the
    messages sent so far -/
theorem Reach.count_msgs {c : Cfg} (h : Reach N S c) (q t e : Nat) :
    List.countP (msgIs q t e) c.net + List.countP (fun x => msgIs q t e x.2.2) c.log =
      ((List.range N).map fun p => cntUpto (S p) (Op.isSendTo q t) e (c.pc p)).sum := by
  rw [← countP_sentList, ← h.allMsgs_perm.countP_eq]
  unfold Cfg.allMsgs
  rw [List.countP_append, List.countP_map]
  rfl

theorem Reach.sent_le {c : Cfg} (h : Reach N S c) (q t e : Nat) :
    ((List.range N).map fun p => cntUpto (S p) (Op.isSendTo q t) e (c.pc p)).sum ≤
      ((List.range N).map fun p => sentTo (S p) q t e).sum :=
  sum_map_range_le fun p _ => cntUpto_le_countAt _ _ _ (h.pc_le_length p)

/-! ### The receive log -/

theorem pc_le_step (pc : Nat → Nat) (r q : Nat) :
    pc q ≤ (if q = r then pc r + 1 else pc q) := by
  split
  · next h => subst h; exact Nat.le_succ _
  · exact Nat.le_refl _

/-- L: every log entry records a receive executed by a rank `< N`, of a message addressed to it,
    at a position holding a matching receive operation -/
theorem Reach.log_wf {c : Cfg} (h : Reach N S c) :
    ∀ x ∈ c.log, x.1 < N ∧ x.2.1 < c.pc x.1 ∧ x.2.2.dst = x.1 ∧
      ((S x.1)[x.2.1]? = some (.recvAny x.2.2.tag) ∨
       (S x.1)[x.2.1]? = some (.recvFrom x.2.2.src x.2.2.tag)) := by
  induction h with
  | init => intro x hx; cases hx
  | @step c c' hc hs ih =>
    obtain ⟨r, op, hr, hop, hpc, hcase⟩ := hs.cases'
    have old : ∀ x ∈ c.log, x.1 < N ∧ x.2.1 < c'.pc x.1 ∧ x.2.2.dst = x.1 ∧
      ((S x.1)[x.2.1]? = some (.recvAny x.2.2.tag) ∨
       (S x.1)[x.2.1]? = some (.recvFrom x.2.2.src x.2.2.tag)) := by
      intro x hx
      obtain ⟨h1, h2, h3⟩ := ih x hx
      refine ⟨h1, ?_, h3⟩
      rw [hpc]
      exact Nat.lt_of_lt_of_le h2 (pc_le_step c.pc r x.1)
    rcases hcase with ⟨d, t, b, rfl, hnet, hlog⟩ | ⟨m, hm, hd, hop', hold, hnet, hlog⟩ |
      ⟨rfl, hall, hnet, hlog⟩
    · rw [hlog]; exact old
    · rw [hlog]
      intro x hx
      rcases List.mem_cons.mp hx with rfl | hx
      · refine ⟨hr, ?_, hd, ?_⟩
        · rw [hpc]; simp
        · rw [hop]; rcases hop' with h | h <;> rw [h]
          · exact Or.inl rfl
          · exact Or.inr rfl
      · exact old x hx
    · rw [hlog]; exact old

/-- the log entry is a wildcard receive of rank `r` with tag `t` in epoch `e` -/
def wildEntry (S : Nat → Script) (r t e : Nat) (x : Nat × Nat × Msg) : Bool :=
  x.1 == r && posPred (S r) (Op.isRecvAny t) e x.2.1

theorem wildEntry_iff {r t e : Nat} {x : Nat × Nat × Msg} :
    wildEntry S r t e x = true ↔
      x.1 = r ∧ (S r)[x.2.1]? = some (.recvAny t) ∧ passed (S r) x.2.1 = e := by
  unfold wildEntry
  rw [Bool.and_eq_true, posPred_iff, beq_iff_eq]
  constructor
  · rintro ⟨h1, op, h2, h3, h4⟩
    rw [isRecvAny_iff.mp h3] at h2
    exact ⟨h1, h2, h4⟩
  · rintro ⟨h1, h2, h3⟩
    exact ⟨h1, _, h2, isRecvAny_iff.mpr rfl, h3⟩

/-- K2: the log holds exactly one entry per executed wildcard receive -/
theorem Reach.count_wild {c : Cfg} (h : Reach N S c) (r t e : Nat) :
    List.countP (wildEntry S r t e) c.log = cntUpto (S r) (Op.isRecvAny t) e (c.pc r) := by
  induction h with
  | init => rfl
  | @step c c' hc hs ih =>
    obtain ⟨r', op, hr, hop, hpc, hcase⟩ := hs.cases'
    rw [hpc]
    by_cases hrr : r = r'
    · subst hrr
      simp only [if_true]
      rw [cntUpto_succ, posPred_of_op hop]
      rcases hcase with ⟨d, t', b, rfl, hnet, hlog⟩ | ⟨m, hm, hd, hop', hold, hnet, hlog⟩ |
        ⟨rfl, hall, hnet, hlog⟩
      · rw [hlog, ih]; simp [Op.isRecvAny]
      · rw [hlog, List.countP_cons, ih]
        simp [wildEntry, posPred_of_op hop]
      · rw [hlog, ih]; simp [Op.isRecvAny]
    · simp only [if_neg hrr]
      rcases hcase with ⟨d, t', b, rfl, hnet, hlog⟩ | ⟨m, hm, hd, hop', hold, hnet, hlog⟩ |
        ⟨rfl, hall, hnet, hlog⟩
      · rw [hlog, ih]
      · rw [hlog, List.countP_cons, ih]
        have : wildEntry S r t e (r', c.pc r', m) = false := by
          have hne : (r' == r) = false := by simp; exact fun h => hrr h.symm
          simp [wildEntry, hne]
        simp [this]
      · rw [hlog, ih]

/-! ### Target 2: causality -/

theorem Reach.net_epoch_le {c : Cfg} (h : Reach N S c) {m : Msg} (hm : m ∈ c.allMsgs) :
    m.src < N ∧ m.epoch ≤ passed (S m.src) (c.pc m.src) := by
  obtain ⟨h1, h2, _, h4⟩ := h.mem_allMsgs.mp hm
  exact ⟨h1, h4 ▸ passed_mono _ (Nat.le_of_lt h2)⟩

/-- a message in flight was sent in an epoch its destination has reached -/
theorem Reach.causality_net {c : Cfg} (h : Reach N S c) {m : Msg} (hm : m ∈ c.net)
    (hd : m.dst < N) : m.epoch ≤ reached (S m.dst) (c.pc m.dst) := by
  obtain ⟨h1, h2⟩ := h.net_epoch_le (mem_allMsgs_of_net hm)
  exact Nat.le_trans h2 (h.barrier _ _ h1 hd)

/-- a message is never received in an earlier epoch than it was sent -/
theorem Reach.causality_log {c : Cfg} (h : Reach N S c) :
    ∀ x ∈ c.log, x.2.2.epoch ≤ passed (S x.1) x.2.1 := by
  induction h with
  | init => intro x hx; cases hx
  | @step c c' hc hs ih =>
    obtain ⟨r, op, hr, hop, hpc, hcase⟩ := hs.cases'
    rcases hcase with ⟨d, t, b, rfl, hnet, hlog⟩ | ⟨m, hm, hd, hop', hold, hnet, hlog⟩ |
      ⟨rfl, hall, hnet, hlog⟩
    · rw [hlog]; exact ih
    · rw [hlog]
      intro x hx
      rcases List.mem_cons.mp hx with rfl | hx
      · have h1 := hc.causality_net hm (hd ▸ hr)
        rw [hd] at h1
        have hnc : op.isColl = false := by rcases hop' with h | h <;> rw [h] <;> rfl
        rw [reached_of_not_coll hop hnc] at h1
        exact h1
      · exact ih x hx
    · rw [hlog]; exact ih

/-! ### Helpers for progress -/

/-- if some message from `m`'s source with `m`'s destination and tag is in flight, the oldest
    such message is in flight (and is the one MPI's non-overtaking rule allows to match) -/
theorem exists_oldest {net : List Msg} {m : Msg} (hm : m ∈ net) :
    ∃ m', m' ∈ net ∧ m'.src = m.src ∧ m'.dst = m.dst ∧ m'.tag = m.tag ∧
      oldestOfSource net m' := by
  have hs : (net.find? (fun x => x.src = m.src ∧ x.dst = m.dst ∧ x.tag = m.tag)).isSome := by
    rw [List.find?_isSome]; exact ⟨m, hm, by simp⟩
  obtain ⟨m', hm'⟩ := Option.isSome_iff_exists.mp hs
  have hp := List.find?_some hm'
  simp only [decide_eq_true_eq] at hp
  obtain ⟨h1, h2, h3⟩ := hp
  refine ⟨m', List.mem_of_find?_eq_some hm', h1, h2, h3, ?_⟩
  unfold oldestOfSource
  rw [h1, h2, h3]; exact hm'

theorem sum_map_range_update {f f' : Nat → Nat} {N r : Nat} (hr : r < N)
    (hr' : f' r + 1 = f r) (hne : ∀ p, p ≠ r → f' p = f p) :
    ((List.range N).map f').sum + 1 = ((List.range N).map f).sum := by
  induction N with
  | zero => exact absurd hr (Nat.not_lt_zero _)
  | succ n ih =>
    rw [List.range_succ]
    simp only [List.map_append, List.sum_append_nat, List.map_cons, List.map_nil, List.sum_cons,
      List.sum_nil]
    by_cases hrn : r = n
    · subst hrn
      rw [sum_map_range_congr (f := f') (g := f) (fun p hp => hne p (Nat.ne_of_lt hp))]
      omega
    · have hlt : r < n := Nat.lt_of_le_of_ne (Nat.le_of_lt_succ hr) hrn
      have := ih hlt
      rw [hne n (fun h => hrn h.symm)]
      omega

theorem passed_append_left {a : Script} (b : Script) {i : Nat} (h : i ≤ a.length) :
    passed (a ++ b) i = passed a i := by
  unfold passed
  rw [List.take_append_of_le_length h]

theorem passed_append_right (a b : Script) (k : Nat) :
    passed (a ++ b) (a.length + k) = passed a a.length + passed b k := by
  unfold passed
  rw [List.take_length_add_append, List.filter_append, List.length_append, List.take_length]

theorem passed_total_append (a b : Script) :
    passed (a ++ b) (a ++ b).length = passed a a.length + passed b b.length := by
  rw [List.length_append, passed_append_right]

/-! ### Checking `CountMatch` on concrete scripts by a bounded (decidable) test -/

theorem countAt_eq_zero {s : Script} {f : Op → Bool} {e : Nat}
    (h : ∀ i, posPred s f e i = false) : countAt s f e = 0 := by
  rw [countAt_eq]
  unfold cntUpto
  rw [List.length_eq_zero_iff, List.filter_eq_nil_iff]
  intro i _
  simp [h i]

theorem countAt_eq_zero_of_forall {s : Script} {f : Op → Bool} (e : Nat)
    (h : ∀ op ∈ s, f op = false) : countAt s f e = 0 := by
  apply countAt_eq_zero
  intro i
  cases hp : posPred s f e i with
  | false => rfl
  | true =>
    obtain ⟨op, h1, h2, _⟩ := posPred_iff.mp hp
    rw [h op (List.mem_of_getElem? h1)] at h2
    cases h2

theorem countAt_eq_zero_of_epoch {s : Script} (f : Op → Bool) {e : Nat}
    (h : passed s s.length < e) : countAt s f e = 0 := by
  apply countAt_eq_zero
  intro i
  cases hp : posPred s f e i with
  | false => rfl
  | true =>
    obtain ⟨op, _, _, h3⟩ := posPred_iff.mp hp
    have := passed_le_total s i
    omega

theorem sum_map_range_zero {f : Nat → Nat} {N : Nat} (h : ∀ p, p < N → f p = 0) :
    ((List.range N).map f).sum = 0 := by
  rw [sum_map_range_congr (g := fun _ => 0) h]
  induction N with
  | zero => rfl
  | succ n ih =>
    rw [List.range_succ]
    simp only [List.map_append, List.sum_append_nat, List.map_cons, List.map_nil, List.sum_cons,
      List.sum_nil]
    rw [ih (fun p hp => h p (Nat.lt_succ_of_lt hp))]
    rfl

/-- the tag used by an operation -/
def Op.tags : Op → List Nat
  | .send _ t _ => [t]
  | .recvAny t => [t]
  | .recvFrom _ t => [t]
  | .coll => []

/-- `CountMatch` follows from its instances for the tags that occur and the epochs that exist;
    the remaining hypotheses are decidable for concrete scripts. -/
theorem countMatch_of_bounded (tags : List Nat) (E : Nat)
    (htags : ∀ q, q < N → ∀ op ∈ S q, ∀ t ∈ op.tags, t ∈ tags)
    (hE : ∀ q, q < N → passed (S q) (S q).length ≤ E)
    (hchk : ∀ q, q < N → ∀ tag ∈ tags, ∀ e, e < E + 1 →
      wildRecvs (S q) tag e = ((List.range N).map fun p => sentTo (S p) q tag e).sum) :
    CountMatch N S := by
  intro q hq tag e
  by_cases ht : tag ∈ tags
  · by_cases he : e < E + 1
    · exact hchk q hq tag ht e he
    · have h1 : wildRecvs (S q) tag e = 0 :=
        countAt_eq_zero_of_epoch _ (by have := hE q hq; omega)
      rw [h1, sum_map_range_zero]
      intro p hp
      exact countAt_eq_zero_of_epoch _ (by have := hE p hp; omega)
  · have h1 : wildRecvs (S q) tag e = 0 := by
      apply countAt_eq_zero_of_forall
      intro op hop
      cases hf : Op.isRecvAny tag op with
      | false => rfl
      | true =>
        rw [isRecvAny_iff.mp hf] at hop
        exact absurd (htags q hq _ hop tag (by simp [Op.tags])) ht
    rw [h1, sum_map_range_zero]
    intro p hp
    apply countAt_eq_zero_of_forall
    intro op hop
    cases hf : Op.isSendTo q tag op with
    | false => rfl
    | true =>
      obtain ⟨b, rfl⟩ := isSendTo_iff.mp hf
      exact absurd (htags p hp _ hop tag (by simp [Op.tags])) ht

end Raptor.Mpi
