import RaptorModel.Model.Mis
import Mathlib.Order.Defs.LinearOrder
/-!
# Helper lemmas for the distance-two MIS / aggregation property theorems (C15)

Nothing here changes the model: every lemma is about the functions of `Model/Mis.lean`
(`tentative`, `confirmed`, `excluded`, `mis2Round`, `iterN`, `pass1`, `pass2`, …) or about plain lists.
-/
namespace Raptor.Mis

/-! ### plain list facts -/
section ListFacts
variable {α : Type}

theorem getD_map_range (f : Nat → α) (n i : Nat) (d : α) (h : i < n) :
    ((List.range n).map f).getD i d = f i := by
  simp [List.getD_eq_getElem?_getD, h]

theorem getD_map_range_ge (f : Nat → α) (n i : Nat) (d : α) (h : n ≤ i) :
    ((List.range n).map f).getD i d = d := by
  simp [List.getD_eq_getElem?_getD, h]

theorem getD_of_length_le (l : List α) (i : Nat) (d : α) (h : l.length ≤ i) : l.getD i d = d := by
  simp [List.getD_eq_getElem?_getD, h]

/-- strict decrease of a count: `p` implies `q` everywhere and some element has `q` but not `p` -/
theorem countP_lt_countP (p q : α → Bool) :
    ∀ l : List α, (∀ x ∈ l, p x = true → q x = true) → (∃ x ∈ l, q x = true ∧ p x = false) →
      l.countP p < l.countP q
  | [], _, hex => by obtain ⟨x, hx, _⟩ := hex; cases hx
  | a :: l, hpq, hex => by
    have hle : l.countP p ≤ l.countP q :=
      List.countP_mono_left fun x hx => hpq x (List.mem_cons_of_mem _ hx)
    obtain ⟨x, hx, hqx, hpx⟩ := hex
    rcases List.mem_cons.mp hx with rfl | hx'
    · rw [List.countP_cons_of_pos hqx, List.countP_cons_of_neg (by simp [hpx])]
      omega
    · have ih := countP_lt_countP p q l (fun y hy => hpq y (List.mem_cons_of_mem _ hy))
        ⟨x, hx', hqx, hpx⟩
      by_cases hpa : p a = true
      · rw [List.countP_cons_of_pos hpa, List.countP_cons_of_pos (hpq a List.mem_cons_self hpa)]
        omega
      · rw [List.countP_cons_of_neg hpa]
        by_cases hqa : q a = true
        · rw [List.countP_cons_of_pos hqa]; omega
        · rw [List.countP_cons_of_neg hqa]; exact ih

/-- a non-empty list has an element maximising `f` -/
theorem exists_max_of_ne_nil {W : Type} [LinearOrder W] (f : α → W) :
    ∀ l : List α, l ≠ [] → ∃ x ∈ l, ∀ y ∈ l, f y ≤ f x
  | [], h => absurd rfl h
  | [a], _ => ⟨a, List.mem_cons_self, fun y hy => by
      rcases List.mem_cons.mp hy with rfl | h
      · exact le_refl _
      · cases h⟩
  | a :: b :: l, _ => by
    obtain ⟨x, hx, hmax⟩ := exists_max_of_ne_nil f (b :: l) (List.cons_ne_nil _ _)
    rcases le_total (f a) (f x) with hax | hxa
    · refine ⟨x, List.mem_cons_of_mem _ hx, fun y hy => ?_⟩
      rcases List.mem_cons.mp hy with rfl | h
      · exact hax
      · exact hmax y h
    · refine ⟨a, List.mem_cons_self, fun y hy => ?_⟩
      rcases List.mem_cons.mp hy with rfl | h
      · exact le_refl _
      · exact le_trans (hmax y h) hxa

/-- a non-empty list has an element minimising `f` -/
theorem exists_min_of_ne_nil {W : Type} [LinearOrder W] (f : α → W) :
    ∀ l : List α, l ≠ [] → ∃ x ∈ l, ∀ y ∈ l, f x ≤ f y
  | [], h => absurd rfl h
  | [a], _ => ⟨a, List.mem_cons_self, fun y hy => by
      rcases List.mem_cons.mp hy with rfl | h
      · exact le_refl _
      · cases h⟩
  | a :: b :: l, _ => by
    obtain ⟨x, hx, hmin⟩ := exists_min_of_ne_nil f (b :: l) (List.cons_ne_nil _ _)
    rcases le_total (f a) (f x) with hax | hxa
    · refine ⟨a, List.mem_cons_self, fun y hy => ?_⟩
      rcases List.mem_cons.mp hy with rfl | h
      · exact le_refl _
      · exact le_trans hax (hmin y h)
    · refine ⟨x, List.mem_cons_of_mem _ hx, fun y hy => ?_⟩
      rcases List.mem_cons.mp hy with rfl | h
      · exact hxa
      · exact hmin y h

end ListFacts

/-! ### `iterN` -/
section Iter
variable {α : Type}

theorem iterN_succ' (f : α → α) : ∀ (n : Nat) (a : α), iterN f (n + 1) a = f (iterN f n a)
  | 0, _ => rfl
  | n + 1, a => by
    show iterN f (n + 1) (f a) = f (iterN f n (f a))
    exact iterN_succ' f n (f a)

/-- an invariant of `f` is an invariant of `iterN f n` -/
theorem iterN_inv (f : α → α) (P : α → Prop) (hP : ∀ a, P a → P (f a)) :
    ∀ (n : Nat) (a : α), P a → P (iterN f n a)
  | 0, _, h => h
  | n + 1, a, h => iterN_inv f P hP n (f a) (hP a h)

end Iter

/-! ### graph hypotheses and the distance-two relation -/

/-- every vertex lists itself -/
def SelfLoops (S : Graph) : Prop := ∀ v, v < S.length → v ∈ S.getD v []
/-- the adjacency relation is symmetric -/
def Symm (S : Graph) : Prop := ∀ v w, w ∈ S.getD v [] → v ∈ S.getD w []
/-- every listed neighbour is a vertex -/
def Closed (S : Graph) : Prop := ∀ v w, w ∈ S.getD v [] → w < S.length

/-- `x` is reached from `v` by two stored edges `v → w → x` (with self loops this covers one edge
    and `x = v` too) -/
def N2 (S : Graph) (v x : Nat) : Prop := ∃ w, w ∈ S.getD v [] ∧ x ∈ S.getD w []

theorem N2.symm {S : Graph} (hs : Symm S) {v x : Nat} (h : N2 S v x) : N2 S x v := by
  obtain ⟨w, hw, hx⟩ := h
  exact ⟨w, hs _ _ hx, hs _ _ hw⟩

theorem N2_of_edge {S : Graph} (hl : SelfLoops S) {v x : Nat} (hv : v < S.length)
    (h : x ∈ S.getD v []) : N2 S v x := ⟨v, hl v hv, h⟩

theorem mem_within2 {S : Graph} {v x : Nat} : x ∈ within2 S v ↔ x ∈ S.getD v [] ∨ N2 S v x := by
  unfold within2 N2
  rw [List.mem_append, List.mem_flatMap]

theorem mem_within2_of_N2 {S : Graph} {v x : Nat} (h : N2 S v x) : x ∈ within2 S v :=
  mem_within2.mpr (Or.inr h)

theorem N2_of_mem_within2 {S : Graph} (hl : SelfLoops S) {v x : Nat} (hv : v < S.length)
    (h : x ∈ within2 S v) : N2 S v x := by
  rcases mem_within2.mp h with h | h
  · exact N2_of_edge hl hv h
  · exact h

/-! ### labels -/

theorem lab_of_ge {L : List Int} {v : Nat} (h : L.length ≤ v) : lab L v = 0 :=
  getD_of_length_le L v 0 h

theorem decided_iff {L : List Int} {v : Nat} : decided L v = true ↔ lab L v = 1 ∨ lab L v = 0 := by
  simp [decided]

theorem decided_of_root {L : List Int} {v : Nat} (h : lab L v = 1) : decided L v = true :=
  decided_iff.mpr (Or.inl h)

theorem decided_of_ge {L : List Int} {v : Nat} (h : L.length ≤ v) : decided L v = true :=
  decided_iff.mpr (Or.inr (lab_of_ge h))

theorem undecided_lt {L : List Int} {v : Nat} (h : decided L v = false) : v < L.length := by
  by_contra hc
  rw [decided_of_ge (Nat.le_of_not_lt hc)] at h
  cases h

theorem root_lt {L : List Int} {v : Nat} (h : lab L v = 1) : v < L.length := by
  by_contra hc
  rw [lab_of_ge (Nat.le_of_not_lt hc)] at h
  cases h

/-- labels are `1`, `0` or `-1` -/
def Valid (L : List Int) : Prop := ∀ v, lab L v = 1 ∨ lab L v = 0 ∨ lab L v = -1

theorem lab_replicate (n v : Nat) : lab (List.replicate n (-1)) v = if v < n then -1 else 0 := by
  unfold lab
  by_cases h : v < n
  · simp [List.getD_eq_getElem?_getD, h]
  · simp [List.getD_eq_getElem?_getD, h]

/-! ### the three phases as propositions -/
section Phases
variable {W : Type} [LinearOrder W] [Zero W]

theorem tentative_iff {S : Graph} {r : List W} {L : List Int} {v : Nat} :
    tentative S r L v = true ↔
      decided L v = false ∧ ∀ w ∈ S.getD v [], key r w < key r v → decided L w = true := by
  unfold tentative
  simp only [Bool.and_eq_true, Bool.not_eq_true', List.all_eq_true, Bool.or_eq_true,
    decide_eq_false_iff_not]
  constructor
  · rintro ⟨h1, h2⟩
    refine ⟨h1, fun w hw hlt => ?_⟩
    rcases h2 w hw with h | h
    · exact absurd hlt h
    · exact h
  · rintro ⟨h1, h2⟩
    refine ⟨h1, fun w hw => ?_⟩
    by_cases hlt : key r w < key r v
    · exact Or.inr (h2 w hw hlt)
    · exact Or.inl hlt

theorem confirmed_iff {S : Graph} {r : List W} {L : List Int} {v : Nat} :
    confirmed S r L v = true ↔
      tentative S r L v = true ∧
        ∀ w ∈ S.getD v [], ∀ u ∈ S.getD w [], tentative S r L u = true → ¬ key r v < key r u := by
  unfold confirmed
  simp only [Bool.and_eq_true, List.all_eq_true, Bool.not_eq_true', Bool.and_eq_false_iff,
    decide_eq_false_iff_not]
  constructor
  · rintro ⟨h1, h2⟩
    refine ⟨h1, fun w hw u hu ht => ?_⟩
    rcases h2 w hw u hu with h | h
    · rw [ht] at h; cases h
    · exact h
  · rintro ⟨h1, h2⟩
    refine ⟨h1, fun w hw u hu => ?_⟩
    by_cases ht : tentative S r L u = true
    · exact Or.inr (h2 w hw u hu ht)
    · exact Or.inl (by simpa using ht)

theorem excluded_iff {S : Graph} {r : List W} {L : List Int} {v : Nat} :
    excluded S r L v = true ↔
      decided L v = false ∧ confirmed S r L v = false ∧
        ∃ w ∈ S.getD v [], confirmed S r L w = true ∨ ∃ x ∈ S.getD w [], confirmed S r L x = true := by
  unfold excluded
  simp only [Bool.and_eq_true, Bool.not_eq_true', List.any_eq_true, Bool.or_eq_true, and_assoc]

theorem tentative_undecided {S : Graph} {r : List W} {L : List Int} {v : Nat}
    (h : tentative S r L v = true) : decided L v = false := (tentative_iff.mp h).1

theorem confirmed_undecided {S : Graph} {r : List W} {L : List Int} {v : Nat}
    (h : confirmed S r L v = true) : decided L v = false :=
  tentative_undecided (confirmed_iff.mp h).1

theorem excluded_undecided {S : Graph} {r : List W} {L : List Int} {v : Nat}
    (h : excluded S r L v = true) : decided L v = false := (excluded_iff.mp h).1

theorem not_confirmed_of_decided {S : Graph} {r : List W} {L : List Int} {v : Nat}
    (h : decided L v = true) : confirmed S r L v = false := by
  cases hc : confirmed S r L v
  · rfl
  · rw [confirmed_undecided hc] at h; cases h

theorem not_excluded_of_decided {S : Graph} {r : List W} {L : List Int} {v : Nat}
    (h : decided L v = true) : excluded S r L v = false := by
  cases hc : excluded S r L v
  · rfl
  · rw [excluded_undecided hc] at h; cases h

/-! ### one round -/

theorem mis2Round_length (S : Graph) (r : List W) (L : List Int) :
    (mis2Round S r L).length = S.length := by
  simp [mis2Round]

theorem lab_round {S : Graph} {r : List W} {L : List Int} {v : Nat} (h : v < S.length) :
    lab (mis2Round S r L) v =
      if confirmed S r L v = true then 1 else if excluded S r L v = true then 0 else lab L v := by
  unfold lab mis2Round
  rw [getD_map_range _ _ _ _ h]
  rfl

theorem lab_round_ge {S : Graph} {r : List W} {L : List Int} {v : Nat} (h : S.length ≤ v) :
    lab (mis2Round S r L) v = 0 := by
  apply lab_of_ge
  rw [mis2Round_length]; exact h

theorem lab_round_confirmed {S : Graph} {r : List W} {L : List Int} {v : Nat}
    (hlen : L.length = S.length) (h : confirmed S r L v = true) : lab (mis2Round S r L) v = 1 := by
  have hv : v < S.length := hlen ▸ undecided_lt (confirmed_undecided h)
  rw [lab_round hv, if_pos h]

/-- decided vertices keep their label -/
theorem lab_round_keeps {S : Graph} {r : List W} {L : List Int} {v : Nat}
    (hlen : L.length = S.length) (h : decided L v = true) : lab (mis2Round S r L) v = lab L v := by
  by_cases hv : v < S.length
  · rw [lab_round hv, if_neg (by simp [not_confirmed_of_decided h]),
      if_neg (by simp [not_excluded_of_decided h])]
  · have hv' : S.length ≤ v := Nat.le_of_not_lt hv
    rw [lab_round_ge hv', lab_of_ge (hlen ▸ hv')]

theorem decided_round_keeps {S : Graph} {r : List W} {L : List Int} {v : Nat}
    (hlen : L.length = S.length) (h : decided L v = true) : decided (mis2Round S r L) v = true := by
  unfold decided at h ⊢
  rw [lab_round_keeps hlen (by unfold decided; exact h)]
  exact h

/-- a root after the round was a root before or was confirmed in the round -/
theorem root_round {S : Graph} {r : List W} {L : List Int} {v : Nat}
    (h : lab (mis2Round S r L) v = 1) : lab L v = 1 ∨ confirmed S r L v = true := by
  by_cases hv : v < S.length
  · rw [lab_round hv] at h
    by_cases hc : confirmed S r L v = true
    · exact Or.inr hc
    · rw [if_neg hc] at h
      by_cases he : excluded S r L v = true
      · rw [if_pos he] at h; cases h
      · rw [if_neg he] at h; exact Or.inl h
  · rw [lab_round_ge (Nat.le_of_not_lt hv)] at h; cases h

/-- an undecided vertex after the round was undecided, not confirmed and not excluded -/
theorem undecided_round {S : Graph} {r : List W} {L : List Int} {v : Nat}
    (hlen : L.length = S.length) (h : decided (mis2Round S r L) v = false) :
    decided L v = false ∧ confirmed S r L v = false ∧ excluded S r L v = false := by
  have hv : v < S.length := by
    have := undecided_lt h; rwa [mis2Round_length] at this
  have hd : decided L v = false := by
    cases hd : decided L v
    · rfl
    · rw [decided_round_keeps hlen hd] at h; cases h
  refine ⟨hd, ?_, ?_⟩
  · cases hc : confirmed S r L v
    · rfl
    · rw [decided_of_root (lab_round_confirmed hlen hc)] at h; cases h
  · cases he : excluded S r L v
    · rfl
    · have : lab (mis2Round S r L) v = 0 := by
        rw [lab_round hv]
        by_cases hc : confirmed S r L v = true
        · rw [decided_of_root (lab_round_confirmed hlen hc)] at h; cases h
        · rw [if_neg hc, if_pos he]
      rw [decided_iff.mpr (Or.inr this)] at h; cases h

theorem valid_round {S : Graph} {r : List W} {L : List Int} (hv : Valid L) :
    Valid (mis2Round S r L) := by
  intro v
  by_cases h : v < S.length
  · rw [lab_round h]
    by_cases hc : confirmed S r L v = true
    · rw [if_pos hc]; exact Or.inl rfl
    · rw [if_neg hc]
      by_cases he : excluded S r L v = true
      · rw [if_pos he]; exact Or.inr (Or.inl rfl)
      · rw [if_neg he]; exact hv v
  · rw [lab_round_ge (Nat.le_of_not_lt h)]; exact Or.inr (Or.inl rfl)

end Phases

/-! ### progress: every round decides at least one vertex -/
section Progress
variable {W : Type} [LinearOrder W] [Zero W]

/-- the undecided vertex with the smallest key is tentative -/
theorem exists_tentative {S : Graph} {r : List W} {L : List Int} (hlen : L.length = S.length)
    (h : ∃ v, decided L v = false) : ∃ v, tentative S r L v = true := by
  obtain ⟨v0, hv0⟩ := h
  have hmemU : ∀ v, v ∈ (List.range S.length).filter (fun v => !decided L v) ↔
      decided L v = false := by
    intro v
    rw [List.mem_filter, List.mem_range]
    constructor
    · rintro ⟨_, h⟩; simpa using h
    · intro hd; exact ⟨hlen ▸ undecided_lt hd, by simp [hd]⟩
  have hne : (List.range S.length).filter (fun v => !decided L v) ≠ [] :=
    List.ne_nil_of_mem ((hmemU v0).mpr hv0)
  obtain ⟨u, hu, hmin⟩ := exists_min_of_ne_nil (key r) _ hne
  refine ⟨u, tentative_iff.mpr ⟨(hmemU u).mp hu, fun w _ hlt => ?_⟩⟩
  cases hd : decided L w
  · exact absurd hlt (not_lt.mpr (hmin w ((hmemU w).mpr hd)))
  · rfl

/-- the tentative vertex with the largest key is confirmed -/
theorem exists_confirmed {S : Graph} {r : List W} {L : List Int} (hlen : L.length = S.length)
    (h : ∃ v, tentative S r L v = true) : ∃ v, confirmed S r L v = true := by
  obtain ⟨v0, hv0⟩ := h
  have hmemT : ∀ v, v ∈ (List.range S.length).filter (fun v => tentative S r L v) ↔
      tentative S r L v = true := by
    intro v
    rw [List.mem_filter, List.mem_range]
    constructor
    · rintro ⟨_, h⟩; exact h
    · intro ht; exact ⟨hlen ▸ undecided_lt (tentative_undecided ht), ht⟩
  have hne : (List.range S.length).filter (fun v => tentative S r L v) ≠ [] :=
    List.ne_nil_of_mem ((hmemT v0).mpr hv0)
  obtain ⟨t, ht, hmax⟩ := exists_max_of_ne_nil (key r) _ hne
  refine ⟨t, confirmed_iff.mpr ⟨(hmemT t).mp ht, fun w _ u _ hu => ?_⟩⟩
  exact not_lt.mpr (hmax u ((hmemT u).mpr hu))

/-- number of undecided vertices -/
def undecCount (L : List Int) : Nat := (List.range L.length).countP fun v => !decided L v

theorem undecCount_eq_zero {L : List Int} (h : undecCount L = 0) (v : Nat) : decided L v = true := by
  by_cases hv : v < L.length
  · unfold undecCount at h
    rw [List.countP_eq_zero] at h
    have := h v (List.mem_range.mpr hv)
    simpa using this
  · exact decided_of_ge (Nat.le_of_not_lt hv)

theorem undecCount_pos {L : List Int} (h : 0 < undecCount L) : ∃ v, decided L v = false := by
  unfold undecCount at h
  rw [List.countP_pos_iff] at h
  obtain ⟨v, _, hv⟩ := h
  exact ⟨v, by simpa using hv⟩

theorem undecCount_round_le {S : Graph} {r : List W} {L : List Int} (hlen : L.length = S.length) :
    undecCount (mis2Round S r L) ≤ undecCount L := by
  unfold undecCount
  rw [mis2Round_length, hlen]
  apply List.countP_mono_left
  intro v _ hv
  cases hd : decided L v
  · rfl
  · rw [decided_round_keeps hlen hd] at hv; cases hv

theorem undecCount_round_lt {S : Graph} {r : List W} {L : List Int} (hlen : L.length = S.length)
    (h : 0 < undecCount L) : undecCount (mis2Round S r L) < undecCount L := by
  obtain ⟨c, hc⟩ := exists_confirmed (S := S) (r := r) hlen
    (exists_tentative hlen (undecCount_pos h))
  unfold undecCount
  rw [mis2Round_length, hlen]
  apply countP_lt_countP
  · intro v _ hv
    cases hd : decided L v
    · rfl
    · rw [decided_round_keeps hlen hd] at hv; cases hv
  · refine ⟨c, List.mem_range.mpr (hlen ▸ undecided_lt (confirmed_undecided hc)), ?_, ?_⟩
    · simp [confirmed_undecided hc]
    · simp [decided_of_root (lab_round_confirmed hlen hc)]

theorem undecCount_iterN {S : Graph} {r : List W} :
    ∀ (k : Nat) (L : List Int), L.length = S.length →
      undecCount (iterN (mis2Round S r) k L) ≤ undecCount L - k
  | 0, _, _ => Nat.le_refl _
  | k + 1, L, hlen => by
    show undecCount (iterN (mis2Round S r) k (mis2Round S r L)) ≤ _
    have ih := undecCount_iterN (S := S) (r := r) k (mis2Round S r L) (mis2Round_length S r L)
    by_cases h : 0 < undecCount L
    · have := undecCount_round_lt (S := S) (r := r) hlen h
      omega
    · have := undecCount_round_le (S := S) (r := r) hlen
      omega

theorem undecCount_replicate (n : Nat) : undecCount (List.replicate n (-1)) ≤ n := by
  unfold undecCount
  refine Nat.le_trans (List.countP_le_length) ?_
  simp

end Progress

/-! ### the invariants behind independence and maximality -/
section Invariants
variable {W : Type} [LinearOrder W] [Zero W]

/-- keys of distinct vertices differ -/
def DistinctKeys (S : Graph) (r : List W) : Prop :=
  ∀ v w, v < S.length → w < S.length → key r v = key r w → v = w

/-- independence invariant: roots are pairwise more than two edges apart, and no undecided vertex
    has a root within two edges -/
structure InvI (S : Graph) (L : List Int) : Prop where
  len : L.length = S.length
  indep : ∀ a b, lab L a = 1 → lab L b = 1 → N2 S a b → a = b
  clear : ∀ v x, decided L v = false → lab L x = 1 → ¬ N2 S v x

/-- maximality invariant: every excluded vertex has a root within two edges -/
structure InvM (S : Graph) (L : List Int) : Prop where
  len : L.length = S.length
  cover : ∀ v, v < S.length → lab L v = 0 → ∃ x, lab L x = 1 ∧ N2 S v x

theorem no_root_replicate (n v : Nat) : lab (List.replicate n (-1)) v ≠ 1 := by
  rw [lab_replicate]; split <;> decide

theorem InvI_init (S : Graph) : InvI S (List.replicate S.length (-1)) where
  len := by simp
  indep := fun a _ ha => absurd ha (no_root_replicate _ a)
  clear := fun _ x _ hx => absurd hx (no_root_replicate _ x)

theorem InvM_init (S : Graph) : InvM S (List.replicate S.length (-1)) where
  len := by simp
  cover := fun v hv h0 => by rw [lab_replicate, if_pos hv] at h0; cases h0

theorem InvI_round {S : Graph} {r : List W} {L : List Int} (hs : Symm S) (hk : DistinctKeys S r)
    (h : InvI S L) : InvI S (mis2Round S r L) where
  len := mis2Round_length S r L
  indep := by
    intro a b ha hb hn
    rcases root_round ha with ha | ha <;> rcases root_round hb with hb | hb
    · exact h.indep a b ha hb hn
    · exact absurd (hn.symm hs) (h.clear b a (confirmed_undecided hb) ha)
    · exact absurd hn (h.clear a b (confirmed_undecided ha) hb)
    · have hab : ¬ key r a < key r b := by
        obtain ⟨w, hw, hbw⟩ := hn
        exact (confirmed_iff.mp ha).2 w hw b hbw (confirmed_iff.mp hb).1
      have hba : ¬ key r b < key r a := by
        obtain ⟨w, hw, haw⟩ := hn.symm hs
        exact (confirmed_iff.mp hb).2 w hw a haw (confirmed_iff.mp ha).1
      exact hk a b (h.len ▸ undecided_lt (confirmed_undecided ha))
        (h.len ▸ undecided_lt (confirmed_undecided hb))
        (le_antisymm (not_lt.mp hba) (not_lt.mp hab))
  clear := by
    intro v x hv hx hn
    obtain ⟨hd, hc, he⟩ := undecided_round h.len hv
    rcases root_round hx with hx | hx
    · exact h.clear v x hd hx hn
    · obtain ⟨w, hw, hxw⟩ := hn
      have : excluded S r L v = true := excluded_iff.mpr ⟨hd, hc, w, hw, Or.inr ⟨x, hxw, hx⟩⟩
      rw [he] at this; cases this

theorem InvM_round {S : Graph} {r : List W} {L : List Int} (hl : SelfLoops S)
    (h : InvM S L) : InvM S (mis2Round S r L) where
  len := mis2Round_length S r L
  cover := by
    intro v hv h0
    rw [lab_round hv] at h0
    by_cases hc : confirmed S r L v = true
    · rw [if_pos hc] at h0; cases h0
    · rw [if_neg hc] at h0
      by_cases he : excluded S r L v = true
      · obtain ⟨_, _, w, hw, hx | ⟨x, hxw, hx⟩⟩ := excluded_iff.mp he
        · have hwn : w < S.length := h.len ▸ undecided_lt (confirmed_undecided hx)
          exact ⟨w, lab_round_confirmed h.len hx, w, hw, hl w hwn⟩
        · exact ⟨x, lab_round_confirmed h.len hx, w, hw, hxw⟩
      · rw [if_neg he] at h0
        obtain ⟨x, hx, hn⟩ := h.cover v hv h0
        exact ⟨x, by rw [lab_round_keeps h.len (decided_of_root hx)]; exact hx, hn⟩

theorem InvI_mis2 {S : Graph} {r : List W} (hs : Symm S) (hk : DistinctKeys S r) :
    InvI S (mis2 S r) :=
  iterN_inv (mis2Round S r) (InvI S) (fun _ h => InvI_round hs hk h) _ _ (InvI_init S)

theorem InvM_mis2 {S : Graph} {r : List W} (hl : SelfLoops S) : InvM S (mis2 S r) :=
  iterN_inv (mis2Round S r) (InvM S) (fun _ h => InvM_round hl h) _ _ (InvM_init S)

end Invariants

/-! ### the Boolean specification predicates as propositions -/

theorem mem_roots {L : List Int} {a : Nat} : a ∈ roots L ↔ lab L a = 1 := by
  unfold roots
  rw [List.mem_filter, List.mem_range]
  constructor
  · rintro ⟨_, h⟩; simpa using h
  · intro h; exact ⟨root_lt h, by simp [h]⟩

theorem independent2_iff {S : Graph} {L : List Int} :
    independent2 S L = true ↔
      ∀ a b, lab L a = 1 → lab L b = 1 → b ∈ within2 S a → a = b := by
  unfold independent2
  simp only [List.all_eq_true, mem_roots, Bool.or_eq_true, beq_iff_eq, Bool.not_eq_true',
    List.contains_eq_mem, decide_eq_false_iff_not]
  constructor
  · intro h a b ha hb hm
    rcases h a ha b hb with h | h
    · exact h
    · exact absurd hm h
  · intro h a ha b hb
    by_cases hm : b ∈ within2 S a
    · exact Or.inl (h a b ha hb hm)
    · exact Or.inr hm

theorem maximal2_iff {S : Graph} {L : List Int} :
    maximal2 S L = true ↔
      ∀ v, v < S.length → lab L v = 1 ∨ ∃ u ∈ within2 S v, lab L u = 1 := by
  unfold maximal2
  simp only [List.all_eq_true, List.mem_range, Bool.or_eq_true, beq_iff_eq, List.any_eq_true]

/-! ### aggregation, pass 1 -/

theorem pass1_length (S : Graph) (L : List Int) : (pass1 S L).length = S.length := by
  simp [pass1]

theorem pass1_getD {S : Graph} {L : List Int} {v : Nat} (hv : v < S.length) :
    (pass1 S L).getD v none =
      if lab L v = 1 then some v else (S.getD v []).find? fun w => lab L w == 1 := by
  unfold pass1
  rw [getD_map_range _ _ _ _ hv]
  simp only [beq_iff_eq]

/-- whatever pass 1 returns is a root: the vertex itself or one of its neighbours -/
theorem pass1_some {S : Graph} {L : List Int} {v a : Nat} (hv : v < S.length)
    (h : (pass1 S L).getD v none = some a) : lab L a = 1 ∧ (a = v ∨ a ∈ S.getD v []) := by
  rw [pass1_getD hv] at h
  by_cases hr : lab L v = 1
  · rw [if_pos hr] at h
    cases h
    exact ⟨hr, Or.inl rfl⟩
  · rw [if_neg hr] at h
    have h1 := List.find?_some h
    exact ⟨by simpa using h1, Or.inr (List.mem_of_find?_eq_some h)⟩

/-- a vertex that is a root or has a root neighbour is aggregated in pass 1 -/
theorem pass1_isSome {S : Graph} {L : List Int} {v x : Nat} (hv : v < S.length)
    (hx : x ∈ S.getD v []) (hr : lab L x = 1) : ∃ a, (pass1 S L).getD v none = some a := by
  rw [pass1_getD hv]
  by_cases hrv : lab L v = 1
  · exact ⟨v, by rw [if_pos hrv]⟩
  · rw [if_neg hrv]
    cases hf : (S.getD v []).find? fun w => lab L w == 1 with
    | some a => exact ⟨a, rfl⟩
    | none =>
      rw [List.find?_eq_none] at hf
      exact absurd (by simpa using hr) (hf x hx)

/-! ### aggregation, pass 2 -/
section Pass2
variable {W : Type} [LinearOrder W] [Zero W] [Add W]

/-- the fold step of `pass2` (same term as the anonymous function in the model) -/
def p2step (absA : Nat → Nat → W) (r : List W) (g : List (Option Nat)) (v : Nat)
    (acc : Option (W × Nat)) (w : Nat) : Option (W × Nat) :=
  match g.getD w none with
  | some a =>
    let val := absA v w + key r w
    match acc with
    | some (m, _) => if m < val then some (val, a) else acc
    | none => if (0 : W) < val then some (val, a) else acc
  | none => acc

theorem pass2_length (S : Graph) (absA : Nat → Nat → W) (r : List W) (g : List (Option Nat)) :
    (pass2 S absA r g).length = S.length := by
  simp [pass2]

theorem pass2_getD {S : Graph} {absA : Nat → Nat → W} {r : List W} {g : List (Option Nat)} {v : Nat}
    (hv : v < S.length) :
    (pass2 S absA r g).getD v none =
      match g.getD v none with
      | some a => some a
      | none => ((S.getD v []).foldl (p2step absA r g v) none).map (·.2) := by
  unfold pass2
  rw [getD_map_range _ _ _ _ hv]
  rfl

theorem pass2_of_some {S : Graph} {absA : Nat → Nat → W} {r : List W} {g : List (Option Nat)}
    {v a : Nat} (hv : v < S.length) (h : g.getD v none = some a) :
    (pass2 S absA r g).getD v none = some a := by
  rw [pass2_getD hv, h]

theorem pass2_of_none {S : Graph} {absA : Nat → Nat → W} {r : List W} {g : List (Option Nat)}
    {v : Nat} (hv : v < S.length) (h : g.getD v none = none) :
    (pass2 S absA r g).getD v none = ((S.getD v []).foldl (p2step absA r g v) none).map (·.2) := by
  rw [pass2_getD hv, h]

theorem p2step_isSome {absA : Nat → Nat → W} {r : List W} {g : List (Option Nat)} {v : Nat}
    (acc : Option (W × Nat)) (w : Nat) (h : acc.isSome = true) :
    (p2step absA r g v acc w).isSome = true := by
  unfold p2step
  obtain ⟨⟨m, b⟩, rfl⟩ := Option.isSome_iff_exists.mp h
  cases g.getD w none with
  | none => rfl
  | some a =>
    dsimp only
    split <;> rfl

theorem foldl_p2step_isSome {absA : Nat → Nat → W} {r : List W} {g : List (Option Nat)} {v : Nat} :
    ∀ (l : List Nat) (acc : Option (W × Nat)), acc.isSome = true →
      (l.foldl (p2step absA r g v) acc).isSome = true
  | [], _, h => h
  | w :: l, acc, h => by
    rw [List.foldl_cons]
    exact foldl_p2step_isSome l _ (p2step_isSome acc w h)

/-- with positive scores, an aggregated neighbour makes the step return a candidate -/
theorem p2step_isSome_of_agg {absA : Nat → Nat → W} {r : List W} {g : List (Option Nat)} {v : Nat}
    (hpos : ∀ v w, 0 < absA v w + key r w) (acc : Option (W × Nat)) {w a : Nat}
    (hw : g.getD w none = some a) : (p2step absA r g v acc w).isSome = true := by
  cases hacc : acc with
  | some p => exact p2step_isSome _ w (by simp)
  | none =>
    unfold p2step
    rw [hw]
    dsimp only
    rw [if_pos (hpos v w)]
    rfl

/-- with positive scores, the fold finds a candidate as soon as one neighbour is aggregated -/
theorem foldl_p2step_isSome_of_mem {absA : Nat → Nat → W} {r : List W} {g : List (Option Nat)}
    {v : Nat} (hpos : ∀ v w, 0 < absA v w + key r w) {w a : Nat} (hw : g.getD w none = some a) :
    ∀ (l : List Nat) (acc : Option (W × Nat)), w ∈ l →
      (l.foldl (p2step absA r g v) acc).isSome = true
  | [], _, h => by cases h
  | u :: l, acc, h => by
    rw [List.foldl_cons]
    rcases List.mem_cons.mp h with rfl | h'
    · exact foldl_p2step_isSome l _ (p2step_isSome_of_agg hpos acc hw)
    · exact foldl_p2step_isSome_of_mem hpos hw l _ h'

theorem p2step_origin {absA : Nat → Nat → W} {r : List W} {g : List (Option Nat)} {v : Nat}
    (acc : Option (W × Nat)) (w : Nat) {m : W} {a : Nat}
    (h : p2step absA r g v acc w = some (m, a)) :
    acc = some (m, a) ∨ g.getD w none = some a := by
  unfold p2step at h
  cases hg : g.getD w none with
  | none => rw [hg] at h; exact Or.inl h
  | some b =>
    rw [hg] at h
    dsimp only at h
    cases acc with
    | none =>
      dsimp only at h
      split at h
      · cases h; exact Or.inr rfl
      · cases h
    | some p =>
      obtain ⟨m', b'⟩ := p
      dsimp only at h
      split at h
      · cases h; exact Or.inr rfl
      · exact Or.inl h

/-- the aggregate returned by the fold is the aggregate of one of the listed neighbours -/
theorem foldl_p2step_origin {absA : Nat → Nat → W} {r : List W} {g : List (Option Nat)} {v : Nat}
    {m : W} {a : Nat} :
    ∀ (l : List Nat) (acc : Option (W × Nat)), l.foldl (p2step absA r g v) acc = some (m, a) →
      acc = some (m, a) ∨ ∃ w ∈ l, g.getD w none = some a
  | [], _, h => Or.inl h
  | u :: l, acc, h => by
    rw [List.foldl_cons] at h
    rcases foldl_p2step_origin l _ h with h1 | ⟨w, hw, hg⟩
    · rcases p2step_origin acc u h1 with h2 | h2
      · exact Or.inl h2
      · exact Or.inr ⟨u, List.mem_cons_self, h2⟩
    · exact Or.inr ⟨w, List.mem_cons_of_mem _ hw, hg⟩

end Pass2

/-! ### decidable checks of the graph hypotheses (used by the examples) -/

theorem lt_of_mem_getD {S : Graph} {v w : Nat} (h : w ∈ S.getD v []) : v < S.length := by
  by_contra hc
  rw [getD_of_length_le S v [] (Nat.le_of_not_lt hc)] at h
  cases h

def selfLoopsCheck (S : Graph) : Bool := (List.range S.length).all fun v => (S.getD v []).contains v
def symmCheck (S : Graph) : Bool :=
  (List.range S.length).all fun v => (S.getD v []).all fun w => (S.getD w []).contains v
def closedCheck (S : Graph) : Bool :=
  (List.range S.length).all fun v => (S.getD v []).all fun w => decide (w < S.length)

theorem selfLoops_of_check {S : Graph} (h : selfLoopsCheck S = true) : SelfLoops S := by
  intro v hv
  unfold selfLoopsCheck at h
  rw [List.all_eq_true] at h
  simpa using h v (List.mem_range.mpr hv)

theorem symm_of_check {S : Graph} (h : symmCheck S = true) : Symm S := by
  intro v w hw
  unfold symmCheck at h
  rw [List.all_eq_true] at h
  have h1 := h v (List.mem_range.mpr (lt_of_mem_getD hw))
  rw [List.all_eq_true] at h1
  simpa using h1 w hw

theorem closed_of_check {S : Graph} (h : closedCheck S = true) : Closed S := by
  intro v w hw
  unfold closedCheck at h
  rw [List.all_eq_true] at h
  have h1 := h v (List.mem_range.mpr (lt_of_mem_getD hw))
  rw [List.all_eq_true] at h1
  simpa using h1 w hw

end Raptor.Mis
