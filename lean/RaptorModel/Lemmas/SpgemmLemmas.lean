import RaptorModel.Model.Spgemm
import Mathlib.Algebra.BigOperators.Group.List.Basic
import Mathlib.Algebra.BigOperators.Ring.List
import Mathlib.Algebra.Ring.Defs
import Mathlib.Tactic.Ring
/-!
# Helper lemmas for the sparse product (`Props/C06.lean`)

Everything is phrased with `colSum l j`: the sum of the values stored under index `j` in an
association list `l` (one row of a CSR matrix, one column of a CSC matrix, a list of products).
-/
namespace Raptor.SpgemmLemmas
open Raptor.Sparse Raptor.Spgemm

variable {K : Type}

/-- sum of the values stored under index `j` -/
def colSum [Add K] [Zero K] (l : List (Nat × K)) (j : Nat) : K :=
  ((l.filter fun e => e.1 == j).map (·.2)).sum

section Basic
variable [CommSemiring K]

@[simp] theorem colSum_nil (j : Nat) : colSum ([] : List (Nat × K)) j = 0 := rfl

theorem colSum_cons (e : Nat × K) (l : List (Nat × K)) (j : Nat) :
    colSum (e :: l) j = (if e.1 = j then e.2 else 0) + colSum l j := by
  unfold colSum
  by_cases h : e.1 = j
  · simp [h]
  · simp [h]

theorem colSum_append (l₁ l₂ : List (Nat × K)) (j : Nat) :
    colSum (l₁ ++ l₂) j = colSum l₁ j + colSum l₂ j := by
  unfold colSum
  rw [List.filter_append, List.map_append, List.sum_append]

/-- no entry under `j` ⇒ sum 0 -/
theorem colSum_eq_zero_of_not_mem {l : List (Nat × K)} {j : Nat}
    (h : j ∉ l.map (·.1)) : colSum l j = 0 := by
  induction l with
  | nil => rfl
  | cons e l ih =>
    rw [List.map_cons, List.mem_cons, not_or] at h
    rw [colSum_cons, ih h.2, if_neg (fun h' => h.1 h'.symm), add_zero]

end Basic

/-! ### dense image of a list of rows / columns -/
section Den
variable [CommSemiring K]

theorem denE_append (l₁ l₂ : List (Entry K)) (i j : Nat) :
    denE (l₁ ++ l₂) i j = denE l₁ i j + denE l₂ i j := by
  unfold denE
  rw [List.filter_append, List.map_append, List.sum_append]

theorem denE_rowMap (r : List (Nat × K)) (n i j : Nat) :
    denE (r.map fun (c, v) => (n, c, v)) i j = if n = i then colSum r j else 0 := by
  induction r with
  | nil => simp [denE]
  | cons e r ih =>
    rw [List.map_cons]
    have hc : denE ((n, e.1, e.2) :: r.map fun (c, v) => (n, c, v)) i j
        = (if n = i ∧ e.1 = j then e.2 else 0) + denE (r.map fun (c, v) => (n, c, v)) i j := by
      unfold denE
      by_cases h : n = i ∧ e.1 = j
      · simp [h]
      · rw [if_neg h]
        rw [not_and] at h
        by_cases hn : n = i
        · simp [hn, h hn]
        · simp [hn]
    rw [hc, ih, colSum_cons]
    by_cases hn : n = i
    · simp [hn]
    · simp [hn]

theorem denE_colMap (r : List (Nat × K)) (n i j : Nat) :
    denE (r.map fun (c, v) => (c, n, v)) i j = if n = j then colSum r i else 0 := by
  induction r with
  | nil => simp [denE]
  | cons e r ih =>
    rw [List.map_cons]
    have hc : denE ((e.1, n, e.2) :: r.map fun (c, v) => (c, n, v)) i j
        = (if e.1 = i ∧ n = j then e.2 else 0) + denE (r.map fun (c, v) => (c, n, v)) i j := by
      unfold denE
      by_cases h : e.1 = i ∧ n = j
      · simp [h]
      · rw [if_neg h]
        rw [not_and] at h
        by_cases hn : e.1 = i
        · simp [hn, h hn]
        · simp [hn]
    rw [hc, ih, colSum_cons]
    by_cases hn : n = j
    · simp [hn]
    · simp [hn]

theorem denE_rowsFrom (rows : List (List (Nat × K))) (n i j : Nat) :
    denE ((rows.zipIdx n).flatMap fun (row, i) => row.map fun (j, v) => (i, j, v)) i j
      = if n ≤ i then colSum (rows.getD (i - n) []) j else 0 := by
  induction rows generalizing n with
  | nil => simp [denE]
  | cons r rs ih =>
    rw [List.zipIdx_cons, List.flatMap_cons, denE_append, ih (n + 1), denE_rowMap]
    rcases Nat.lt_trichotomy n i with h | h | h
    · have h1 : n ≠ i := by omega
      have h2 : n + 1 ≤ i := by omega
      have h3 : n ≤ i := by omega
      have h4 : i - n = (i - (n + 1)) + 1 := by omega
      rw [if_neg h1, if_pos h2, if_pos h3, h4, zero_add]
      rfl
    · subst h
      have h2 : ¬ (n + 1 ≤ n) := by omega
      rw [if_pos rfl, if_neg h2, if_pos (Nat.le_refl n), Nat.sub_self, add_zero]
      rfl
    · have h1 : n ≠ i := by omega
      have h2 : ¬ (n + 1 ≤ i) := by omega
      have h3 : ¬ (n ≤ i) := by omega
      rw [if_neg h1, if_neg h2, if_neg h3, add_zero]

theorem denE_colsFrom (cols : List (List (Nat × K))) (n i j : Nat) :
    denE ((cols.zipIdx n).flatMap fun (col, j) => col.map fun (i, v) => (i, j, v)) i j
      = if n ≤ j then colSum (cols.getD (j - n) []) i else 0 := by
  induction cols generalizing n with
  | nil => simp [denE]
  | cons r rs ih =>
    rw [List.zipIdx_cons, List.flatMap_cons, denE_append, ih (n + 1), denE_colMap]
    rcases Nat.lt_trichotomy n j with h | h | h
    · have h1 : n ≠ j := by omega
      have h2 : n + 1 ≤ j := by omega
      have h3 : n ≤ j := by omega
      have h4 : j - n = (j - (n + 1)) + 1 := by omega
      rw [if_neg h1, if_pos h2, if_pos h3, h4, zero_add]
      rfl
    · subst h
      have h2 : ¬ (n + 1 ≤ n) := by omega
      rw [if_pos rfl, if_neg h2, if_pos (Nat.le_refl n), Nat.sub_self, add_zero]
      rfl
    · have h1 : n ≠ j := by omega
      have h2 : ¬ (n + 1 ≤ j) := by omega
      have h3 : ¬ (n ≤ j) := by omega
      rw [if_neg h1, if_neg h2, if_neg h3, add_zero]

/-- the dense image of a list of rows, read row-wise -/
theorem denE_rowsEntries (rows : List (List (Nat × K))) (i j : Nat) :
    denE (rowsEntries rows) i j = colSum (rows.getD i []) j := by
  have h := denE_rowsFrom rows 0 i j
  rw [if_pos (Nat.zero_le i), Nat.sub_zero] at h
  exact h

theorem Csr_den_eq (A : Csr K) (i j : Nat) : A.den i j = colSum (A.rows.getD i []) j :=
  denE_rowsEntries A.rows i j

theorem Csc_den_eq (A : Csc K) (i j : Nat) : A.den i j = colSum (A.cols.getD j []) i := by
  have h := denE_colsFrom A.cols 0 i j
  rw [if_pos (Nat.zero_le j), Nat.sub_zero] at h
  exact h

end Den

/-! ### `accumulate` -/
section Acc
variable [CommSemiring K]

/-- one step of `accumulate` -/
def accStep (acc : List (Nat × K)) (e : Nat × K) : List (Nat × K) :=
  if acc.any (fun a => a.1 == e.1) then
    acc.map (fun a => if a.1 == e.1 then (a.1, a.2 + e.2) else a)
  else (e.1, 0 + e.2) :: acc

theorem accumulate_eq_foldl (prods : List (Nat × K)) :
    accumulate prods = prods.foldl accStep [] := rfl

omit [CommSemiring K] in
theorem any_key_iff (acc : List (Nat × K)) (c : Nat) :
    acc.any (fun a => a.1 == c) = true ↔ c ∈ acc.map (·.1) := by
  rw [List.any_eq_true, List.mem_map]
  constructor
  · rintro ⟨a, ha, h⟩
    exact ⟨a, ha, by simpa using h⟩
  · rintro ⟨a, ha, h⟩
    exact ⟨a, ha, by simpa using h⟩

theorem keys_upd (acc : List (Nat × K)) (c : Nat) (p : K) :
    (acc.map (fun a => if a.1 == c then (a.1, a.2 + p) else a)).map (·.1) = acc.map (·.1) := by
  rw [List.map_map]
  apply List.map_congr_left
  intro a _
  by_cases h : a.1 = c
  · simp [h]
  · simp [h]

theorem upd_of_not_mem (acc : List (Nat × K)) (c : Nat) (p : K) (h : c ∉ acc.map (·.1)) :
    acc.map (fun a => if a.1 == c then (a.1, a.2 + p) else a) = acc := by
  induction acc with
  | nil => rfl
  | cons a acc ih =>
    rw [List.map_cons, List.mem_cons, not_or] at h
    have h1 : ¬ a.1 = c := fun h' => h.1 h'.symm
    rw [List.map_cons, ih h.2]
    simp [h1]

theorem colSum_upd (acc : List (Nat × K)) (c : Nat) (p : K) (j : Nat)
    (hnd : (acc.map (·.1)).Nodup) (hc : c ∈ acc.map (·.1)) :
    colSum (acc.map (fun a => if a.1 == c then (a.1, a.2 + p) else a)) j
      = colSum acc j + if c = j then p else 0 := by
  induction acc with
  | nil => simp at hc
  | cons a acc ih =>
    rw [List.map_cons, List.nodup_cons] at hnd
    rw [List.map_cons, List.mem_cons] at hc
    rw [List.map_cons]
    by_cases h : a.1 = c
    · subst h
      rw [upd_of_not_mem acc a.1 p hnd.1, colSum_cons, colSum_cons]
      by_cases hj : a.1 = j
      · simp [hj]; ring
      · simp [hj]
    · have hc' : c ∈ acc.map (·.1) := by
        rcases hc with hc | hc
        · exact absurd hc.symm h
        · exact hc
      have h2 : (if (a.1 == c) = true then (a.1, a.2 + p) else a) = a := by simp [h]
      rw [h2, colSum_cons, colSum_cons, ih hnd.2 hc']
      ring

theorem accStep_keys_nodup (acc : List (Nat × K)) (e : Nat × K)
    (hnd : (acc.map (·.1)).Nodup) : ((accStep acc e).map (·.1)).Nodup := by
  unfold accStep
  by_cases h : acc.any (fun a => a.1 == e.1) = true
  · rw [if_pos h, keys_upd]
    exact hnd
  · rw [if_neg h, List.map_cons, List.nodup_cons]
    rw [any_key_iff] at h
    exact ⟨h, hnd⟩

theorem accStep_keys_mem (acc : List (Nat × K)) (e : Nat × K) (c : Nat)
    (hc : c ∈ (accStep acc e).map (·.1)) : c ∈ acc.map (·.1) ∨ c = e.1 := by
  unfold accStep at hc
  by_cases h : acc.any (fun a => a.1 == e.1) = true
  · rw [if_pos h, keys_upd] at hc
    exact Or.inl hc
  · rw [if_neg h, List.map_cons, List.mem_cons] at hc
    exact hc.symm

theorem colSum_accStep (acc : List (Nat × K)) (e : Nat × K) (j : Nat)
    (hnd : (acc.map (·.1)).Nodup) :
    colSum (accStep acc e) j = colSum acc j + if e.1 = j then e.2 else 0 := by
  unfold accStep
  by_cases h : acc.any (fun a => a.1 == e.1) = true
  · rw [if_pos h]
    rw [any_key_iff] at h
    exact colSum_upd acc e.1 e.2 j hnd h
  · rw [if_neg h, colSum_cons]
    by_cases hj : e.1 = j
    · simp [hj]; ring
    · simp [hj]

theorem foldl_accStep_nodup (prods acc : List (Nat × K)) (hnd : (acc.map (·.1)).Nodup) :
    ((prods.foldl accStep acc).map (·.1)).Nodup := by
  induction prods generalizing acc with
  | nil => exact hnd
  | cons e prods ih =>
    rw [List.foldl_cons]
    exact ih _ (accStep_keys_nodup acc e hnd)

theorem colSum_foldl_accStep (prods acc : List (Nat × K)) (j : Nat)
    (hnd : (acc.map (·.1)).Nodup) :
    colSum (prods.foldl accStep acc) j = colSum acc j + colSum prods j := by
  induction prods generalizing acc with
  | nil => simp
  | cons e prods ih =>
    rw [List.foldl_cons, ih _ (accStep_keys_nodup acc e hnd), colSum_accStep acc e j hnd,
      colSum_cons, add_assoc]

theorem foldl_accStep_keys_mem (prods acc : List (Nat × K)) (c : Nat)
    (hc : c ∈ (prods.foldl accStep acc).map (·.1)) :
    c ∈ acc.map (·.1) ∨ c ∈ prods.map (·.1) := by
  induction prods generalizing acc with
  | nil => exact Or.inl hc
  | cons e prods ih =>
    rw [List.foldl_cons] at hc
    rw [List.map_cons, List.mem_cons]
    rcases ih _ hc with h | h
    · rcases accStep_keys_mem acc e c h with h | h
      · exact Or.inl h
      · exact Or.inr (Or.inl h)
    · exact Or.inr (Or.inr h)

/-- every accumulated column was produced -/
theorem accumulate_keys_mem (prods : List (Nat × K)) (c : Nat)
    (hc : c ∈ (accumulate prods).map (·.1)) : c ∈ prods.map (·.1) := by
  rcases foldl_accStep_keys_mem prods [] c hc with h | h
  · simp at h
  · exact h

end Acc

/-! ### an association list without duplicate keys, filtered by value -/
section Filt
variable [CommSemiring K]

theorem colSum_filter_big (big : K → Bool) (l : List (Nat × K)) (j : Nat)
    (hnd : (l.map (·.1)).Nodup) :
    colSum (l.filter fun e => big e.2) j
      = if big (colSum l j) = true then colSum l j else 0 := by
  induction l with
  | nil => rw [List.filter_nil, colSum_nil, ite_self]
  | cons a l ih =>
    rw [List.map_cons, List.nodup_cons] at hnd
    by_cases hj : a.1 = j
    · have h0 : colSum l j = 0 := colSum_eq_zero_of_not_mem (hj ▸ hnd.1)
      have h0' : colSum (l.filter fun e => big e.2) j = 0 := by
        apply colSum_eq_zero_of_not_mem
        intro hm
        rw [List.mem_map] at hm
        obtain ⟨x, hx, hxj⟩ := hm
        exact hnd.1 (hj ▸ hxj ▸ List.mem_map_of_mem (List.mem_of_mem_filter hx))
      rw [colSum_cons, if_pos hj, h0, add_zero]
      by_cases hb : big a.2 = true
      · rw [List.filter_cons_of_pos (by simpa using hb), colSum_cons, if_pos hj, h0', add_zero,
          if_pos hb]
      · rw [List.filter_cons_of_neg (by simpa using hb), h0', if_neg hb]
    · rw [colSum_cons, if_neg hj, zero_add, ← ih hnd.2]
      by_cases hb : big a.2 = true
      · rw [List.filter_cons_of_pos (by simpa using hb), colSum_cons, if_neg hj, zero_add]
      · rw [List.filter_cons_of_neg (by simpa using hb)]

/-- renumbering the keys through a map that does not confuse `j` with another key -/
theorem colSum_mapKeys (f : Nat → Nat) (l : List (Nat × K)) (j : Nat)
    (hinj : ∀ c ∈ l.map (·.1), f c = f j → c = j) :
    colSum (l.map fun e => (f e.1, e.2)) (f j) = colSum l j := by
  induction l with
  | nil => rfl
  | cons a l ih =>
    rw [List.map_cons, colSum_cons, colSum_cons,
      ih (fun c hc => hinj c (List.mem_cons_of_mem _ hc))]
    by_cases h : a.1 = j
    · simp [h]
    · have h' : ¬ f a.1 = f j := fun hf => h (hinj a.1 (by simp) hf)
      simp [h, h']

theorem colSum_mapKeys_id (l : List (Nat × K)) (j : Nat) :
    colSum (l.map fun e => (id e.1, e.2)) j = colSum l j := by
  have : (l.map fun e : Nat × K => (id e.1, e.2)) = l := by simp
  rw [this]

end Filt

/-! ### the products of one row -/
section Row
variable [CommSemiring K]

theorem colSum_scale (a : K) (row : List (Nat × K)) (j : Nat) :
    colSum (row.map fun (c, b) => (c, a * b)) j = a * colSum row j := by
  induction row with
  | nil => simp
  | cons e row ih =>
    rw [List.map_cons, colSum_cons, colSum_cons, ih, mul_add]
    by_cases h : e.1 = j
    · simp [h]
    · simp [h]

theorem colSum_rowProducts (rowA : List (Nat × K)) (rowsB : List (List (Nat × K))) (j : Nat) :
    colSum (rowProducts rowA rowsB) j
      = (rowA.map fun e => e.2 * colSum (rowsB.getD e.1 []) j).sum := by
  induction rowA with
  | nil => rfl
  | cons e rowA ih =>
    unfold rowProducts at ih ⊢
    rw [List.flatMap_cons, colSum_append, ih, List.map_cons, List.sum_cons]
    congr 1
    exact colSum_scale e.2 _ j

/-- picking the `k0`-th term of a finite sum -/
theorem sum_range_ite (n k0 : Nat) (a : K) (g : Nat → K) :
    ((List.range n).map fun k => (if k0 = k then a else 0) * g k).sum
      = if k0 < n then a * g k0 else 0 := by
  induction n with
  | zero => simp
  | succ n ih =>
    rw [List.range_succ, List.map_append, List.sum_append, ih]
    rcases Nat.lt_trichotomy k0 n with h | h | h
    · have h1 : k0 < n + 1 := by omega
      have h2 : k0 ≠ n := by omega
      simp [h, h1, h2]
    · subst h
      simp
    · have h1 : ¬ k0 < n + 1 := by omega
      have h2 : k0 ≠ n := by omega
      have h3 : ¬ k0 < n := by omega
      simp [h1, h2, h3]

/-- a sum over the stored entries of a row, reindexed over all inner indices `< n` -/
theorem sum_row_eq_sum_range (row : List (Nat × K)) (n : Nat) (g : Nat → K)
    (hlt : ∀ e ∈ row, e.1 < n) :
    (row.map fun e => e.2 * g e.1).sum
      = ((List.range n).map fun k => colSum row k * g k).sum := by
  induction row with
  | nil => simp
  | cons e row ih =>
    rw [List.map_cons, List.sum_cons, ih (fun x hx => hlt x (List.mem_cons_of_mem _ hx))]
    have h1 : ((List.range n).map fun k => colSum (e :: row) k * g k)
        = (List.range n).map fun k => (if e.1 = k then e.2 else 0) * g k + colSum row k * g k := by
      apply List.map_congr_left
      intro k _
      rw [colSum_cons, add_mul]
    rw [h1, List.sum_map_add, sum_range_ite, if_pos (hlt e (List.mem_cons_self ..))]

end Row

/-! ### well-formedness, unpacked -/
section WF

theorem Csr.WF_iff (A : Csr K) :
    A.WF = true ↔ A.rows.length = A.nRows ∧ ∀ r ∈ A.rows, ∀ e ∈ r, e.1 < A.nCols := by
  unfold Csr.WF
  simp [List.all_eq_true]

theorem Csc.WF_iff (A : Csc K) :
    A.WF = true ↔ A.cols.length = A.nCols ∧ ∀ r ∈ A.cols, ∀ e ∈ r, e.1 < A.nRows := by
  unfold Csc.WF
  simp [List.all_eq_true]

theorem getD_mem_or_nil {α : Type} (l : List (List α)) (i : Nat) :
    l.getD i [] ∈ l ∨ l.getD i [] = [] := by
  rw [List.getD_eq_getElem?_getD]
  by_cases h : i < l.length
  · left
    rw [List.getElem?_eq_getElem h, Option.getD_some]
    exact List.getElem_mem h
  · right
    rw [List.getElem?_eq_none (by omega), Option.getD_none]

theorem getD_map_nil {α β : Type} (f : List α → List β) (hf : f [] = []) (l : List (List α))
    (i : Nat) : (l.map f).getD i [] = f (l.getD i []) := by
  rw [List.getD_eq_getElem?_getD, List.getD_eq_getElem?_getD, List.getElem?_map]
  by_cases h : i < l.length
  · rw [List.getElem?_eq_getElem h, Option.map_some, Option.getD_some, Option.getD_some]
  · rw [List.getElem?_eq_none (by omega), Option.map_none, Option.getD_none, Option.getD_none, hf]

end WF

/-! ### one row of the product -/
section ProdRow
variable [CommSemiring K]

theorem accumulate_nodup (prods : List (Nat × K)) : ((accumulate prods).map (·.1)).Nodup :=
  foldl_accStep_nodup prods [] List.nodup_nil

theorem colSum_accumulate (prods : List (Nat × K)) (j : Nat) :
    colSum (accumulate prods) j = colSum prods j := by
  rw [accumulate_eq_foldl, colSum_foldl_accStep prods [] j List.nodup_nil, colSum_nil, zero_add]

theorem rowProducts_keys_mem (rowA : List (Nat × K)) (rowsB : List (List (Nat × K))) (c : Nat)
    (hc : c ∈ (rowProducts rowA rowsB).map (·.1)) : ∃ r ∈ rowsB, c ∈ r.map (·.1) := by
  unfold rowProducts at hc
  rw [List.mem_map] at hc
  obtain ⟨x, hx, hxc⟩ := hc
  rw [List.mem_flatMap] at hx
  obtain ⟨e, _, hx⟩ := hx
  rw [List.mem_map] at hx
  obtain ⟨y, hy, hyx⟩ := hx
  rcases getD_mem_or_nil rowsB e.1 with h | h
  · refine ⟨_, h, ?_⟩
    rw [List.mem_map]
    exact ⟨y, hy, by rw [← hxc, ← hyx]⟩
  · rw [h] at hy
    simp at hy

/-- the row emitted by `spgemm`/`spgemmT` for `rowA` -/
def prodRow (big : K → Bool) (colMap : Nat → Nat) (rowsB : List (List (Nat × K)))
    (rowA : List (Nat × K)) : List (Nat × K) :=
  ((accumulate (rowProducts rowA rowsB)).filter fun e => big e.2).map fun e => (colMap e.1, e.2)

theorem prodRow_nil (big : K → Bool) (colMap : Nat → Nat) (rowsB : List (List (Nat × K))) :
    prodRow big colMap rowsB [] = [] := rfl

/-- keys of an emitted row are images of columns stored in `B` -/
theorem prodRow_keys_mem (big : K → Bool) (colMap : Nat → Nat) (rowsB : List (List (Nat × K)))
    (rowA : List (Nat × K)) (e : Nat × K) (he : e ∈ prodRow big colMap rowsB rowA) :
    ∃ c, e.1 = colMap c ∧ ∃ r ∈ rowsB, c ∈ r.map (·.1) := by
  unfold prodRow at he
  rw [List.mem_map] at he
  obtain ⟨x, hx, hxe⟩ := he
  refine ⟨x.1, by rw [← hxe], ?_⟩
  apply rowProducts_keys_mem rowA rowsB
  apply accumulate_keys_mem
  exact List.mem_map_of_mem (List.mem_of_mem_filter hx)

/-- value found in an emitted row under the image of column `j` -/
theorem colSum_prodRow (big : K → Bool) (colMap : Nat → Nat) (rowsB : List (List (Nat × K)))
    (rowA : List (Nat × K)) (n j : Nat) (hlt : ∀ e ∈ rowA, e.1 < n)
    (hinj : ∀ r ∈ rowsB, ∀ c ∈ r.map (·.1), colMap c = colMap j → c = j) :
    colSum (prodRow big colMap rowsB rowA) (colMap j)
      = if big ((List.range n).map fun k => colSum rowA k * colSum (rowsB.getD k []) j).sum = true
        then ((List.range n).map fun k => colSum rowA k * colSum (rowsB.getD k []) j).sum
        else 0 := by
  unfold prodRow
  rw [colSum_mapKeys colMap _ j, colSum_filter_big big _ j (accumulate_nodup _),
    colSum_accumulate, colSum_rowProducts,
    sum_row_eq_sum_range rowA n (fun k => colSum (rowsB.getD k []) j) hlt]
  intro c hc hcj
  rw [List.mem_map] at hc
  obtain ⟨x, hx, hxc⟩ := hc
  have h1 : c ∈ (accumulate (rowProducts rowA rowsB)).map (·.1) := by
    rw [← hxc]
    exact List.mem_map_of_mem (List.mem_of_mem_filter hx)
  obtain ⟨r, hr, hcr⟩ := rowProducts_keys_mem rowA rowsB c (accumulate_keys_mem _ c h1)
  exact hinj r hr c hcr hcj

theorem denProd_eq (A B : Csr K) (n i j : Nat) :
    denProd A.entries B.entries n i j
      = ((List.range n).map fun k =>
          colSum (A.rows.getD i []) k * colSum (B.rows.getD k []) j).sum := by
  unfold denProd
  congr 1
  apply List.map_congr_left
  intro k _
  rw [← Csr_den_eq, ← Csr_den_eq]
  rfl

end ProdRow

/-! ### CSR → CSC conversion keeps the dense image (used for the Galerkin corollary) -/
section Convert
variable [CommSemiring K]

theorem bucket_getD {α : Type} (n : Nat) (l : List (Nat × α)) (i : Nat) :
    (bucket n l).getD i [] = if i < n then (l.filter fun e => e.1 == i).map (·.2) else [] := by
  unfold bucket
  rw [List.getD_eq_getElem?_getD, List.getElem?_map]
  by_cases h : i < n
  · rw [List.getElem?_range h, Option.map_some, Option.getD_some, if_pos h]
  · rw [List.getElem?_eq_none (by rw [List.length_range]; omega), Option.map_none,
      Option.getD_none, if_neg h]

theorem colSum_swap (es : List (Entry K)) (i k : Nat) :
    colSum (((es.map fun (r, c, v) => (c, (r, v))).filter fun e => e.1 == i).map (·.2)) k
      = denE es k i := by
  induction es with
  | nil => rfl
  | cons e es ih =>
    have hd : denE (e :: es) k i = (if e.1 = k ∧ e.2.1 = i then e.2.2 else 0) + denE es k i := by
      unfold denE
      by_cases h : e.1 = k ∧ e.2.1 = i
      · simp [h]
      · rw [if_neg h]
        rw [not_and] at h
        by_cases hn : e.1 = k
        · simp [hn, h hn]
        · simp [hn]
    rw [hd, ← ih, List.map_cons]
    by_cases hi : e.2.1 = i
    · rw [List.filter_cons_of_pos (by simpa using hi), List.map_cons, colSum_cons]
      by_cases hk : e.1 = k
      · simp [hi, hk]
      · simp [hk]
    · rw [List.filter_cons_of_neg (by simpa using hi)]
      simp [hi]

omit [CommSemiring K] in
theorem rowsEntries_row_lt (rows : List (List (Nat × K))) (e : Entry K)
    (he : e ∈ rowsEntries rows) : e.1 < rows.length := by
  unfold rowsEntries at he
  rw [List.mem_flatMap] at he
  obtain ⟨x, hx, hex⟩ := he
  rw [List.mem_map] at hex
  obtain ⟨y, _, hy⟩ := hex
  have h := List.mem_zipIdx (x := x.1) (i := x.2) hx
  rw [← hy]
  show x.2 < rows.length
  omega

theorem den_csrToCsc (P : Csr K) (hP : P.WF = true) (k i : Nat) :
    (csrToCsc P).den k i = P.den k i := by
  rw [Csc_den_eq]
  show colSum ((bucket P.nCols (P.entries.map fun (r, c, v) => (c, (r, v)))).getD i []) k = _
  rw [bucket_getD]
  by_cases h : i < P.nCols
  · rw [if_pos h, colSum_swap]
    rfl
  · rw [if_neg h, colSum_nil, Csr_den_eq]
    symm
    apply colSum_eq_zero_of_not_mem
    intro hm
    rw [List.mem_map] at hm
    obtain ⟨x, hx, hxi⟩ := hm
    rcases getD_mem_or_nil P.rows k with h' | h'
    · have := ((Csr.WF_iff P).1 hP).2 _ h' x hx
      omega
    · rw [h'] at hx
      simp at hx

omit [CommSemiring K] in
theorem csrToCsc_WF (P : Csr K) (hP : P.WF = true) : (csrToCsc P).WF = true := by
  rw [Csc.WF_iff]
  refine ⟨?_, ?_⟩
  · show (bucket P.nCols _).length = P.nCols
    unfold bucket
    rw [List.length_map, List.length_range]
  · intro r hr e he
    have hr' : r ∈ bucket P.nCols (P.entries.map fun (r, c, v) => (c, (r, v))) := hr
    unfold bucket at hr'
    rw [List.mem_map] at hr'
    obtain ⟨c, _, hc⟩ := hr'
    rw [← hc, List.mem_map] at he
    obtain ⟨x, hx, hxe⟩ := he
    have hx' := List.mem_of_mem_filter hx
    rw [List.mem_map] at hx'
    obtain ⟨y, hy, hyx⟩ := hx'
    have hlt := rowsEntries_row_lt P.rows y hy
    rw [((Csr.WF_iff P).1 hP).1] at hlt
    rw [← hxe, ← hyx]
    exact hlt

end Convert

end Raptor.SpgemmLemmas
