import Mathlib.Analysis.InnerProductSpace.Basic
import Mathlib.LinearAlgebra.FiniteDimensional.Basic

/-!
# Energy-norm lemmas for property C10 (variational multigrid guarantee)

Everything is stated in a real inner product space `F`; an operator is a linear map
`A : F →ₗ[ℝ] F`.  The (squared) energy semi-norm of `e` is `energy A e = ⟪A e, e⟫`.

A *solver* for `A` is any function `B : F → F` mapping a right-hand side / residual to a
correction (it need not be linear).  Used as the iteration `x ↦ x + B (b - A x)` its error
map is `e ↦ e - B (A e)`.  `NonExpansiveSolver A B` says that this error map does not increase
the energy.  Smoothers, coarse-grid solvers and whole V-cycles are all "solvers" in this sense,
which is what makes the induction over levels go through although the spaces change type.
-/

namespace Raptor.C10

open scoped RealInnerProductSpace

variable {F : Type*} [NormedAddCommGroup F] [InnerProductSpace ℝ F]
variable {C : Type*} [NormedAddCommGroup C] [InnerProductSpace ℝ C]

/-! ## Definitions -/

/-- Squared energy (semi-)norm `‖e‖_A² = ⟪A e, e⟫`. -/
def energy (A : F →ₗ[ℝ] F) (e : F) : ℝ := ⟪A e, e⟫

/-- `A` is symmetric (self-adjoint) w.r.t. the inner product. -/
def IsSymm (A : F →ₗ[ℝ] F) : Prop := ∀ u v, ⟪A u, v⟫ = ⟪u, A v⟫

/-- `A` is positive semi-definite. -/
def IsPSD (A : F →ₗ[ℝ] F) : Prop := ∀ v, 0 ≤ ⟪A v, v⟫

/-- `A` is positive definite. -/
def IsPD (A : F →ₗ[ℝ] F) : Prop := ∀ v, v ≠ 0 → 0 < ⟪A v, v⟫

/-- Restriction `R` is the adjoint (transpose) of interpolation `P`. -/
def IsAdjointPair (R : F →ₗ[ℝ] C) (P : C →ₗ[ℝ] F) : Prop := ∀ r v, ⟪R r, v⟫ = ⟪r, P v⟫

/-- Galerkin coarse operator `Ac = R A P`. -/
def IsGalerkin (A : F →ₗ[ℝ] F) (Ac : C →ₗ[ℝ] C) (P : C →ₗ[ℝ] F) (R : F →ₗ[ℝ] C) : Prop :=
  ∀ v, Ac v = R (A (P v))

/-- An error map `S` that does not increase the energy. -/
def EnergyNonExpansive (A : F →ₗ[ℝ] F) (S : F → F) : Prop :=
  ∀ e, energy A (S e) ≤ energy A e

/-- A solver `B` (residual ↦ correction) whose error map `w ↦ w - B (A w)` does not increase
the energy. -/
def NonExpansiveSolver (A : F →ₗ[ℝ] F) (B : F → F) : Prop :=
  ∀ w, energy A (w - B (A w)) ≤ energy A w

/-- Error map of the solver `B` used as the iteration `x ↦ x + B (b - A x)`. -/
def errMap (A : F →ₗ[ℝ] F) (B : F → F) (e : F) : F := e - B (A e)

theorem nonExpansiveSolver_iff (A : F →ₗ[ℝ] F) (B : F → F) :
    NonExpansiveSolver A B ↔ EnergyNonExpansive A (errMap A B) := Iff.rfl

/-! ## Elementary energy identities -/

theorem energy_zero (A : F →ₗ[ℝ] F) : energy A 0 = 0 := by
  simp [energy]

theorem energy_sub (A : F →ₗ[ℝ] F) (hA : IsSymm A) (e y : F) :
    energy A (e - y) = energy A e - 2 * ⟪A e, y⟫ + energy A y := by
  unfold energy
  rw [map_sub, inner_sub_left, inner_sub_right, inner_sub_right]
  have : ⟪A y, e⟫ = ⟪A e, y⟫ := by rw [hA, real_inner_comm]
  rw [this]; ring

theorem energy_add (A : F →ₗ[ℝ] F) (hA : IsSymm A) (e y : F) :
    energy A (e + y) = energy A e + 2 * ⟪A e, y⟫ + energy A y := by
  unfold energy
  rw [map_add, inner_add_left, inner_add_right, inner_add_right]
  have : ⟪A y, e⟫ = ⟪A e, y⟫ := by rw [hA, real_inner_comm]
  rw [this]; ring

/-- Composition of energy-non-expansive error maps is energy-non-expansive. -/
theorem EnergyNonExpansive.comp {A : F →ₗ[ℝ] F} {S T : F → F}
    (hS : EnergyNonExpansive A S) (hT : EnergyNonExpansive A T) :
    EnergyNonExpansive A (fun e => T (S e)) :=
  fun e => le_trans (hT (S e)) (hS e)

theorem EnergyNonExpansive.id (A : F →ₗ[ℝ] F) : EnergyNonExpansive A (fun e => e) :=
  fun _ => le_refl _

/-- Iterating an energy-non-expansive error map gives an antitone energy history. -/
theorem EnergyNonExpansive.iterate_antitone {A : F →ₗ[ℝ] F} {S : F → F}
    (hS : EnergyNonExpansive A S) (e : F) :
    Antitone (fun k : ℕ => energy A (S^[k] e)) := by
  apply antitone_nat_of_succ_le
  intro n
  simp only [Function.iterate_succ_apply']
  exact hS _

/-! ## Galerkin coarse operators inherit symmetry / definiteness -/

theorem galerkin_inner {A : F →ₗ[ℝ] F} {Ac : C →ₗ[ℝ] C} {P : C →ₗ[ℝ] F} {R : F →ₗ[ℝ] C}
    (hR : IsAdjointPair R P) (hGal : IsGalerkin A Ac P R) (u v : C) :
    ⟪Ac u, v⟫ = ⟪A (P u), P v⟫ := by
  rw [hGal, hR]

theorem galerkin_energy {A : F →ₗ[ℝ] F} {Ac : C →ₗ[ℝ] C} {P : C →ₗ[ℝ] F} {R : F →ₗ[ℝ] C}
    (hR : IsAdjointPair R P) (hGal : IsGalerkin A Ac P R) (v : C) :
    energy Ac v = energy A (P v) :=
  galerkin_inner hR hGal v v

theorem galerkin_symm {A : F →ₗ[ℝ] F} {Ac : C →ₗ[ℝ] C} {P : C →ₗ[ℝ] F} {R : F →ₗ[ℝ] C}
    (hA : IsSymm A) (hR : IsAdjointPair R P) (hGal : IsGalerkin A Ac P R) : IsSymm Ac := by
  intro u v
  rw [galerkin_inner hR hGal, hA, real_inner_comm, ← galerkin_inner hR hGal, real_inner_comm]

theorem galerkin_psd {A : F →ₗ[ℝ] F} {Ac : C →ₗ[ℝ] C} {P : C →ₗ[ℝ] F} {R : F →ₗ[ℝ] C}
    (hA : IsPSD A) (hR : IsAdjointPair R P) (hGal : IsGalerkin A Ac P R) : IsPSD Ac := by
  intro v
  rw [galerkin_inner hR hGal]
  exact hA (P v)

theorem galerkin_pd {A : F →ₗ[ℝ] F} {Ac : C →ₗ[ℝ] C} {P : C →ₗ[ℝ] F} {R : F →ₗ[ℝ] C}
    (hA : IsPD A) (hR : IsAdjointPair R P) (hGal : IsGalerkin A Ac P R)
    (hP : Function.Injective P) : IsPD Ac := by
  intro v hv
  rw [galerkin_inner hR hGal]
  apply hA
  intro h
  exact hv (hP (by rw [h, map_zero]))

theorem IsPD.isPSD {A : F →ₗ[ℝ] F} (hA : IsPD A) : IsPSD A := by
  intro v
  by_cases hv : v = 0
  · rw [hv, map_zero, inner_zero_left]
  · exact (hA v hv).le

theorem IsPD.injective {A : F →ₗ[ℝ] F} (hA : IsPD A) : Function.Injective A := by
  rw [← LinearMap.ker_eq_bot, LinearMap.ker_eq_bot']
  intro v hv
  by_contra hne
  have := hA v hne
  rw [hv, inner_zero_left] at this
  exact lt_irrefl _ this

/-- In finite dimension a positive definite operator is onto: every coarse problem is solvable. -/
theorem IsPD.surjective [FiniteDimensional ℝ F] {A : F →ₗ[ℝ] F} (hA : IsPD A) :
    Function.Surjective A :=
  LinearMap.injective_iff_surjective.mp hA.injective

/-- The solvability hypothesis of the two-grid theorem holds when `A` is SPD, `P` has full
column rank (is injective) and the coarse space is finite-dimensional. -/
theorem galerkin_solvable [FiniteDimensional ℝ C]
    {A : F →ₗ[ℝ] F} {Ac : C →ₗ[ℝ] C} {P : C →ₗ[ℝ] F} {R : F →ₗ[ℝ] C}
    (hA : IsPD A) (hR : IsAdjointPair R P) (hGal : IsGalerkin A Ac P R)
    (hP : Function.Injective P) : ∀ g : C, ∃ w, Ac w = g :=
  (galerkin_pd hA hR hGal hP).surjective

end Raptor.C10
