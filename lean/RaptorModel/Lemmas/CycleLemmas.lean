import RaptorModel.Model.Cycle
import Mathlib.Algebra.BigOperators.Group.List.Basic
import Mathlib.Algebra.Ring.Defs
import Mathlib.Algebra.Group.Basic
/-!
# Helper lemmas for the cycle properties (C09)

Facts about the kernels of `Model/Cycle.lean` (`addDot`, `subDot`, `residual`, `mulVecT`,
`addMul`) over a ring. Nothing here changes the model.
-/
namespace Raptor.Cycle
open Raptor.Relax

section Ring
variable {K : Type} [Ring K]

/-- the terms `a_ij * x_j` of one row -/
def rowTerms (row : List (Nat × K)) (x : List K) : List K := row.map fun e => e.2 * at' x e.1

/-- `addDot row x init = init + Σ_j a_j x_j` -/
theorem addDot_eq (row : List (Nat × K)) (x : List K) (init : K) :
    addDot row x init = init + (rowTerms row x).sum := by
  unfold addDot rowTerms
  induction row generalizing init with
  | nil => simp
  | cons e row ih =>
    rw [List.foldl_cons, ih, List.map_cons, List.sum_cons, add_assoc]

/-- `subDot row x init = init − Σ_j a_j x_j` -/
theorem subDot_eq (row : List (Nat × K)) (x : List K) (init : K) :
    subDot row x init = init - (rowTerms row x).sum := by
  unfold subDot rowTerms
  induction row generalizing init with
  | nil => simp
  | cons e row ih =>
    rw [List.foldl_cons, ih, List.map_cons, List.sum_cons, sub_sub]

/-- the residual kernel and the product kernel agree: `subDot row x c = c − addDot row x 0` -/
theorem subDot_eq_sub_addDot (row : List (Nat × K)) (x : List K) (c : K) :
    subDot row x c = c - addDot row x 0 := by
  rw [subDot_eq, addDot_eq, zero_add]

theorem at'_replicate_zero (n i : Nat) : at' (List.replicate n (0 : K)) i = 0 := by
  unfold at'
  rw [List.getD_eq_getElem?_getD, List.getElem?_replicate]
  split <;> rfl

theorem at'_of_lt (x : List K) (i : Nat) (h : i < x.length) : at' x i = x[i] := by
  unfold at'
  rw [List.getD_eq_getElem?_getD, List.getElem?_eq_getElem h]
  rfl

theorem rowTerms_zero_sum (row : List (Nat × K)) (n : Nat) :
    (rowTerms row (List.replicate n (0 : K))).sum = 0 := by
  unfold rowTerms
  induction row with
  | nil => rfl
  | cons e row ih =>
    rw [List.map_cons, List.sum_cons, ih, at'_replicate_zero, mul_zero, add_zero]

/-- a row applied to the zero vector leaves the accumulator unchanged -/
theorem addDot_zero_vec (row : List (Nat × K)) (n : Nat) (init : K) :
    addDot row (List.replicate n 0) init = init := by
  rw [addDot_eq, rowTerms_zero_sum, add_zero]

theorem subDot_zero_vec (row : List (Nat × K)) (n : Nat) (init : K) :
    subDot row (List.replicate n 0) init = init := by
  rw [subDot_eq, rowTerms_zero_sum, sub_zero]

/-! ### lengths -/

theorem length_mulVec (A : Rows K) (x : List K) : (mulVec A x).length = A.length := by
  unfold mulVec; rw [List.length_map]

theorem length_residual (A : Rows K) (x b : List K) : (residual A x b).length = A.length := by
  unfold residual; rw [List.length_map, List.length_zipIdx]

theorem length_addMul (P : Rows K) (xc x : List K) : (addMul P xc x).length = P.length := by
  unfold addMul; rw [List.length_map, List.length_zipIdx]

/-! ### entries -/

theorem getElem_mulVec (A : Rows K) (x : List K) (i : Nat) (h : i < A.length) :
    (mulVec A x)[i]'(by rw [length_mulVec]; exact h) = addDot A[i] x 0 := by
  unfold mulVec; rw [List.getElem_map]

theorem getElem_residual (A : Rows K) (x b : List K) (i : Nat) (h : i < A.length) :
    (residual A x b)[i]'(by rw [length_residual]; exact h) = subDot A[i] x (at' b i) := by
  unfold residual
  rw [List.getElem_map, List.getElem_zipIdx, Nat.zero_add]

theorem getElem_addMul (P : Rows K) (xc x : List K) (i : Nat) (h : i < P.length) :
    (addMul P xc x)[i]'(by rw [length_addMul]; exact h) = at' x i + addDot P[i] xc 0 := by
  unfold addMul
  rw [List.getElem_map, List.getElem_zipIdx, Nat.zero_add]

/-! ### `modify` with a zero increment -/

theorem modify_add_mul_zero (out : List K) (j : Nat) (p : K) :
    out.modify j (· + p * 0) = out := by
  have : (fun v : K => v + p * 0) = id := by
    funext v; rw [mul_zero, add_zero]; rfl
  rw [this, List.modify_id]

/-- scattering a row of `P` weighted by a zero residual entry changes nothing -/
theorem scatterRow_zero (row : List (Nat × K)) (n i : Nat) (out : List K) :
    row.foldl (fun out e => out.modify e.1 (· + e.2 * at' (List.replicate n (0 : K)) i)) out
      = out := by
  induction row generalizing out with
  | nil => rfl
  | cons e row ih =>
    rw [List.foldl_cons, at'_replicate_zero, modify_add_mul_zero]
    have := ih out
    rw [at'_replicate_zero] at this
    exact this

theorem scatter_zero (rows : List (List (Nat × K) × Nat)) (n : Nat) (out : List K) :
    rows.foldl (fun out ri => ri.1.foldl
        (fun out e => out.modify e.1 (· + e.2 * at' (List.replicate n (0 : K)) ri.2)) out) out
      = out := by
  induction rows generalizing out with
  | nil => rfl
  | cons ri rows ih =>
    rw [List.foldl_cons, scatterRow_zero, ih]

end Ring

end Raptor.Cycle
