import RaptorModel.Model.ParMat
import RaptorModel.Lemmas.SparseLemmas
import Mathlib.Data.List.Forall2
import Mathlib.Data.List.Nodup
/-!
# Helper lemmas for C07Par (distributed matrices as per-rank blocks)

The method: reading an entry list through index maps (`reIdx r c`) turns its dense image into a
finite sum over the local positions that are mapped to the global position asked for, so the global
dense image is a function of the local dense image only (`denE_map_reIdx_congr`). The image of a
distributed matrix is the sum over the ranks of the images of the two blocks (`denE_image`).
-/
namespace Raptor.ParMat
open Raptor.Sparse

variable {K : Type}

/-! ## definitions used by the statements -/

/-- renumber the row index -/
def rowIdx (r : Nat → Nat) (e : Entry K) : Entry K := (r e.1, e.2.1, e.2.2)
/-- renumber the column index -/
def colIdx (c : Nat → Nat) (e : Entry K) : Entry K := (e.1, c e.2.1, e.2.2)
/-- renumber both indices -/
def reIdx (r c : Nat → Nat) (e : Entry K) : Entry K := (r e.1, c e.2.1, e.2.2)

/-- combine the blocks of two distributed matrices rank by rank, keeping the maps of the first -/
def zipBlocks (f : List (Entry K) → List (Entry K) → List (Entry K)) (as bs : List (Blk K)) :
    List (Blk K) :=
  List.zipWith (fun A B => { A with on := f A.on B.on, off := f A.off B.off }) as bs

/-- two ranks that carry the same three maps -/
def SameMaps (A B : Blk K) : Prop :=
  A.rowMap = B.rowMap ∧ A.onColMap = B.onColMap ∧ A.offColMap = B.offColMap

/-- same maps, and blocks with the same local dense images -/
def BlkEquiv [Add K] [Zero K] (B' B : Blk K) : Prop :=
  SameMaps B' B ∧ (∀ li lj, denE B'.on li lj = denE B.on li lj) ∧
    (∀ li lj, denE B'.off li lj = denE B.off li lj)

/-- the sum of two ranks whose halo maps differ: the result uses the merged halo map `m`, the halo
    positions of `A` are renumbered by `ra`, those of `B` by `rb` (what `ParCSRMatrix::add` has to
    build) -/
def mergeBlk (m : List Nat) (ra rb : Nat → Nat) (A B : Blk K) : Blk K :=
  { rowMap := A.rowMap, onColMap := A.onColMap, offColMap := m,
    on := A.on ++ B.on,
    off := A.off.map (colIdx ra) ++ B.off.map (colIdx rb) }

/-- the blocks `(I, J, blockOf br bc es I J)` over all block positions of an `nbr × nbc` grid -/
def allBlocks [Add K] [Zero K] (br bc nbr nbc : Nat) (es : List (Entry K)) :
    List (Nat × Nat × List K) :=
  (List.range nbr).flatMap fun I => (List.range nbc).map fun J => (I, J, blockOf br bc es I J)

theorem Blk.global_eq (B : Blk K) :
    B.global = B.on.map (reIdx (fun k => B.rowMap.getD k 0) (fun k => B.onColMap.getD k 0)) ++
      B.off.map (reIdx (fun k => B.rowMap.getD k 0) (fun k => B.offColMap.getD k 0)) := rfl

theorem reIdx_eq_comp (r c : Nat → Nat) : (reIdx r c : Entry K → Entry K) = colIdx c ∘ rowIdx r :=
  rfl

theorem colIdx_eq_swap (c : Nat → Nat) :
    (colIdx c : Entry K → Entry K) = swapE ∘ rowIdx c ∘ swapE := rfl

/-! ## finite sums over lists -/

section Monoid
variable [AddCommMonoid K]

theorem sum_map_eq_zero {α : Type} (l : List α) (f : α → K) (h : ∀ x ∈ l, f x = 0) :
    (l.map f).sum = 0 := by
  induction l with
  | nil => rfl
  | cons x xs ih =>
    rw [List.map_cons, List.sum_cons, h x List.mem_cons_self, zero_add]
    exact ih (fun y hy => h y (List.mem_cons_of_mem _ hy))

/-- a sum over a duplicate-free list whose terms vanish away from `a` -/
theorem sum_map_single {α : Type} [DecidableEq α] (l : List α) (hl : l.Nodup) (a : α) (f : α → K)
    (h : ∀ x ∈ l, x ≠ a → f x = 0) : (l.map f).sum = if a ∈ l then f a else 0 := by
  induction l with
  | nil => simp
  | cons x xs ih =>
    rw [List.nodup_cons] at hl
    rw [List.map_cons, List.sum_cons]
    by_cases hx : x = a
    · subst hx
      rw [sum_map_eq_zero xs f (fun y hy => h y (List.mem_cons_of_mem _ hy)
        (fun hc => hl.1 (hc ▸ hy))), add_zero, if_pos List.mem_cons_self]
    · rw [h x List.mem_cons_self hx, zero_add,
        ih hl.2 (fun y hy => h y (List.mem_cons_of_mem _ hy))]
      have : a ∈ x :: xs ↔ a ∈ xs := by
        rw [List.mem_cons]
        exact ⟨fun hc => hc.resolve_left (fun e => hx e.symm), Or.inr⟩
      simp only [this]

theorem sum_range_single (n a : Nat) (f : Nat → K) (h : ∀ t, t < n → t ≠ a → f t = 0) :
    ((List.range n).map f).sum = if a < n then f a else 0 := by
  rw [sum_map_single _ List.nodup_range a f (fun x hx => h x (List.mem_range.mp hx))]
  simp only [List.mem_range]

theorem sum_map_add' {α : Type} (l : List α) (f g : α → K) :
    (l.map fun x => f x + g x).sum = (l.map f).sum + (l.map g).sum := by
  induction l with
  | nil => simp
  | cons x xs ih =>
    simp only [List.map_cons, List.sum_cons, ih]
    rw [add_add_add_comm]

theorem sum_map_congr {α : Type} (l : List α) (f g : α → K) (h : ∀ x ∈ l, f x = g x) :
    (l.map f).sum = (l.map g).sum := by
  rw [List.map_congr_left h]

/-! ## `denE` as a sum -/

theorem denE_cons' (e : Entry K) (es : List (Entry K)) (i j : Nat) :
    denE (e :: es) i j = (if e.1 = i ∧ e.2.1 = j then e.2.2 else 0) + denE es i j := by
  rw [denE_cons]
  simp only [Bool.and_eq_true, beq_iff_eq]

theorem denE_eq_sum (es : List (Entry K)) (i j : Nat) :
    denE es i j = (es.map fun e => if e.1 = i ∧ e.2.1 = j then e.2.2 else 0).sum := by
  induction es with
  | nil => rfl
  | cons e es ih => rw [denE_cons', ih, List.map_cons, List.sum_cons]

theorem denE_flatMap {α : Type} (l : List α) (f : α → List (Entry K)) (i j : Nat) :
    denE (l.flatMap f) i j = (l.map fun x => denE (f x) i j).sum := by
  induction l with
  | nil => rfl
  | cons x xs ih => rw [List.flatMap_cons, denE_append, ih, List.map_cons, List.sum_cons]

/-! ## reading an entry list through index maps -/

omit [AddCommMonoid K] in
/-- every list has a bound on its row indices -/
theorem exists_row_bound (es : List (Entry K)) : ∃ n, ∀ e ∈ es, e.1 < n := by
  induction es with
  | nil => exact ⟨0, fun e he => by simp at he⟩
  | cons x xs ih =>
    obtain ⟨n, hn⟩ := ih
    refine ⟨max n (x.1 + 1), fun e he => ?_⟩
    rcases List.mem_cons.mp he with rfl | h
    · omega
    · have := hn e h; omega

/-- the dense image after renumbering the rows by `r` is the sum of the local rows sent to `i` -/
theorem denE_map_rowIdx (r : Nat → Nat) (n : Nat) (es : List (Entry K))
    (h : ∀ e ∈ es, e.1 < n) (i j : Nat) :
    denE (es.map (rowIdx r)) i j
      = ((List.range n).map fun k => if r k = i then denE es k j else 0).sum := by
  induction es with
  | nil =>
    rw [List.map_nil, denE_nil, sum_map_eq_zero]
    intro k _; simp [denE_nil]
  | cons e es ih =>
    have he := h e List.mem_cons_self
    rw [List.map_cons, denE_cons', ih (fun x hx => h x (List.mem_cons_of_mem _ hx))]
    have hfun : ∀ k ∈ List.range n, (if r k = i then denE (e :: es) k j else 0)
        = (if k = e.1 then (if r e.1 = i ∧ e.2.1 = j then e.2.2 else 0) else 0)
          + (if r k = i then denE es k j else 0) := by
      intro k _
      rw [denE_cons']
      by_cases hk : k = e.1
      · subst hk
        by_cases hr : r e.1 = i
        · simp [hr]
        · simp [hr]
      · have hk' : ¬ e.1 = k := fun hc => hk hc.symm
        by_cases hr : r k = i
        · simp [hk, hk', hr]
        · simp [hk, hr]
    rw [sum_map_congr _ _ _ hfun, sum_map_add',
      sum_range_single n e.1 _ (fun t _ ht => if_neg ht), if_pos he, if_pos rfl]
    rfl

/-- renumbering the rows: the result depends on the local dense image only -/
theorem denE_map_rowIdx_congr (r : Nat → Nat) {es es' : List (Entry K)}
    (h : ∀ li lj, denE es' li lj = denE es li lj) (i j : Nat) :
    denE (es'.map (rowIdx r)) i j = denE (es.map (rowIdx r)) i j := by
  obtain ⟨n, hn⟩ := exists_row_bound es
  obtain ⟨n', hn'⟩ := exists_row_bound es'
  rw [denE_map_rowIdx r (max n n') es (fun e he => by have := hn e he; omega),
    denE_map_rowIdx r (max n n') es' (fun e he => by have := hn' e he; omega)]
  simp only [h]

theorem denE_map_colIdx (c : Nat → Nat) (es : List (Entry K)) (i j : Nat) :
    denE (es.map (colIdx c)) i j = denE ((es.map swapE).map (rowIdx c)) j i := by
  rw [← denE_map_swapE, List.map_map, List.map_map, colIdx_eq_swap]
  rfl

theorem denE_map_colIdx_congr (c : Nat → Nat) {es es' : List (Entry K)}
    (h : ∀ li lj, denE es' li lj = denE es li lj) (i j : Nat) :
    denE (es'.map (colIdx c)) i j = denE (es.map (colIdx c)) i j := by
  rw [denE_map_colIdx, denE_map_colIdx]
  apply denE_map_rowIdx_congr
  intro li lj
  rw [denE_map_swapE, denE_map_swapE, h]

/-- the lifting lemma for one block: the global dense image of a block read through ANY index maps
    is determined by its local dense image (no injectivity, no range condition) -/
theorem denE_map_reIdx_congr (r c : Nat → Nat) {es es' : List (Entry K)}
    (h : ∀ li lj, denE es' li lj = denE es li lj) (i j : Nat) :
    denE (es'.map (reIdx r c)) i j = denE (es.map (reIdx r c)) i j := by
  rw [reIdx_eq_comp, ← List.map_map, ← List.map_map]
  exact denE_map_colIdx_congr c (denE_map_rowIdx_congr r h) i j

/-- image of a distributed matrix: sum over the ranks -/
theorem denE_image (bs : List (Blk K)) (i j : Nat) :
    denE (image bs) i j = (bs.map fun B => denE B.global i j).sum :=
  denE_flatMap bs Blk.global i j

theorem denE_image_cons (B : Blk K) (bs : List (Blk K)) (i j : Nat) :
    denE (image (B :: bs)) i j = denE B.global i j + denE (image bs) i j := by
  unfold image
  rw [List.flatMap_cons, denE_append]

theorem denE_image_nil (i j : Nat) : denE (image ([] : List (Blk K))) i j = 0 := rfl

theorem denE_global (B : Blk K) (i j : Nat) :
    denE B.global i j
      = denE (B.on.map (reIdx (fun k => B.rowMap.getD k 0) (fun k => B.onColMap.getD k 0))) i j
        + denE (B.off.map (reIdx (fun k => B.rowMap.getD k 0) (fun k => B.offColMap.getD k 0))) i j := by
  rw [Blk.global_eq, denE_append]

/-- one rank: same maps and equal local dense images give equal global dense images -/
theorem denE_global_congr {B' B : Blk K} (h : BlkEquiv B' B) (i j : Nat) :
    denE B'.global i j = denE B.global i j := by
  obtain ⟨⟨h1, h2, h3⟩, hon, hoff⟩ := h
  rw [denE_global, denE_global, h1, h2, h3,
    denE_map_reIdx_congr _ _ hon, denE_map_reIdx_congr _ _ hoff]


/-! ## one rank: sums -/

omit [AddCommMonoid K] in
theorem map_colIdx_reIdx (r c ra : Nat → Nat) (c' : Nat → Nat) (es : List (Entry K))
    (h : ∀ e ∈ es, c (ra e.2.1) = c' e.2.1) :
    (es.map (colIdx ra)).map (reIdx r c) = es.map (reIdx r c') := by
  rw [List.map_map]
  apply List.map_congr_left
  intro e he
  show (r e.1, c (ra e.2.1), e.2.2) = (r e.1, c' e.2.1, e.2.2)
  rw [h e he]

/-- rank-local sum of two operands with the same maps -/
theorem denE_global_append (A B : Blk K) (h : SameMaps A B) (i j : Nat) :
    denE ({ A with on := A.on ++ B.on, off := A.off ++ B.off } : Blk K).global i j
      = denE A.global i j + denE B.global i j := by
  obtain ⟨h1, h2, h3⟩ := h
  rw [denE_global, denE_global, denE_global, ← h1, ← h2, ← h3]
  simp only [List.map_append, denE_append]
  rw [add_add_add_comm]

/-- rank-local sum of two operands with different halo maps, through a merged halo map -/
theorem denE_global_mergeBlk (m : List Nat) (ra rb : Nat → Nat) (A B : Blk K)
    (hrow : A.rowMap = B.rowMap) (hon : A.onColMap = B.onColMap)
    (ha : ∀ e ∈ A.off, m.getD (ra e.2.1) 0 = A.offColMap.getD e.2.1 0)
    (hb : ∀ e ∈ B.off, m.getD (rb e.2.1) 0 = B.offColMap.getD e.2.1 0) (i j : Nat) :
    denE (mergeBlk m ra rb A B).global i j = denE A.global i j + denE B.global i j := by
  rw [denE_global, denE_global, denE_global, ← hrow, ← hon]
  simp only [mergeBlk, List.map_append, denE_append]
  rw [map_colIdx_reIdx (fun k => A.rowMap.getD k 0) (fun k => m.getD k 0) ra
      (fun k => A.offColMap.getD k 0) A.off ha,
    map_colIdx_reIdx (fun k => A.rowMap.getD k 0) (fun k => m.getD k 0) rb
      (fun k => B.offColMap.getD k 0) B.off hb,
    add_add_add_comm]

/-! ## injective maps: the local dense image can be read off the global one -/

omit [AddCommMonoid K] in
theorem getD_inj_of_nodup {l : List Nat} (hl : l.Nodup) {a b : Nat} (ha : a < l.length)
    (hb : b < l.length) (h : l.getD a 0 = l.getD b 0) : a = b := by
  rw [List.getD_eq_getElem?_getD, List.getD_eq_getElem?_getD, List.getElem?_eq_getElem ha,
    List.getElem?_eq_getElem hb] at h
  exact (List.Nodup.getElem_inj_iff hl).mp (by simpa using h)

omit [AddCommMonoid K] in
theorem getD_mem {l : List Nat} {a : Nat} (ha : a < l.length) : l.getD a 0 ∈ l := by
  rw [List.getD_eq_getElem?_getD, List.getElem?_eq_getElem ha]
  exact List.getElem_mem ha

/-! ## block forms -/

omit [AddCommMonoid K] in
theorem inBlock_iff {b : Nat} (hb : 0 < b) (I i : Nat) : (I * b ≤ i ∧ i < I * b + b) ↔ i / b = I := by
  constructor
  · rintro ⟨h1, h2⟩
    exact Nat.div_eq_of_lt_le h1 (by rw [Nat.succ_mul]; exact h2)
  · rintro rfl
    have h1 := Nat.div_add_mod i b
    have h2 := Nat.mod_lt i hb
    rw [Nat.mul_comm] at h1
    omega

theorem blockOf_getD (br bc : Nat) (es : List (Entry K)) (I J t : Nat) (ht : t < br * bc) :
    (blockOf br bc es I J).getD t 0 = denE es (I * br + t / bc) (J * bc + t % bc) := by
  unfold blockOf
  rw [List.getD_eq_getElem?_getD, List.getElem?_map, List.getElem?_range ht]
  rfl

/-- the expansion of the block `(I, J)` of `es` is `es` restricted to that block -/
theorem denE_expandBlock (br bc : Nat) (hbc : 0 < bc) (es : List (Entry K)) (I J i j : Nat) :
    denE (expandBlock br bc (I, J, blockOf br bc es I J)) i j
      = if (I * br ≤ i ∧ i < I * br + br) ∧ (J * bc ≤ j ∧ j < J * bc + bc) then denE es i j
        else 0 := by
  unfold expandBlock
  rw [denE_eq_sum, List.map_map]
  -- every term, rewritten
  have hterm : ∀ t ∈ List.range (br * bc),
      ((fun e : Entry K => if e.1 = i ∧ e.2.1 = j then e.2.2 else 0) ∘
        fun t => (I * br + t / bc, J * bc + t % bc, (blockOf br bc es I J).getD t 0)) t
      = if I * br + t / bc = i ∧ J * bc + t % bc = j then denE es i j else 0 := by
    intro t ht
    show (if I * br + t / bc = i ∧ J * bc + t % bc = j then (blockOf br bc es I J).getD t 0 else 0)
      = _
    rw [blockOf_getD br bc es I J t (List.mem_range.mp ht)]
    split
    · rename_i hc; rw [hc.1, hc.2]
    · rfl
  rw [sum_map_congr _ _ _ hterm]
  -- a position reached inside the block lies in the block
  have hcond : ∀ t, t < br * bc → I * br + t / bc = i ∧ J * bc + t % bc = j →
      (I * br ≤ i ∧ i < I * br + br) ∧ (J * bc ≤ j ∧ j < J * bc + bc) := by
    intro t ht hc
    have h1 : t / bc < br := Nat.div_lt_of_lt_mul (by rw [Nat.mul_comm]; exact ht)
    have h2 := Nat.mod_lt t hbc
    obtain ⟨h3, h4⟩ := hc
    subst h3 h4
    exact ⟨⟨Nat.le_add_right _ _, Nat.add_lt_add_left h1 _⟩,
      ⟨Nat.le_add_right _ _, Nat.add_lt_add_left h2 _⟩⟩
  by_cases hin : (I * br ≤ i ∧ i < I * br + br) ∧ (J * bc ≤ j ∧ j < J * bc + bc)
  · rw [if_pos hin]
    have ha : i - I * br < br := by omega
    have hb' : j - J * bc < bc := by omega
    have hdiv : ((i - I * br) * bc + (j - J * bc)) / bc = i - I * br := by
      rw [Nat.add_comm, Nat.add_mul_div_right _ _ hbc, Nat.div_eq_of_lt hb', Nat.zero_add]
    have hmod : ((i - I * br) * bc + (j - J * bc)) % bc = j - J * bc := by
      rw [Nat.add_comm, Nat.add_mul_mod_self_right, Nat.mod_eq_of_lt hb']
    have hlt : (i - I * br) * bc + (j - J * bc) < br * bc := by
      have : (i - I * br + 1) * bc ≤ br * bc := Nat.mul_le_mul_right bc ha
      rw [Nat.succ_mul] at this
      omega
    rw [sum_range_single (br * bc) ((i - I * br) * bc + (j - J * bc)) _ ?_, if_pos hlt, hdiv, hmod,
      if_pos (by omega)]
    intro t _ hne
    apply if_neg
    intro hc
    apply hne
    have h1 : t / bc = i - I * br := by omega
    have h2 : t % bc = j - J * bc := by omega
    have h3 := Nat.div_add_mod t bc
    rw [Nat.mul_comm, h1, h2] at h3
    exact h3.symm
  · rw [if_neg hin]
    apply sum_map_eq_zero
    intro t ht
    exact if_neg (fun hc => hin (hcond t (List.mem_range.mp ht) hc))

theorem denE_expand (br bc : Nat) (l : List (Nat × Nat × List K)) (i j : Nat) :
    denE (expand br bc l) i j = (l.map fun e => denE (expandBlock br bc e) i j).sum :=
  denE_flatMap l _ i j

end Monoid

end Raptor.ParMat
