import RaptorModel.Model.Setup
import Mathlib.Data.List.Basic
import Mathlib.Data.List.Count
import Mathlib.Data.List.Dedup
import Mathlib.Data.List.Perm.Subperm
/-!
# Helper lemmas for the setup-loop property theorems (C08)

Nothing here changes the model: the lemmas are about `Model/Setup.lean` (`setupLoop`, `continue?`)
or about plain lists ("`l` is immediately followed by `c`", counting).
-/
namespace Raptor.SetupLemmas
open Raptor.Sparse Raptor.Spgemm Raptor.Setup

/-! ### consecutive elements of a list -/
section Consec
variable {α : Type}

/-- `l` is immediately followed by `c` somewhere in `H` -/
def Consec (H : List α) (l c : α) : Prop := ∃ pre post, H = pre ++ l :: c :: post

theorem consec_nil (l c : α) : ¬ Consec ([] : List α) l c := by
  rintro ⟨pre, post, h⟩
  cases pre <;> simp at h

theorem consec_singleton (x l c : α) : ¬ Consec [x] l c := by
  rintro ⟨pre, post, h⟩
  cases pre with
  | nil => simp at h
  | cons a t => cases t <;> simp at h

theorem consec_cons_cons {x y : α} {T : List α} {l c : α} :
    Consec (x :: y :: T) l c ↔ (x = l ∧ y = c) ∨ Consec (y :: T) l c := by
  constructor
  · rintro ⟨pre, post, h⟩
    cases pre with
    | nil =>
      simp only [List.nil_append, List.cons.injEq] at h
      exact Or.inl ⟨h.1, h.2.1⟩
    | cons a t =>
      simp only [List.cons_append, List.cons.injEq] at h
      exact Or.inr ⟨t, post, h.2⟩
  · rintro (⟨rfl, rfl⟩ | ⟨pre, post, h⟩)
    · exact ⟨[], T, rfl⟩
    · exact ⟨x :: pre, post, by rw [h]; rfl⟩

theorem consec_mem_left {H : List α} {l c : α} (h : Consec H l c) : l ∈ H := by
  obtain ⟨pre, post, rfl⟩ := h
  simp

theorem consec_mem_right {H : List α} {l c : α} (h : Consec H l c) : c ∈ H := by
  obtain ⟨pre, post, rfl⟩ := h
  simp

/-- the index form: positions `i` and `i + 1` -/
theorem consec_iff_getElem? {H : List α} {l c : α} :
    Consec H l c ↔ ∃ i, H[i]? = some l ∧ H[i + 1]? = some c := by
  constructor
  · rintro ⟨pre, post, rfl⟩
    refine ⟨pre.length, ?_, ?_⟩
    · rw [List.getElem?_append_right (Nat.le_refl _), Nat.sub_self]
      rfl
    · rw [List.getElem?_append_right (Nat.le_succ _), Nat.succ_sub (Nat.le_refl _), Nat.sub_self]
      rfl
  · rintro ⟨i, h1, h2⟩
    induction H generalizing i with
    | nil => simp at h1
    | cons x T ih =>
      cases T with
      | nil =>
        rw [List.getElem?_cons_succ] at h2
        simp at h2
      | cons y T' =>
        cases i with
        | zero =>
          rw [List.getElem?_cons_zero] at h1
          rw [List.getElem?_cons_succ, List.getElem?_cons_zero] at h2
          exact consec_cons_cons.mpr (Or.inl ⟨Option.some.inj h1, Option.some.inj h2⟩)
        | succ j =>
          rw [List.getElem?_cons_succ] at h1 h2
          exact consec_cons_cons.mpr (Or.inr (ih j h1 h2))

end Consec

/-! ### counting -/
section Count
variable {α : Type}

theorem getD_of_lt (l : List α) (i : Nat) (d : α) (h : i < l.length) : l.getD i d = l[i] := by
  simp [List.getD_eq_getElem?_getD, h]

/-- one element that fails `p` makes the count smaller than the length -/
theorem countP_lt_length_of_exists (p : α → Bool) (l : List α) (h : ∃ x ∈ l, p x = false) :
    l.countP p < l.length := by
  obtain ⟨x, hx, hpx⟩ := h
  refine Nat.lt_of_le_of_ne List.countP_le_length ?_
  intro heq
  have := (List.countP_eq_length.mp heq) x hx
  rw [hpx] at this
  cases this

/-- a duplicate-free list included in another is not longer -/
theorem length_le_of_nodup_subset [DecidableEq α] {l₁ l₂ : List α} (hn : l₁.Nodup)
    (hs : l₁ ⊆ l₂) : l₁.length ≤ l₂.length :=
  (hn.subperm hs).length_le

end Count

/-! ### the loop -/
section Loop
variable {K : Type} [Add K] [Mul K] [Zero K] (big : K → Bool) (prolong : Csr K → Csr K) (o : Opts)

theorem setupLoop_zero (k : Nat) (A : Csr K) :
    setupLoop big prolong o 0 k A = [⟨A, none⟩] := rfl

theorem setupLoop_succ_pos {fuel k : Nat} {A : Csr K} (h : continue? o A.nRows k = true) :
    setupLoop big prolong o (fuel + 1) k A
      = ⟨A, some (prolong A)⟩ ::
          setupLoop big prolong o fuel (k + 1) (galerkin big A (prolong A)) := by
  show (if continue? o A.nRows k = true then _ else _) = _
  rw [if_pos h]

theorem setupLoop_succ_neg {fuel k : Nat} {A : Csr K} (h : continue? o A.nRows k = false) :
    setupLoop big prolong o (fuel + 1) k A = [⟨A, none⟩] := by
  show (if continue? o A.nRows k = true then _ else _) = _
  rw [if_neg (by rw [h]; exact Bool.false_ne_true)]

/-- the hierarchy always starts with the operator it was given -/
theorem setupLoop_cons (fuel k : Nat) (A : Csr K) :
    ∃ P rest, setupLoop big prolong o fuel k A = ⟨A, P⟩ :: rest := by
  cases fuel with
  | zero => exact ⟨none, [], rfl⟩
  | succ f =>
    cases h : continue? o A.nRows k with
    | true => exact ⟨_, _, setupLoop_succ_pos big prolong o h⟩
    | false => exact ⟨_, _, setupLoop_succ_neg big prolong o h⟩

theorem continue?_iff {n k : Nat} :
    continue? o n k = true ↔ o.maxCoarse < n ∧ ∀ m, o.maxLevels = some m → k < m := by
  unfold continue?
  cases hm : o.maxLevels with
  | none => simp
  | some m => simp

theorem continue?_zero (k : Nat) : continue? o 0 k = false := by
  cases h : continue? o 0 k with
  | false => rfl
  | true => exact absurd ((continue?_iff o).mp h).1 (Nat.not_lt_zero _)

theorem continue?_false_iff {n k : Nat} :
    continue? o n k = false ↔ n ≤ o.maxCoarse ∨ ∃ m, o.maxLevels = some m ∧ m ≤ k := by
  rw [← Bool.not_eq_true, continue?_iff]
  constructor
  · intro h
    by_cases hn : n ≤ o.maxCoarse
    · exact Or.inl hn
    · right
      cases hm : o.maxLevels with
      | none => exact absurd ⟨Nat.lt_of_not_le hn, fun m h' => by rw [hm] at h'; cases h'⟩ h
      | some m =>
        refine ⟨m, rfl, Nat.le_of_not_lt fun hk => h ⟨Nat.lt_of_not_le hn, fun m' h' => ?_⟩⟩
        rw [hm] at h'
        cases h'
        exact hk
  · rintro (h | ⟨m, hm, hk⟩) ⟨h1, h2⟩
    · exact absurd h1 (Nat.not_lt.mpr h)
    · exact absurd (h2 m hm) (Nat.not_lt.mpr hk)

end Loop

end Raptor.SetupLemmas
