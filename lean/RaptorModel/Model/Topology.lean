import RaptorModel.Model.Basic
/-!
# Model of `raptor/core/topology.hpp`: rank ↔ (node, on-node index) maps for orderings 0, 1, 2
-/
namespace Raptor.Topology

/-- `num_nodes = ceil(num_procs / PPN)` (topology.hpp:62-63) -/
def numNodes (np ppn : Nat) : Nat := np / ppn + (if np % ppn ≠ 0 then 1 else 0)

/-- `get_node` ; `none` = unsupported ordering (the C++ prints a message and returns -1) -/
def getNode (ord nn ppn p : Nat) : Option Nat :=
  if ord = 0 then some (p % nn)
  else if ord = 1 then some (p / ppn)
  else if ord = 2 then
    if (p / nn) % 2 = 0 then some (p % nn) else some (nn - (p % nn) - 1)
  else none

def getLocal (ord nn ppn p : Nat) : Option Nat :=
  if ord = 0 ∨ ord = 2 then some (p / nn)
  else if ord = 1 then some (p % ppn)
  else none

def getGlobal (ord nn ppn node l : Nat) : Option Nat :=
  if ord = 0 then some (l * nn + node)
  else if ord = 1 then some (l + node * ppn)
  else if ord = 2 then
    if l % 2 = 0 then some (l * nn + node) else some (l * nn + nn - node - 1)
  else none

end Raptor.Topology
