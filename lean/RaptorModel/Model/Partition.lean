import RaptorModel.Model.Basic
/-!
# Model of `raptor/core/partition.hpp` (row/column block partition, owner search)

One Lean function per piece of C++ arithmetic; `Nat` for sizes and offsets (the C++ uses `int`;
overflow is outside the model, see DESIGN §3), `Int` only for `last_local_*` which is `first+n-1`
and therefore `-1` on an empty block.
-/
namespace Raptor.Partition

/-- what one rank stores after constructing a `Partition` -/
structure Part where
  (globalRows globalCols localRows localCols firstRow firstCol : Nat)
deriving Repr, DecidableEq

def Part.lastRow (p : Part) : Int := (p.firstRow : Int) + p.localRows - 1
def Part.lastCol (p : Part) : Int := (p.firstCol : Int) + p.localCols - 1

/-- `first, size` of block `r` when `n` items are dealt to `np` ranks, remainder to the first ranks
    (partition.hpp:52-64, and again 71-85 for columns) -/
def blkFirst (n np r : Nat) : Nat :=
  if n % np > r then n / np * r + r else n / np * r + n % np
def blkSize (n np r : Nat) : Nat :=
  if n % np > r then n / np + 1 else n / np

/-- first column published by a rank that owns no rows: the end of the column range, in both the
    default and the block constructor (after the repair recorded in known_findings.json; before
    it the default constructor published 0 and the block constructor left the member unset) -/
def emptyFirstCol (nCols : Nat) : Nat := nCols

/-- `Partition(global_rows, global_cols)` on rank `rank` of `np` (partition.hpp:37-106).
    Columns are dealt to `min np rows` ranks; a rank that owns no rows owns no columns. -/
def default (nRows nCols np rank : Nat) : Part :=
  let lr := blkSize nRows np rank
  let npc := if nRows < np then nRows else np
  if lr ≠ 0 then
    { globalRows := nRows, globalCols := nCols, localRows := lr, localCols := blkSize nCols npc rank,
      firstRow := blkFirst nRows np rank, firstCol := blkFirst nCols npc rank }
  else
    { globalRows := nRows, globalCols := nCols, localRows := 0, localCols := 0,
      firstRow := blkFirst nRows np rank, firstCol := emptyFirstCol nCols }

/-- block constructor `Partition(rows, cols, brows, bcols)` (partition.hpp:108-183): the same deal
    applied to whole blocks, every offset multiplied by the block size. -/
def block (nRows nCols bRows bCols np rank : Nat) : Part :=
  let nrb := nRows / bRows
  let lr := blkSize nrb np rank * bRows
  let npc := if nrb < np then nrb else np
  let ncb := nCols / bCols
  if lr ≠ 0 then
    { globalRows := nRows, globalCols := nCols, localRows := lr,
      localCols := blkSize ncb npc rank * bCols,
      firstRow := blkFirst nrb np rank * bRows, firstCol := blkFirst ncb npc rank * bCols }
  else
    { globalRows := nRows, globalCols := nCols, localRows := 0, localCols := 0,
      firstRow := blkFirst nrb np rank * bRows, firstCol := emptyFirstCol nCols }

/-- explicit constructor -/
def explicit (nRows nCols lr lc fr fc : Nat) : Part :=
  { globalRows := nRows, globalCols := nCols, localRows := lr, localCols := lc,
    firstRow := fr, firstCol := fc }

/-- `transpose()` (partition.hpp:265-270) -/
def transpose (p : Part) : Part :=
  explicit p.globalCols p.globalRows p.localCols p.localRows p.firstCol p.firstRow

/-- `assumed_num_cols = ceil(global_num_cols / num_procs)` -/
def assumedNumCols (nCols np : Nat) : Nat :=
  nCols / np + (if nCols % np ≠ 0 then 1 else 0)

/-- result of the all-gather in `create_assumed_partition`: every rank's first column, then
    `global_num_cols` -/
def firstCols (parts : List Part) (nCols : Nat) : List Nat :=
  parts.map (·.firstCol) ++ [nCols]

/-- first loop of `form_col_to_proc`: `while (col < first_cols[a]) a--`.
    `none` = the C++ would index `first_cols[-1]`. -/
def walkDown (fc : List Nat) (col : Nat) : Nat → Option Nat
  | 0 => if col < fc.getD 0 0 then none else some 0
  | a+1 => if col < fc.getD (a+1) 0 then walkDown fc col a else some (a+1)

/-- second loop: `while (a < np-1 && col >= first_cols[a+1]) a++` (fuel = number of ranks) -/
def walkUp (fc : List Nat) (np col : Nat) : Nat → Nat → Nat
  | 0, a => a
  | f+1, a => if a + 1 < np ∧ fc.getD (a+1) 0 ≤ col then walkUp fc np col f (a+1) else a

/-- `form_col_to_proc` for one column -/
def ownerSearch (fc : List Nat) (assumed np col : Nat) : Option Nat :=
  if assumed = 0 then none   -- division by zero in the C++
  else (walkDown fc col (col / assumed)).map (walkUp fc np col np)

/-! ### Specification side (decidable predicates evaluated on implementation output) -/

/-- contiguous ordered blocks that tile `[0,n)` -/
def tiles (n : Nat) : List (Nat × Nat) → Nat → Bool
  | [], at_ => at_ == n
  | (f, s) :: rest, at_ => f == at_ && tiles n rest (at_ + s)

/-- number of blocks containing `i` -/
def ownersOf (blocks : List (Nat × Nat)) (i : Nat) : List Nat :=
  (List.range blocks.length).filter fun p =>
    match blocks[p]? with
    | some (f, s) => f ≤ i && i < f + s
    | none => false

end Raptor.Partition
