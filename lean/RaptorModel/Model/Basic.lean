/-!
# Basic definitions shared by all executable models (core Lean only — no Mathlib)

* one-method operator classes for what core Lean lacks (`AbsOp`, `SqrtOp`, `FiniteOp`);
* instances for `Float` (IEEE double, used by correspondence runs) and `Int` (exact runs);
* the token cursor used by the driver to read case lines.
-/

namespace Raptor

class AbsOp (K : Type) where
  abs : K → K
class SqrtOp (K : Type) where
  sqrt : K → K
class FiniteOp (K : Type) where
  isFinite : K → Bool

instance : AbsOp Float := ⟨Float.abs⟩
instance : SqrtOp Float := ⟨Float.sqrt⟩
instance : FiniteOp Float := ⟨Float.isFinite⟩
instance : AbsOp Int := ⟨fun x => Int.ofNat x.natAbs⟩
instance : FiniteOp Int := ⟨fun _ => true⟩

/-- Sum of a list with the operator classes of core Lean (left fold, the order the C++ loops use). -/
def lsum {K : Type} [Add K] [Zero K] (l : List K) : K := l.foldl (· + ·) 0

/-- Token cursor over the integers of one case line. Reading past the end yields 0 and sets `bad`. -/
structure Cur where
  a : Array Int
  p : Nat := 0
  bad : Bool := false

abbrev Rd := StateM Cur

def rdInt : Rd Int := do
  let c ← get
  if h : c.p < c.a.size then
    set { c with p := c.p + 1 }
    return c.a[c.p]
  else
    set { c with bad := true }
    return 0

def rdNat : Rd Nat := do
  let x ← rdInt
  if x < 0 then
    modify fun c => { c with bad := true }
    return 0
  else return x.toNat

/-- a length-prefixed vector -/
def rdVec : Rd (List Int) := do
  let n ← rdNat
  let c ← get
  if c.p + n > c.a.size then
    set { c with bad := true }
    return []
  else
    set { c with p := c.p + n }
    return (c.a.extract c.p (c.p + n)).toList

def rdNatVec : Rd (List Nat) := do
  let v ← rdVec
  if v.any (· < 0) then
    modify fun c => { c with bad := true }
  return v.map Int.toNat

/-- run a reader over a token array; `none` if the line was malformed or not fully consumed -/
def runRd {α : Type} (r : Rd α) (a : Array Int) : Option α :=
  let (x, c) := r.run { a := a }
  if c.bad || c.p != a.size then none else some x

/-- doubles travel as their 64-bit pattern (a non-negative integer) -/
def bitsToFloat (x : Int) : Float := Float.ofBits (UInt64.ofNat (x % 18446744073709551616).toNat)
def floatToBits (x : Float) : Int := Int.ofNat x.toBits.toNat

/-- relative closeness used only when comparing `Float` results (same operation order on both
    sides; the tolerance absorbs compiler contraction/reordering, see DESIGN §2.2) -/
def fclose (scale : Float) (x y : Float) : Bool :=
  if x.isNaN || y.isNaN then x.isNaN && y.isNaN
  else if x == y then true
  else (x - y).abs ≤ 1e-10 * (scale.abs + x.abs + y.abs) + 1e-300

def showList {α : Type} [ToString α] (l : List α) : String :=
  "[" ++ " ".intercalate (l.map toString) ++ "]"

end Raptor
