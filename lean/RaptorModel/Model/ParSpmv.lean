import RaptorModel.Model.ParMat
import RaptorModel.Model.Spmv
/-!
# Distributed mat-vec (`raptor/util/linalg/par_spmv.cpp`)

`ParMatrix::mult`, `mult_append`, `residual` and `mult_T` on the per-rank blocks of
`Model/ParMat.lean`.  A rank holds `x.local` (its slice of the global vector: position `j` is the
global column `on_proc_column_map[j]`) and, after the halo exchange, the buffer `x_tmp` (position
`k` is the global column `off_proc_column_map[k]`).  The code is

    on_proc->mult(x.local, b.local);  off_proc->mult_append(x_tmp, b.local);          // mult
    on_proc->mult_append_neg(x.local, r.local); off_proc->mult_append_neg(x_tmp, r.local)   // residual, r = b
    off_proc->mult_T(x.local, x_tmp); reverse exchange with sum; on_proc->mult_T(x.local, b.local)   // mult_T

The halo exchange itself is `Model/Comm.lean` (C03): here its result is a parameter (`halo`) that
the theorems constrain to be the owners' values.  `distribute` is the assembly of a global triplet
list on a layout (`ParCOOMatrix::add_value` + `finalize`: split by owner, local indices, sorted
duplicate-free halo column map).
-/
namespace Raptor.ParSpmv
open Raptor.Sparse Raptor.Spmv Raptor.ParMat
variable {K : Type}

/-- `ParMatrix::mult` on one rank -/
def multBlk [Add K] [Mul K] [Zero K] (B : Blk K) (xloc halo : List K) : List K :=
  appendE B.off halo (appendE B.on xloc (zeros B.rowMap.length))

/-- `ParMatrix::mult_append` on one rank -/
def multAppendBlk [Add K] [Mul K] [Zero K] (B : Blk K) (xloc halo b : List K) : List K :=
  appendE B.off halo (appendE B.on xloc b)

/-- `ParMatrix::residual` on one rank (`r` starts as a copy of `b`) -/
def residualBlk [Sub K] [Mul K] [Zero K] (B : Blk K) (xloc halo b : List K) : List K :=
  appendNegE B.off halo (appendNegE B.on xloc b)

/-- `off_proc->mult_T(x.local, x_tmp)`: what a rank sends back to the owners of its halo columns -/
def multTOff [Add K] [Mul K] [Zero K] (B : Blk K) (xloc : List K) : List K :=
  appendTE B.off xloc (zeros B.offColMap.length)

/-- `on_proc->mult_T(x.local, b.local)` -/
def multTOn [Add K] [Mul K] [Zero K] (B : Blk K) (xloc : List K) : List K :=
  appendTE B.on xloc (zeros B.onColMap.length)

/-- contributions that arrive at the owner of global column `g` from the halo buffers of all ranks,
    in rank order (the reverse exchange adds them; C03 `exchangeT_collects`); `sentOf B'` is the
    buffer rank `B'` sends back -/
def arrivals [Zero K] (bs : List (Blk K)) (sentOf : Blk K → List K) (g : Nat) : List K :=
  bs.flatMap fun B' =>
    ((List.range B'.offColMap.length).filter fun k => B'.offColMap.getD k 0 == g).map fun k => (sentOf B').getD k 0

/-- `ParMatrix::mult_T` on the owner `B`: local transpose product plus everything that arrives;
    `xlocOf B'` is the slice of the (row-indexed) vector held by rank `B'` -/
def multTBlk [Add K] [Mul K] [Zero K] (bs : List (Blk K)) (xlocOf : Blk K → List K) (B : Blk K) : List K :=
  (List.range B.onColMap.length).map fun j =>
    (multTOn B (xlocOf B)).getD j 0 + (arrivals bs (fun B' => multTOff B' (xlocOf B')) (B.onColMap.getD j 0)).sum

/-! ## assembly of a global triplet list on a layout -/

/-- one rank of a layout: `(local_rows, local_cols, first_row, first_col)` -/
abbrev Rank := Nat × Nat × Nat × Nat

def Rank.ownsRow (l : Rank) (i : Nat) : Bool := l.2.2.1 ≤ i && i < l.2.2.1 + l.1
def Rank.ownsCol (l : Rank) (j : Nat) : Bool := l.2.2.2 ≤ j && j < l.2.2.2 + l.2.1

/-- the halo columns of a rank: columns of its rows that it does not own, sorted, each once -/
def haloCols (l : Rank) (es : List (Entry K)) : List Nat :=
  (((es.filter fun e => l.ownsRow e.1 && !l.ownsCol e.2.1).map (·.2.1)).eraseDups).mergeSort (· ≤ ·)

def distributeRank (l : Rank) (es : List (Entry K)) : Blk K :=
  let halo := haloCols l es
  { rowMap := (List.range l.1).map (· + l.2.2.1)
    onColMap := (List.range l.2.1).map (· + l.2.2.2)
    offColMap := halo
    on := (es.filter fun e => l.ownsRow e.1 && l.ownsCol e.2.1).map fun e => (e.1 - l.2.2.1, e.2.1 - l.2.2.2, e.2.2)
    off := (es.filter fun e => l.ownsRow e.1 && !l.ownsCol e.2.1).map fun e => (e.1 - l.2.2.1, halo.idxOf e.2.1, e.2.2) }

def distribute (layout : List Rank) (es : List (Entry K)) : List (Blk K) :=
  layout.map fun l => distributeRank l es

/-- slice of a global vector held by a rank through one of its maps -/
def gatherMap [Zero K] (m : List Nat) (X : List K) : List K := m.map fun g => X.getD g 0

/-- the distributed product on every rank, ranks concatenated (= the gathered result vector when
    the row blocks tile `[0, n)` in rank order) -/
def parMult [Add K] [Mul K] [Zero K] (layout : List Rank) (es : List (Entry K)) (X : List K) : List K :=
  (distribute layout es).flatMap fun B => multBlk B (gatherMap B.onColMap X) (gatherMap B.offColMap X)

def parMultAppend [Add K] [Mul K] [Zero K] (layout : List Rank) (es : List (Entry K)) (X b : List K) : List K :=
  (distribute layout es).flatMap fun B =>
    multAppendBlk B (gatherMap B.onColMap X) (gatherMap B.offColMap X) (gatherMap B.rowMap b)

def parResidual [Sub K] [Mul K] [Zero K] (layout : List Rank) (es : List (Entry K)) (X b : List K) : List K :=
  (distribute layout es).flatMap fun B =>
    residualBlk B (gatherMap B.onColMap X) (gatherMap B.offColMap X) (gatherMap B.rowMap b)

def parMultT [Add K] [Mul K] [Zero K] (layout : List Rank) (es : List (Entry K)) (X : List K) : List K :=
  let bs := distribute layout es
  bs.flatMap fun B => multTBlk bs (fun B' => gatherMap B'.rowMap X) B

end Raptor.ParSpmv
