import RaptorModel.Model.Basic
/-!
# Coarse/fine splittings driven by vertex weights: PMIS and CLJP
(`raptor/ruge_stuben/cf_splitting.cpp:347-700`; the distributed `par_cf_splitting.cpp` runs the same
rounds with halo copies of labels and weights)

The strength graph is a list of rows: `S[i]` = the vertices `i` strongly depends on (diagonal
removed). `dependents S c` = the rows that contain `c` (the column list of the code). Labels:
`1` coarse, `0` fine, `-1` unassigned. Rounds are synchronous: every vertex looks at the labels
and weights of the previous round, which is why the result is a function of the graph and the
weights alone — not of how vertices are distributed over processes.
-/
namespace Raptor.Split
variable {W : Type}

abbrev Graph := List (List Nat)

def dependents (S : Graph) (c : Nat) : List Nat :=
  (List.range S.length).filter fun r => (S.getD r []).contains c

/-- number of rows in which `i` occurs as a column (added to the random weight) -/
def inDegree (S : Graph) (i : Nat) : Nat := (dependents S i).length

structure St (W : Type) where
  labels : List Int
  weights : List W

def lab (s : St W) (i : Nat) : Int := s.labels.getD i 0
def wt [Zero W] (s : St W) (i : Nat) : W := s.weights.getD i 0

/-- `select_independent_set`: unassigned vertices whose weight is not exceeded by any neighbour
    (in their row or their column); weights of assigned vertices are 0 -/
def newCoarse [Zero W] [LT W] [DecidableLT W] (S : Graph) (s : St W) : List Nat :=
  (List.range S.length).filter fun u =>
    lab s u == -1 &&
    (S.getD u []).all (fun v => !(wt s u < wt s v)) &&
    (dependents S u).all (fun v => !(wt s u < wt s v))

/-- one PMIS round: new coarse points, their unassigned dependents become fine (weight 0) -/
def pmisRound [Zero W] [LT W] [DecidableLT W] (S : Graph) (s : St W) : St W :=
  let nc := newCoarse S s
  let newF (r : Nat) : Bool := lab s r == -1 && !nc.contains r && (S.getD r []).any fun c => nc.contains c
  { labels := (List.range S.length).map fun i => if nc.contains i then 1 else if newF i then 0 else lab s i,
    weights := (List.range S.length).map fun i => if nc.contains i || newF i then 0 else wt s i }

def iterN {α : Type} (f : α → α) : Nat → α → α
  | 0, a => a
  | n+1, a => iterN f n (f a)

/-- PMIS: weights = random value + in-degree; vertices nobody depends on (weight < 1) are fine at
    once; then rounds until everything is labelled (`n` rounds always suffice) -/
def pmis [Zero W] [One W] [Add W] [LT W] [DecidableLT W] (S : Graph) (rand : List W) (natCast : Nat → W) : List Int :=
  let n := S.length
  let w0 := (List.range n).map fun i => rand.getD i 0 + natCast (inDegree S i)
  let s0 : St W := { labels := w0.map fun w => if w < 1 then 0 else -1, weights := w0 }
  (iterN (pmisRound S) n s0).labels

/-- CLJP state: labels, weights and the set of edges `(row, col)` whose mark has been cleared -/
structure CSt (W : Type) where
  st : St W
  cleared : List (Nat × Nat)

/-- one CLJP round (`select_independent_set`, `update_weights`, `update_states`) -/
def cljpRound [Zero W] [One W] [Sub W] [LT W] [DecidableLT W] (S : Graph) (cs : CSt W) : CSt W :=
  let s := cs.st
  let nc := newCoarse S s
  let isNC (v : Nat) : Bool := nc.contains v
  let unassigned (v : Nat) : Bool := lab s v == -1 && !isNC v      -- NewSelection is no longer Unassigned
  let marked (e : Nat × Nat) : Bool := !cs.cleared.contains e
  -- rule 1: a new coarse point c no longer needs the vertices it depends on
  let r1 : List (Nat × Nat) := nc.flatMap fun c => ((S.getD c []).filter fun j => unassigned j && marked (c, j)).map fun j => (c, j)
  let cleared1 := cs.cleared ++ r1
  let marked1 (e : Nat × Nat) : Bool := !cleared1.contains e
  -- rule 2: two vertices that depend on the same new coarse point no longer need each other.
  -- Processed coarse point by coarse point, in order, as the code does (a mark is cleared once).
  let (cleared2, r2) := nc.foldl (fun (acc : List (Nat × Nat) × List (Nat × Nat)) c =>
      let deps := dependents S c
      let es := (deps.filter fun idx => lab s idx != 1 ).flatMap fun idx =>
        ((S.getD idx []).filter fun k => unassigned k && deps.contains k && !(acc.1.contains (idx, k))).map fun k => (idx, k)
      let es := es.eraseDups
      (acc.1 ++ es, acc.2 ++ es)) (cleared1, [])
  let _ := marked1
  let dec (j : Nat) : Nat := ((r1 ++ r2).filter fun e => e.2 == j).length
  let w1 := (List.range S.length).map fun i => (List.range (dec i)).foldl (fun w _ => w - 1) (wt s i)
  -- update_states: new coarse -> coarse; unassigned with weight < 1 -> fine
  let labels := (List.range S.length).map fun i =>
    if isNC i then 1 else if lab s i == -1 && w1.getD i 0 < 1 then 0 else lab s i
  let weights := (List.range S.length).map fun i => if labels.getD i 0 != -1 then 0 else w1.getD i 0
  { st := { labels, weights }, cleared := cleared2 }

def cljp [Zero W] [One W] [Add W] [Sub W] [LT W] [DecidableLT W] (S : Graph) (rand : List W) (natCast : Nat → W) : List Int :=
  let n := S.length
  let w0 := (List.range n).map fun i => rand.getD i 0 + natCast (inDegree S i)
  let s0 : CSt W := { st := { labels := List.replicate n (-1), weights := w0 }, cleared := [] }
  (iterN (cljpRound S) (n + 1) s0).st.labels

/-! ### specification predicates (decidable), evaluated on implementation output -/

/-- every point is labelled coarse (1) or fine (0) (isolated points, with no strong dependency of
    their own, may carry the library's `NoNeighbors` label -2) -/
def total (S : Graph) (labels : List Int) : Bool :=
  labels.length == S.length &&
  (List.range S.length).all fun i =>
    let l := labels.getD i 9
    l == 1 || l == 0 || (l == -2 && (S.getD i []).isEmpty)

/-- every fine point with strong connections has a strong coarse neighbour -/
def fineHasCoarse (S : Graph) (labels : List Int) : Bool :=
  (List.range S.length).all fun i =>
    labels.getD i 9 != 0 || (S.getD i []).isEmpty || (S.getD i []).any fun j => labels.getD j 9 == 1

/-- the graph has an edge whose target itself has a strong dependency -/
def hasUsableEdge (S : Graph) : Bool :=
  (List.range S.length).any fun i => (S.getD i []).any fun j => !(S.getD j []).isEmpty

end Raptor.Split
