import RaptorModel.Model.Cycle
/-!
# Krylov solvers (`raptor/krylov/cg.cpp`, `par_cg.cpp`, `bicgstab.cpp`, `par_bicgstab.cpp`) and the
inner product / 2-norm they are built on (`core/vector.cpp`, `par_vector.cpp`)

`mv` is the operator application (`A->mult`), `resid x = b − A x` the residual kernel. The loops
are fuel-recursive copies of the C++ loops with the same update order; `res` is the reported history.
-/
namespace Raptor.Krylov
variable {K : Type}

def dot [Add K] [Mul K] [Zero K] (u v : List K) : K := (u.zip v).foldl (fun s p => s + p.1 * p.2) 0
def axpy [Add K] [Mul K] (y x : List K) (a : K) : List K := (y.zip x).map fun p => p.1 + a * p.2    -- y += a x
def scale [Mul K] (y : List K) (a : K) : List K := y.map (a * ·)

structure Out (K : Type) where
  x : List K
  res : List K          -- reported residual history, oldest first
  iters : Nat
deriving Repr

/-- CG main loop. State: x, r, p, rr = ⟨r,r⟩, norm_r; `recompute` = explicit residual every 8 iterations
    (and at iteration 0), as in cg.cpp:45-53 -/
def cgLoop [Add K] [Sub K] [Mul K] [Div K] [Neg K] [Zero K] [SqrtOp K] [LT K] [DecidableLT K]
    (mv : List K → List K) (resid : List K → List K) (tol : K) (maxIter : Nat) (report : K → K) :
    Nat → Nat → List K → List K → List K → K → K → List K → Out K
  | 0, it, x, _, _, _, _, res => { x := x, res := res, iters := it }
  | fuel+1, it, x, r, p, rr, normr, res =>
    if tol < normr ∧ it < maxIter then
      let ap := mv p
      let alpha := rr / dot ap p
      let x' := axpy x p alpha
      let r' := if it % 8 != 0 && it > 0 then axpy r ap (-alpha) else resid x'
      let next := dot r' r'
      let beta := next / rr
      let p'' := (scale p beta).zip r' |>.map fun q => q.1 + q.2          -- p = beta p + r
      let normr' := SqrtOp.sqrt next
      cgLoop mv resid tol maxIter report fuel (it + 1) x' r' p'' next normr' (res ++ [report normr'])
    else { x := x, res := res, iters := it }

/-- `CG(A, x, b, res, tol, max_iter)`; `scaleRes` is 1 sequentially and `1/‖b‖` in the distributed version -/
def cg [Add K] [Sub K] [Mul K] [Div K] [Neg K] [Zero K] [SqrtOp K] [LT K] [DecidableLT K] [DecidableEq K]
    (mv : List K → List K) (resid : List K → List K) (tol : K) (maxIter : Nat) (report : K → K) (x0 : List K) : Out K :=
  let r := resid x0
  let rr := dot r r
  let normr := SqrtOp.sqrt rr
  let tol' := if normr = 0 then tol else tol * normr
  cgLoop mv resid tol' maxIter report maxIter 0 x0 r r rr normr [report normr]

/-- BiCGStab main loop in the form of the distributed routine (test before every update) -/
def bicgLoop [Add K] [Sub K] [Mul K] [Div K] [Neg K] [Zero K] [LT K] [DecidableLT K] [DecidableEq K]
    (mv : List K → List K) (norm : List K → K) (rstar : List K) (tol : K) (maxIter : Nat) :
    Nat → Nat → List K → List K → List K → K → K → List K → Out K
  | 0, it, x, _, _, _, _, res => { x := x, res := res, iters := it }
  | fuel+1, it, x, r, p, rr, normr, res =>
    if tol < normr ∧ it < maxIter then
      let ap := mv p
      let alpha := rr / dot ap rstar
      let s := axpy r ap (-alpha)
      let as := mv s
      let aa := dot as as
      let omega := if aa = 0 then 0 else dot as s / aa      -- s = 0: the half step already solved the system
      let x' := axpy (axpy x p alpha) s omega
      let r' := axpy s as (-omega)
      let next := dot r' rstar
      let beta := (next / rr) * (alpha / omega)
      let p' := axpy (((scale p beta).zip r').map fun q => q.1 + q.2) ap (-(beta * omega))
      let normr' := norm r'
      bicgLoop mv norm rstar tol maxIter fuel (it + 1) x' r' p' next normr' (res ++ [normr'])
    else { x := x, res := res, iters := it }

def bicgstab [Add K] [Sub K] [Mul K] [Div K] [Neg K] [Zero K] [LT K] [DecidableLT K] [DecidableEq K]
    (mv : List K → List K) (resid : List K → List K) (norm : List K → K) (tol : K) (maxIter : Nat) (x0 : List K) : Out K :=
  let r := resid x0
  let normr := norm r
  let tol' := if normr = 0 then tol else tol * normr
  bicgLoop mv norm r tol' maxIter maxIter 0 x0 r r (dot r r) normr [normr]

/-! ### inner product and norm with NaN: a scalar extended by one non-finite element -/

inductive NF (K : Type) where
  | fin (k : K)
  | nan
deriving Repr, DecidableEq

def NF.add [Add K] : NF K → NF K → NF K
  | .fin a, .fin b => .fin (a + b)
  | _, _ => .nan
def NF.mul [Mul K] : NF K → NF K → NF K
  | .fin a, .fin b => .fin (a * b)
  | _, _ => .nan

/-- `Vector::inner_product`: plain accumulation — a NaN entry makes the result NaN -/
def dotNF [Add K] [Mul K] [Zero K] (u v : List (NF K)) : NF K :=
  (u.zip v).foldl (fun s p => NF.add s (NF.mul p.1 p.2)) (.fin 0)

/-- sum of squares as `Vector::norm(2)` must accumulate it: every entry contributes, so that a
    non-finite entry makes the norm non-finite (entries of magnitude ≤ zero_tol may be skipped) -/
def sumSqNF [Add K] [Mul K] [Zero K] (small : K → Bool) (v : List (NF K)) : NF K :=
  v.foldl (fun s a => match a with
    | .fin k => if small k then s else NF.add s (.fin (k * k))
    | .nan => .nan) (.fin 0)

end Raptor.Krylov
