import RaptorModel.Model.Krylov
/-!
# Preconditioned CG (`raptor/krylov/par_cg.cpp`, `PCG`)

`prec r` is one application of the preconditioner to a zero start (`z = 0; ml->cycle(z, r)`).
The loop is a fuel-recursive copy of the C++ loop, same update order:

```
b_inner = (b, prec b); if sqrt(b_inner) > 0: tol' = tol * sqrt(b_inner), scale = b_inner  else: tol' = tol, scale = 1
r = b - A x; z = prec r; p = z; rz = (r, z); res = [rz / scale]
if (!(sqrt(rz) > tol')) return                         -- the start already meets the tolerance (fix recorded for C17)
while (iter < max_iter) {
  iter++; Ap = A p; alpha = rz / (Ap, p); x += alpha p
  full = (iter % 8 == 0); r = full ? b - A x : r - alpha Ap
  z = prec r; next = (r, z); beta = next / rz; res.push(next / scale)
  if (sqrt(next) < tol') break                         -- both sides in the unsquared M-norm (was: next < tol')
  p = full ? z : z + beta p; rz = next }
```
In the model the comparison is made on the squares: `step` tests `next < thr` with `thr = tol'^2`, and `bInner` stands for
`scale`.
```
```
-/
namespace Raptor.Pcg
open Raptor.Krylov
variable {K : Type}

structure St (K : Type) where
  x : List K
  r : List K
  p : List K
  rz : K
  res : List K
  iter : Nat
  stopped : Bool := false
deriving Repr

/-- one trip through the loop body (`recompute` = period of the explicit residual, 8 in the code) -/
def step [Add K] [Sub K] [Mul K] [Div K] [Neg K] [Zero K] [LT K] [DecidableLT K]
    (mv : List K → List K) (resid : List K → List K) (prec : List K → List K) (bInner tol : K) (recompute : Nat)
    (s : St K) : St K :=
  let it := s.iter + 1
  let ap := mv s.p
  let alpha := s.rz / dot ap s.p
  let x' := axpy s.x s.p alpha
  let full := recompute != 0 && it % recompute == 0
  let r' := if full then resid x' else axpy s.r ap (-alpha)
  let z := prec r'
  let next := dot r' z
  let beta := next / s.rz
  let res' := s.res ++ [next / bInner]
  if next < tol then { x := x', r := r', p := s.p, rz := s.rz, res := res', iter := it, stopped := true }
  else
    let p' := if full then z else (scale s.p beta).zip z |>.map fun q => q.1 + q.2     -- p = beta p + z
    { x := x', r := r', p := p', rz := next, res := res', iter := it }

def loop [Add K] [Sub K] [Mul K] [Div K] [Neg K] [Zero K] [LT K] [DecidableLT K]
    (mv : List K → List K) (resid : List K → List K) (prec : List K → List K) (bInner tol : K) (recompute maxIter : Nat) :
    Nat → St K → St K
  | 0, s => s
  | fuel+1, s =>
    if s.stopped || !(s.iter < maxIter) then s
    else loop mv resid prec bInner tol recompute maxIter fuel (step mv resid prec bInner tol recompute s)

/-- `PCG(A, ml, x, b, res, tol, max_iter)`; `sqrtB = sqrt((b, prec b))`, `bigB` = "that norm is positive" (b ≠ 0) -/
def pcg [Add K] [Sub K] [Mul K] [Div K] [Neg K] [Zero K] [One K] [LT K] [DecidableLT K]
    (mv : List K → List K) (resid : List K → List K) (prec : List K → List K) (b : List K) (sqrtB : K) (bigB : Bool)
    (tol : K) (recompute maxIter : Nat) (x0 : List K) : St K :=
  let scale := if bigB then dot b (prec b) else 1
  let tol' := if bigB then tol * sqrtB else tol
  let thr := tol' * tol'
  let r := resid x0
  let z := prec r
  let rz := dot r z
  loop mv resid prec scale thr recompute maxIter maxIter
    { x := x0, r := r, p := z, rz := rz, res := [rz / scale], iter := 0, stopped := !(thr < rz) }

end Raptor.Pcg
