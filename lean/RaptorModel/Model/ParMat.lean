import RaptorModel.Model.Sparse
/-!
# Distributed matrices as per-rank blocks (`raptor/core/par_matrix.hpp`)

A rank holds an on-process and an off-process block with *local* indices and three maps to global
indices (`local_row_map`, `on_proc_column_map`, `off_proc_column_map`). The matrix a distributed
object represents is the union of the blocks read through the maps. Conversions between the
distributed formats, copies, `sort`, `move_diag`, `remove_duplicates` act block by block and keep
the maps; the block forms (`to_ParBSR`) regroup scalar entries into dense blocks.
-/
namespace Raptor.ParMat
open Raptor.Sparse
variable {K : Type}

structure Blk (K : Type) where
  rowMap : List Nat
  onColMap : List Nat
  offColMap : List Nat
  on : List (Entry K)        -- (local row, local on-process column, value)
  off : List (Entry K)       -- (local row, halo position, value)
deriving Repr

/-- entries of one rank with global indices -/
def Blk.global (B : Blk K) : List (Entry K) :=
  (B.on.map fun e => (B.rowMap.getD e.1 0, B.onColMap.getD e.2.1 0, e.2.2)) ++
  (B.off.map fun e => (B.rowMap.getD e.1 0, B.offColMap.getD e.2.1 0, e.2.2))

/-- the global entry list of a distributed matrix -/
def image (bs : List (Blk K)) : List (Entry K) := bs.flatMap Blk.global

/-- apply a block-local operation to both blocks of every rank, maps unchanged (what the format
    conversions, `copy`, `sort`, `move_diag`, `remove_duplicates` do) -/
def mapBlocks (f : List (Entry K) → List (Entry K)) (bs : List (Blk K)) : List (Blk K) :=
  bs.map fun B => { B with on := f B.on, off := f B.off }

/-- expansion of a block matrix with `br × bc` dense blocks: block entry `(I, J, vals)` with
    `vals` row-major holds the scalar entries `(I*br + r, J*bc + c, vals[r*bc + c])` -/
def expandBlock [Zero K] (br bc : Nat) (e : Nat × Nat × List K) : List (Entry K) :=
  (List.range (br * bc)).map fun t => (e.1 * br + t / bc, e.2.1 * bc + t % bc, e.2.2.getD t 0)

def expand [Zero K] (br bc : Nat) (es : List (Nat × Nat × List K)) : List (Entry K) :=
  es.flatMap (expandBlock br bc)

/-- scalar entries grouped into `br × bc` blocks: the block `(I, J)` collects, position by
    position, the sum of the scalar entries that fall into it (`to_ParBSR` stores the last one;
    they coincide when no position is stored twice) -/
def blockOf [Add K] [Zero K] (br bc : Nat) (es : List (Entry K)) (I J : Nat) : List K :=
  (List.range (br * bc)).map fun t => denE es (I * br + t / bc) (J * bc + t % bc)

end Raptor.ParMat
