import RaptorModel.Model.Basic
/-!
# Tentative prolongator for one candidate vector (`raptor/aggregation/candidates.cpp`) and the
weighted-Jacobi smoothing of a prolongator (`prolongation.cpp`)

`agg i` is the aggregate of vertex `i` (`none` = not aggregated); `B` the near-null-space candidate.
-/
namespace Raptor.Candidates
variable {K : Type}

/-- members of aggregate `c` -/
def members (agg : List (Option Nat)) (c : Nat) : List Nat :=
  (List.range agg.length).filter fun i => agg.getD i none == some c

/-- `R[c] = ‖B restricted to aggregate c‖` (0 if the restriction is below the relative threshold) -/
def coarseCandidate [Add K] [Mul K] [Zero K] [SqrtOp K] [LT K] [DecidableLT K] (tol : K)
    (agg : List (Option Nat)) (B : List K) (c : Nat) : K :=
  let nrm := SqrtOp.sqrt ((members agg c).foldl (fun s i => s + B.getD i 0 * B.getD i 0) 0)
  if nrm * tol < nrm then nrm else 0

/-- tentative prolongator entry: `T[i, agg i] = B[i] * (1 / R[agg i])` (scale 0 when `R` is 0) -/
def tentative [Add K] [Mul K] [Div K] [Zero K] [One K] [SqrtOp K] [LT K] [DecidableLT K] (tol : K)
    (agg : List (Option Nat)) (B : List K) (i : Nat) : Option (Nat × K) :=
  match agg.getD i none with
  | none => none
  | some c =>
    let nrm := SqrtOp.sqrt ((members agg c).foldl (fun s k => s + B.getD k 0 * B.getD k 0) 0)
    let scale := if nrm * tol < nrm then 1 / nrm else 0
    some (c, B.getD i 0 * scale)

/-- one weighted-Jacobi smoothing step on a dense-row prolongator: `P ← P − (ω D⁻¹ A) P`,
    `D` = absolute row sums of `A` (`prolongation.cpp:8-50`) -/
def smoothStep [Add K] [Sub K] [Mul K] [Div K] [Zero K] [One K] [AbsOp K] [DecidableEq K]
    (A : List (List (Nat × K))) (ω : K) (nc : Nat) (P : List (List K)) : List (List K) :=
  A.zipIdx.map fun (row, i) =>
    let s := row.foldl (fun s e => s + AbsOp.abs e.2) 0
    let sc := if s = 0 then 0 else (1 / AbsOp.abs s) * ω
    let ap : List K := (List.range nc).map fun c => row.foldl (fun acc e => acc + (e.2 * sc) * ((P.getD e.1 []).getD c 0)) 0
    ((P.getD i (List.replicate nc 0)).zip ap).map fun q => q.1 - q.2

end Raptor.Candidates
