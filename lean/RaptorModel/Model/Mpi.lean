/-!
# Abstract MPI semantics for phase-structured programs (single communicator), core Lean only

A rank's script is a list of operations: non-blocking sends (always enabled), wildcard receives
(`recvAny tag`: may take, from any source, the oldest message that source sent to this rank with
that tag — MPI non-overtaking), specific receives, and collectives (a rank may step over its k-th
collective only when every rank has reached its own k-th collective). The only nondeterminism is
MPI's: interleaving and the source chosen by a wildcard receive.
-/
namespace Raptor.Mpi

inductive Op where
  | send (dst tag body : Nat)
  | recvAny (tag : Nat)
  | recvFrom (src tag : Nat)
  | coll
deriving DecidableEq, Repr

def Op.isColl : Op → Bool
  | .coll => true
  | _ => false

abbrev Script := List Op

/-- number of collectives strictly before position `i` (the epoch of the operation at `i`) -/
def passed (s : Script) (i : Nat) : Nat := ((s.take i).filter Op.isColl).length
/-- number of collectives at or before position `i` -/
def reached (s : Script) (i : Nat) : Nat := ((s.take (i+1)).filter Op.isColl).length

structure Msg where
  (src pos dst tag body epoch : Nat)
deriving DecidableEq, Repr

structure Cfg where
  pc  : Nat → Nat
  net : List Msg                       -- in flight, in send order
  log : List (Nat × Nat × Msg)         -- (receiver, receiver position, message), newest first

def init : Cfg := { pc := fun _ => 0, net := [], log := [] }

/-- `m` is the oldest message in flight from its source to its destination with its tag -/
def oldestOfSource (net : List Msg) (m : Msg) : Prop :=
  net.find? (fun x => x.src = m.src ∧ x.dst = m.dst ∧ x.tag = m.tag) = some m

variable (N : Nat) (S : Nat → Script)

inductive Step : Cfg → Cfg → Prop where
  | send (c : Cfg) (r d t b : Nat) (hr : r < N)
      (hop : (S r)[c.pc r]? = some (.send d t b)) :
      Step c { c with
        pc := fun q => if q = r then c.pc r + 1 else c.pc q,
        net := c.net ++ [⟨r, c.pc r, d, t, b, passed (S r) (c.pc r)⟩] }
  | recvAny (c : Cfg) (r t : Nat) (m : Msg) (hr : r < N)
      (hop : (S r)[c.pc r]? = some (.recvAny t))
      (hm : m ∈ c.net) (hd : m.dst = r) (ht : m.tag = t) (hold : oldestOfSource c.net m) :
      Step c { pc := fun q => if q = r then c.pc r + 1 else c.pc q,
               net := c.net.erase m,
               log := (r, c.pc r, m) :: c.log }
  | recvFrom (c : Cfg) (r s t : Nat) (m : Msg) (hr : r < N)
      (hop : (S r)[c.pc r]? = some (.recvFrom s t))
      (hm : m ∈ c.net) (hd : m.dst = r) (hs : m.src = s) (ht : m.tag = t)
      (hold : oldestOfSource c.net m) :
      Step c { pc := fun q => if q = r then c.pc r + 1 else c.pc q,
               net := c.net.erase m,
               log := (r, c.pc r, m) :: c.log }
  | coll (c : Cfg) (r : Nat) (hr : r < N)
      (hop : (S r)[c.pc r]? = some .coll)
      (hall : ∀ q, q < N → reached (S r) (c.pc r) ≤ reached (S q) (c.pc q)) :
      Step c { c with pc := fun q => if q = r then c.pc r + 1 else c.pc q }

/-- reachable configurations -/
inductive Reach : Cfg → Prop where
  | init : Reach init
  | step {c c' : Cfg} : Reach c → Step N S c c' → Reach c'

def Op.isSendTo (dst tag : Nat) : Op → Bool
  | Op.send d t _ => d == dst && t == tag
  | _ => false
def Op.isRecvAny (tag : Nat) : Op → Bool
  | Op.recvAny t => t == tag
  | _ => false

/-- positions of a script whose operation satisfies `f` and whose epoch is `e` -/
def countAt (s : Script) (f : Op → Bool) (e : Nat) : Nat :=
  ((List.range s.length).filter fun i =>
    match s[i]? with
    | some op => f op && passed s i == e
    | none => false).length

/-- messages a script sends to `dst` with `tag` at epoch `e` -/
def sentTo (s : Script) (dst tag e : Nat) : Nat := countAt s (Op.isSendTo dst tag) e

/-- wildcard receives a script performs with `tag` at epoch `e` -/
def wildRecvs (s : Script) (tag e : Nat) : Nat := countAt s (Op.isRecvAny tag) e

/-- H1 (count match): in every epoch and for every tag, a rank posts exactly as many wildcard
    receives as messages are addressed to it with that tag in that epoch (the code learns the
    number from the all-reduce that opens the phase) -/
def CountMatch : Prop :=
  ∀ q, q < N → ∀ tag e, wildRecvs (S q) tag e = ((List.range N).map fun p => sentTo (S p) q tag e).sum

/-- H0: tags used with wildcard receives are never received with `recvFrom` -/
def WildOnly : Prop :=
  ∀ q, q < N → ∀ (i s t : Nat), (S q)[i]? = some (Op.recvFrom s t) →
    ∀ (j t' : Nat), (S q)[j]? = some (Op.recvAny t') → t ≠ t'

end Raptor.Mpi
