import RaptorModel.Model.Basic
/-!
# Standard halo package and exchanges (`raptor/core/comm_pkg.hpp` `ParComm`, `comm_data.hpp`)

Ranks are `0..np-1`; `fc` is the gathered `first_cols` (one entry per rank plus the total);
`off r` is rank `r`'s sorted list of off-process global indices. Payloads are lists indexed by
local position (`α` may be a scalar, a block or a sparse row).
-/
namespace Raptor.Comm

/-- the rank whose half-open range `[fc[p], fc[p+1])` contains `c` (what `form_col_to_proc` returns
    on a monotone `fc`, C18) -/
def owner (fc : List Nat) (c : Nat) : Nat :=
  ((List.range (fc.length - 1)).find? fun p => fc.getD p 0 ≤ c && c < fc.getD (p+1) 0).getD 0

/-- group a list of owners into maximal runs `(proc, count)` — the receive side as built by
    `init_par_comm` (comm_pkg.hpp:453-470) -/
def groupRuns : List Nat → List (Nat × Nat)
  | [] => []
  | p :: rest =>
    match groupRuns rest with
    | (q, k) :: tl => if p == q then (q, k + 1) :: tl else (p, 1) :: (q, k) :: tl
    | [] => [(p, 1)]

/-- receive side of rank `r`: one message per run of consecutive columns with the same owner -/
def recvSide (fc : List Nat) (offR : List Nat) : List (Nat × Nat) := groupRuns (offR.map (owner fc))

/-- what rank `r` asks rank `p` for: its off-process indices owned by `p`, as local indices of `p` -/
def request (fc : List Nat) (offR : List Nat) (p : Nat) : List Nat :=
  (offR.filter fun c => owner fc c == p).map fun c => c - fc.getD p 0

/-- send side of rank `p`: one message per requesting rank, in the order `order` in which the
    requests arrived (any-source probe: the order is the scheduler's choice, C05) -/
def sendSide (fc : List Nat) (off : List (List Nat)) (p : Nat) (order : List Nat) : List (Nat × List Nat) :=
  order.filterMap fun r =>
    let req := request fc (off.getD r []) p
    if req.isEmpty then none else some (r, req)

variable {α : Type}

/-- the message `p → r` of a forward exchange: the owner's values at the requested positions -/
def fwdMsg (d : α) (fc : List Nat) (off : List (List Nat)) (x : List (List α)) (p r : Nat) : List α :=
  (request fc (off.getD r []) p).map fun i => (x.getD p []).getD i d

/-- forward exchange, message level: rank `r`'s receive buffer is the concatenation, in the order
    of its receive messages, of what the owners sent (`ContigData`: contiguous unpacking) -/
def exchange (d : α) (fc : List Nat) (off : List (List Nat)) (x : List (List α)) (r : Nat) : List α :=
  (recvSide fc (off.getD r [])).flatMap fun m => fwdMsg d fc off x m.1 r

/-- specification of the forward exchange: slot `j` holds the owner's value of index `off r j` -/
def haloSpec (d : α) (fc : List Nat) (off : List (List Nat)) (x : List (List α)) (r : Nat) : List α :=
  (off.getD r []).map fun c => (x.getD (owner fc c) []).getD (c - fc.getD (owner fc c) 0) d

/-- contributions that reach rank `p` in a reverse exchange, in message order: for each sender `r`
    (in `order`), the pairs (local index at `p`, value `y r j`) for its slots `j` owned by `p` -/
def revContribs (fc : List Nat) (off : List (List Nat)) (y : List (List α)) (p : Nat) (order : List Nat) :
    List (Nat × α) :=
  order.flatMap fun r =>
    (((off.getD r []).zip (y.getD r [])).filter fun cy => owner fc cy.1 == p).map fun cy => (cy.1 - fc.getD p 0, cy.2)

/-- reverse exchange: every contribution is folded into the owner's entry with the caller's
    reduction, nothing else is touched (`complete_T`, comm_pkg.hpp:770-790) -/
def exchangeT {β : Type} (f : β → α → β) (fc : List Nat) (off : List (List Nat)) (y : List (List α))
    (init : List β) (p : Nat) (order : List Nat) : List β :=
  (revContribs fc off y p order).foldl (fun res c => res.modify c.1 (fun b => f b c.2)) init

/-- restriction of a package to the off-process columns that are kept (`init_off_proc_new`) -/
def filterOff (keep : Nat → Bool) (offR : List Nat) : List Nat := offR.filter keep

end Raptor.Comm
