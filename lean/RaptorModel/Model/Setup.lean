import RaptorModel.Model.Spgemm
/-!
# The setup loop of the AMG hierarchies (`multilevel.hpp:54-84`, `par_multilevel.hpp:120-210`)
and `extend_hierarchy` (`ruge_stuben_solver.hpp`, `smoothed_aggregation_solver.hpp` and their
`par_` twins): given the operator of the last level, form the strength graph, split/aggregate,
build `P`, then `AP = A*P` and `Ac = APᵀ·P … = Pᵀ(AP)` with the library's own products.

The prolongator builder is a parameter (`prolong`): its models are `Interp`/`Split` (RS) and
`Mis`/`Candidates` (SA), properties C12–C16. The loop, its stop rule, the triple product and the
shapes are modelled here.

```
while (levels[last]->A->n_rows > max_coarse && (max_levels == -1 || levels.size() < max_levels))
    extend_hierarchy();
```
-/
namespace Raptor.Setup
open Raptor.Sparse Raptor.Spgemm
variable {K : Type}

structure Opts where
  maxCoarse : Nat
  /-- `none` is the C++ `max_levels == -1` (no depth limit) -/
  maxLevels : Option Nat
deriving Repr, DecidableEq

/-- the `while` condition: `nRows` unknowns on the last level, `numLevels` levels so far -/
def continue? (o : Opts) (nRows numLevels : Nat) : Bool :=
  decide (o.maxCoarse < nRows) &&
  (match o.maxLevels with
   | none => true
   | some m => decide (numLevels < m))

/-- `Ac = Pᵀ (A P)` with the library's products (`big` = "not dropped") -/
def galerkin [Add K] [Mul K] [Zero K] (big : K → Bool) (A P : Csr K) : Csr K :=
  spgemmT big (csrToCsc P) (spgemm big A P)

structure HLevel (K : Type) where
  A : Csr K
  /-- `none` on the coarsest level (`levels[last]->P == NULL`) -/
  P : Option (Csr K)
deriving Repr

/-- the loop, with `fuel` iterations allowed (the C++ loop has none: see `Props/C08`,
    `setup_fuel_irrelevant`, for why `A.nRows` is always enough when coarsening is strict) -/
def setupLoop [Add K] [Mul K] [Zero K] (big : K → Bool) (prolong : Csr K → Csr K) (o : Opts) :
    Nat → Nat → Csr K → List (HLevel K)
  | 0, _, A => [⟨A, none⟩]
  | fuel+1, numLevels, A =>
    if continue? o A.nRows numLevels then
      let P := prolong A
      ⟨A, some P⟩ :: setupLoop big prolong o fuel (numLevels + 1) (galerkin big A P)
    else [⟨A, none⟩]

def setup [Add K] [Mul K] [Zero K] (big : K → Bool) (prolong : Csr K → Csr K) (o : Opts) (A : Csr K) :
    List (HLevel K) :=
  setupLoop big prolong o A.nRows 1 A

/-- sizes of the work vectors `x`, `b`, `tmp` of a level -/
def workSize (l : HLevel K) : Nat := l.A.nRows

/-- the decidable well-formedness of a hierarchy that C08 states (shapes; the Galerkin identity is
    a statement about dense images and lives in `Props/C08`) -/
def conformal : List (HLevel K) → Bool
  | [] => false
  | [l] => l.P.isNone && l.A.nRows == l.A.nCols
  | l :: c :: rest =>
    (match l.P with
     | some P => P.nRows == l.A.nRows && P.nCols == c.A.nRows && P.WF
     | none => false) &&
    l.A.nRows == l.A.nCols && conformal (c :: rest)

/-- the hierarchy stopped for one of the two reasons the loop allows -/
def stoppedAtLimit (o : Opts) (H : List (HLevel K)) : Bool :=
  match H.getLast? with
  | some l => !continue? o l.A.nRows H.length
  | none => false

/-- an off-diagonal stored entry: the graph of the operator has an edge -/
def hasEdge (A : Csr K) : Bool := A.entries.any fun e => e.1 != e.2.1

end Raptor.Setup
