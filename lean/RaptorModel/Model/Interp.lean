import RaptorModel.Model.Basic
/-!
# Classical interpolation (`raptor/ruge_stuben/interpolation.cpp`): direct and modified classical

`A` and `S` are lists of rows `(col, value)`, sorted with the diagonal entry first; `S` carries the
strength pattern (its stored values are A's). `states i` is `1` for a coarse (Selected) point, `0`
for a fine (Unselected) point; other labels (isolated points) are neither.
-/
namespace Raptor.Interp
variable {K : Type}

def isC (states : List Int) (j : Nat) : Bool := states.getD j (-1) == 1
def isF (states : List Int) (j : Nat) : Bool := states.getD j (-1) == 0

/-- coarse numbering: number of coarse points before `j` -/
def colToNew (states : List Int) (j : Nat) : Nat := ((List.range j).filter (isC states)).length

def lsumK [Add K] [Zero K] (l : List K) : K := l.foldl (· + ·) 0

/-- off-diagonal part of a diagonal-first row -/
def offDiag (i : Nat) (row : List (Nat × K)) : List (Nat × K) :=
  match row with
  | (c, _) :: rest => if c == i then rest else row
  | [] => []
def diagVal [Zero K] (row : List (Nat × K)) : K := (row.head?.map (·.2)).getD 0

/-- value of A at `(i, col)` (first stored entry) -/
def aVal [Zero K] (arow : List (Nat × K)) (col : Nat) : K := ((arow.find? fun e => e.1 == col).map (·.2)).getD 0

/-- direct interpolation, one row (interpolation.cpp:375-470) -/
def directRow [Add K] [Mul K] [Div K] [Neg K] [Zero K] [One K] [LT K] [DecidableLT K] [DecidableEq K]
    (states : List Int) (i : Nat) (arow srow : List (Nat × K)) : List (Nat × K) :=
  if isC states i then [(colToNew states i, 1)] else
  let strongC := ((offDiag i srow).filter fun e => isC states e.1).map fun e => (e.1, aVal arow e.1)
  let sumStrongNeg := lsumK ((strongC.filter fun e => e.2 < 0).map (·.2))
  let sumStrongPos := lsumK ((strongC.filter fun e => !(e.2 < 0)).map (·.2))
  let offs := (arow.drop 1).map (·.2)
  let sumAllNeg := lsumK (offs.filter fun v => v < 0)
  let sumAllPos := lsumK (offs.filter fun v => !(v < 0))
  let alpha := sumAllNeg / sumStrongNeg
  let diag0 := diagVal arow
  let diag := if sumStrongPos = 0 then diag0 + sumAllPos else diag0
  let beta := if sumStrongPos = 0 then 0 else sumAllPos / sumStrongPos
  let negCoeff := -alpha / diag
  let posCoeff := -beta / diag
  strongC.map fun e => (colToNew states e.1, (if e.2 < 0 then negCoeff else posCoeff) * e.2)

def direct [Add K] [Mul K] [Div K] [Neg K] [Zero K] [One K] [LT K] [DecidableLT K] [DecidableEq K]
    (states : List Int) (A S : List (List (Nat × K))) : List (List (Nat × K)) :=
  (A.zip S).zipIdx.map fun (r, i) => directRow states i r.1 r.2

/-- the three parts of row `i` used by modified classical interpolation:
    strong coarse `SS`, strong fine `SU`, non-strong coarse `NS`; and the weak sum / sign -/
structure Parts (K : Type) where
  ss : List (Nat × K)
  su : List (Nat × K)
  ns : List (Nat × K)
  weak : K
  neg : Bool

def parts [Add K] [Zero K] [LT K] [DecidableLT K] (states : List Int) (i : Nat) (arow srow : List (Nat × K)) : Parts K :=
  let strongCols := (offDiag i srow).map (·.1)
  let offs := arow.drop 1
  let strong := offs.filter fun e => strongCols.contains e.1
  let weakE := offs.filter fun e => !strongCols.contains e.1
  let d := diagVal arow
  { ss := strong.filter fun e => isC states e.1,
    su := strong.filter fun e => isF states e.1,
    ns := weakE.filter fun e => isC states e.1,
    weak := weakE.foldl (fun s e => s + e.2) d,
    neg := decide (d < 0) }

/-- does `v` have the sign opposite to the diagonal (`val * sign < 0`) -/
def opp [Zero K] [LT K] [DecidableLT K] (neg : Bool) (v : K) : Bool := if neg then decide (0 < v) else decide (v < 0)

/-- modified classical interpolation, one row (interpolation.cpp:182-372); `tiny` is `|x| < zero_tol` -/
def modClassicalRow [Add K] [Mul K] [Div K] [Neg K] [Zero K] [One K] [LT K] [DecidableLT K]
    (tiny : K → Bool) (states : List Int) (allParts : List (Parts K)) (i : Nat) : List (Nat × K) :=
  if isC states i then [(colToNew states i, 1)] else
  match allParts[i]? with
  | none => []
  | some p =>
    let inRow (c : Nat) : Bool := p.ss.any fun e => e.1 == c
    -- per strong fine neighbour k: the sum of k's connections (of the right sign) to i's coarse set
    let coarseSum (k : Nat) : K :=
      match allParts[k]? with
      | some q => ((q.ss ++ q.ns).filter fun e => inRow e.1 && opp p.neg e.2).foldl (fun s e => s + e.2) 0
      | none => 0
    let weak := p.su.foldl (fun w e => if tiny (coarseSum e.1) then w + e.2 else w) p.weak
    let scaled : List (Nat × K) := p.su.filterMap fun e =>
      let cs := coarseSum e.1
      if tiny cs then none else some (e.1, e.2 / cs)
    let add (c : Nat) : K := scaled.foldl (fun s ke =>
      match allParts[ke.1]? with
      | some q => ((q.ss ++ q.ns).filter fun e => e.1 == c && opp p.neg e.2).foldl (fun s e => s + ke.2 * e.2) s
      | none => s) 0
    p.ss.map fun e => (colToNew states e.1, (e.2 + add e.1) / (-weak))

def modClassical [Add K] [Mul K] [Div K] [Neg K] [Zero K] [One K] [LT K] [DecidableLT K]
    (tiny : K → Bool) (states : List Int) (A S : List (List (Nat × K))) : List (List (Nat × K)) :=
  let allParts := (A.zip S).zipIdx.map fun (r, i) => parts states i r.1 r.2
  (List.range A.length).map fun i => modClassicalRow tiny states allParts i

end Raptor.Interp
