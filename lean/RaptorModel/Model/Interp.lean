import RaptorModel.Model.Basic
/-!
# Classical interpolation (`raptor/ruge_stuben/interpolation.cpp`): direct and modified classical

`A` and `S` are lists of rows `(col, value)`, sorted with the diagonal entry first; `S` carries the
strength pattern (its stored values are A's). `states i` is `1` for a coarse (Selected) point, `0`
for a fine (Unselected) point; other labels (isolated points) are neither.
-/
namespace Raptor.Interp
variable {K : Type}

def isC (states : List Int) (j : Nat) : Bool := states.getD j (-1) == 1
def isF (states : List Int) (j : Nat) : Bool := states.getD j (-1) == 0

/-- coarse numbering: number of coarse points before `j` -/
def colToNew (states : List Int) (j : Nat) : Nat := ((List.range j).filter (isC states)).length

def lsumK [Add K] [Zero K] (l : List K) : K := l.foldl (· + ·) 0

/-- off-diagonal part of a diagonal-first row -/
def offDiag (i : Nat) (row : List (Nat × K)) : List (Nat × K) :=
  match row with
  | (c, _) :: rest => if c == i then rest else row
  | [] => []
def diagVal [Zero K] (row : List (Nat × K)) : K := (row.head?.map (·.2)).getD 0

/-- value of A at `(i, col)` (first stored entry) -/
def aVal [Zero K] (arow : List (Nat × K)) (col : Nat) : K := ((arow.find? fun e => e.1 == col).map (·.2)).getD 0

/-- direct interpolation, one row (interpolation.cpp:375-470) -/
def directRow [Add K] [Mul K] [Div K] [Neg K] [Zero K] [One K] [LT K] [DecidableLT K] [DecidableEq K]
    (states : List Int) (i : Nat) (arow srow : List (Nat × K)) : List (Nat × K) :=
  if isC states i then [(colToNew states i, 1)] else
  let strongC := ((offDiag i srow).filter fun e => isC states e.1).map fun e => (e.1, aVal arow e.1)
  let sumStrongNeg := lsumK ((strongC.filter fun e => e.2 < 0).map (·.2))
  let sumStrongPos := lsumK ((strongC.filter fun e => !(e.2 < 0)).map (·.2))
  let offs := (arow.drop 1).map (·.2)
  let sumAllNeg := lsumK (offs.filter fun v => v < 0)
  let sumAllPos := lsumK (offs.filter fun v => !(v < 0))
  let alpha := sumAllNeg / sumStrongNeg
  let diag0 := diagVal arow
  let diag := if sumStrongPos = 0 then diag0 + sumAllPos else diag0
  let beta := if sumStrongPos = 0 then 0 else sumAllPos / sumStrongPos
  let negCoeff := -alpha / diag
  let posCoeff := -beta / diag
  strongC.map fun e => (colToNew states e.1, (if e.2 < 0 then negCoeff else posCoeff) * e.2)

def direct [Add K] [Mul K] [Div K] [Neg K] [Zero K] [One K] [LT K] [DecidableLT K] [DecidableEq K]
    (states : List Int) (A S : List (List (Nat × K))) : List (List (Nat × K)) :=
  (A.zip S).zipIdx.map fun (r, i) => directRow states i r.1 r.2

/-- the three parts of row `i` used by modified classical interpolation:
    strong coarse `SS`, strong fine `SU`, non-strong coarse `NS`; and the weak sum / sign -/
structure Parts (K : Type) where
  ss : List (Nat × K)
  su : List (Nat × K)
  ns : List (Nat × K)
  weak : K
  neg : Bool

def parts [Add K] [Zero K] [LT K] [DecidableLT K] (states : List Int) (i : Nat) (arow srow : List (Nat × K)) : Parts K :=
  let strongCols := (offDiag i srow).map (·.1)
  let offs := arow.drop 1
  let strong := offs.filter fun e => strongCols.contains e.1
  let weakE := offs.filter fun e => !strongCols.contains e.1
  let d := diagVal arow
  { ss := strong.filter fun e => isC states e.1,
    su := strong.filter fun e => isF states e.1,
    ns := weakE.filter fun e => isC states e.1,
    weak := weakE.foldl (fun s e => s + e.2) d,
    neg := decide (d < 0) }

/-- does `v` have the sign opposite to the diagonal (`val * sign < 0`) -/
def opp [Zero K] [LT K] [DecidableLT K] (neg : Bool) (v : K) : Bool := if neg then decide (0 < v) else decide (v < 0)

/-- modified classical interpolation, one row (interpolation.cpp:182-372); `tiny` is `|x| < zero_tol` -/
def modClassicalRow [Add K] [Mul K] [Div K] [Neg K] [Zero K] [One K] [LT K] [DecidableLT K]
    (tiny : K → Bool) (states : List Int) (allParts : List (Parts K)) (i : Nat) : List (Nat × K) :=
  if isC states i then [(colToNew states i, 1)] else
  match allParts[i]? with
  | none => []
  | some p =>
    let inRow (c : Nat) : Bool := p.ss.any fun e => e.1 == c
    -- per strong fine neighbour k: the sum of k's connections (of the right sign) to i's coarse set
    let coarseSum (k : Nat) : K :=
      match allParts[k]? with
      | some q => ((q.ss ++ q.ns).filter fun e => inRow e.1 && opp p.neg e.2).foldl (fun s e => s + e.2) 0
      | none => 0
    let weak := p.su.foldl (fun w e => if tiny (coarseSum e.1) then w + e.2 else w) p.weak
    let scaled : List (Nat × K) := p.su.filterMap fun e =>
      let cs := coarseSum e.1
      if tiny cs then none else some (e.1, e.2 / cs)
    let add (c : Nat) : K := scaled.foldl (fun s ke =>
      match allParts[ke.1]? with
      | some q => ((q.ss ++ q.ns).filter fun e => e.1 == c && opp p.neg e.2).foldl (fun s e => s + ke.2 * e.2) s
      | none => s) 0
    p.ss.map fun e => (colToNew states e.1, (e.2 + add e.1) / (-weak))

def modClassical [Add K] [Mul K] [Div K] [Neg K] [Zero K] [One K] [LT K] [DecidableLT K]
    (tiny : K → Bool) (states : List Int) (A S : List (List (Nat × K))) : List (List (Nat × K)) :=
  let allParts := (A.zip S).zipIdx.map fun (r, i) => parts states i r.1 r.2
  (List.range A.length).map fun i => modClassicalRow tiny states allParts i

/-! ### extended+i interpolation (`interpolation.cpp:10-165`), one unknown per node

`Ĉ_i` = strong coarse neighbours of `i` and the strong coarse neighbours of its strong fine neighbours, in the order
the C++ inserts them. A non-strong entry `a_ij` with `j ∈ Ĉ_i` belongs to the weight of `j`; every other non-strong
entry is lumped into the diagonal. A strong fine neighbour `k` distributes `a_ik` over `Ĉ_i ∪ {i}` in proportion to
the entries of row `k` whose sign is opposite to `a_kk`. -/

def addAt [Add K] (l : List (Nat × K)) (c : Nat) (v : K) : List (Nat × K) :=
  l.map fun q => if q.1 == c then (q.1, q.2 + v) else q

/-- the interpolation set of row `i` with the initial numerators: `a_ij` for a strong coarse `j`, `0` for a point
    reached at distance two only -/
def cHat [Zero K] (states : List Int) (S : List (List (Nat × K))) (i : Nat) : List (Nat × K) :=
  (offDiag i (S.getD i [])).foldl (fun acc e =>
    if isC states e.1 then
      (if acc.any (·.1 == e.1) then acc.map (fun q => if q.1 == e.1 then (q.1, e.2) else q) else acc ++ [(e.1, e.2)])
    else if isF states e.1 then
      (offDiag e.1 (S.getD e.1 [])).foldl (fun acc k => if isC states k.1 && !(acc.any (·.1 == k.1)) then acc ++ [(k.1, 0)] else acc) acc
    else acc) []

/-- numerators and lumped diagonal after the pass over row `i` of `A` -/
def extPass1 [Add K] [Zero K] (states : List Int) (A S : List (List (Nat × K))) (i : Nat) : List (Nat × K) × K :=
  let arow := A.getD i []
  let strongCols := (offDiag i (S.getD i [])).map (·.1)
  let chat := cHat states S i
  (arow.drop 1).foldl (fun pw e =>
    if strongCols.contains e.1 then pw
    else if isC states e.1 && chat.any (·.1 == e.1) then (addAt pw.1 e.1 e.2, pw.2)
    else (pw.1, pw.2 + e.2)) (chat, diagVal arow)

/-- contribution of one strong fine neighbour `k` (entry `(k, a_ik)` of the strength row) -/
def extFine [Add K] [Mul K] [Div K] [Zero K] [LT K] [DecidableLT K] (tiny : K → Bool) (states : List Int)
    (A : List (List (Nat × K))) (i : Nat) (inHat : Nat → Bool) (pw : List (Nat × K) × K) (e : Nat × K) : List (Nat × K) × K :=
  let krow := A.getD e.1 []
  let neg := decide (diagVal krow < 0)
  let cs := krow.foldl (fun s q => if (inHat q.1 || q.1 == i) && opp neg q.2 then s + q.2 else s) 0
  let m := if tiny cs then cs else e.2 / cs
  let w0 := if tiny cs then pw.2 + e.2 else pw.2
  (krow.drop 1).foldl (fun pw q =>
    if isC states q.1 then (if opp neg q.2 && inHat q.1 then (addAt pw.1 q.1 (m * q.2), pw.2) else pw)
    else if q.1 == i then (pw.1, pw.2 + m * q.2) else pw) (pw.1, w0)

def extendedRow [Add K] [Mul K] [Div K] [Neg K] [Zero K] [One K] [LT K] [DecidableLT K]
    (tiny : K → Bool) (states : List Int) (A S : List (List (Nat × K))) (i : Nat) : List (Nat × K) :=
  if isC states i then [(colToNew states i, 1)] else
  let chat := cHat states S i
  let inHat (c : Nat) : Bool := chat.any (·.1 == c)
  let pw1 := extPass1 states A S i
  let pw2 := ((offDiag i (S.getD i [])).filter fun e => isF states e.1).foldl (extFine tiny states A i inHat) pw1
  pw2.1.map fun e => (colToNew states e.1, e.2 / (-pw2.2))

def extended [Add K] [Mul K] [Div K] [Neg K] [Zero K] [One K] [LT K] [DecidableLT K]
    (tiny : K → Bool) (states : List Int) (A S : List (List (Nat × K))) : List (List (Nat × K)) :=
  (List.range A.length).map fun i => extendedRow tiny states A S i

end Raptor.Interp
