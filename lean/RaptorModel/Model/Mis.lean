import RaptorModel.Model.Basic
/-!
# Distance-two maximal independent set and aggregation
(`raptor/aggregation/mis.cpp`, `aggregate.cpp`; the distributed `par_mis.cpp`, `par_aggregate.cpp`
run the same rounds with halo copies)

The strength graph is a list of rows `S[v]` (neighbours of `v`, the self loop included as stored).
Keys `r` are the caller's random values. Labels: `1` root (Selected), `0` excluded (Unselected),
`-1` undecided. Rounds are synchronous, so the result depends on the graph and the keys only.
-/
namespace Raptor.Mis
variable {W : Type}

abbrev Graph := List (List Nat)

def lab (labels : List Int) (v : Nat) : Int := labels.getD v 0
def key [Zero W] (r : List W) (v : Nat) : W := r.getD v 0
def decided (labels : List Int) (v : Nat) : Bool := lab labels v == 1 || lab labels v == 0

/-- phase 1: an undecided vertex is tentative when every neighbour with a smaller key is decided -/
def tentative [Zero W] [LT W] [DecidableLT W] (S : Graph) (r : List W) (labels : List Int) (v : Nat) : Bool :=
  !decided labels v && (S.getD v []).all fun w => !(key r w < key r v) || decided labels w

/-- phase 2: a tentative vertex is confirmed unless a tentative vertex with a larger key lies
    within two edges -/
def confirmed [Zero W] [LT W] [DecidableLT W] (S : Graph) (r : List W) (labels : List Int) (v : Nat) : Bool :=
  tentative S r labels v &&
  (S.getD v []).all fun w => (S.getD w []).all fun u => !(tentative S r labels u && key r v < key r u)

/-- phase 3: an undecided vertex that is not confirmed is excluded when a confirmed vertex lies
    within two edges (`v → w → x` with `x` confirmed, or `w` itself confirmed) -/
def excluded [Zero W] [LT W] [DecidableLT W] (S : Graph) (r : List W) (labels : List Int) (v : Nat) : Bool :=
  !decided labels v && !confirmed S r labels v &&
  (S.getD v []).any fun w => confirmed S r labels w || (S.getD w []).any fun x => confirmed S r labels x

def mis2Round [Zero W] [LT W] [DecidableLT W] (S : Graph) (r : List W) (labels : List Int) : List Int :=
  (List.range S.length).map fun v =>
    if confirmed S r labels v then 1 else if excluded S r labels v then 0 else lab labels v

def iterN {α : Type} (f : α → α) : Nat → α → α
  | 0, a => a
  | n+1, a => iterN f n (f a)

/-- `mis2`: rounds until every vertex is decided (`n` rounds always suffice) -/
def mis2 [Zero W] [LT W] [DecidableLT W] (S : Graph) (r : List W) : List Int :=
  iterN (mis2Round S r) S.length (List.replicate S.length (-1))

/-! ### aggregation: every vertex is mapped to the root of its aggregate (`none` = not aggregated) -/

/-- pass 0/1: roots found their own aggregate; a non-root joins the first root among its neighbours -/
def pass1 (S : Graph) (labels : List Int) : List (Option Nat) :=
  (List.range S.length).map fun v =>
    if lab labels v == 1 then some v
    else (S.getD v []).find? fun w => lab labels w == 1

/-- pass 2: a still unaggregated vertex joins the aggregate of the neighbour (already aggregated
    after pass 1) with the largest `|a_vw| + r_w`, first maximum in storage order -/
def pass2 [Zero W] [Add W] [LT W] [DecidableLT W] (S : Graph) (absA : Nat → Nat → W) (r : List W)
    (agg1 : List (Option Nat)) : List (Option Nat) :=
  (List.range S.length).map fun v =>
    match agg1.getD v none with
    | some a => some a
    | none =>
      let best := (S.getD v []).foldl (fun (acc : Option (W × Nat)) w =>
        match agg1.getD w none with
        | some a =>
          let val := absA v w + key r w
          match acc with
          | some (m, _) => if m < val then some (val, a) else acc
          | none => if (0 : W) < val then some (val, a) else acc
        | none => acc) none
      best.map (·.2)

def aggregate [Zero W] [Add W] [LT W] [DecidableLT W] (S : Graph) (absA : Nat → Nat → W) (r : List W)
    (labels : List Int) : List (Option Nat) :=
  pass2 S absA r (pass1 S labels)

/-! ### specification predicates -/

def roots (labels : List Int) : List Nat := (List.range labels.length).filter fun v => lab labels v == 1

/-- vertices within two edges of `v` (`v` itself included when it has a self loop) -/
def within2 (S : Graph) (v : Nat) : List Nat := (S.getD v []) ++ (S.getD v []).flatMap fun w => S.getD w []

/-- no two roots share an edge or a neighbour -/
def independent2 (S : Graph) (labels : List Int) : Bool :=
  (roots labels).all fun a => (roots labels).all fun b => a == b || !(within2 S a).contains b

/-- every vertex is a root or within two edges of a root -/
def maximal2 (S : Graph) (labels : List Int) : Bool :=
  (List.range S.length).all fun v => lab labels v == 1 || (within2 S v).any fun u => lab labels u == 1

end Raptor.Mis
