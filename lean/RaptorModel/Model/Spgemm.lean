import RaptorModel.Model.Sparse
/-!
# Sparse products of `raptor/util/linalg/matmult.cpp` (Gustavson with a linked list of touched
columns; entries with `|sum| ≤ zero_tol` are not emitted)
-/
namespace Raptor.Spgemm
open Raptor.Sparse
variable {K : Type}

/-- accumulate products `(col, p)` in the order they are generated. The result lists the touched
    columns newest-first, which is the order in which the linked list (`next/head`) is unwound. -/
def accumulate [Add K] [Zero K] (prods : List (Nat × K)) : List (Nat × K) :=
  prods.foldl (fun acc e =>
    if acc.any (fun a => a.1 == e.1) then acc.map (fun a => if a.1 == e.1 then (a.1, a.2 + e.2) else a)
    else (e.1, 0 + e.2) :: acc) []

/-- products generated for one row of `A` against the rows of `B` -/
def rowProducts [Mul K] (rowA : List (Nat × K)) (rowsB : List (List (Nat × K))) : List (Nat × K) :=
  rowA.flatMap fun (k, a) => (rowsB.getD k []).map fun (j, b) => (j, a * b)

/-- `spgemm_helper`: `C = A * B`, columns optionally renumbered through `colMap` -/
def spgemm [Add K] [Mul K] [Zero K] (big : K → Bool) (A B : Csr K) (colMap : Nat → Nat := id) : Csr K :=
  ⟨A.nRows, B.nCols, A.rows.map fun rowA =>
    ((accumulate (rowProducts rowA B.rows)).filter fun e => big e.2).map fun e => (colMap e.1, e.2)⟩

/-- `spgemm_T_helper`: `C = Aᵀ * B` with `A` given by columns -/
def spgemmT [Add K] [Mul K] [Zero K] (big : K → Bool) (A : Csc K) (B : Csr K) (colMap : Nat → Nat := id) : Csr K :=
  ⟨A.nCols, B.nCols, A.cols.map fun colA =>
    ((accumulate (rowProducts colA B.rows)).filter fun e => big e.2).map fun e => (colMap e.1, e.2)⟩

/-- specification: entry `(i,j)` of the product of the represented operators -/
def denProd [Add K] [Mul K] [Zero K] (A B : List (Entry K)) (nInner : Nat) (i j : Nat) : K :=
  ((List.range nInner).map fun k => denE A i k * denE B k j).sum

end Raptor.Spgemm
