import RaptorModel.Model.Sparse
/-!
# Matrix Market coordinate files (`raptor/gallery/matrix_market.cpp`: `write_mm`, `read_mm`;
`par_matrix_market.cpp`: `read_par_mm`, `write_par_mm` use the same index logic per rank)

A file is its size line and its entry lines with the 1-based indices as they stand in the text;
values are whatever the number parser returned (libc, trusted). A `symmetric` banner means that one
triangle is stored and every off-diagonal line stands for two entries.
-/
namespace Raptor.MatrixMarket
open Raptor.Sparse
variable {K : Type}

structure MMFile (K : Type) where
  symmetric : Bool
  nRows : Nat
  nCols : Nat
  nnzDeclared : Nat
  lines : List (Nat × Nat × K)          -- (row, col, value), 1-based
deriving Repr, DecidableEq

/-- `write_mm`: general banner, the stored entries row by row, indices shifted to 1-based -/
def writeMM (A : Csr K) : MMFile K :=
  let es := A.entries
  { symmetric := false, nRows := A.nRows, nCols := A.nCols, nnzDeclared := es.length,
    lines := es.map fun e => (e.1 + 1, e.2.1 + 1, e.2.2) }

/-- the entries `read_mm` adds (`add_value(row-1, col-1, v)`, plus the mirror image of an
    off-diagonal line of a symmetric file), in file order -/
def readEntries (f : MMFile K) : List (Entry K) :=
  (f.lines.take f.nnzDeclared).flatMap fun l =>
    (l.1 - 1, l.2.1 - 1, l.2.2) :: (if f.symmetric && l.1 != l.2.1 then [(l.2.1 - 1, l.1 - 1, l.2.2)] else [])

/-- `read_mm`: COO assembly of the entries, converted to CSR -/
def readMM (f : MMFile K) : Csr K := cooToCsr ⟨f.nRows, f.nCols, readEntries f⟩

/-- a file is well-formed when it declares as many lines as it has and every index is in `1..size` -/
def MMFile.WF (f : MMFile K) : Bool :=
  f.nnzDeclared == f.lines.length && f.lines.all fun l => 1 ≤ l.1 && l.1 ≤ f.nRows && 1 ≤ l.2.1 && l.2.1 ≤ f.nCols

/-- the lower triangle (diagonal included) of an entry list, as a symmetric file stores it -/
def lowerTriangle (es : List (Entry K)) : List (Entry K) := es.filter fun e => e.2.1 ≤ e.1

def symmetricFile (n : Nat) (es : List (Entry K)) : MMFile K :=
  let lo := lowerTriangle es
  { symmetric := true, nRows := n, nCols := n, nnzDeclared := lo.length, lines := lo.map fun e => (e.1 + 1, e.2.1 + 1, e.2.2) }

end Raptor.MatrixMarket
