import RaptorModel.Model.Sparse
/-!
# SpMV kernels of `raptor/util/linalg/spmv.cpp` and `Matrix::append*` (matrix.hpp:271-336)

Vectors are lists; `upd` is the in-place `b[i] op= ...` of the C++.
-/
namespace Raptor.Spmv
open Raptor.Sparse
variable {K : Type}

def upd (b : List K) (i : Nat) (f : K → K) : List K := b.modify i f
def at' [Zero K] (x : List K) (j : Nat) : K := x.getD j 0

/-- `append`: for every stored entry in storage order, `b[row] += val * x[col]` -/
def appendE [Add K] [Mul K] [Zero K] (es : List (Entry K)) (x b : List K) : List K :=
  es.foldl (fun b e => upd b e.1 (· + e.2.2 * at' x e.2.1)) b
/-- `append_T`: `b[col] += val * x[row]` -/
def appendTE [Add K] [Mul K] [Zero K] (es : List (Entry K)) (x b : List K) : List K :=
  es.foldl (fun b e => upd b e.2.1 (· + e.2.2 * at' x e.1)) b
/-- `append_neg`: `b[row] -= val * x[col]` -/
def appendNegE [Sub K] [Mul K] [Zero K] (es : List (Entry K)) (x b : List K) : List K :=
  es.foldl (fun b e => upd b e.1 (· - e.2.2 * at' x e.2.1)) b
/-- `append_neg_T`: `b[col] -= val * x[row]` -/
def appendNegTE [Sub K] [Mul K] [Zero K] (es : List (Entry K)) (x b : List K) : List K :=
  es.foldl (fun b e => upd b e.2.1 (· - e.2.2 * at' x e.1)) b

def zeros [Zero K] (n : Nat) : List K := List.replicate n 0

/-! COO kernels (spmv.cpp:14-50, 259-290) -/
def Coo.spmv [Add K] [Mul K] [Zero K] (A : Coo K) (x : List K) : List K := appendE A.ents x (zeros A.nRows)
def Coo.residual [Sub K] [Mul K] [Zero K] (A : Coo K) (x b : List K) : List K := appendNegE A.ents x b

/-! CSR kernels: `CSR_spmv`, `CSR_append`, `CSR_residual` accumulate a row in a scalar first -/
def rowDot [Add K] [Mul K] [Zero K] (row : List (Nat × K)) (x : List K) : K :=
  row.foldl (fun acc e => acc + e.2 * at' x e.1) 0
def Csr.spmv [Add K] [Mul K] [Zero K] (A : Csr K) (x : List K) : List K := A.rows.map (rowDot · x)
def Csr.append [Add K] [Mul K] [Zero K] (A : Csr K) (x b : List K) : List K :=
  (List.range A.rows.length).map fun i => at' b i + rowDot (A.rows.getD i []) x
def Csr.residual [Sub K] [Mul K] [Zero K] (A : Csr K) (x b : List K) : List K :=
  (List.range A.rows.length).map fun i =>
    (A.rows.getD i []).foldl (fun acc e => acc - e.2 * at' x e.1) (at' b i)

/-- `mult_T`: zero `b` over the columns, then `append_T` -/
def multT [Add K] [Mul K] [Zero K] (es : List (Entry K)) (nCols : Nat) (x : List K) : List K :=
  appendTE es x (zeros nCols)

/-! specification side: the action of an entry list on a vector -/
def actE [Add K] [Mul K] [Zero K] (es : List (Entry K)) (x : List K) (i : Nat) : K :=
  ((es.filter fun e => e.1 == i).map fun e => e.2.2 * at' x e.2.1).sum
def actTE [Add K] [Mul K] [Zero K] (es : List (Entry K)) (x : List K) (j : Nat) : K :=
  ((es.filter fun e => e.2.1 == j).map fun e => e.2.2 * at' x e.1).sum

end Raptor.Spmv
