import RaptorModel.Model.Sparse
import RaptorModel.Model.Comm
/-!
# Repartitioning and diagonal scaling (`raptor/util/linalg/repartition.cpp`, `par_diag_scale.cpp`)

## `repartition_matrix` + `make_contiguous`

A rank of the input is its list of local rows: the global id of the row (`local_row_map`) and the
stored entries with *global* column ids in packing order (on-process block first, then the
off-process block — repartition.cpp:185-218). `tgt g` is the target rank of global row `g` (the
caller's `partition[]`; for a halo column the code obtains it with the standard forward exchange,
C03).

Step by step, as the code does it:

* `sendProcs`: the targets of a rank's rows in order of first appearance (lines 107-117);
* `msgRows r p`: the rows of `r` going to `p`, local order (lines 131-138, 173-219);
* `msgCols r p`: for those rows, the `(column, target)` pairs of the columns whose own row does not
  go to `p` (lines 196-200, 213-217, 220-241) — duplicates are harmless, the receiver keeps the
  first;
* receiver `p`, with the arrival order `order` chosen by the scheduler (any-source probe, line 253):
  the received rows are sorted by global id (lines 335-349), the foreign columns deduplicated and
  sorted by `(target, global id)` (lines 288-293, 314-331);
* local numbering: a column is on-process iff its row was received (line 365), else its position in
  the foreign list (line 372; a column found in neither gets position 0, the `std::map` default);
* `make_contiguous`: rank `p` gets the contiguous range starting at the sum of the sizes below it;
  the new id of a foreign column is fetched from its owner through a package keyed on the old ids
  (a request for an id the owner does not hold resolves to its local row 0, the `std::map` default,
  comm_pkg.hpp:421-428); both blocks are sorted, the diagonal goes first.
-/
namespace Raptor.Repart
open Raptor.Sparse

variable {K : Type}

/-- a local row: global id and entries `(global column, value)` in packing order -/
abbrev GRow (K : Type) := Nat × List (Nat × K)

/-- distinct elements in order of first appearance -/
def firstOcc : List Nat → List Nat
  | [] => []
  | a :: l => a :: (firstOcc l).filter (· != a)

/-- targets a rank sends to, in order of first appearance among its local rows -/
def sendProcs (tgt : Nat → Nat) (rows : List (GRow K)) : List Nat := firstOcc (rows.map fun r => tgt r.1)

/-- the rows of one rank that go to `p`, in local order -/
def msgRows (tgt : Nat → Nat) (rows : List (GRow K)) (p : Nat) : List (GRow K) :=
  rows.filter fun r => tgt r.1 == p

/-- `(column, target)` for the columns of a message whose own row goes elsewhere -/
def msgCols (tgt : Nat → Nat) (rows : List (GRow K)) (p : Nat) : List (Nat × Nat) :=
  ((msgRows tgt rows p).flatMap fun r => r.2.map (·.1)).filterMap fun c =>
    if tgt c != p then some (c, tgt c) else none

/-- keep the first pair of every column -/
def dedupCols : List (Nat × Nat) → List (Nat × Nat)
  | [] => []
  | a :: l => a :: (dedupCols l).filter (·.1 != a.1)

/-- insertion sort with an explicit order (the keys compared are distinct wherever it is used) -/
def insertLe {α : Type} (le : α → α → Bool) (x : α) : List α → List α
  | [] => [x]
  | y :: ys => if le x y then x :: y :: ys else y :: insertLe le x ys
def sortLe {α : Type} (le : α → α → Bool) (l : List α) : List α := l.foldr (insertLe le) []

/-- what rank `p` holds after the receive loop under arrival order `order` (senders, each once):
    its rows sorted by global id -/
def recvRows (tgt : Nat → Nat) (ranks : List (List (GRow K))) (p : Nat) (order : List Nat) : List (GRow K) :=
  sortLe (fun a b => a.1 ≤ b.1) (order.flatMap fun r => msgRows tgt (ranks.getD r []) p)

/-- the foreign columns of rank `p`: `(old global id, target)` sorted by `(target, id)` -/
def recvCols (tgt : Nat → Nat) (ranks : List (List (GRow K))) (p : Nat) (order : List Nat) : List (Nat × Nat) :=
  sortLe (fun a b => a.2 < b.2 || (a.2 == b.2 && a.1 ≤ b.1))
    (dedupCols (order.flatMap fun r => msgCols tgt (ranks.getD r []) p))

/-- senders of `p` (ranks with at least one row for it), natural order -/
def senders (tgt : Nat → Nat) (ranks : List (List (GRow K))) (p : Nat) : List Nat :=
  (List.range ranks.length).filter fun r => !(msgRows tgt (ranks.getD r []) p).isEmpty

def posOf (l : List Nat) (x : Nat) : Nat := (l.findIdx? (· == x)).getD 0

/-- one rank of the result -/
structure NewRank (K : Type) where
  first : Nat                          -- first new global id of this rank
  oldIds : List Nat                    -- `new_local_rows`: old global id of every new local row
  on : List (List (Nat × K))           -- on-process block, local column ids, sorted, diagonal first
  off : List (List (Nat × K))          -- off-process block, halo positions, sorted
  offOld : List (Nat × Nat)            -- halo columns: (old global id, owner)
  offNew : List Nat                    -- `off_proc_column_map`: new global ids of the halo columns
deriving Repr, DecidableEq, Inhabited

/-- the old ids held by every rank after the move; `orders p` is the arrival order at `p` -/
def heldIds (tgt : Nat → Nat) (ranks : List (List (GRow K))) (orders : Nat → List Nat) : List (List Nat) :=
  (List.range ranks.length).map fun p => (recvRows tgt ranks p (orders p)).map (·.1)

def firstOf (held : List (List Nat)) (p : Nat) : Nat := ((held.take p).map List.length).sum

/-- new global id of an old id, as `make_contiguous` computes it at owner `q` -/
def newIdAt (held : List (List Nat)) (q g : Nat) : Nat := firstOf held q + posOf (held.getD q []) g

def repartRank (tgt : Nat → Nat) (ranks : List (List (GRow K))) (orders : Nat → List Nat) (p : Nat) : NewRank K :=
  let held := heldIds tgt ranks orders
  let rows := recvRows tgt ranks p (orders p)
  let ids := rows.map (·.1)
  let cols := recvCols tgt ranks p (orders p)
  let colIds := cols.map (·.1)
  let split := rows.map fun r =>
    (r.2.filterMap fun e => if ids.contains e.1 then some (posOf ids e.1, e.2) else none,
     r.2.filterMap fun e => if ids.contains e.1 then none else some (posOf colIds e.1, e.2))
  { first := firstOf held p
    oldIds := ids
    on := (split.map (·.1)).zipIdx.map fun (row, i) => moveFront i (sortBy (·.1) row)
    off := split.map fun s => sortBy (·.1) s.2
    offOld := cols
    offNew := cols.map fun c => newIdAt held c.2 c.1 }

def repartition (tgt : Nat → Nat) (ranks : List (List (GRow K))) (orders : Nat → List Nat) : List (NewRank K) :=
  (List.range ranks.length).map (repartRank tgt ranks orders)

/-! ### global reading of the input and of the result (specification side) -/

def inputEntries (ranks : List (List (GRow K))) : List (Entry K) :=
  ranks.flatMap fun rows => rows.flatMap fun r => r.2.map fun e => (r.1, e.1, e.2)

/-- entries of one result rank with new global ids -/
def NewRank.entries (R : NewRank K) : List (Entry K) :=
  (R.on.zipIdx.flatMap fun (row, i) => row.map fun e => (R.first + i, R.first + e.1, e.2)) ++
  (R.off.zipIdx.flatMap fun (row, i) => row.map fun e => (R.first + i, R.offNew.getD e.1 0, e.2))

def outputEntries (out : List (NewRank K)) : List (Entry K) := out.flatMap NewRank.entries

/-- the permutation reported to the caller: position = new global id, value = old global id -/
def reported (out : List (NewRank K)) : List Nat := out.flatMap (·.oldIds)

/-- new id of an old id according to the reported permutation -/
def newOf (perm : List Nat) (g : Nat) : Nat := posOf perm g

/-! ## diagonal scaling

One rank: on-process rows `(local column, value)`, off-process rows `(halo position, value)`,
the local right-hand side. `sc` is the scale of a diagonal value: `fun a => 1/sqrt|a|` for
`diagonally_scale`, `fun a => 1/a` for `row_scale`. -/

structure Blk (K : Type) where
  on : List (List (Nat × K))
  off : List (List (Nat × K))
  rhs : List K
deriving Repr, DecidableEq, Inhabited

/-- `row_scales[i]`: the scale of the diagonal value when the (diagonal-first) row starts with it,
    else 0 (par_diag_scale.cpp:40-47) -/
def rowScales [Zero K] (sc : K → K) (on : List (List (Nat × K))) : List K :=
  on.zipIdx.map fun (row, i) =>
    match moveFront i row with
    | (c, v) :: _ => if c == i then sc v else 0
    | [] => 0

/-- `diagonally_scale` on one rank, given the halo scales the exchange delivered -/
def diagScaleRank [Zero K] [Mul K] (sc : K → K) (B : Blk K) (halo : List K) : Blk K × List K :=
  let on := B.on.zipIdx.map fun (row, i) => moveFront i row
  let s := rowScales sc B.on
  ({ on := on.zipIdx.map fun (row, i) => row.map fun e => (e.1, e.2 * (s.getD i 0 * s.getD e.1 0))
     off := B.off.zipIdx.map fun (row, i) => row.map fun e => (e.1, e.2 * (s.getD i 0 * halo.getD e.1 0))
     rhs := B.rhs.zipIdx.map fun (b, i) => b * s.getD i 0 }, s)

/-- all ranks: the halo scales come through the standard forward exchange (`A->comm->communicate`) -/
def diagScale [Zero K] [Mul K] (sc : K → K) (fc : List Nat) (offMaps : List (List Nat)) (blks : List (Blk K)) :
    List (Blk K × List K) :=
  let scales := blks.map fun B => rowScales sc B.on
  blks.zipIdx.map fun (B, r) => diagScaleRank sc B (Comm.exchange 0 fc offMaps scales r)

/-- `row_scale` on one rank: every stored value of the row, in either block, and the right-hand
    side are multiplied by the scale of the diagonal -/
def rowScaleRank [Zero K] [Mul K] (sc : K → K) (B : Blk K) : Blk K :=
  let on := B.on.zipIdx.map fun (row, i) => moveFront i row
  let s := rowScales sc B.on
  { on := on.zipIdx.map fun (row, i) => row.map fun e => (e.1, e.2 * s.getD i 0)
    off := B.off.zipIdx.map fun (row, i) => row.map fun e => (e.1, e.2 * s.getD i 0)
    rhs := B.rhs.zipIdx.map fun (b, i) => b * s.getD i 0 }

/-- `diagonally_unscale` -/
def unscale [Mul K] (sol scales : List K) : List K := (sol.zip scales).map fun p => p.1 * p.2

/-- global entries of a rank's blocks: first row/column `first`, halo column ids `offMap` -/
def Blk.entries (B : Blk K) (first : Nat) (offMap : List Nat) : List (Entry K) :=
  (B.on.zipIdx.flatMap fun (row, i) => row.map fun e => (first + i, first + e.1, e.2)) ++
  (B.off.zipIdx.flatMap fun (row, i) => row.map fun e => (first + i, offMap.getD e.1 0, e.2))

end Raptor.Repart
