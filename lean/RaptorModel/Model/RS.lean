import RaptorModel.Model.Split
/-!
# Sequential Ruge–Stüben splitting (`raptor/ruge_stuben/cf_splitting.cpp:92-345`)

`split_rs` = column counts as weights, a first pass that visits the columns by decreasing weight with a bucket
structure (`weight_ptr`, `weight_sizes`, `weight_idx_to_col`, `col_to_weight_idx`) that is kept sorted under unit
increments and decrements, and an optional second pass that promotes fine points so that two strongly connected fine
points share a coarse point.

The strength graph `S` is a list of rows with the diagonal removed (`Split.Graph`); `dependents S c` is the column list
of `c` (the rows depending on `c`, increasing). Labels: `1` coarse, `0` fine, `-1` unassigned, anything else (e.g. `-2`)
is an assigned label the routine leaves alone.

The machine state mirrors the arrays of the code one for one; `selectCol` is the label component alone, and
`visit_labels` (in the lemma file) shows that the labels evolve by `selectCol` whatever the buckets do: the buckets
decide the *order* of the visits only.
-/
namespace Raptor.RS
open Raptor.Split (Graph dependents)

def lab (l : List Int) (i : Nat) : Int := l.getD i 7

/-- what a visit of column `col` does to the labels (`cf_splitting.cpp:139-155`) -/
def selectCol (S : Graph) (labels : List Int) (col : Nat) : List Int :=
  if lab labels col != -1 then labels else
  (dependents S col).foldl (fun l idx => if lab l idx == -1 then l.set idx 0 else l) (labels.set col 1)

structure St where
  labels : List Int
  weights : List Nat
  wptr : List Nat
  wsize : List Nat
  i2c : List Nat
  c2i : List Nat
deriving Repr, BEq

def nat (l : List Nat) (i : Nat) : Nat := l.getD i 0

/-- lines 178-180 / 216-218: exchange the columns at two bucket positions -/
def swapPos (s : St) (oldp newp : Nat) : St :=
  let a := nat s.i2c oldp
  let b := nat s.i2c newp
  { s with c2i := (s.c2i.set a newp).set b oldp, i2c := (s.i2c.set oldp b).set newp a }

/-- lines 165-188: the weight of an unassigned distance-two column goes up by one -/
def bump (n : Nat) (s : St) (k : Nat) : St :=
  let w := nat s.weights k
  if w + 1 ≥ n then s else
  let oldp := nat s.c2i k
  let newp := nat s.wptr w + nat s.wsize w - 1
  let s := swapPos s oldp newp
  { s with wsize := (s.wsize.set w (nat s.wsize w - 1)).set (w + 1) (nat s.wsize (w + 1) + 1),
           wptr := s.wptr.set (w + 1) newp,
           weights := s.weights.set k (w + 1) }

/-- lines 203-228: the weight of an unassigned column the new coarse point depends on goes down by one -/
def drop1 (s : St) (idx : Nat) : St :=
  let w := nat s.weights idx
  if w == 0 then s else
  let oldp := nat s.c2i idx
  let newp := nat s.wptr w
  let s := swapPos s oldp newp
  let ws := s.wsize.set w (nat s.wsize w - 1)
  let ws := ws.set (w - 1) (nat ws (w - 1) + 1)
  let wp := s.wptr.set w (nat s.wptr w + 1)
  let wp := wp.set (w - 1) (nat wp w - nat ws (w - 1))
  { s with wsize := ws, wptr := wp, weights := s.weights.set idx (w - 1) }

/-- one iteration of the main loop of `rs_first_pass` at bucket position `i` (lines 133-231) -/
def visit (S : Graph) (s : St) (i : Nat) : St :=
  let n := S.length
  let col := nat s.i2c i
  let w := nat s.weights col
  let s := { s with wsize := s.wsize.set w (nat s.wsize w - 1) }
  if lab s.labels col != -1 then s else
  let s := { s with labels := s.labels.set col 1 }
  let s := (dependents S col).foldl (fun s idx =>
      if lab s.labels idx == -1 then
        (S.getD idx []).foldl (fun s k => if lab s.labels k == -1 then bump n s k else s)
          { s with labels := s.labels.set idx 0 }
      else s) s
  (S.getD col []).foldl (fun s idx => if lab s.labels idx == -1 then drop1 s idx else s) s

/-- lines 104-130 and `split_rs` 332-337: weights = column counts, buckets by a stable counting sort -/
def init (S : Graph) (labels0 : List Int) : St :=
  let n := S.length
  let weights := (List.range n).map fun c => (dependents S c).length
  let counts := (List.range n).map fun w => (weights.filter (· == w)).length
  let wptr := (List.range (n + 1)).map fun w => ((counts.take w).foldl (· + ·) 0)
  let i2c := (List.range n).flatMap fun w => (List.range n).filter fun c => nat weights c == w
  let c2i := (List.range n).map fun c => i2c.idxOf c
  { labels := labels0, weights, wptr, wsize := counts, i2c, c2i }

/-- positions `n-1, …, 0` in turn; the columns met are collected (the visit order) -/
def runFrom (S : Graph) : List Nat → St → St × List Nat
  | [], s => (s, [])
  | i :: is, s =>
    let col := nat s.i2c i
    let r := runFrom S is (visit S s i)
    (r.1, col :: r.2)

def firstPass (S : Graph) (labels0 : List Int) : St × List Nat :=
  runFrom S (List.range S.length).reverse (init S labels0)

/-- `rs_second_pass` (lines 234-284) on rows *with* their diagonal entry, as the code walks them -/
def secondRow (rows : List (List Nat)) (st : List Int × List Int) (i : Nat) : List Int × List Int :=
  if lab st.1 i == 1 then st else
  let row := rows.getD i []
  let rc := row.foldl (fun rc col => if lab st.1 col == 1 then rc.set col (i : Int) else rc) st.2
  row.foldl (fun (st : List Int × List Int) col =>
    if lab st.1 col == 0 then
      let rowk := rows.getD col []
      if rowk.isEmpty then st
      else if rowk.any (fun ck => st.2.getD ck (-1) == (i : Int)) then st
      else (st.1.set col 1, st.2.set col (i : Int))
    else st) (st.1, rc)

def secondPass (rows : List (List Nat)) (labels : List Int) : List Int :=
  ((List.range rows.length).foldl (secondRow rows) (labels, List.replicate rows.length (-1))).1

/-- `split_rs(S, states, prev_states = false, second_pass)` -/
def splitRS (S : Graph) (second : Bool) : List Int :=
  let l := (firstPass S (List.replicate S.length (-1))).1.labels
  if second then secondPass (S.zipIdx.map fun (r, i) => i :: r) l else l

end Raptor.RS
