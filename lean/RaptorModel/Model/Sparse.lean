import RaptorModel.Model.Basic
/-!
# Sparse matrix formats and the operations of `raptor/core/matrix.cpp`, `util/linalg/add.cpp`

Representation (DESIGN §2.1): a compressed matrix is a list of rows (CSR) or columns (CSC), each a
list of `(index, value)` in storage order; COO is a list of `(row, col, value)`. The flat arrays of
the C++ (`idx1` = prefix sums of the row lengths, `idx2`, `vals`) are the bijective image of this
for well-formed data; the driver converts and checks well-formedness of what the code produced.

Every function mirrors one C++ routine, including its output order.
-/
namespace Raptor.Sparse

abbrev Entry (K : Type) := Nat × Nat × K          -- (row, col, value)

structure Coo (K : Type) where
  (nRows nCols : Nat)
  ents : List (Entry K)
deriving Repr, DecidableEq

structure Csr (K : Type) where
  (nRows nCols : Nat)
  rows : List (List (Nat × K))                    -- one list per row: (col, value)
deriving Repr, DecidableEq

structure Csc (K : Type) where
  (nRows nCols : Nat)
  cols : List (List (Nat × K))                    -- one list per column: (row, value)
deriving Repr, DecidableEq

variable {K : Type}

/-- entries of a list of rows, in storage order -/
def rowsEntries (rows : List (List (Nat × K))) : List (Entry K) :=
  rows.zipIdx.flatMap fun (row, i) => row.map fun (j, v) => (i, j, v)

def Csr.entries (A : Csr K) : List (Entry K) := rowsEntries A.rows
def Csc.entries (A : Csc K) : List (Entry K) :=
  A.cols.zipIdx.flatMap fun (col, j) => col.map fun (i, v) => (i, j, v)

/-! ### conversions (matrix.cpp:205-561) -/

/-- bucket a list of `(key, payload)` into `n` buckets, stable — what the counting-sort loops
    (`idx1[key+1]++`, prefix sum, `ctr[key]++`) produce -/
def bucket {α : Type} (n : Nat) (l : List (Nat × α)) : List (List α) :=
  (List.range n).map fun k => (l.filter (fun e => e.1 == k)).map (·.2)

def cooToCsr (A : Coo K) : Csr K :=
  ⟨A.nRows, A.nCols, bucket A.nRows (A.ents.map fun (i, j, v) => (i, (j, v)))⟩
def cooToCsc (A : Coo K) : Csc K :=
  ⟨A.nRows, A.nCols, bucket A.nCols (A.ents.map fun (i, j, v) => (j, (i, v)))⟩
def csrToCoo (A : Csr K) : Coo K := ⟨A.nRows, A.nCols, A.entries⟩
def cscToCoo (A : Csc K) : Coo K := ⟨A.nRows, A.nCols, A.entries⟩
def csrToCsc (A : Csr K) : Csc K :=
  ⟨A.nRows, A.nCols, bucket A.nCols (A.entries.map fun (i, j, v) => (j, (i, v)))⟩
def cscToCsr (A : Csc K) : Csr K :=
  ⟨A.nRows, A.nCols, bucket A.nRows (A.entries.map fun (i, j, v) => (i, (j, v)))⟩

/-! ### transposes (matrix.cpp:134-175): same arrays, roles and dimensions exchanged -/

def Coo.transpose (A : Coo K) : Coo K := ⟨A.nCols, A.nRows, A.ents.map fun (i, j, v) => (j, i, v)⟩
/-- CSR arrays read as CSC of the transpose, then `to_CSR` -/
def Csr.transpose (A : Csr K) : Csr K := cscToCsr ⟨A.nCols, A.nRows, A.rows⟩
def Csc.transpose (A : Csc K) : Csc K := csrToCsc ⟨A.nCols, A.nRows, A.cols⟩

/-! ### sort, move_diag, remove_duplicates -/

/-- stable insertion sort by key: `x` is inserted in front of the first element whose key is not
    smaller, so elements with equal keys keep their original order (the C++ uses `std::sort`, whose
    order among equal keys is unspecified; comparisons with the implementation canonicalise ties) -/
def insertBy {α : Type} (key : α → Nat) (x : α) : List α → List α
  | [] => [x]
  | y :: ys => if key x ≤ key y then x :: y :: ys else y :: insertBy key x ys
def sortBy {α : Type} (key : α → Nat) (l : List α) : List α := l.foldr (insertBy key) []

def Csr.sort (A : Csr K) : Csr K := { A with rows := A.rows.map (sortBy (·.1)) }
def Csc.sort (A : Csc K) : Csc K := { A with cols := A.cols.map (sortBy (·.1)) }
/-- COO: by row, then column -/
def Coo.sort (A : Coo K) : Coo K :=
  { A with ents := sortBy (·.1) (sortBy (·.2.1) A.ents) }

/-- move the first entry with index `d` to the front, keeping the order of the others -/
def moveFront (d : Nat) (row : List (Nat × K)) : List (Nat × K) :=
  match row.find? (fun e => e.1 == d) with
  | some e => e :: row.eraseP (fun e => e.1 == d)
  | none => row

def Csr.moveDiag (A : Csr K) : Csr K :=
  { A with rows := A.rows.zipIdx.map fun (row, i) => moveFront i row }
def Csc.moveDiag (A : Csc K) : Csc K :=
  { A with cols := A.cols.zipIdx.map fun (col, j) => moveFront j col }

/-- maximal runs of consecutive entries with the same row -/
def rowRuns : List (Entry K) → List (List (Entry K))
  | [] => []
  | e :: rest =>
    match rowRuns rest with
    | (f :: run) :: tl => if e.1 == f.1 then (e :: f :: run) :: tl else [e] :: (f :: run) :: tl
    | _ => [[e]]

/-- COO `move_diag` (matrix.cpp:682-720): after sorting, inside every run of one row each
    diagonal entry met is rotated to the front of the run, so the diagonal entries end up first,
    in reverse order of appearance, followed by the others in order -/
def Coo.moveDiag (A : Coo K) : Coo K :=
  { A with ents := (rowRuns (A.sort).ents).flatMap fun run =>
      (run.filter fun e => e.1 == e.2.1).reverse ++ run.filter fun e => !(e.1 == e.2.1) }

/-- merge adjacent entries with equal index (input sorted), summing their values -/
def mergeAdj [Add K] : List (Nat × K) → List (Nat × K)
  | [] => []
  | (j, v) :: rest =>
    match mergeAdj rest with
    | (j', v') :: tl => if j == j' then (j, v + v') :: tl else (j, v) :: (j', v') :: tl
    | [] => [(j, v)]

/-- CSR/CSC `remove_duplicates`: sort, merge, and drop merged entries that `tiny` says are below
    `zero_tol` (matrix.cpp:905-975) -/
def Csr.removeDuplicates [Add K] (tiny : K → Bool) (A : Csr K) : Csr K :=
  { A with rows := A.rows.map fun r => (mergeAdj (sortBy (·.1) r)).filter (fun e => !tiny e.2) }
def Csc.removeDuplicates [Add K] (tiny : K → Bool) (A : Csc K) : Csc K :=
  { A with cols := A.cols.map fun r => (mergeAdj (sortBy (·.1) r)).filter (fun e => !tiny e.2) }

def mergeAdjCoo [Add K] : List (Entry K) → List (Entry K)
  | [] => []
  | (i, j, v) :: rest =>
    match mergeAdjCoo rest with
    | (i', j', v') :: tl => if i == i' && j == j' then (i, j, v + v') :: tl else (i, j, v) :: (i', j', v') :: tl
    | [] => [(i, j, v)]

/-- COO `remove_duplicates`: sort, merge; nothing is dropped -/
def Coo.removeDuplicates [Add K] (A : Coo K) : Coo K :=
  { A with ents := mergeAdjCoo (A.sort).ents }

/-! ### sums (add.cpp) -/

def zipRows (a b : List (List (Nat × K))) : List (List (Nat × K)) :=
  (List.range a.length).map fun i => a.getD i [] ++ b.getD i []

/-- `CSRMatrix::add` / `add_append`: rows concatenated, sorted, duplicates merged on request -/
def Csr.add [Add K] (tiny : K → Bool) (A B : Csr K) (removeDup : Bool := true) : Csr K :=
  let C : Csr K := ⟨A.nRows, A.nCols, zipRows A.rows B.rows⟩
  if removeDup then C.removeDuplicates tiny else C.sort

def Csr.subtract [Add K] [Neg K] (tiny : K → Bool) (A B : Csr K) : Csr K :=
  let nB := B.rows.map fun r => r.map fun (j, v) => (j, -v)
  (⟨A.nRows, A.nCols, zipRows A.rows nB⟩ : Csr K).removeDuplicates tiny

/-! ### dense image (specification side) -/

/-- sum of the stored values at `(i, j)`: the operator a sparse structure represents -/
def denE [Add K] [Zero K] (es : List (Entry K)) (i j : Nat) : K :=
  ((es.filter fun e => e.1 == i && e.2.1 == j).map (·.2.2)).sum

def Coo.den [Add K] [Zero K] (A : Coo K) := denE A.ents
def Csr.den [Add K] [Zero K] (A : Csr K) := denE A.entries
def Csc.den [Add K] [Zero K] (A : Csc K) := denE A.entries

/-- well-formedness: the right number of rows, indices in range -/
def Coo.WF (A : Coo K) : Bool := A.ents.all fun e => e.1 < A.nRows && e.2.1 < A.nCols
def Csr.WF (A : Csr K) : Bool :=
  A.rows.length == A.nRows && A.rows.all fun r => r.all fun e => e.1 < A.nCols
def Csc.WF (A : Csc K) : Bool :=
  A.cols.length == A.nCols && A.cols.all fun r => r.all fun e => e.1 < A.nRows

end Raptor.Sparse
