import RaptorModel.Model.Relax
/-!
# One multigrid cycle and the solve loop (`multilevel.hpp:121-250`, `par_multilevel.hpp:335-560`)

A hierarchy is a list of levels `(A, P)` followed by the coarsest operator. The cycle is a pure
function of `(x, b)` and the hierarchy: pre-relax, residual, restrict with `Pᵀ`, recurse from a
zero coarse guess, prolong-and-add, post-relax; on the coarsest level a dense solve.
The smoother and the coarse solver are parameters (`relax A b x`, `coarse b`).
-/
namespace Raptor.Cycle
open Raptor.Relax
variable {K : Type}

abbrev Rows (K : Type) := List (List (Nat × K))

/-- `A x` row by row, accumulated left to right from 0 -/
def mulVec [Add K] [Mul K] [Zero K] (A : Rows K) (x : List K) : List K := A.map fun row => addDot row x 0
/-- `b − A x` as the CSR residual kernel computes it (`val = b[i]; val -= a*x[col]`) -/
def residual [Sub K] [Mul K] [Zero K] (A : Rows K) (x b : List K) : List K :=
  A.zipIdx.map fun (row, i) => subDot row x (at' b i)
/-- `Pᵀ r` : for every entry `(i, j, p)` of `P` in storage order, `out[j] += p * r[i]` -/
def mulVecT [Add K] [Mul K] [Zero K] (P : Rows K) (nc : Nat) (r : List K) : List K :=
  P.zipIdx.foldl (fun out ri => ri.1.foldl (fun out e => out.modify e.1 (· + e.2 * at' r ri.2)) out)
    (List.replicate nc 0)
/-- `x + P xc` as `mult_append` computes it (`b[i] += Σ_j p_ij xc_j`, row sum first) -/
def addMul [Add K] [Mul K] [Zero K] (P : Rows K) (xc x : List K) : List K :=
  P.zipIdx.map fun (row, i) => at' x i + addDot row xc 0

structure Level (K : Type) where
  A : Rows K
  P : Rows K
  nc : Nat                -- number of coarse unknowns (columns of P)

/-- one cycle on the levels `lv` with coarsest solve `coarse` -/
def cycle [Add K] [Sub K] [Mul K] [Zero K]
    (relax : Rows K → List K → List K → List K) (coarse : List K → List K) :
    List (Level K) → List K → List K → List K
  | [], _, b => coarse b
  | l :: rest, x, b =>
    let x1 := relax l.A b x
    let r := residual l.A x1 b
    let bc := mulVecT l.P l.nc r
    let xc := cycle relax coarse rest (List.replicate l.nc 0) bc
    let x2 := addMul l.P xc x1
    relax l.A b x2

/-! ### solve loop: stop logic over a scalar with a decidable order -/

structure SolveOut (K : Type) where
  x : List K
  iters : Nat
  hist : List K            -- residual history, oldest first
deriving Repr

/-- `while (r > tol && iter < max) { cycle; iter++; r = relres }` with `relres` a parameter -/
def solveLoop [LT K] [DecidableLT K] (cyc : List K → List K) (relres : List K → K) (tol : K) :
    Nat → List K → Nat → List K → SolveOut K
  | 0, x, it, hist => { x := x, iters := it, hist := hist }
  | fuel+1, x, it, hist =>
    if tol < relres x then
      let x' := cyc x
      solveLoop cyc relres tol fuel x' (it + 1) (hist ++ [relres x'])
    else { x := x, iters := it, hist := hist }

def solve [LT K] [DecidableLT K] (cyc : List K → List K) (relres : List K → K) (tol : K) (maxIter : Nat)
    (x0 : List K) : SolveOut K :=
  solveLoop cyc relres tol maxIter x0 0 [relres x0]

end Raptor.Cycle
