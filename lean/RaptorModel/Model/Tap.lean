import RaptorModel.Model.Comm
/-!
# Node-aware (topology-aware) forward exchange as pure data movement
(`TAPComm::initialize/complete`, comm_pkg.hpp:1508-1600)

A `TAPComm` is four standard sub-packages: `L` (fully local, on-node), `S` (on-node gather before
the inter-node step; absent in the two-step variant), `G` (inter-node) and `R` (on-node
redistribution of what arrived). Each sub-package is, per rank, a list of send messages
`(peer, indices into the source buffer)` and receive messages `(peer, count)`; received messages
are unpacked contiguously in message order. `L` and `R` carry, for every received entry, its
position in the final buffer. Peers are world ranks (the harness translates on-node ranks).
-/
namespace Raptor.Tap

structure SubPkg where
  send : List (Nat × List Nat) := []
  recv : List (Nat × Nat) := []
  recvIdx : List Nat := []
deriving Repr, DecidableEq, Inhabited

structure TapPkg where
  np : Nat
  hasS : Bool
  (L S G R : List SubPkg)        -- one entry per rank
  recvSize : List Nat
deriving Repr

variable {α : Type}

/-- the message `p → r` of one sub-package: `p`'s values at the indices of its send message to `r` -/
def subMsg (d : α) (pk : List SubPkg) (vals : List (List α)) (p r : Nat) : List α :=
  match (pk.getD p default).send.find? (fun m => m.1 == r) with
  | some m => m.2.map fun i => (vals.getD p []).getD i d
  | none => []

/-- receive buffer of rank `r` after one sub-package exchange -/
def subExchange (d : α) (pk : List SubPkg) (vals : List (List α)) (r : Nat) : List α :=
  (pk.getD r default).recv.flatMap fun m => subMsg d pk vals m.1 r

/-- all ranks' receive buffers -/
def subExchangeAll (d : α) (np : Nat) (pk : List SubPkg) (vals : List (List α)) : List (List α) :=
  (List.range np).map (subExchange d pk vals)

/-- write `vals[k]` at position `idx[k]` of `buf` -/
def scatter (buf : List (Option α)) (idx : List Nat) (vals : List α) : List (Option α) :=
  (idx.zip vals).foldl (fun b iv => b.set iv.1 (some iv.2)) buf

/-- forward node-aware exchange: `L ∥ (S → G → R)` (or `G → R` in the two-step variant), then both
    results are scattered into the final buffer of size `recv_size` -/
def tapForward (d : α) (T : TapPkg) (x : List (List α)) (r : Nat) : List (Option α) :=
  let sbuf := if T.hasS then subExchangeAll d T.np T.S x else x
  let gbuf := subExchangeAll d T.np T.G sbuf
  let rbuf := subExchange d T.R gbuf r
  let lbuf := subExchange d T.L x r
  scatter (scatter (List.replicate (T.recvSize.getD r 0) none) (T.R.getD r default).recvIdx rbuf)
    (T.L.getD r default).recvIdx lbuf

/-- every receive message has a matching send message of the announced length and vice versa
    (otherwise the real exchange would block or leave a message behind) -/
def subConsistent (np : Nat) (pk : List SubPkg) : Bool :=
  (List.range np).all fun r =>
    let me := pk.getD r default
    me.recv.all (fun m =>
      match (pk.getD m.1 default).send.find? (fun s => s.1 == r) with
      | some s => s.2.length == m.2
      | none => false) &&
    me.send.all (fun s => (pk.getD s.1 default).recv.any (fun m => m.1 == r)) &&
    (me.recv.map (·.1)).eraseDups.length == me.recv.length &&
    (me.send.map (·.1)).eraseDups.length == me.send.length

/-- identity payload: every owned entry tagged with its global index -/
def ids (fc : List Nat) (np : Nat) : List (List Nat) :=
  (List.range np).map fun p => (List.range (fc.getD (p+1) 0 - fc.getD p 0)).map fun i => fc.getD p 0 + i

/-- the decidable certificate evaluated on the dumped packages of one configuration -/
def certificate (fc : List Nat) (off : List (List Nat)) (T : TapPkg) : Bool :=
  subConsistent T.np T.L && (!T.hasS || subConsistent T.np T.S) && subConsistent T.np T.G &&
  subConsistent T.np T.R &&
  (List.range T.np).all fun r => tapForward 0 T (ids fc T.np) r == (off.getD r []).map some

/-- the routing check with the identity payload shifted by one: tag 0 can then only come from the
    default, i.e. from a send index that is out of range (the plain certificate cannot tell such an
    index from a request for global index 0); the driver evaluates both -/
def routesShifted (fc : List Nat) (off : List (List Nat)) (T : TapPkg) : Bool :=
  (List.range T.np).all fun r =>
    tapForward 0 T ((ids fc T.np).map (List.map (· + 1))) r == (off.getD r []).map (fun c => some (c + 1))

end Raptor.Tap
