import RaptorModel.Model.Basic
/-!
# Stencil matrices on a regular grid (`raptor/gallery/stencil.cpp`, `par_stencil.cpp`)

Grid points are numbered row-major (last axis fastest). The stencil is an array of `3^dim` weights
in the same order over offsets `-1, 0, 1` per axis. Zero boundary conditions: couplings to points
outside the grid do not exist.
-/
namespace Raptor.Stencil

/-- coordinates of point `p` on a grid with the given extents (row-major, last axis fastest) -/
def coords : List Nat → Nat → List Nat
  | [], _ => []
  | _ :: rest, p =>
    let stride := rest.foldl (· * ·) 1
    (p / stride) :: coords rest (p % stride)

/-- inverse: index of the point with the given coordinates -/
def index : List Nat → List Nat → Nat
  | [], _ => 0
  | _ :: rest, c :: cs => c * rest.foldl (· * ·) 1 + index rest cs
  | _ :: _, [] => 0

def numPoints (grid : List Nat) : Nat := grid.foldl (· * ·) 1

/-- position in the stencil array of an offset vector with entries in `{-1,0,1}` -/
def stencilPos : List Int → Nat
  | [] => 0
  | o :: os => (o + 1).toNat * 3 ^ os.length + stencilPos os

/-- the weight coupling grid point `p` to grid point `q`: the stencil weight of the offset between
    them when every component of the offset is in `{-1,0,1}`, nothing otherwise -/
def entry {K : Type} (grid : List Nat) (stencil : List K) (p q : Nat) : Option K :=
  let cp := coords grid p; let cq := coords grid q
  let off := (cp.zip cq).map fun c => (c.2 : Int) - (c.1 : Int)
  if off.all (fun o => -1 ≤ o && o ≤ 1) then stencil[stencilPos off]? else none

/-- all entries of the stencil matrix, row by row, skipping weights that `zero` flags -/
def matrix {K : Type} (zero : K → Bool) (grid : List Nat) (stencil : List K) : List (Nat × Nat × K) :=
  let n := numPoints grid
  (List.range n).flatMap fun p => (List.range n).filterMap fun q =>
    match entry grid stencil p q with
    | some w => if zero w then none else some (p, q, w)
    | none => none

end Raptor.Stencil
