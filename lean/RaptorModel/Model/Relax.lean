import RaptorModel.Model.Basic
/-!
# Relaxation sweeps (`raptor/util/linalg/relax.cpp`, `par_relax.cpp`)

A matrix is a list of rows, each a list of `(col, value)` in storage order. The sequential SOR/SSOR
and all distributed routines expect the diagonal entry first in its row (the distributed routines
establish that layout themselves: sort + move_diag). Vectors are lists. Scalars are generic through
core operator classes; the operation order is the one of the C++ (so that the `Float` instance
reproduces the code's rounding).
-/
namespace Raptor.Relax
variable {K : Type}

def at' [Zero K] (x : List K) (j : Nat) : K := x.getD j 0

/-- `Σ a_ij * x_j` accumulated left to right starting from `init`, subtracting: `acc -= a * x[col]` -/
def subDot [Sub K] [Mul K] [Zero K] (row : List (Nat × K)) (x : List K) (init : K) : K :=
  row.foldl (fun acc e => acc - e.2 * at' x e.1) init
/-- `row_sum += a * x[col]` starting from `init` -/
def addDot [Add K] [Mul K] [Zero K] (row : List (Nat × K)) (x : List K) (init : K) : K :=
  row.foldl (fun acc e => acc + e.2 * at' x e.1) init

/-! ### sequential (relax.cpp) -/

/-- one Jacobi sweep: the diagonal is searched in the row (last match wins), `big d` is the guard against a zero diagonal (`d != 0`; `|d| > zero_tol` before fix 237c789) -/
def jacobiSweep [Add K] [Sub K] [Mul K] [Div K] [Zero K] [One K] (big : K → Bool)
    (rows : List (List (Nat × K))) (b x : List K) (ω : K) : List K :=
  rows.zipIdx.map fun (row, i) =>
    if row.isEmpty then at' x i
    else
      let diag := (row.filter fun e => e.1 == i).foldl (fun _ e => e.2) 0
      let rowSum := addDot (row.filter fun e => e.1 != i) x 0
      if big diag then ((1 - ω) * at' x i) + (ω * ((at' b i - rowSum) / diag)) else at' x i

/-- update of row `i` in a Gauss–Seidel type sweep, diagonal first in the row:
    `x_i ← (ω/d) (b_i − Σ_{j≠i} a_ij x_j) + (1−ω) x_i` with the current `x` (relax.cpp:58-75).
    An empty row sets `x_i := b_i` (the code assigns before it tests). -/
def sorRow [Add K] [Sub K] [Mul K] [Div K] [Zero K] [One K]
    (row : List (Nat × K)) (b : List K) (ω : K) (x : List K) (i : Nat) : List K :=
  match row with
  | [] => x.set i (at' b i)
  | d :: rest =>
    let s := subDot rest x (at' b i)
    x.set i ((ω / d.2) * s + (1 - ω) * at' x i)

def sorForward [Add K] [Sub K] [Mul K] [Div K] [Zero K] [One K]
    (rows : List (List (Nat × K))) (b : List K) (ω : K) (x : List K) : List K :=
  rows.zipIdx.foldl (fun x ri => sorRow ri.1 b ω x ri.2) x
def sorBackward [Add K] [Sub K] [Mul K] [Div K] [Zero K] [One K]
    (rows : List (List (Nat × K))) (b : List K) (ω : K) (x : List K) : List K :=
  rows.zipIdx.reverse.foldl (fun x ri => sorRow ri.1 b ω x ri.2) x

def iter {α : Type} (f : α → α) : Nat → α → α
  | 0, a => a
  | n+1, a => iter f n (f a)

def jacobi [Add K] [Sub K] [Mul K] [Div K] [Zero K] [One K] (big : K → Bool) (rows : List (List (Nat × K)))
    (b : List K) (ω : K) (sweeps : Nat) (x : List K) : List K := iter (jacobiSweep big rows b · ω) sweeps x
def sor [Add K] [Sub K] [Mul K] [Div K] [Zero K] [One K] (rows : List (List (Nat × K)))
    (b : List K) (ω : K) (sweeps : Nat) (x : List K) : List K := iter (sorForward rows b ω) sweeps x
def ssor [Add K] [Sub K] [Mul K] [Div K] [Zero K] [One K] (rows : List (List (Nat × K)))
    (b : List K) (ω : K) (sweeps : Nat) (x : List K) : List K :=
  iter (fun x => sorBackward rows b ω (sorForward rows b ω x)) sweeps x

/-! ### distributed, one rank's part (par_relax.cpp): `on` holds the local block (diagonal first),
`off` the off-process block whose columns index the halo `dist`, frozen for the whole sweep -/

/-- `x_i ← (1−ω) x_i + ω (b_i − Σ_on a_ij x_j − Σ_off a_ij dist_j) / d` -/
def hybridRow [Add K] [Sub K] [Mul K] [Div K] [Zero K] [One K]
    (onRow offRow : List (Nat × K)) (b dist : List K) (ω : K) (x : List K) (i : Nat) : List K :=
  match onRow with
  | [] => x
  | d :: rest =>
    if d.1 != i then x else
    let s := addDot offRow dist (addDot rest x 0)
    x.set i (((1 - ω) * at' x i) + (ω * ((at' b i - s) / d.2)))

def hybridForward [Add K] [Sub K] [Mul K] [Div K] [Zero K] [One K]
    (on off : List (List (Nat × K))) (b dist : List K) (ω : K) (x : List K) : List K :=
  (on.zip off).zipIdx.foldl (fun x ri => hybridRow ri.1.1 ri.1.2 b dist ω x ri.2) x
def hybridBackward [Add K] [Sub K] [Mul K] [Div K] [Zero K] [One K]
    (on off : List (List (Nat × K))) (b dist : List K) (ω : K) (x : List K) : List K :=
  (on.zip off).zipIdx.reverse.foldl (fun x ri => hybridRow ri.1.1 ri.1.2 b dist ω x ri.2) x

/-- distributed Jacobi sweep on one rank -/
def hybridJacobi [Add K] [Sub K] [Mul K] [Div K] [Zero K] [One K] (big : K → Bool)
    (on off : List (List (Nat × K))) (b dist : List K) (ω : K) (x : List K) : List K :=
  (on.zip off).zipIdx.map fun (r, i) =>
    match r.1 with
    | [] => at' x i
    | d :: rest =>
      let s := addDot r.2 dist (addDot rest x 0)
      if big d.2 then ((1 - ω) * at' x i) + (ω * ((at' b i - s) / d.2)) else at' x i

/-! ### specification side -/

/-- residual of row `i` with all unknowns taken from `x` (local) and `dist` (halo):
    `b_i − Σ a_ij x_j` over the whole row including the diagonal -/
def rowResidual [Add K] [Sub K] [Mul K] [Zero K] (onRow offRow : List (Nat × K)) (b x dist : List K) (i : Nat) : K :=
  at' b i - addDot offRow dist (addDot onRow x 0)

end Raptor.Relax
