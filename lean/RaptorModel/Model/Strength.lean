import RaptorModel.Model.Basic
/-!
# Strength of connection (`raptor/strength.cpp`; the distributed `par_strength.cpp` must return the
same global matrix). Rows are sorted with the diagonal entry first (the routines establish that
layout). `big` is the sentinel for "no extreme yet" (`DBL_MAX`; `RAND_MAX` before fix f621273); comparisons are strict.
-/
namespace Raptor.Strength
variable {K : Type}

/-- extreme off-diagonal of sign opposite to the diagonal: max (from `-big`) for a negative
    diagonal, min (from `big`) otherwise, over the entries that pass `keep` -/
def rowScale [LT K] [DecidableLT K] [Neg K] (negDiag : Bool) (big : K) (offs : List K) : K :=
  if negDiag then offs.foldl (fun m v => if m < v then v else m) (-big)
  else offs.foldl (fun m v => if v < m then v else m) big

/-- does an off-diagonal value pass the threshold test of a row with this diagonal sign -/
def passes [LT K] [DecidableLT K] (negDiag : Bool) (threshold v : K) : Bool :=
  if negDiag then threshold < v else v < threshold

/-- split a row into its diagonal entry (if stored first) and the rest -/
def splitDiag [Zero K] (i : Nat) (row : List (Nat × K)) : Option (Nat × K) × K × List (Nat × K) :=
  match row with
  | (c, d) :: rest => if c == i then (some (c, d), d, rest) else (none, 0, row)
  | [] => (none, 0, [])

/-- classical strength of one row; `sameVar j` restricts to columns of the same variable -/
def classicalRow [LT K] [DecidableLT K] [Neg K] [Mul K] [Zero K] (big θ : K) (i : Nat)
    (sameVar : Nat → Bool) (row : List (Nat × K)) : List (Nat × K) :=
  if row.isEmpty then [] else
  let (dEntry, diag, rest) := splitDiag i row
  let neg := decide (diag < 0)
  let cand := rest.filter fun e => sameVar e.1
  let threshold := rowScale neg big (cand.map (·.2)) * θ
  dEntry.toList ++ cand.filter fun e => passes neg threshold e.2

def classical [LT K] [DecidableLT K] [Neg K] [Mul K] [Zero K] (big θ : K) (numVars : Nat)
    (rows : List (List (Nat × K))) : List (List (Nat × K)) :=
  rows.zipIdx.map fun (row, i) =>
    classicalRow big θ i (fun j => numVars ≤ 1 || (i % numVars == j % numVars)) row

/-- per-row data of the symmetric measure: sign of the diagonal and threshold `row_scale * θ` -/
def rowInfo [LT K] [DecidableLT K] [Neg K] [Mul K] [Zero K] (big θ : K) (i : Nat) (row : List (Nat × K)) : Bool × K :=
  let (_, diag, rest) := splitDiag i row
  let neg := decide (diag < 0)
  (neg, rowScale neg big (rest.map (·.2)) * θ)

/-- symmetric strength: an entry is kept when it passes in its row or in its column's row -/
def symmetric [LT K] [DecidableLT K] [Neg K] [Mul K] [Zero K] (big θ : K)
    (rows : List (List (Nat × K))) : List (List (Nat × K)) :=
  let infos := rows.zipIdx.map fun (row, i) => if row.isEmpty then (false, (0 : K)) else rowInfo big θ i row
  rows.zipIdx.map fun (row, i) =>
    if row.isEmpty then [] else
    let (dEntry, _, rest) := splitDiag i row
    let mine := infos.getD i (false, 0)
    dEntry.toList ++ rest.filter fun e =>
      let other := infos.getD e.1 (false, 0)
      passes mine.1 mine.2 e.2 || passes other.1 other.2 e.2

end Raptor.Strength
