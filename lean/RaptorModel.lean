-- This module serves as the root of the `RaptorModel` library.
-- Import modules here that should be built as part of the library.
import RaptorModel.Basic
