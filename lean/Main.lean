import RaptorModel.Driver.C18
import RaptorModel.Driver.C07
import RaptorModel.Driver.C02
import RaptorModel.Driver.C06
import RaptorModel.Driver.C03
import RaptorModel.Driver.C04
import RaptorModel.Driver.C05
import RaptorModel.Driver.C11
import RaptorModel.Driver.Amg
import RaptorModel.Driver.C17
import RaptorModel.Driver.C14
import RaptorModel.Driver.C13
import RaptorModel.Driver.C12
import RaptorModel.Driver.C15
import RaptorModel.Driver.C16
import RaptorModel.Driver.C19
import RaptorModel.Driver.C20
/-!
`rmdrv <casefile>` — reads one case per line (`<prop> <op> <int> <int> ...`), runs the executable
model and the decidable specification predicates, prints one verdict line per case:
`<lineno> <prop> <op> <status> path=<..> feats=<..> [info=<..>]`.
-/
open Raptor Raptor.Driver

def dispatch (prop op : String) (a : Array Int) : Verdict :=
  match prop with
  | "C18" => C18.run op a
  | "C07" => C07.run op a
  | "C02" => C02.run op a
  | "C06" => C06.run op a
  | "C03" => C03.run op a
  | "C04" => C04.run op a
  | "C05" => C05.run op a
  | "C11" => C11.run op a
  | "C09" => Amg.run prop op a
  | "C08" => Amg.run08 op a
  | "C17" => C17.run op a
  | "C14" => C14.run op a
  | "C13" => C13.run op a
  | "C12" => C12.run op a
  | "C15" => C15.run op a
  | "C16" => C16.run op a
  | "C19" => C19.run op a
  | "C20" => C20.run op a
  | "C01" => Amg.run prop op a
  | "C10" => Amg.run prop op a
  | _ => badCase s!"unknown property {prop}"

def parseLine (line : String) : Option (String × String × Array Int) :=
  match (line.trimAscii.toString.splitOn " ").filter (· ≠ "") with
  | prop :: op :: rest =>
    let ints := rest.toArray.map String.toInt?
    if ints.any Option.isNone then none
    else some (prop, op, ints.map (·.getD 0))
  | _ => none

partial def loop (h : IO.FS.Stream) (n : Nat) : IO Unit := do
  let line ← h.getLine
  if line.isEmpty then return ()
  if line.trimAscii.toString.isEmpty || line.startsWith "#" then
    loop h (n+1)
  else
    let out := match parseLine line with
      | some (prop, op, a) => s!"{n} {prop} {op} " ++ (dispatch prop op a).render
      | none => s!"{n} ? ? " ++ (badCase "unparsable line").render
    IO.println out
    loop h (n+1)

def main (args : List String) : IO Unit := do
  match args with
  | [] => loop (← IO.getStdin) 1
  | f :: _ =>
    let h ← IO.FS.Handle.mk f IO.FS.Mode.read
    loop (IO.FS.Stream.ofHandle h) 1
