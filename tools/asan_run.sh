#!/bin/bash
# developer aid: run a harness under ASan with np ranks: tools/asan_run.sh h_c03 2 [args...]
H=$1; NP=$2; shift 2
A=$(cd /verif/tools && python3 -c "import vlib; print(vlib.build_repo(print, asan=True)[0])" | tail -1)
mpicxx -std=c++11 -O1 -g -fPIC -DUSING_MPI -I/repo -I/repo/raptor -w -I/verif/harness -fsanitize=address -fno-omit-frame-pointer /verif/harness/$H.cpp $A/libraptor.a -llapack -lblas -o /tmp/${H}_asan || exit 1
cd /tmp && ASAN_OPTIONS=detect_leaks=0 timeout 300 mpirun --allow-run-as-root --oversubscribe -n $NP /tmp/${H}_asan /tmp/${H}_asan.cases "$@" 2>&1 | grep -A18 "ERROR: Addr" | head -${LINES_OUT:-45}
cat /tmp/${H}_asan.cases.progress
