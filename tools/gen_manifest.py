#!/usr/bin/env python3
"""Writes MANIFEST.json from tools/props.py (claimed checks) and tools/manifest_notes.py."""
import json, os, sys
sys.path.insert(0, os.path.dirname(os.path.abspath(__file__)))
import props as P
import manifest_notes as N

ALL = [f"C{i:02d}" for i in range(1, 21)]
checks = []
for pid in ALL:
    if pid not in P.PROPS:
        continue
    n = N.NOTES[pid]
    checks.append({
        "property_id": pid,
        "quick_cmd": f"python3 tools/check.py {pid} --tier quick",
        "thorough_cmd": f"python3 tools/check.py {pid} --tier thorough",
        "evidence_file": f"/verif/evidence/{pid}.json",
        "replay_cmd_template": f"python3 tools/check.py {pid} --replay {{path}}",
        "engine": "lean4-proof+correspondence",
        "level_claimed": {"category": "proof", "text": n["text"], "design_ref": n.get("design_ref", f"DESIGN.md §8 {pid}")},
        "level_note": n["note"],
        "technique": n["technique"],
    })
m = {
    "version": 1,
    "setup_cmd": "python3 tools/check.py --setup",
    "hooks": {
        "guard": "RAPTOR_LIBRARY_RAPTOR_VERIF",
        "enable": "every check compiles /repo's working tree with -DRAPTOR_LIBRARY_RAPTOR_VERIF (tools/vlib.py CXXFLAGS); no hook commits exist so far",
        "baseline_off_cmd": "cd /repo && cmake --build _build -- -k 0 ; OMPI_ALLOW_RUN_AS_ROOT=1 OMPI_ALLOW_RUN_AS_ROOT_CONFIRM=1 OMPI_MCA_rmaps_base_oversubscribe=1 ctest --test-dir /repo/_build -j8 --timeout 900",
        "source_commits": [],
        "add_only": True,
    },
    "engines": [{
        "name": "lean4-proof+correspondence", "path": "/verif/lean + /verif/harness + /verif/tools/check.py",
        "serves_properties": [c["property_id"] for c in checks],
        "kind_free_text": "Lean 4 theorems about executable models (lake build + #print axioms audit on every run); models tied to /repo by C++/MPI correspondence harnesses that call the real classes and by the compiled Lean driver rmdrv",
    }],
    "checks": checks,
    "notes": "Fix commits in /repo are listed in /verif/known_findings.json ('fixed'); open findings under 'findings'.",
    "not_applicable": [{"property_id": pid, "reason": N.NOT_YET.get(pid, "check not built yet at this commit (planned, see DESIGN.md §8)")}
                       for pid in ALL if pid not in P.PROPS],
}
json.dump(m, open(os.path.join(os.path.dirname(os.path.dirname(os.path.abspath(__file__))), "MANIFEST.json"), "w"), indent=1)
print(f"{len(checks)} checks, {len(m['not_applicable'])} not claimed")
