"""Shared machinery for the /verif checks: rebuild libraptor from /repo's working tree, build a
harness, build the Lean project, audit axioms, run harness + driver, write evidence."""
import fcntl, glob, hashlib, json, os, re, shutil, subprocess, sys, time

VERIF = os.path.dirname(os.path.dirname(os.path.abspath(__file__)))
REPO = os.environ.get("VERIF_REPO", "/repo")
CACHE = os.path.join(VERIF, ".cache")
WORK = os.path.join(VERIF, ".work")
LEAN = os.path.join(VERIF, "lean")
GUARD = "RAPTOR_LIBRARY_RAPTOR_VERIF"
NCPU = os.cpu_count() or 4
ALLOWED_AXIOMS = {"propext", "Classical.choice", "Quot.sound"}
FORBIDDEN = re.compile(r"\b(sorry|admit|native_decide|bv_decide|implemented_by|unsafe)\b|^\s*axiom\s|maxHeartbeats\s+0")


def sh(cmd, **kw):
    return subprocess.run(cmd, shell=isinstance(cmd, str), stdout=subprocess.PIPE, stderr=subprocess.STDOUT,
                          text=True, **kw)


class Lock:
    def __init__(self, name):
        os.makedirs(CACHE, exist_ok=True)
        self.path = os.path.join(CACHE, name + ".lock")

    def __enter__(self):
        self.f = open(self.path, "w")
        fcntl.flock(self.f, fcntl.LOCK_EX)

    def __exit__(self, *a):
        fcntl.flock(self.f, fcntl.LOCK_UN)
        self.f.close()


def repo_sources():
    srcs = []
    for root, dirs, files in os.walk(os.path.join(REPO, "raptor")):
        if "/tests" in root or root.endswith("/tests") or "/external" in root or root.endswith("/external"):
            continue
        for f in files:
            if f.endswith((".cpp", ".hpp", ".h")):
                srcs.append(os.path.join(root, f))
    return sorted(srcs)


def repo_hash():
    h = hashlib.sha256()
    for p in repo_sources():
        h.update(p.encode())
        with open(p, "rb") as f:
            h.update(f.read())
    return h.hexdigest()[:16]


CXXFLAGS = f"-std=c++11 -O1 -g -fPIC -DUSING_MPI -D{GUARD} -I{REPO} -I{REPO}/raptor -w"


ASAN = "-fsanitize=address -fno-omit-frame-pointer"


def build_repo(log, asan=False):
    """compile every non-test, non-external .cpp under /repo/raptor from the current working tree"""
    key = repo_hash()
    d = os.path.join(CACHE, ("asan-" if asan else "lib-") + key)
    lib = os.path.join(d, "libraptor.a")
    with Lock("build-asan" if asan else "build"):
        if os.path.exists(lib):
            return d, key, 0.0
        t0 = time.time()
        # keep the cache small: remove older library builds
        others = sorted((o for o in glob.glob(os.path.join(CACHE, "asan-*" if asan else "lib-*")) if o != d),
                        key=os.path.getmtime, reverse=True)
        for old in others[2:]:
            shutil.rmtree(old, ignore_errors=True)
        os.makedirs(os.path.join(d, "obj"), exist_ok=True)
        cpps = [p for p in repo_sources() if p.endswith(".cpp") and not p.endswith("par_sparsify.cpp")
                and "/profiling/" not in p]
        jobs = []
        for c in cpps:
            o = os.path.join(d, "obj", hashlib.md5(c.encode()).hexdigest()[:10] + "_" + os.path.basename(c)[:-4] + ".o")
            jobs.append(f"mpicxx {CXXFLAGS} {ASAN if asan else ''} -c {c} -o {o}")
        with open(os.path.join(d, "jobs.txt"), "w") as f:
            f.write("\n".join(jobs) + "\n")
        r = sh(f"xargs -P{NCPU} -I{{}} sh -c '{{}}' < {d}/jobs.txt")
        if r.returncode != 0:
            log(r.stdout[-4000:])
            shutil.rmtree(d, ignore_errors=True)
            raise BuildError("libraptor does not compile from /repo's working tree:\n" + r.stdout[-3000:])
        r = sh(f"ar rcs {lib} {d}/obj/*.o")
        if r.returncode != 0:
            raise BuildError("ar failed: " + r.stdout)
        return d, key, time.time() - t0


class BuildError(Exception):
    pass


def build_harness(name, libdir, log, extra=""):
    src = os.path.join(VERIF, "harness", name + ".cpp")
    h = hashlib.sha256()
    for p in [src] + sorted(glob.glob(os.path.join(VERIF, "harness", "*.hpp"))):
        with open(p, "rb") as f:
            h.update(f.read())
    h.update(extra.encode())
    exe = os.path.join(libdir, f"{name}-{h.hexdigest()[:10]}")
    with Lock("harness-" + name):
        if os.path.exists(exe):
            return exe
        olds = sorted(glob.glob(os.path.join(libdir, name + "-*")), key=os.path.getmtime, reverse=True)
        for old in olds[3:]:
            os.remove(old)
        r = sh(f"mpicxx {CXXFLAGS} -I{VERIF}/harness {extra} {src} {libdir}/libraptor.a -llapack -lblas -o {exe}")
        if r.returncode != 0:
            raise BuildError(f"harness {name} does not compile against /repo's working tree:\n" + r.stdout[-3000:])
    return exe


def lake_build(targets, log):
    with Lock("lake"):
        t0 = time.time()
        r = sh(["lake", "build"] + targets, cwd=LEAN)
        return r.returncode == 0, r.stdout, time.time() - t0


def rmdrv():
    return os.path.join(LEAN, ".lake", "build", "bin", "rmdrv")


def strip_comments(src):
    # remove /- ... -/ (nested not handled beyond one level of docstrings) and -- comments
    out, i, depth = [], 0, 0
    while i < len(src):
        if src.startswith("/-", i):
            depth += 1; i += 2; continue
        if src.startswith("-/", i) and depth > 0:
            depth -= 1; i += 2; continue
        if depth == 0:
            if src.startswith("--", i):
                j = src.find("\n", i)
                i = len(src) if j < 0 else j
                continue
            out.append(src[i])
        elif src[i] == "\n":
            out.append("\n")
        i += 1
    return "".join(out)


def theorems_in(module_rel):
    """names of theorems declared in a Props file, with their namespace prefix"""
    path = os.path.join(LEAN, module_rel)
    src = strip_comments(open(path).read())
    ns, names = [], []
    for line in src.splitlines():
        m = re.match(r"\s*namespace\s+(\S+)", line)
        if m:
            ns.append(m.group(1)); continue
        m = re.match(r"\s*end\s+(\S+)", line)
        if m and ns and ns[-1] == m.group(1):
            ns.pop(); continue
        m = re.match(r"\s*(?:@\[[^\]]*\]\s*)?(?:private\s+|protected\s+)?theorem\s+([^\s:({\[]+)", line)
        if m:
            names.append(".".join(ns + [m.group(1)]))
    return names


def forbidden_tokens(files):
    hits = []
    for p in files:
        src = strip_comments(open(p).read())
        for n, line in enumerate(src.splitlines(), 1):
            if FORBIDDEN.search(line):
                hits.append(f"{os.path.relpath(p, VERIF)}:{n}: {line.strip()[:100]}")
    return hits


def lean_closure(module):
    """source files of the RaptorModel modules a module imports (transitively), itself included"""
    seen, todo = {}, [module]
    while todo:
        m = todo.pop()
        if m in seen or not m.startswith("RaptorModel"):
            continue
        p = os.path.join(LEAN, m.replace(".", "/") + ".lean")
        if not os.path.exists(p):
            continue
        seen[m] = p
        for line in open(p):
            mm = re.match(r"\s*import\s+(\S+)", line)
            if mm:
                todo.append(mm.group(1))
    return seen


def audit_axioms(module, theorems, log):
    """#print axioms for every property theorem; returns {theorem: [axioms]} (None = not found)"""
    os.makedirs(WORK, exist_ok=True)
    modules = [module] if isinstance(module, str) else list(module)
    f = os.path.join(WORK, f"audit_{modules[0].split('.')[-1]}_{os.getpid()}.lean")
    with open(f, "w") as fh:
        for m_ in modules:
            fh.write(f"import {m_}\n")
        for t in theorems:
            fh.write(f"#print axioms {t}\n")
    r = sh(["lake", "env", "lean", f], cwd=LEAN)
    os.remove(f)
    res = {t: None for t in theorems}
    out = r.stdout
    # "'name' depends on axioms: [a, b]"  or "'name' does not depend on any axioms"
    # theorem names may themselves contain primes: anchor on the fixed phrases
    for m in re.finditer(r"^'([^\n]+?)' depends on axioms: \[([^\]]*)\]", out, re.S | re.M):
        res[m.group(1)] = [a.strip() for a in m.group(2).replace("\n", " ").split(",") if a.strip()]
    for m in re.finditer(r"^'([^\n]+?)' does not depend on any axioms", out, re.M):
        res[m.group(1)] = []
    return res, out


def mpirun(exe, np, args, env=None, timeout=900):
    e = dict(os.environ)
    e.update({"ASAN_OPTIONS": "detect_leaks=0:abort_on_error=0:exitcode=99", "OMPI_ALLOW_RUN_AS_ROOT": "1", "OMPI_ALLOW_RUN_AS_ROOT_CONFIRM": "1",
              "OMPI_MCA_rmaps_base_oversubscribe": "1", "OMPI_MCA_btl_vader_single_copy_mechanism": "none",
              "OMPI_MCA_mpi_yield_when_idle": "1"})
    if env:
        e.update({k: str(v) for k, v in env.items()})
    cmd = ["mpirun", "--allow-run-as-root", "--oversubscribe", "-n", str(np), exe] + list(args)
    # own session: on a timeout only this launch (mpirun and its ranks) is killed, not other configurations of the same harness
    import signal
    p = subprocess.Popen(cmd, stdout=subprocess.PIPE, stderr=subprocess.STDOUT, text=True, env=e, start_new_session=True)
    try:
        out, _ = p.communicate(timeout=timeout)
        return p.returncode, out
    except subprocess.TimeoutExpired:
        try:
            os.killpg(p.pid, signal.SIGKILL)
        except ProcessLookupError:
            pass
        try:
            out, _ = p.communicate(timeout=20)
        except Exception:
            out = ""
        return 124, (out or "") + "\ntimeout"


def run_driver(casefile):
    r = subprocess.run([rmdrv(), casefile], stdout=subprocess.PIPE, stderr=subprocess.STDOUT, text=True)
    return r.returncode, r.stdout
