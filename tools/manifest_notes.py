NOT_YET = {}
NOTES = {}
NOTES["C18"] = dict(
    text=("Lean theorems, unbounded in sizes/ranks/PPN: block deal is contiguous, ordered, tiles [0,n); owner search returns the unique "
          "owner on every monotone first_cols from any start rank; the default constructor's first_cols is monotone and the lookup returns "
          "a rank whose own block contains the column (end to end, also rows < ranks); rank<->(node,index) maps mutually inverse and in range "
          "for orderings 0,1,2. The model is tied to the C++ by exhaustive correspondence on the property's own finite domain."),
    note=("Trusted: Lean kernel (no axioms beyond propext/Classical.choice/Quot.sound, audited each run), the hand-written model of "
          "partition.hpp/topology.hpp validated against the real classes on every run, int overflow outside the model, MPI_Allgather as a parameter."),
    technique="Lean 4 proof (induction + omega) on an executable model; exhaustive model/implementation correspondence",
)
