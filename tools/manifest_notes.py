NOT_YET = {}
NOTES = {}
NOTES["C18"] = dict(
    text=("Lean theorems, unbounded in sizes/ranks/PPN: block deal is contiguous, ordered, tiles [0,n); owner search returns the unique "
          "owner on every monotone first_cols from any start rank; the default constructor's first_cols is monotone and the lookup returns "
          "a rank whose own block contains the column (end to end, also rows < ranks); rank<->(node,index) maps mutually inverse and in range "
          "for orderings 0,1,2. The model is tied to the C++ by exhaustive correspondence on the property's own finite domain."),
    note=("Trusted: Lean kernel (no axioms beyond propext/Classical.choice/Quot.sound, audited each run), the hand-written model of "
          "partition.hpp/topology.hpp validated against the real classes on every run, int overflow outside the model, MPI_Allgather as a parameter."),
    technique="Lean 4 proof (induction + omega) on an executable model; exhaustive model/implementation correspondence",
)

NOTES["C07"] = dict(
    text=("Lean theorems over an arbitrary commutative monoid of scalars, unbounded sizes: every conversion COO/CSR/CSC, copy, sort, move_diag, "
          "remove_duplicates (with the exact drop rule), transpose (image transposed, dims swapped), add and subtract preserve the dense image; "
          "well-formedness and order postconditions; chains by composition. The executable model is output-equal (all index/value arrays and "
          "flags) to the real Matrix classes on generated matrices and conversion chains; the dense-image predicate is also evaluated on the "
          "implementation's output. Sequential classes only at this commit (distributed counterparts: see notes)."),
    note=("Trusted: Lean kernel + standard axioms; hand-written model tied by correspondence (ASan build); std::sort tie order canonicalised; "
          "integer-valued doubles; block formats and distributed conversions not yet covered."),
    technique="Lean 4 proof (permutation/bucketing lemmas) on an executable model; array-level model/implementation correspondence",
)
NOTES["C02"] = dict(
    text=("Lean theorems over an arbitrary commutative (semi)ring: each kernel (append, append_T, append_neg, append_neg_T, CSR row kernels, "
          "residual, mult_T) returns b +/- A x entry by entry for lists of any length; the action equals the dense image times x; storage order "
          "and format are irrelevant (conversions are permutations of the entry list). The distributed operations are tied by correspondence: "
          "results of mult/mult_append/mult_T/residual on every generated layout (default, explicit, empty ranks, columns without rows), standard "
          "and topology-aware, equal the product with the global triplets bit for bit."),
    note=("Trusted: Lean kernel + standard axioms; exact arithmetic (rounding/reassociation outside the theorem; runs use integer-valued data); "
          "the distributed algorithm itself is validated per input, not proved for all layouts, at this commit."),
    technique="Lean 4 proof (induction over entry lists) on an executable model; exact differential runs against the real kernels and ParMatrix operations",
)
NOTES["C06"] = dict(
    text=("Lean theorems over an arbitrary commutative semiring: the Gustavson product with linked-list accumulation and drop rule satisfies "
          "den C i j = (let s := sum_k A i k * B k j; if big s then s else 0) for all well-formed A (duplicates allowed), likewise A^T B, the "
          "Galerkin identity for P^T(AP), and the column-map variants. The model is array-equal (emission order included) to the real sequential "
          "kernels; distributed mult, mult_T and the Galerkin product are tied by correspondence on row/inner/column layouts with empty ranks, "
          "standard and topology-aware, against the product of the global triplets."),
    note=("Trusted: Lean kernel + standard axioms; exact arithmetic; distributed algorithm (row exchange, column renumbering) validated per input, "
          "not proved for all layouts, at this commit."),
    technique="Lean 4 proof (sums over association lists) on an executable model; array-level and dense-image correspondence",
)

NOTES["C03"] = dict(
    text=("Lean theorems, unbounded in ranks/sizes: the owner map is exact and monotone; the receive side (runs of equal owners) and every rank's "
          "send side agree for every arrival order; the message-level forward exchange delivers slot j = owner's value of index j (any payload "
          "type: scalars, blocks, sparse rows), is natural in the payload, survives column filtering; the reverse exchange folds every "
          "contribution into its owner's entry and nothing else, is independent of arrival order for commutative reductions, and with sum is the "
          "exact adjoint of the forward exchange. The model's package arrays equal those of the real ParComm; buffers/results of communicate, "
          "communicate_T, conditional_comm(_T) and the sparse-row exchanges of ParComm and TAPComm equal the model on every generated layout."),
    note=("Trusted: Lean kernel + standard axioms; MPI transport (unmodified delivery, per-pair FIFO); arrival order is a model parameter "
          "(send messages compared keyed by peer). Open finding: node-aware package on a ragged last node (known_findings.json)."),
    technique="Lean 4 proof on a message-level model of the halo package; array-level correspondence with the real ParComm/TAPComm",
)

NOTES["C04"] = dict(
    text=("Lean theorems: the node-aware forward exchange L || (S -> G -> R) (+ 2-step variant) is natural in the payload, so a package that routes "
          "the identity payload to exactly the requested global indices (decidable certificate, incl. the shifted check that exposes "
          "out-of-range indices) delivers every payload - scalars, blocks, sparse rows - exactly as the standard package proved in C03 "
          "(tap_eq_standard). The certificate is evaluated on the four sub-packages dumped from real TAPComm objects of every configuration "
          "run (np x PPN x ordering, 3-step/2-step, direct and derived by column filtering); every operation with a node-aware variant "
          "(mat-vec, transpose mat-vec, residual, SpGEMM, transpose SpGEMM, AMG setup and solve, and via C03 the reverse and sparse-row "
          "exchanges) is additionally run both ways and compared."),
    note=("The construction code tap_comm.cpp is checked per dumped instance, not proved for all inputs; the reverse/sparse-row exchanges of the "
          "node-aware package are covered differentially only. Open finding: ragged last node (PPN does not divide nprocs)."),
    technique="Lean 4 proof of naturality/sufficiency + per-instance certificate checking of real packages + differential execution",
)
NOTES["C05"] = dict(
    text=("Abstract MPI transition system in Lean (per-pair FIFO, wildcard match choice, synchronising collectives) with theorems about all "
          "executions (see Props/C05.lean for the list proved at this commit); the C03 theorem exchangeT_order_indep / recv_matches_send give "
          "arrival-order independence of packages and reductions. Tie to the code: a PMPI interposition layer forces wildcard match orders "
          "(incl. every permutation per wildcard site for small np), delays sends and collective entries, arms a watchdog, and logs a trace; "
          "results of package construction, exchanges, matrix operations, AMG setup/solve (RS and aggregation) and repartitioning are compared "
          "across schedules, and every trace is validated: k-th send matches k-th receive per channel, nothing left unreceived, causality, and "
          "every wildcard receive consumed a message of its own epoch."),
    note=("Partial: the real MPI progress engine and eager/rendezvous behaviour are outside the model; the layer can only choose among messages "
          "that have already arrived; traces are validated per run."),
    technique="Lean 4 proof over an abstract MPI transition system + schedule-forcing PMPI layer with trace validation",
)
