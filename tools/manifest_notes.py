NOT_YET = {}
NOTES = {}
NOTES["C18"] = dict(
    text=("Lean theorems, unbounded in sizes/ranks/PPN: block deal is contiguous, ordered, tiles [0,n); owner search returns the unique "
          "owner on every monotone first_cols from any start rank; the default constructor's first_cols is monotone and the lookup returns "
          "a rank whose own block contains the column (end to end, also rows < ranks); rank<->(node,index) maps mutually inverse and in range "
          "for orderings 0,1,2. Two ties to the C++, both re-checked on every run: (1) tools/cxx2lean.py translates the bodies of "
          "Topology::get_node/get_local_proc/get_global_proc and of the three Partition constructors from clang's AST of /repo's current "
          "headers into Generated/*.lean, with a companion `_defined` function per body (no division by zero on the executed path); "
          "Props/C18Bridge.lean proves generated = model, definedness for every size including 0, and the property's map/tiling claims on "
          "the generated code; (2) exhaustive correspondence on the property's own finite domain, including an unoptimised (-O0) build."),
    note=("Trusted: Lean kernel (no axioms beyond propext/Classical.choice/Quot.sound, audited each run), the hand-written model of "
          "partition.hpp/topology.hpp validated against the real classes on every run, int overflow outside the model, MPI_Allgather as a parameter. Open finding: a matrix without rows leaves its columns without owner."),
    technique="Lean 4 proof (induction + omega) on an executable model; model regenerated from the C++ AST by a translator with bridging lemmas; exhaustive model/implementation correspondence",
)

NOTES["C07"] = dict(
    text=("Lean theorems over an arbitrary commutative monoid of scalars, unbounded sizes: every conversion COO/CSR/CSC, copy, sort, move_diag, "
          "remove_duplicates (with the exact drop rule), transpose (image transposed, dims swapped), add and subtract preserve the dense image; "
          "well-formedness and order postconditions; chains by composition. The executable model is output-equal (all index/value arrays and "
          "flags) to the real Matrix classes on generated matrices and conversion chains; the dense-image predicate is also evaluated on the "
          "implementation's output. " 
          "Distributed and block part (harness h_c07p): ParCOO/ParCSR/ParCSC conversion chains, copies, transposes, add/subtract of operands with different halo sets, ParCSR->ParBSR->ParCSR with block sizes 1..3 on partitions aligned with the blocks; every result gathered as global scalar triplets and compared with the dense image, global dimensions and row partition; lifting lemmas for block-wise operations in Props/C07Par.lean when present."),
    note=("Trusted: Lean kernel + standard axioms; hand-written model tied by correspondence (ASan build); std::sort tie order canonicalised; "
          "integer-valued doubles; block formats (BCOO/BSR/BSC) and the distributed classes are checked against the specification clauses (operator, dimensions, partition, well-formedness) with lifting lemmas in Props/C07Par.lean, not array by array."),
    technique="Lean 4 proof (permutation/bucketing lemmas) on an executable model; array-level model/implementation correspondence",
)
NOTES["C02"] = dict(
    text=("Lean theorems over an arbitrary commutative (semi)ring: each kernel (append, append_T, append_neg, append_neg_T, CSR row kernels, "
          "residual, mult_T) returns b +/- A x entry by entry for lists of any length; the action equals the dense image times x; storage order "
          "and format are irrelevant (conversions are permutations of the entry list). Distributed operations (Props/C02Par.lean, Model/ParSpmv.lean): for ANY list of "
          "per-rank blocks (any number of ranks, empty ranks, any row/column/halo maps, duplicates, any storage order) whose local indices lie "
          "inside their maps and whose global rows (for mult_T: owned columns) are held once, mult / mult_append / residual / mult_T give, row by "
          "row, the product of the global entry list with the global vector (parMult_global, parMultAppend_global, parResidual_global, "
          "parMultT_global), hence the same vector for every partition of the same matrix (parMult_layout_indep); the halo values are a "
          "parameter constrained to the owners' values (C03's theorems). Tie: the harness dumps the real per-rank blocks and maps of every "
          "ParCOO/ParCSR/ParCSC object; the driver evaluates the theorems' hypotheses on them, runs the block-level model rank by rank against "
          "the real results (standard and topology-aware), and compares with the product of the global triplets bit for bit on every generated "
          "layout (default, explicit, empty ranks, columns without rows). " 
          "Block variant: products mult/mult_append/mult_T/residual of ParBSR matrices (block sizes 1..3, incl. rectangular blocks) against the global product."),
    note=("Trusted: Lean kernel + standard axioms; exact arithmetic (rounding/reassociation outside the theorem; runs use integer-valued data); "
          "the halo exchange is a parameter of the distributed theorems (its delivery is C03's theorem and, per run, C03's check); "
          "block formats: the block kernels (two nested loops over a row-major block) are proved equal to the scalar kernels on the expanded entries "
          "(Props/C02Block.lean: blockAppend_eq_expand, blockAppendT_eq_expand), so the scalar statements transfer to BCOO/BSR/BSC for every block "
          "shape; the distributed block products are compared with the global product of the expansion (no per-rank block dump)."),
    technique="Lean 4 proof (induction over entry lists) on an executable model; exact differential runs against the real kernels and ParMatrix operations",
)
NOTES["C06"] = dict(
    text=("Lean theorems over an arbitrary commutative semiring: the Gustavson product with linked-list accumulation and drop rule satisfies "
          "den C i j = (let s := sum_k A i k * B k j; if big s then s else 0) for all well-formed A (duplicates allowed), likewise A^T B, the "
          "Galerkin identity for P^T(AP), and the column-map variants. The model is array-equal (emission order included) to the real sequential "
          "kernels; distributed mult, mult_T and the Galerkin product are tied by correspondence on row/inner/column layouts with empty ranks, "
          "standard and topology-aware, against the product of the global triplets."),
    note=("Props/C06Par.lean lifts the value theorem to the distributed product for every row partition (empty blocks included): the products "
          "generated from the on-process and off-process parts of a row against the rows a rank holds are those of the row in global numbering "
          "(rowProducts_split), the product of a row block is the block of the product (par_rows, par_rows_indep, par_den), and for A^T B the "
          "contributions of the ranks add up to the global sum (parT_den, parT_indep); Props/C06Halo.lean composes this with C03's exchange theorem: the receive buffer of the row exchange is exactly the owners' rows (exchange_rows_eq_heldRows, par_row_received). Trusted: Lean kernel + standard axioms; exact arithmetic; "
          "that the fetched rows of B are the owners' rows is C03's theorem, their transport is validated per input."),
    technique="Lean 4 proof (sums over association lists) on an executable model; array-level and dense-image correspondence",
)

NOTES["C03"] = dict(
    text=("Lean theorems, unbounded in ranks/sizes: the owner map is exact and monotone; the receive side (runs of equal owners) and every rank's "
          "send side agree for every arrival order; the message-level forward exchange delivers slot j = owner's value of index j (any payload "
          "type: scalars, blocks, sparse rows), is natural in the payload, survives column filtering; the reverse exchange folds every "
          "contribution into its owner's entry and nothing else, is independent of arrival order for commutative reductions, and with sum is the "
          "exact adjoint of the forward exchange. The model's package arrays equal those of the real ParComm; buffers/results of communicate, "
          "communicate_T, conditional_comm(_T) and the sparse-row exchanges of ParComm and TAPComm equal the model on every generated layout. " 
          "The two-step node-aware package (form_S = false) is exercised like the three-step one."),
    note=("Trusted: Lean kernel + standard axioms; MPI transport (unmodified delivery, per-pair FIFO); arrival order is a model parameter "
          "(send messages compared keyed by peer). Open finding: node-aware package on a ragged last node (known_findings.json)."),
    technique="Lean 4 proof on a message-level model of the halo package; array-level correspondence with the real ParComm/TAPComm",
)

NOTES["C04"] = dict(
    text=("Lean theorems: the node-aware forward exchange L || (S -> G -> R) (+ 2-step variant) is natural in the payload, so a package that routes "
          "the identity payload to exactly the requested global indices (decidable certificate, incl. the shifted check that exposes "
          "out-of-range indices) delivers every payload - scalars, blocks, sparse rows - exactly as the standard package proved in C03 "
          "(tap_eq_standard). The certificate is evaluated on the four sub-packages dumped from real TAPComm objects of every configuration "
          "run (np x PPN x ordering, 3-step/2-step, direct and derived by column filtering); every operation with a node-aware variant "
          "(mat-vec, transpose mat-vec, residual, SpGEMM, transpose SpGEMM, AMG setup and solve, and via C03 the reverse and sparse-row "
          "exchanges) is additionally run both ways and compared."),
    note=("The construction code tap_comm.cpp is checked per dumped instance, not proved for all inputs; the reverse/sparse-row exchanges of the "
          "node-aware package are covered differentially only. Open finding: ragged last node (PPN does not divide nprocs)."),
    technique="Lean 4 proof of naturality/sufficiency + per-instance certificate checking of real packages + differential execution",
)
NOTES["C05"] = dict(
    text=("Abstract MPI transition system in Lean (per-pair FIFO, wildcard match choice, synchronising collectives) with theorems about all "
          "executions (see Props/C05.lean for the list proved at this commit); the C03 theorem exchangeT_order_indep / recv_matches_send give "
          "arrival-order independence of packages and reductions. Tie to the code: a PMPI interposition layer forces wildcard match orders "
          "(incl. every permutation per wildcard site for small np), delays sends and collective entries, arms a watchdog, and logs a trace; "
          "results of package construction, exchanges, matrix operations, AMG setup/solve (RS and aggregation) and repartitioning are compared "
          "across schedules, and every trace is validated: k-th send matches k-th receive per channel, nothing left unreceived, causality, and "
          "every wildcard receive consumed a message of its own epoch."),
    note=("Partial: the real MPI progress engine and eager/rendezvous behaviour are outside the model; the layer can only choose among messages "
          "that have already arrived; traces are validated per run."),
    technique="Lean 4 proof over an abstract MPI transition system + schedule-forcing PMPI layer with trace validation",
)

NOTES["C11"] = dict(
    text=("Lean theorems over an arbitrary field, any weight: every row update of SOR/SSOR and of the distributed hybrid sweeps equals the textbook "
          "formula; a full forward/backward sweep satisfies the Gauss-Seidel/SOR recurrence (new values before i, old after i, halo frozen); the "
          "sweeps (any number) leave x unchanged iff A x = b (sorForward_fixed_iff); Jacobi likewise; the distributed Jacobi sweep equals the "
          "sequential Jacobi sweep of the global matrix row by row for every partition, any maps and any storage order when the halo holds the "
          "owners' old values (Props/C11Par.lean: hybridJacobi_eq_global). The executable model reproduces the real "
          "sequential and distributed routines at double precision (same operation order) on every generated system/layout/weight, the "
          "right-hand side is compared bit for bit before/after, and the diagonal-first layout established by the distributed routines is checked."),
    note="Partial: rounding (exact field in the theorems, 1e-10 relative tolerance in the runs).",
    technique="Lean 4 proof (field_simp/ring, induction over rows) on an executable model; Float correspondence with the real sweeps",
)
NOTES["C09"] = dict(
    text=("Lean theorems: the cycle model fixes every solution of A x = b given a fixing smoother and zero-preserving coarse levels "
          "(cycle_fixes_solution, any depth); a one-level cycle is the coarse solve, exact for every nonsingular A; in the abstract module setting "
          "the cycle of any depth is jointly linear in (x, b) and the error propagation is a linear operator independent of b. The model cycle "
          "(partition-aware hybrid smoothing, own Gaussian elimination) reproduces the real cycle() of the distributed solvers on dumped "
          "hierarchies; histories of cycle/solve/PCG/BiCGStab calls are replayed as independent pure calls; identical inputs must give "
          "bit-identical outputs anywhere in the history; b, the user's matrix and the hierarchy (hash) must be unchanged; linearity, fixed "
          "point and single-level exactness are also evaluated on the implementation's outputs. " 
          "The sequential classes (Multilevel, RugeStubenSolver, SmoothedAggregationSolver) run through the same checks on one process."),
    note="Partial: rounding; LAPACK assumed to solve the system it is given (the driver uses its own elimination); the sequential Multilevel / RugeStubenSolver / SmoothedAggregationSolver classes run through the same histories on one process.",
    technique="Lean 4 proof (list model + abstract linear maps) ; operation-sequence correspondence at double precision",
)
NOTES["C01"] = dict(
    text=("Lean theorems for ANY cycle function and residual functional: the solve loop returns the iterate after `iters` cycles, its history is exactly "
          "the residual of every iterate, no earlier iterate met the tolerance, and iters < limit implies residual <= tol (solve_truthful); with a "
          "NaN-aware scalar a NaN residual stops the loop at once, so truthfulness needs a finite residual (solve_nan_stops, solve_truthful_nf). "
          "The real solvers are driven through solve() and, from the same start, cycle by cycle; the driver recomputes every relative residual "
          "with its own SpMV/norm from the user's matrix, checks the reported history, the returned vector, the stop decision of the model on the "
          "code's own iterates, finiteness and the true residual whenever convergence is reported. " 
          "The sequential classes (Multilevel, RugeStubenSolver, SmoothedAggregationSolver) run through the same checks on one process."),
    note="Partial: rounding (1e-6 relative on residual norms); depends on C02 (residual) and C17 (norm) for the kernels used by solve().",
    technique="Lean 4 proof of the stopping logic for arbitrary cycles; iterate-level correspondence with independent residual recomputation",
)
NOTES["C10"] = dict(
    text=("Lean theorems over real inner-product spaces, any number of levels: with A symmetric positive semidefinite, R the adjoint of P, Galerkin "
          "coarse operators, an exact coarsest solve and energy-non-expansive smoothers (Gauss-Seidel forward/backward, SSOR, and SOR for "
          "0 < omega <= 2 are proved non-expansive from the splitting A = L + D + U), the V-cycle error propagation does not increase the energy "
          "norm (vcycle_nonexpansive, by induction over a dependent hierarchy type; vcycle_nonexpansive_spd discharges coarse solvability from "
          "injective P). The harness runs SPD families with SOR/SSOR weight 1 on one process and the driver evaluates the A-norm of the error "
          "against the manufactured solution after every real cycle; Galerkin/conformity hypotheses are checked on the same dumps by C08. " 
          "The sequential classes (Multilevel, RugeStubenSolver, SmoothedAggregationSolver) run through the same checks on one process."),
    note="Partial: rounding (theorem over the reals; run allows 1e-9 relative slack).",
    technique="Lean 4 proof (Mathlib inner-product spaces, induction over levels); energy-norm evaluation of the real iterates",
)
NOTES["C08"] = dict(
    text=("Certificate check of every hierarchy built by the real setup (RS and aggregation, all options drawn at random, layouts with empty ranks, "
          "tap levels): the driver recomputes P^T A P from the dumped global triplets and requires equality with the stored coarse operator up to "
          "1e-8 of its largest entry, P with one row per fine and one column per coarse unknown, work vectors of the level's size, global sizes "
          "equal to sums of local sizes on every rank, every row/column identifier owned by some rank of the right level, strictly fewer "
          "unknowns on the next level, and the stopping rule (size or depth limit). The SpGEMM used by setup is proved in C06 (galerkin). " 
          "The sequential classes (Multilevel, RugeStubenSolver, SmoothedAggregationSolver) run through the same checks on one process."),
    note="The setup loop itself is validated per run (certificate), not proved for all inputs; coarsening quality is not part of the property.",
    technique="per-instance certificate checking of dumped hierarchies against the Galerkin/conformity predicates; Lean SpGEMM theorems (C06)",
)

NOTES["C17"] = dict(
    text=("Lean theorems (see Props/C17.lean for the list proved at this commit): the CG and BiCGStab recurrences keep r_k = b - A x_k, the reported "
          "history is the residual norm of each iterate, the returned iterate is the last one and the loop stops at the first iterate below the "
          "scaled tolerance or at the limit; inner product and 2-norm over a NaN-extended scalar are non-finite iff an entry is; global "
          "inner products equal sums of block inner products for every partition, and the whole distributed CG run (inner products = all-reduced "
          "local inner products over any piece lengths, empty ranks included) equals the sequential run: iterates, history, iteration count "
          "(Props/C17Par.lean: cg_distributed_eq_sequential, cg_partition_indep, bicgstab_distributed_eq_sequential); the CG energy step is proved in C10 (cg_step_energy). "
          "The real sequential and distributed solvers are run on SPD / non-symmetric diagonally dominant systems (exact start, b = 0, zero "
          "guess, tolerances, limits, layouts with empty ranks); every iterate is recovered by re-running with max_iter = k and the driver "
          "recomputes its true residual, evaluates the stop rule, compares with the Float model, and checks dot/norm on vectors with NaN/Inf. " 
          "Preconditioned CG: history (r_k, M r_k)/(b, M b) against the same quantity recomputed from the true residual of x_k (x_k by re-running with max_iter = k, crossing the periodic residual recomputation at iteration 8), prefix purity, stop rule."),
    note="Partial: rounding drift (1e-6 relative); preconditioned CG: Model/Pcg.lean + Props/C17Pcg.lean, history against the true preconditioned residual.",
    technique="Lean 4 proof of the recurrences and stop logic on an executable model; iterate-level correspondence with independent residuals",
)

NOTES["C14"] = dict(
    text=("Lean theorems over a linearly ordered field: the classical and symmetric strength models keep the stored diagonal of every non-empty row, "
          "every row of S is a sublist of the row of A (original entries, values, order), and an off-diagonal entry is kept iff it passes the "
          "documented strict threshold test against theta times the row's extreme off-diagonal of sign opposite to the diagonal (sentinel-free "
          "statements under |entries| < RAND_MAX; variable filter; symmetric: row test or column's row test). The model is array-equal to the "
          "real sequential routine (dyadic data, exact comparisons); the distributed routine's gathered result equals the sequential model on "
          "every generated layout, and the membership test is re-evaluated independently on every output. Partition independence of the "
          "classical measure is a theorem (Props/C14Par.lean): the strength row is natural in the column numbering (classicalRow_renumber: local "
          "on/off-process numbering vs global), and the per-rank results over any contiguous row partition, empty ranks included, concatenate "
          "to the global strength matrix (classical_blocks_eq_global, classical_partition_indep); likewise the symmetric measure with the row data computed by the owners (infos_blocks, symmetric_blocks_eq_global, symmetric_partition_indep)."),
    note="Trusted: Lean kernel + standard axioms; dyadic data make comparisons exact; |entries| < RAND_MAX.",
    technique="Lean 4 proof on an executable model; exact array correspondence (seq) and gathered-matrix correspondence (par)",
)
NOTES["C13"] = dict(
    text=("Lean theorems for the round-based PMIS and CLJP models (functions of the graph and the weights only, hence partition independent): lengths and "
          "labels in {C,F,unassigned}, assigned vertices never change, weight invariants, every round selects at least one vertex (no "
          "distinctness needed), so after n (n+1) rounds every vertex is labelled (pmis_total, cljp_total); with distinct weights mutually "
          "dependent vertices are never both coarse; every fine vertex has a coarse strong neighbour or nobody depends on it. The models "
          "reproduce the labels of the real sequential routines and of the distributed routines on every generated layout; totality, halo "
          "labels = owners' labels and the Ruge-Stuben neighbour clauses are evaluated on every output."),
    note=("Sequential Ruge-Stuben: bucket machine Model/RS.lean mirrors rs_first_pass/rs_second_pass (labels compared exactly); Props/C13RS.lean proves "
          "fine-keeps-a-coarse-neighbour for every visit order, that the second pass only promotes and never promotes every fine point; "
          "Props/C13RSCover.lean proves that the bucket arithmetic (bump, drop1, the counting sort) visits every column — the invariant couples "
          "weight_idx_to_col, col_to_weight_idx, weights, weight_ptr, weight_sizes and the labels — so totality and one-coarse-one-fine hold "
          "for every strength graph without self-dependence (splitRS_total_proved, splitRS_mixed_of_edge_proved); the driver still evaluates "
          "the visit order per instance as a cross-check of the model against the code. Distributed RS, "
          "Falgout and HMIS: specification predicates only. Open findings: distributed RS ignores off-process "
          "dependencies; distributed PMIS/CLJP treat vertices without own dependency differently from the sequential routines."),
    technique="Lean 4 proof on round-synchronous executable models; label-level correspondence (seq and par)",
)
NOTES["C12"] = dict(
    text=("Lean theorems for the direct and modified-classical interpolation models (see Props/C12.lean for the list proved at this commit): "
          "injection rows in coarse numbering order, support within strong coarse neighbours, non-zero denominators under the M-matrix guard, "
          "weights summing to one on zero-row-sum rows. The models reproduce the real sequential routines at double precision; the "
          "specification (injection, support incl. distance two for extended, finiteness, constants) is evaluated on the outputs of all three "
          "sequential and distributed routines, and the gathered distributed operator is compared with the real sequential operator built "
          "from the same matrix, strength pattern and splitting on every layout."),
    note="Extended+i interpolation has an executable model (Interp.extended) compared with the real sequential routine; its theorems are in Props/C12Ext.lean. Truncation is checked against its definition applied to the untruncated operator. Rows touching the distributed-only NoNeighbors label are outside the par = seq comparison; open finding: weak couplings to NoNeighbors points are not lumped by the distributed routines.",
    technique="Lean 4 proof on executable models of direct / modified classical interpolation; Float correspondence; spec evaluation on outputs",
)
NOTES["C15"] = dict(
    text=("Round-based executable models of MIS-2 (tentative / confirm / exclude) and of the two-pass aggregation, functions of graph and keys only; "
          "theorems in Props/C15.lean (as proved at this commit). The models reproduce the labels and aggregates of the real sequential and "
          "distributed routines on every generated graph/layout; independence at distance two, maximality, halo agreement, one aggregate per "
          "non-isolated vertex with its root within two edges, roots in their own aggregate and the returned aggregate counts are evaluated "
          "on every output."),
    note="Symmetric strength graphs (the property's domain).",
    technique="Lean 4 proof on round-synchronous executable models; label/aggregate-level correspondence (seq and par)",
)
NOTES["C16"] = dict(
    text=("The identities of the property are evaluated on the real outputs of fit_candidates and jacobi_prolongation (sequential and distributed, "
          "arbitrary aggregations incl. singletons, aggregates spanning ranks and unaggregated vertices): T supported on its aggregates, unit-norm "
          "columns, T R = B, and P = (I - omega D^-1 A)^k T recomputed densely; theorems in Props/C16.lean (as proved at this commit) plus the "
          "SpGEMM/subtract theorems of C06/C07 on which the smoothing identity rests; Props/C16Par.lean: the ranks' partial sums of squares over "
          "their own members of an aggregate add up to the global aggregate norm for every partition of the vertices (sqNorm_partition, "
          "sqNorm_partition_indep)."),
    note="Partial: rounding (1e-10 relative); one candidate per aggregate.",
    technique="Lean 4 proof of the algebraic identities; dense re-evaluation of the real outputs",
)

NOTES["C19"] = dict(
    text=("Lean model of the stencil matrix by grid coordinates (row-major index/coordinate maps, offset -> stencil position) with theorems in "
          "Props/C19.lean (as proved at this commit); the entries produced by the real sequential and distributed generators on grids of 1-3 "
          "dimensions with unequal extents and arbitrary symmetric zero patterns are compared entry by entry with the model. Matrix Market "
          "round trips (write_mm/read_mm/read_par_mm/write_par_mm, general and symmetric headers) and PETSc binary files (sequential reader, "
          "distributed reader on default and explicit partitions) are compared with the source matrix: pattern exactly, values to printed "
          "precision (bitwise for the binary format)."),
    note="Partial: libc number printing/parsing is trusted; PETSc files are big-endian as the format specifies.",
    technique="Lean 4 proof on the coordinate model of stencil matrices; entry-level correspondence; file round trips against the source matrix",
)

NOTES["C20"] = dict(
    text=("Message-level Lean model of repartition_matrix + make_contiguous (rows packed with global columns, arrival order a parameter, "
          "sort by global id, foreign columns sorted by (owner, id), prefix-sum numbering, halo renumbering through the owner) and of "
          "diagonally_scale / row_scale / diagonally_unscale on per-rank blocks with the halo scales delivered by the C03 exchange model; "
          "theorems in Props/C20.lean (as proved at this commit). Every array the real call returns is compared with the model and with the "
          "global specification: the reported rows form one permutation, the new matrix read through it is the old one, the new package "
          "is the valid package of the new contiguous partition, A'(Px) = P(Ax) for random x; scaled entries of both blocks, right-hand "
          "side, scales and unscaled vector entry by entry."),
    note="Partial: MPI_Pack/Unpack and the transport are trusted; scaling compared at double precision (1e-10 relative), theorems exact.",
    technique="Lean 4 proof on the message-level repartition model and the block scaling model; array-level correspondence under perturbed schedules",
)
