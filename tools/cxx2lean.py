#!/usr/bin/env python3
"""cxx2lean: translate the integer arithmetic of selected C++ functions of /repo into Lean 4 definitions.

Source of truth is clang-14's JSON AST of /repo's *current* headers; the output
(lean/RaptorModel/Generated/*.lean) is regenerated on every run of the C18 check and the bridging
lemmas of Props/C18.lean (`Generated.f = Model.f` on the non-negative domain) are re-checked against it.

Supported subset (anything else is a translation error, reported as such):
  * `int`-like locals, parameters and data members (members read before being assigned become parameters;
    the MPI rank / size obtained with RAPtor_MPI_Comm_rank / _size become the parameters `mpi_rank` / `mpi_size`);
  * `+ - * / %` (C truncation: `Int.tdiv` / `Int.tmod`), unary minus, comparisons, `&& || !`, int-as-condition;
  * `=`, `+=`, `-=`, `*=`, `++`, `--` on int variables, declarations with or without initialiser;
  * `if / else` (a branch may return), `return`; `while` loops over integer state (each becomes a fuel-recursive helper
    definition; the fuel is an explicit bound argument); reads `v[i]` of a `std::vector<int>` (the vector becomes a parameter
    `v : Int -> Int`, in guard mode with its length); loop-body mode: the body of the single `for` loop of a function, its
    input the dereferenced iterator, its result the value stored into the output vector;
  * guard mode (`f_defined`): true iff on the executed path no `/` or `%` has a zero divisor, every `v[i]` has
    `0 <= i < v_len`, and every loop ends within the fuel; `&&` / `||` are short-circuit: the guards of the right
    operand apply only when it is evaluated;
  * statements without an integer effect are dropped and listed in the generated file: calls to printf and
    member calls, assignments to non-integer (pointer) members, `if`s whose branches contain only such statements.
A function that returns a value becomes `def f (members…) (params…) : Int`; a constructor becomes a function
returning the tuple of the integer members it assigns, in order of first assignment.
"""
import json, os, subprocess, sys

REPO = os.environ.get("VERIF_REPO", "/repo")
INT_TYPES = {"int", "index_t", "const int", "const index_t", "raptor::index_t", "long", "unsigned int"}
MPI_BIND = {"RAPtor_MPI_Comm_rank": "mpi_rank", "RAPtor_MPI_Comm_size": "mpi_size",
            "MPI_Comm_rank": "mpi_rank", "MPI_Comm_size": "mpi_size"}
DROP_CALLS = {"printf"}


class Unsupported(Exception):
    pass


def ast_of(header_lines, name):
    work = os.path.join(os.path.dirname(os.path.dirname(os.path.abspath(__file__))), ".work", "tr")
    os.makedirs(work, exist_ok=True)
    tu = os.path.join(work, f"tu_{os.getpid()}.cpp")
    open(tu, "w").write("".join(f'#include "{h}"\n' for h in header_lines))
    cmd = ["clang++-14", "-std=gnu++17", "-fsyntax-only", "-DUSING_MPI", f"-I{REPO}", f"-I{REPO}/raptor",
           "-I/usr/lib/x86_64-linux-gnu/openmpi/include", "-Xclang", "-ast-dump=json", "-Xclang", f"-ast-dump-filter={name}", tu]
    r = subprocess.run(cmd, stdout=subprocess.PIPE, stderr=subprocess.PIPE, text=True)
    os.remove(tu)
    if r.returncode != 0:
        raise Unsupported(f"clang failed on {name}: {r.stderr[-400:]}")
    s, dec, i, objs = r.stdout, json.JSONDecoder(), 0, []
    while i < len(s):
        while i < len(s) and s[i].isspace():
            i += 1
        if i >= len(s):
            break
        o, i = dec.raw_decode(s, i)
        objs.append(o)
    return objs


def qual(n):
    return (n.get("type") or {}).get("qualType", "")


def is_int(n):
    q = qual(n).replace("raptor::", "")
    return q in INT_TYPES


def strip(e):
    while e.get("kind") in ("ImplicitCastExpr", "ParenExpr", "CXXStaticCastExpr", "CStyleCastExpr", "ExprWithCleanups") \
            and e.get("castKind") != "IntegralToBoolean":
        e = e["inner"][0]
    return e


class Tr:
    def __init__(self, fname, guard=False):
        self.fname = fname
        self.guard = guard          # guard mode: compute `ok` = no division by zero on the executed path
        self.divs = []              # divisors met while translating the current expression
        self.idxs = []              # (vector, index) reads met while translating the current expression
        self.vecs = []              # std::vector<int> objects read by index: parameters of type Int -> Int (+ their lengths in guard mode)
        self.helpers = []           # loop functions emitted before the main definition
        self.nloops = 0
        self.inputs = []            # loop-body mode: variables assigned from an iterator dereference
        self.result = None          # loop-body mode: the value stored into the output vector
        self.members_read = []      # members read before any assignment -> parameters
        self.assigned = []          # members assigned (constructor outputs), order of first assignment
        self.defined = set()        # lean names currently bound
        self.mpi = []
        self.dropped = []
        self.members_mode = False
        self.new_arity = None

    # ---------- expressions
    def var_of(self, e):
        e = strip(e)
        k = e.get("kind")
        if k == "DeclRefExpr":
            return e["referencedDecl"]["name"], False
        if k == "MemberExpr" and strip(e["inner"][0]).get("kind") == "CXXThisExpr":
            return e["name"], True
        return None, False

    def use(self, name, member):
        if name not in self.defined:
            if member:
                if name not in self.members_read:
                    self.members_read.append(name)
                self.defined.add(name)
            else:
                raise Unsupported(f"{self.fname}: read of uninitialised local `{name}`")
        return name

    def expr(self, e):
        """integer-valued expression"""
        if e.get("kind") in ("ImplicitCastExpr",) and e.get("castKind") == "IntegralToBoolean":
            raise Unsupported("boolean used as integer")
        e = strip(e)
        k = e.get("kind")
        if k == "IntegerLiteral":
            return f"({e['value']} : Int)"
        if k in ("DeclRefExpr", "MemberExpr"):
            name, member = self.var_of(e)
            if name is None:
                raise Unsupported(f"{self.fname}: member access through another object")
            if not is_int(e):
                raise Unsupported(f"{self.fname}: `{name}` has non-integer type {qual(e)}")
            return self.use(name, member)
        if k == "CXXOperatorCallExpr" and strip(e["inner"][0]).get("referencedDecl", {}).get("name") == "operator[]":
            obj = strip(e["inner"][1]); name = obj.get("name") if obj.get("kind") == "MemberExpr" else obj.get("referencedDecl", {}).get("name")
            if not name:
                raise Unsupported(f"{self.fname}: subscript of an unnamed object")
            if name not in self.vecs:
                self.vecs.append(name)
            idx = self.expr(e["inner"][2])
            self.divs.append(f"(decide (0 ≤ {idx}) && decide ({idx} < {name}_len))")
            return f"({name} {idx})"
        if k == "UnaryOperator" and e["opcode"] == "-":
            return f"(-{self.expr(e['inner'][0])})"
        if k == "BinaryOperator" and e["opcode"] in "+-*/%" and len(e["opcode"]) == 1:
            a, b = self.expr(e["inner"][0]), self.expr(e["inner"][1])
            op = e["opcode"]
            if op == "/":
                self.divs.append(f"({b} != 0)")
                return f"(Int.tdiv {a} {b})"
            if op == "%":
                self.divs.append(f"({b} != 0)")
                return f"(Int.tmod {a} {b})"
            return f"({a} {op} {b})"
        raise Unsupported(f"{self.fname}: expression kind {k} {e.get('opcode', '')}")

    def cond(self, e):
        """condition as a decidable Prop"""
        if e.get("kind") == "ImplicitCastExpr" and e.get("castKind") == "IntegralToBoolean":
            return f"({self.expr(e['inner'][0])} ≠ 0)"
        e2 = strip(e)
        if e2.get("kind") == "ImplicitCastExpr" and e2.get("castKind") == "IntegralToBoolean":
            return self.cond(e2)
        k = e2.get("kind")
        if k == "BinaryOperator":
            op = e2["opcode"]
            if op in ("==", "!=", "<", "<=", ">", ">="):
                a, b = self.expr(e2["inner"][0]), self.expr(e2["inner"][1])
                return f"({a} {({'==': '=', '!=': '≠', '<=': '≤', '>=': '≥'}).get(op, op)} {b})"
            if op in ("&&", "||"):
                left = self.cond(e2['inner'][0])
                n0 = len(self.divs)
                right = self.cond(e2['inner'][1])
                # short-circuit evaluation: the right operand (and whatever it divides by or indexes) is evaluated only
                # when the left one is true (&&) / false (||)
                for i in range(n0, len(self.divs)):
                    self.divs[i] = f"({'!' if op == '&&' else ''}(decide {left}) || {self.divs[i]})"
                return f"({left} {'∧' if op == '&&' else '∨'} {right})"
        if k == "UnaryOperator" and e2["opcode"] == "!":
            return f"(¬ {self.cond(e2['inner'][0])})"
        if is_int(e2):
            return f"({self.expr(e2)} ≠ 0)"
        raise Unsupported(f"{self.fname}: condition kind {k} {e2.get('opcode', '')}")

    # ---------- statements
    def flatten(self, s):
        if s is None:
            return []
        if s.get("kind") == "CompoundStmt":
            out = []
            for c in s.get("inner", []):
                out += self.flatten(c)
            return out
        if s.get("kind") == "DeclStmt":
            return [{"kind": "VarDecl1", "decl": d} for d in s.get("inner", []) if d.get("kind") == "VarDecl"]
        return [s]

    def int_effect(self, s):
        """does this statement (recursively) assign an integer variable or return?"""
        k = s.get("kind")
        if k == "ReturnStmt":
            return True
        if k == "VarDecl1":
            return True
        if k == "IfStmt":
            inner = s["inner"]
            return any(self.int_effect(c) for b in inner[1:] for c in self.flatten(b))
        if k in ("BinaryOperator", "CompoundAssignOperator"):
            if k == "BinaryOperator" and s["opcode"] != "=":
                return False
            if k == "BinaryOperator" and self.is_vec_store(s):
                return True
            return is_int(s["inner"][0]) and self.var_of(s["inner"][0])[0] is not None
        if k == "UnaryOperator" and s["opcode"] in ("++", "--"):
            return is_int(s["inner"][0]) and self.var_of(s["inner"][0])[0] is not None
        if k == "CallExpr":
            callee = strip(s["inner"][0])
            return callee.get("kind") == "DeclRefExpr" and callee["referencedDecl"]["name"] in MPI_BIND
        if k == "WhileStmt":
            return True
        return False

    def writes(self, stmts):
        """variables assigned by a statement list without returns (declaration order)"""
        w = []
        for s in stmts:
            k = s.get("kind")
            if k == "VarDecl1":
                continue            # block-local
            if k == "IfStmt":
                for b in s["inner"][1:]:
                    for v in self.writes(self.flatten(b)):
                        if v not in w:
                            w.append(v)
            elif k in ("BinaryOperator", "CompoundAssignOperator", "UnaryOperator") and self.int_effect(s):
                v = self.var_of(s["inner"][0])[0]
                if v not in w:
                    w.append(v)
            elif k == "CallExpr" and self.int_effect(s):
                tgt = strip(s["inner"][-1])
                v = strip(tgt["inner"][0])["referencedDecl"]["name"]
                if v not in w:
                    w.append(v)
        return w

    def has_return(self, stmts):
        for s in stmts:
            if s.get("kind") == "ReturnStmt":
                return True
            if s.get("kind") == "IfStmt" and any(self.has_return(self.flatten(b)) for b in s["inner"][1:]):
                return True
        return False

    def flush(self, ind):
        out = ""
        if self.guard:
            for d in self.divs:
                out += f"{ind}let ok : Bool := ok && {d}\n"
        self.divs = []; self.idxs = []
        return out

    def is_vec_store(self, s):
        l = strip(s["inner"][0])
        return l.get("kind") == "CXXOperatorCallExpr" and strip(l["inner"][0]).get("referencedDecl", {}).get("name") == "operator[]"

    def is_iter_load(self, e):
        e = strip(e)
        return e.get("kind") == "CXXOperatorCallExpr" and strip(e["inner"][0]).get("referencedDecl", {}).get("name") == "operator*"

    def while_loop(self, s, ind):
        """`while (c) body` -> a fuel-recursive helper over the variables the body writes"""
        import re as _re
        body = self.flatten(s["inner"][1])
        w = self.writes(body)
        if not w or self.has_return(body):
            raise Unsupported(f"{self.fname}: while loop without integer state or with a return")
        before = sorted(self.defined - set(w) - {"ok"})
        saved_idxs, saved_divs = self.idxs, self.divs
        self.idxs, self.divs = [], []
        c = self.cond(s["inner"][0])
        cguard = self.flush("      ")
        st = w[0] if len(w) == 1 else "(" + ", ".join(w) + ")"
        stg = st if not self.guard else "(" + ", ".join(w + ["ok"]) + ")"
        b = self.block(body, lambda: stg if self.guard else st, "        ")
        self.idxs, self.divs = saved_idxs, saved_divs
        text = cguard + c + b
        used = [v for v in before if _re.search(r"(?<![A-Za-z0-9_])" + _re.escape(v) + r"(?![A-Za-z0-9_])", text)]
        vecs = [v for v in self.vecs if _re.search(r"(?<![A-Za-z0-9_])" + _re.escape(v) + r"(?![A-Za-z0-9_])", text)]
        self.nloops += 1
        hname = f"{self.lean_name}_loop{self.nloops}"
        sig = ""
        if vecs:
            sig += " (" + " ".join(vecs) + " : Int → Int)"
            if self.guard:
                sig += " (" + " ".join(v + "_len" for v in vecs) + " : Int)"
        if used:
            sig += " (" + " ".join(used) + " : Int)"
        sty = ("Int" if len(w) == 1 else " × ".join(["Int"] * len(w))) if not self.guard else " × ".join(["Int"] * len(w) + ["Bool"])
        args = " ".join(vecs + ([v + "_len" for v in vecs] if self.guard else []) + used)
        pat = stg if self.guard else st
        exhausted = pat if not self.guard else "(" + ", ".join(w + ["false"]) + ")   -- fuel exhausted: termination within the bound is part of definedness"
        h = (f"/-- loop {self.nloops} of `{self.fname}` (fuel = bound on the number of iterations) -/\n"
             f"def {hname}{sig} : Nat → {sty} → {sty}\n"
             f"  | 0, {pat} => {exhausted}\n"
             f"  | fuel+1, {pat} =>\n{cguard}      if {c} then\n        {hname} {args} fuel (\n{b}        )\n      else {pat}\n")
        self.helpers.append(h)
        call = f"{hname} {args} fuel {pat}"
        for v in w:
            self.note_assigned(v)
        return f"{ind}let {pat} := {call}\n"

    def assign(self, name, member, rhs, ind):
        if member and name not in self.assigned:
            self.assigned.append(name)
        self.defined.add(name)
        return self.flush(ind) + f"{ind}let {name} : Int := {rhs}\n"

    def block(self, stmts, final, ind):
        """Lean text for: run stmts, then `final()` (a thunk giving the closing expression)"""
        out = ""
        for idx, s in enumerate(stmts):
            k = s.get("kind")
            if not self.int_effect(s):
                self.dropped.append(self.describe(s))
                continue
            if k == "ReturnStmt":
                r = strip(s['inner'][0])
                if r.get("kind") == "CXXNewExpr":
                    # `return new T(a, b, ...)`: the integer arguments of the constructor call, in order
                    ce = next((c for c in r.get("inner", []) if c.get("kind") == "CXXConstructExpr"), None)
                    if ce is None:
                        raise Unsupported(f"{self.fname}: new-expression without constructor call")
                    args = [a for a in ce.get("inner", []) if a.get("kind") != "CXXDefaultArgExpr"]
                    vals = [self.expr(a) for a in args if is_int(strip(a))]
                    self.new_arity = len(vals)
                    self.new_skipped = len(args) - len(vals)
                    return out + self.flush(ind) + f"{ind}{'ok' if self.guard else '(' + ', '.join(vals) + ')'}\n"
                val = self.expr(r)
                return out + self.flush(ind) + f"{ind}{'ok' if self.guard else val}\n"
            if k == "VarDecl1":
                d = s["decl"]
                if not is_int(d):
                    self.dropped.append(f"declaration of non-integer local {d['name']}")
                    continue
                inits = [c for c in d.get("inner", []) if "Expr" in c.get("kind", "") or c.get("kind") in ("IntegerLiteral", "BinaryOperator", "UnaryOperator")]
                if inits:
                    out += self.assign(d["name"], False, self.expr(inits[0]), ind)
                continue
            if k == "CallExpr":
                callee = strip(s["inner"][0])["referencedDecl"]["name"]
                tgt = strip(s["inner"][-1])
                v = strip(tgt["inner"][0])["referencedDecl"]["name"]
                p = MPI_BIND[callee]
                if p not in self.mpi:
                    self.mpi.append(p)
                out += self.assign(v, False, p, ind)
                continue
            if k == "WhileStmt":
                out += self.while_loop(s, ind)
                continue
            if k == "BinaryOperator" and self.is_vec_store(s) and self.members_mode:
                # a single store `v[i] = e` of a method translated for its effect on the members: two more outputs
                l = strip(s["inner"][0]); obj = strip(l["inner"][1])
                vname = obj.get("name") if obj.get("kind") == "MemberExpr" else obj.get("referencedDecl", {}).get("name")
                idx = self.expr(l["inner"][2]); val = self.expr(s["inner"][1])
                for nm, rhs in ((f"{vname}_store_index", idx), (f"{vname}_store_value", val)):
                    if nm in self.assigned:
                        raise Unsupported(f"{self.fname}: more than one store into {vname}")
                    self.assigned.append(nm); self.defined.add(nm)
                    out += self.flush(ind) + f"{ind}let {nm} : Int := {rhs}\n"
                continue
            if k == "BinaryOperator" and self.is_vec_store(s):      # the value computed for the output vector: the result
                val = self.expr(s["inner"][1])
                return out + self.flush(ind) + f"{ind}{'ok' if self.guard else val}\n"
            if k == "BinaryOperator" and self.is_iter_load(s["inner"][1]):   # `x = *it`: x is an input of the loop body
                name, member = self.var_of(s["inner"][0])
                if name not in self.inputs:
                    self.inputs.append(name)
                self.defined.add(name)
                continue
            if k == "BinaryOperator":      # '='
                name, member = self.var_of(s["inner"][0])
                out += self.assign(name, member, self.expr(s["inner"][1]), ind)
                continue
            if k == "CompoundAssignOperator":
                name, member = self.var_of(s["inner"][0])
                op = s["opcode"][0]
                cur = self.use(name, member)
                rhs = self.expr(s["inner"][1])
                if op in "/%":
                    self.divs.append(f"({rhs} != 0)")
                val = f"(Int.tdiv {cur} {rhs})" if op == "/" else f"(Int.tmod {cur} {rhs})" if op == "%" else f"({cur} {op} {rhs})"
                out += self.assign(name, member, val, ind)
                continue
            if k == "UnaryOperator":
                name, member = self.var_of(s["inner"][0])
                cur = self.use(name, member)
                out += self.assign(name, member, f"({cur} {'+' if s['opcode'] == '++' else '-'} 1)", ind)
                continue
            if k == "IfStmt":
                inner = s["inner"]
                c = self.cond(inner[0])
                out += self.flush(ind)
                tb = self.flatten(inner[1]); eb = self.flatten(inner[2]) if len(inner) > 2 else []
                rest = stmts[idx + 1:]
                if self.has_return([s]):
                    # continuation duplicated into the branches
                    saved = set(self.defined)
                    t = self.block(tb + rest, final, ind + "  ")
                    self.defined = set(saved)
                    e = self.block(eb + rest, final, ind + "  ")
                    return out + f"{ind}if {c} then\n{t}{ind}else\n{e}"
                w = self.writes([s]) + (["ok"] if self.guard else [])
                for v in w:
                    if v not in self.defined:       # assigned in a branch only: indeterminate before (C++), 0 here
                        out += f"{ind}let {v} : Int := 0\n"
                        self.defined.add(v)
                tup = w[0] if len(w) == 1 else "(" + ", ".join(w) + ")"
                saved = set(self.defined)
                t = self.block(tb, lambda: tup, ind + "    ")
                self.defined = set(saved)
                e = self.block(eb, lambda: tup, ind + "    ")
                self.defined = set(saved)
                for v in w:
                    self.note_assigned(v)
                pat = (f"{w[0]} : Bool" if w[0] == "ok" else f"{w[0]} : Int") if len(w) == 1 else tup
                out += f"{ind}let {pat} :=\n{ind}  if {c} then\n{t}{ind}  else\n{e}"
                continue
            raise Unsupported(f"{self.fname}: statement kind {k}")
        return out + f"{ind}{final()}\n"

    def note_assigned(self, v):
        if v in self.member_names and v not in self.assigned:
            self.assigned.append(v)

    def describe(self, s):
        k = s.get("kind")
        if k == "CallExpr":
            c = strip(s["inner"][0])
            return "call " + (c.get("referencedDecl", {}).get("name") or "?")
        if k == "CXXMemberCallExpr":
            return "member call " + (strip(s["inner"][0]).get("name") or "?")
        if k == "IfStmt":
            return "if-statement without integer effect"
        if k in ("BinaryOperator", "CompoundAssignOperator", "UnaryOperator"):
            return f"non-integer update ({s.get('opcode')}) of type {qual(s['inner'][0])}"
        return k or "?"

    def function(self, decl, lean_name, member_names, loop_body=False, members_mode=False):
        self.member_names = member_names
        self.members_mode = members_mode
        self.new_arity = None
        self.lean_name = lean_name
        params = [p["name"] for p in decl.get("inner", []) if p.get("kind") == "ParmVarDecl" and is_int(p)]
        skipped = [p["name"] for p in decl.get("inner", []) if p.get("kind") == "ParmVarDecl" and not is_int(p)]
        body = [c for c in decl.get("inner", []) if c.get("kind") == "CompoundStmt"]
        if not body:
            raise Unsupported(f"{self.fname}: no body")
        self.defined = set(params) | {"ok"}
        is_ctor = decl.get("kind") == "CXXConstructorDecl" or members_mode
        stmts = self.flatten(body[0])
        if loop_body:
            # the prologue up to the (single) for loop, then the loop body once; the body's input is the dereferenced iterator
            k_for = next((i for i, st in enumerate(stmts) if st.get("kind") == "ForStmt"), None)
            if k_for is None:
                raise Unsupported(f"{self.fname}: no for loop")
            pro = [st for st in stmts[:k_for] if not (st.get("kind") == "VarDecl1" and not [c for c in st["decl"].get("inner", [])])]
            stmts = pro + self.flatten(stmts[k_for]["inner"][-1])
        if self.guard:
            text = "  let ok : Bool := true\n" + self.block(stmts, lambda: "ok", "  ")
            ret = "Bool"
        elif is_ctor:
            text = self.block(stmts, lambda: "(" + ", ".join(self.assigned) + ")", "  ")
            ret = " × ".join(["Int"] * len(self.assigned)) or "Unit"
        else:
            text = self.block(stmts, lambda: (_ for _ in ()).throw(Unsupported(f"{self.fname}: a path does not return")), "  ")
            ret = "Int" if not self.new_arity else " × ".join(["Int"] * self.new_arity)
        mem = sorted(self.members_read)
        sig = ""
        if mem:
            sig += " (" + " ".join(mem) + " : Int)"
        if self.mpi:
            sig += " (" + " ".join(self.mpi) + " : Int)"
        if self.vecs:
            sig += " (" + " ".join(self.vecs) + " : Int → Int)"
            if self.guard:
                sig += " (" + " ".join(v + "_len" for v in self.vecs) + " : Int)"
        if self.nloops:
            sig += " (fuel : Nat)"
        if params:
            sig += " (" + " ".join(params) + " : Int)"
        if self.inputs:
            sig += " (" + " ".join(self.inputs) + " : Int)"
        doc = f"/-- generated from `{self.fname}`"
        if self.guard:
            doc += ": `true` iff no `/` or `%` on the executed path has a zero divisor (C++: undefined behaviour otherwise)"
        elif is_ctor:
            doc += "; returns (" + ", ".join(self.assigned) + ")"
        if skipped:
            doc += "; non-integer parameters ignored: " + ", ".join(skipped)
        if self.dropped:
            doc += "; dropped (no integer effect): " + "; ".join(sorted(set(self.dropped)))
        doc += " -/"
        return "".join(h + "\n" for h in self.helpers) + f"{doc}\ndef {lean_name}{sig} : {ret} :=\n{text}"


def find_decl(objs, cls_kind, name, nparams=None):
    stack = list(objs)
    while stack:
        o = stack.pop(0)
        if not isinstance(o, dict):
            continue
        if o.get("kind") == cls_kind and o.get("name") == name and any(c.get("kind") == "CompoundStmt" for c in o.get("inner", [])):
            n = len([p for p in o.get("inner", []) if p.get("kind") == "ParmVarDecl"])
            if nparams is None or n == nparams:
                return o
        if o.get("kind") in ("CXXRecordDecl", "NamespaceDecl", "TranslationUnitDecl", "LinkageSpecDecl"):
            stack = list(o.get("inner", [])) + stack
    return None


TARGETS = {
    "Topology": dict(headers=["raptor/core/mpi_types.hpp", "raptor/core/topology.hpp"], members=["rank_ordering", "num_nodes", "PPN"],
                     funcs=[("CXXMethodDecl", "get_node", None, "get_node"), ("CXXMethodDecl", "get_local_proc", None, "get_local_proc"),
                            ("CXXMethodDecl", "get_global_proc", None, "get_global_proc")]),
    "Partition": dict(headers=["raptor/core/mpi_types.hpp", "raptor/core/partition.hpp"],
                      members=["global_num_rows", "global_num_cols", "local_num_rows", "local_num_cols", "first_local_row", "first_local_col",
                               "last_local_row", "last_local_col", "num_shared", "assumed_num_cols"],
                      funcs=[("CXXConstructorDecl", "Partition", 3, "ctor_default"), ("CXXConstructorDecl", "Partition", 5, "ctor_block"),
                             ("CXXConstructorDecl", "Partition", 7, "ctor_explicit"),
                             ("CXXMethodDecl", "form_col_to_proc", None, "owner_search", "loop_body"),
                             ("CXXMethodDecl", "create_assumed_partition", None, "assumed_partition", "members"),
                             ("CXXMethodDecl", "transpose", None, "transpose_args")]),
}


def generate(outdir):
    """returns {file: [(lean_name, ok, message)]}; unsupported functions become a comment + no definition"""
    os.makedirs(outdir, exist_ok=True)
    report = {}
    for cls, t in TARGETS.items():
        parts, rep = [], []
        for ent in t["funcs"]:
            kind, name, npar, lean_name = ent[:4]; lb = len(ent) > 4 and ent[4] == "loop_body"; mm = len(ent) > 4 and ent[4] == "members"
            try:
                objs = ast_of(t["headers"], name)
                d = find_decl(objs, kind, name, npar)
                if d is None:
                    raise Unsupported(f"{cls}::{name}/{npar} not found in the AST")
                parts.append(Tr(f"{cls}::{name}" + (f"/{npar}" if npar else "")).function(d, lean_name, t["members"], lb, mm))
                parts.append(Tr(f"{cls}::{name}" + (f"/{npar}" if npar else ""), guard=True).function(d, lean_name + "_defined", t["members"], lb, mm))
                rep.append((lean_name, True, ""))
            except Unsupported as ex:
                parts.append(f"/- TRANSLATION ERROR for {cls}::{name}: {ex} -/")
                rep.append((lean_name, False, str(ex)))
        text = ("/-! GENERATED by tools/cxx2lean.py from /repo's current headers (clang-14 AST). Do not edit: rewritten on every run. -/\n"
                f"set_option linter.unusedVariables false\nnamespace Raptor.Generated.{cls}\n\n" + "\n\n".join(parts) + f"\n\nend Raptor.Generated.{cls}\n")
        path = os.path.join(outdir, cls + ".lean")
        if not os.path.exists(path) or open(path).read() != text:
            open(path, "w").write(text)
        report[cls] = rep
    return report


if __name__ == "__main__":
    out = sys.argv[1] if len(sys.argv) > 1 else os.path.join(os.path.dirname(os.path.dirname(os.path.abspath(__file__))), "lean", "RaptorModel", "Generated")
    rep = generate(out)
    for cls, r in rep.items():
        for name, ok, msg in r:
            print(f"{cls}.{name}: {'ok' if ok else 'ERROR ' + msg}")
