"""Per-property configuration of the checks (harnesses, process counts per tier, theorem module)."""
import os

COMMON_TRUST = ["correspondence harness (C++/MPI, calls the real classes in-process) and tools/check.py",
                "g++/mpicxx 12.2, Open MPI 4.1.4"]


def nps(tier, quick, thorough):
    return thorough if tier == "thorough" else quick


def ppn_for(n):
    """processes per node for a launch of n ranks: full nodes only (a ragged last node is the known node-aware finding,
    exercised by C03/C04) and more than one node whenever n > 1, so that the three-step exchanges are not degenerate"""
    return 2 if n % 2 == 0 else 1


def simple(harness, quick_np, thorough_np, **kw):
    def configs(tier, seed):
        return [{"tag": f"{harness}-np{n}", "harness": harness, "np": n} for n in nps(tier, quick_np, thorough_np)]
    return configs


PROPS = {}

def c18_translate(log):
    """regenerate lean/RaptorModel/Generated/*.lean from /repo's current headers (clang-14 AST)"""
    import cxx2lean
    rep = cxx2lean.generate(os.path.join(os.path.dirname(os.path.dirname(os.path.abspath(__file__))), "lean", "RaptorModel", "Generated"))
    bad = [f"{c}.{n}: {m}" for c, r in rep.items() for n, ok, m in r if not ok]
    good = [f"{c}.{n}" for c, r in rep.items() for n, ok, m in r if ok]
    return f"translated {', '.join(good)}" + (f"; TRANSLATION ERRORS: {'; '.join(bad)}" if bad else "")


def c18_configs(tier, seed):
    cfgs = simple("h_c18", [1, 2, 3, 5, 8, 16], list(range(1, 17)))(tier, seed)
    # the constructors are inline in the headers: compiled without optimisation a division by zero traps instead of
    # being scheduled away (undefined behaviour the optimiser may hide)
    for n in ([2] if tier == "quick" else [1, 2, 5]):
        cfgs.append({"tag": f"h_c18-O0-np{n}", "harness": "h_c18", "np": n, "cxx": "-O0"})
    return cfgs


PROPS["C18"] = dict(
    module="RaptorModel.Props.C18",
    harnesses=["h_c18"],
    pre_build=c18_translate,
    extra_theorem_modules=["RaptorModel.Props.C18Bridge"],
    configs=c18_configs,
    exhaustive={"thorough": True, "quick": False},
    rule=("every (rows, cols) in 0..N x 0..N (N=12 quick, 40 thorough) for the default constructor, block constructor "
          "(block sizes 1..3 dividing the sizes), explicit sizes with empty ranks and transposed partitions, on every "
          "launched process count; Topology maps for PPN 1..16 x ordering 0..2 through the real constructor and, on one "
          "process, for nprocs 1..24 (64 thorough) by setting the public fields. Non-trivial = both global sizes non-zero; "
          "distinct = distinct case text."),
    trusted=COMMON_TRUST + ["int overflow is outside the model (Nat/Int are unbounded)",
                            "MPI_Allgather of first_local_col is a parameter of the model (list of per-rank values)"],
    assumptions=["sizes stay far below 2^31"],
    required_theorems=["Raptor.C18.ownerSearch_correct", "Raptor.C18.blk_owner_exists", "Raptor.C18.blk_owner_unique",
                       "Raptor.C18.global_of_node_local", "Raptor.C18.node_local_of_global"],
)

PROPS["C07"] = dict(
    module="RaptorModel.Props.C07",
    extra_theorem_modules=["RaptorModel.Props.C07Par"],
    harnesses=["h_c07", "h_c07p"],
    configs=lambda tier, seed: [{"tag": "h_c07-np1", "harness": "h_c07", "np": 1, "asan": True}] +
        [{"tag": f"h_c07p-conv-np{n}", "harness": "h_c07p", "np": n, "args": ["conv"], "asan": n in (1, 2)}
         for n in nps(tier, [1, 2, 3, 4, 7], list(range(1, 17)))],
    rule=("random sparse matrices (0..10 rows/cols, rectangular, empty, duplicates, explicit zeros, unsorted), every format; "
          "single operations and chains of <= 3 conversions with sort/move_diag in between (each link one case); add/subtract "
          "incl. exact cancellation. Non-trivial = input has at least one stored entry; distinct = distinct case text."),
    trusted=COMMON_TRUST + ["std::sort tie order is canonicalised on both sides", "values are small integers (IEEE arithmetic exact)"],
    assumptions=["loop <-> fold correspondence of the model is validated by the runs, not proved"],
)


def c02_configs(tier, seed):
    cfgs = [{"tag": "h_c02-seq", "harness": "h_c02", "np": 1, "args": ["seq"], "asan": True}]
    for n in nps(tier, [1, 2, 3, 5], [1, 2, 3, 4, 5, 6, 8, 12, 16]):
        cfgs.append({"tag": f"h_c07p-bspmv-np{n}", "harness": "h_c07p", "np": n, "args": ["bspmv"], "asan": n == 2, "env": {"PPN": ppn_for(n)}})
    for n in nps(tier, [1, 2, 3, 4, 7], list(range(1, 17))):
        cfgs.append({"tag": f"h_c02-par-np{n}", "harness": "h_c02", "np": n, "args": ["par"], "env": {"PPN": ppn_for(n)}})
    return cfgs


PROPS["C02"] = dict(
    module="RaptorModel.Props.C02",
    extra_theorem_modules=["RaptorModel.Props.C02Par", "RaptorModel.Props.C02Halo", "RaptorModel.Props.C02Block"],
    harnesses=["h_c02", "h_c07p"],
    configs=c02_configs,
    rule=("sequential: random matrices (0..10, rectangular, empty, duplicates, explicit zeros) in COO/CSR/CSC x 7 kernels; "
          "distributed: random global triplets assembled through ParCOOMatrix::add_value+finalize on the default layout, explicit random "
          "layouts and layouts with empty ranks / one rank owning everything / ranks with columns but no rows, converted to ParCSR/ParCSC, "
          "x {mult, mult_append, mult_T, residual} x {standard, topology-aware}; integer-valued vectors. Non-trivial = at least one stored entry."),
    trusted=COMMON_TRUST + ["values are small integers, so IEEE arithmetic is exact and results are compared bitwise"],
    assumptions=["floating-point reassociation is outside the theorem (exact arithmetic); the runs use integer-valued data for which it is vacuous"],
)


def seqpar_configs(h, quick_np, thorough_np):
    def configs(tier, seed):
        cfgs = [{"tag": f"{h}-seq", "harness": h, "np": 1, "args": ["seq"], "asan": True}]
        for n in nps(tier, quick_np, thorough_np):
            cfgs.append({"tag": f"{h}-par-np{n}", "harness": h, "np": n, "args": ["par"], "env": {"PPN": ppn_for(n)}})
        return cfgs
    return configs


PROPS["C06"] = dict(
    module="RaptorModel.Props.C06",
    extra_theorem_modules=["RaptorModel.Props.C06Par", "RaptorModel.Props.C06Halo"],
    harnesses=["h_c06"],
    configs=seqpar_configs("h_c06", [1, 2, 3, 4, 7], list(range(1, 17))),
    rule=("sequential: random conforming pairs (rectangular, empty rows/cols, duplicates, explicit zeros, +-1 values so that products cancel "
          "exactly) in every format pair, A*B and A^T*B; distributed: A (R x I layout) times B (I x C layout) for random/unbalanced/empty-rank "
          "compositions R, I, C, A^T*D, and the Galerkin product P^T(AP); standard and topology-aware. Non-trivial = both factors non-empty."),
    trusted=COMMON_TRUST + ["values are small integers, so products and sums are exact and 'dropped below 1e-16' means 'exactly zero'"],
    assumptions=["floating-point reassociation is outside the theorem (exact arithmetic)"],
)


def c03_configs(tier, seed):
    cfgs = []
    # (np, PPN): PPN divides np (or a single node) in the main grid; ragged last nodes are separate
    # configurations because the node-aware construction deadlocks there (known finding)
    for n, ppn in nps(tier, [(1, 2), (2, 2), (3, 3), (4, 2), (6, 3), (6, 1), (8, 2), (3, 2)],
                      [(1, 1), (2, 1), (2, 2), (3, 3), (4, 2), (5, 5), (6, 2), (6, 3), (8, 4), (9, 3), (12, 4), (16, 4), (3, 2), (5, 3), (7, 4)]):
        c = {"tag": f"h_c03-np{n}-ppn{ppn}", "harness": "h_c03", "np": n, "env": {"PPN": ppn}}
        if n % ppn and n > ppn:
            c["timeout"] = 40      # a hang is the known finding; do not wait long for it
        cfgs.append(c)
    return cfgs


PROPS["C03"] = dict(
    module="RaptorModel.Props.C03",
    harnesses=["h_c03"],
    configs=c03_configs,
    rule=("random column layouts (balanced / one rank owns all / half the ranks empty) and sorted off-process index sets (random, empty, "
          "single owner, all-to-all, first/last rank owners) and sub-packages derived by column filtering; package arrays of the real ParComm "
          "(send messages keyed by peer) vs the model; forward exchange int/double x block 1..3, reverse exchange sum/max/select, conditional "
          "exchanges, sparse-row exchange with/without values and its reverse, each for the standard and the topology-aware package. "
          "Non-trivial = some rank has an off-process index."),
    trusted=COMMON_TRUST + ["MPI transport (messages delivered unmodified, per-pair FIFO)"],
    assumptions=["message arrival order is a parameter of the model; results are compared after keying send messages by peer"],
)


def c04_configs(tier, seed):
    cfgs = []
    # (np, PPN, ordering); ragged last nodes (PPN not dividing np) are separate: known finding
    quick = [(2, 1, 1), (2, 2, 1), (4, 2, 0), (4, 2, 1), (4, 2, 2), (6, 2, 1), (6, 3, 2), (8, 2, 1), (6, 1, 0), (4, 4, 1), (3, 2, 1)]
    thorough = [(n, p, o) for n in (2, 3, 4, 6, 8, 9, 12, 16) for p in (1, 2, 3, 4, 8, 16) if p <= n and n % p == 0 for o in (0, 1, 2)]
    thorough += [(3, 2, 1), (5, 2, 0), (5, 3, 2), (7, 4, 1)]
    for n, ppn, o in nps(tier, quick, thorough):
        env = {"PPN": ppn, "RAPtor_MPICH_RANK_REORDER_METHOD": o}
        ragged = n % ppn != 0 and n > ppn
        for part in ("cert", "diff"):
            c = {"tag": f"h_c04-{part}-np{n}-ppn{ppn}-ord{o}", "harness": "h_c04", "np": n, "env": env, "args": [part]}
            if ragged:
                c["timeout"] = 40
            cfgs.append(c)
    # the exchanges of C03 (forward, reverse, sparse rows with values; three- and two-step packages against the
    # specification) on multi-node layouts: an exchange that meets the specification is equivalent to the standard one
    for n, ppn in nps(tier, [(4, 2), (6, 3), (8, 2), (6, 1)], [(4, 2), (6, 1), (6, 2), (6, 3), (8, 2), (8, 4), (12, 4), (16, 4)]):
        cfgs.append({"tag": f"h_c03-np{n}-ppn{ppn}", "harness": "h_c03", "np": n, "env": {"PPN": ppn}})
    # block products (square and rectangular blocks) through the node-aware package against the global product
    for n, ppn in nps(tier, [(4, 2), (6, 3)], [(4, 2), (6, 3), (8, 2), (12, 4)]):
        cfgs.append({"tag": f"h_c07p-bspmv-np{n}-ppn{ppn}", "harness": "h_c07p", "np": n, "args": ["bspmv"], "env": {"PPN": ppn}})
    return cfgs


PROPS["C04"] = dict(
    module="RaptorModel.Props.C04",
    harnesses=["h_c04", "h_c03", "h_c07p"],
    configs=c04_configs,
    rule=("(np, PPN, ordering) grid incl. single node, PPN=1, all three orderings; per configuration random layouts/off-process sets; the four "
          "sub-packages of real TAPComm objects (3-step, 2-step, derived by column filtering) are dumped and the Lean certificate (consistency + "
          "identity payload routed to the requested indices) is evaluated; differential tap off/on for mult, mult_T, residual, mult_append, "
          "SpGEMM, transpose SpGEMM, AMG setup+solve. Non-trivial = some rank has an off-process index / non-zero result."),
    trusted=COMMON_TRUST + ["MPI transport", "the construction in tap_comm.cpp is validated per dumped instance (certificate), not proved for all inputs",
                            "reverse exchange / sparse-row exchange of the node-aware package: differential only (C03 harness)"],
    assumptions=["AMG residual histories compared with relative tolerance 1e-8 (reassociation)"],
)


def c05_configs(tier, seed):
    cfgs = []
    for n, ppn in nps(tier, [(2, 2), (3, 3), (4, 2), (6, 2), (8, 2)], [(2, 1), (2, 2), (3, 3), (4, 2), (4, 4), (6, 2), (6, 3), (8, 2), (8, 4), (16, 4)]):
        cfgs.append({"tag": f"h_c05-np{n}-ppn{ppn}", "harness": "h_c05", "np": n, "env": {"PPN": ppn, "VERIF_WATCHDOG": 60, "OMPI_MCA_btl_vader_eager_limit": 96, "OMPI_MCA_btl_vader_max_send_size": 256}, "timeout": 900 if tier == "thorough" else 280})
    return cfgs


PROPS["C05"] = dict(
    module="RaptorModel.Props.C05",
    harnesses=["h_c05"],
    configs=c05_configs,
    rule=("eight scenarios (packages built back to back with reused tags + exchanges, also with nothing in between; assembly, mat-vec, SpGEMM, "
          "transpose; AMG setup+solve with CLJP/PMIS and with MIS-2 aggregation; repartitioning; MIS-2 on a directed strength pattern whose "
          "send and receive neighbours differ; a package used 2346 times, a second one built and the first used again at once) x schedules of the PMPI layer: natural, reverse, random wildcard orders with "
          "seeded delays of sends and collective entries, and every permutation of source preference at each wildcard site (tags 12345, 6543, "
          "9876, 6789, 4321, 7890, 29485) for np <= 3 (4 thorough), synchronously completing sends, one laggard rank, and 'slow tag' schedules that hold back every message of one tag (19432, 23491, 12345) on all ranks or on one; results compared with the reference schedule, traces validated. "
          "Non-trivial = the run made at least one wildcard choice / exchanged at least one message."),
    trusted=COMMON_TRUST + ["real MPI progress engine (the layer can only choose among messages that have arrived)",
                            "the PMPI layer and its logging"],
    assumptions=["abstract MPI semantics: per-pair FIFO, synchronising all-reduce/all-gather/barrier; Bcast/Gather/Reduce do not advance the epoch"],
)


PROPS["C11"] = dict(
    module="RaptorModel.Props.C11",
    extra_theorem_modules=["RaptorModel.Props.C11Par"],
    diff_is_violation=True,   # the model is the method's definition: a result that differs from it is the failing input
    harnesses=["h_c11"],
    configs=seqpar_configs("h_c11", [1, 2, 3, 4, 7], list(range(1, 17))),
    rule=("random square systems (n 1..15) with a stored non-zero diagonal of either sign, non-symmetric, diagonal-only rows, shuffled storage; "
          "omega from {1, 1/2, 3/4, 5/4, 2/3, 0.9, 1.7, 0.1} or uniform in (0.05,1.95); 1..3 sweeps; Jacobi / SOR / SSOR; a quarter of the cases "
          "start at the exact solution of an integer system (fixed-point clause); distributed: layouts incl. empty ranks, standard and "
          "node-aware halo. Non-trivial = n > 1."),
    trusted=COMMON_TRUST + ["Lean Float = IEEE double with the same operation order as the C++; comparison tolerance 1e-10 relative"],
    assumptions=["rounding: the theorems are over an exact field; the run compares at double precision"],
)


def amg_configs(mode, quick_np, thorough_np):
    def configs(tier, seed):
        # PPN divides np (ragged last nodes are the known node-aware finding, exercised by C03/C04)
        return [{"tag": f"h_amg-{mode}-np{n}", "harness": "h_amg", "np": n, "args": [mode],
                 "env": {"PPN": ppn_for(n)}} for n in nps(tier, quick_np, thorough_np)] + \
               [{"tag": f"h_amg-{mode}-seqclasses", "harness": "h_amg", "np": 1, "args": [mode, "seq"]}]
    return configs


AMG_RULE = ("system families: rotated anisotropic diffusion stencils, weighted graph Laplacians of random (dis)connected graphs + shift, "
            "variable-coefficient diffusion, non-symmetric convection-diffusion, systems with decoupled diagonal-only rows, tiny systems; "
            "solver options drawn at random: RS with RS/CLJP/Falgout/PMIS/HMIS x Direct/ModClassical/Extended, smoothed aggregation; Jacobi/SOR/SSOR, "
            "weights, 1-2 sweeps, strength threshold, max_coarse, max_levels, tap level; layouts incl. empty ranks. ")

PROPS["C09"] = dict(
    module="RaptorModel.Props.C09",
    harnesses=["h_amg"],
    configs=amg_configs("C09", [1, 2, 3, 4], [1, 2, 3, 4, 5, 7, 8, 16]),
    rule=AMG_RULE + ("Per hierarchy a history of 10-16 operations: cycles on algebraically related inputs (x1,b1), (x2,b2), (a x1+c x2, a b1+c b2), the exact "
          "solution pair, a repeated cycle later in the history, full solves of other systems, PCG and BiCGStab preconditioned by the hierarchy. "
          "Non-trivial = more than one unknown."),
    trusted=COMMON_TRUST + ["LAPACK dgetrf/dgetrs (the driver uses its own Gaussian elimination)", "Float tolerance 1e-7 relative to the vector magnitude"],
    assumptions=["rounding: theorems over an exact field; cycles compared at double precision"],
)
PROPS["C01"] = dict(
    module="RaptorModel.Props.C01",
    harnesses=["h_amg"],
    configs=amg_configs("C01", [1, 2, 3, 4], [1, 2, 3, 4, 5, 7, 8, 16]),
    rule=AMG_RULE + ("Per hierarchy one solve() (random or zero initial guess; manufactured, random or zero right-hand side; tolerance 1e-7 or 1e-4; "
          "iteration limit 1..30) and the same iteration replayed cycle by cycle; the driver recomputes every relative residual with its own SpMV and norm."),
    trusted=COMMON_TRUST + ["the driver's independent SpMV/norm at double precision"],
    assumptions=["rounding: reported vs true residual compared with relative tolerance 1e-6"],
)
PROPS["C10"] = dict(
    module="RaptorModel.Props.C10",
    harnesses=["h_amg"],
    configs=amg_configs("C10", [1], [1]),
    rule=AMG_RULE + ("SPD families only, one process, SOR/SSOR with weight 1; manufactured solution; the A-norm of the error is evaluated after every cycle."),
    trusted=COMMON_TRUST + ["energy norm evaluated at double precision with relative slack 1e-9"],
    assumptions=["rounding error (theorem over the reals)"],
)

PROPS["C08"] = dict(
    module="RaptorModel.Props.C08",
    harnesses=["h_amg"],
    configs=amg_configs("C08", [1, 2, 3, 4], [1, 2, 3, 4, 5, 7, 8, 16]),
    rule=AMG_RULE + ("After the real setup the whole hierarchy (per level: global triplets of A and P, per-rank sizes, work-vector sizes, row maps) is "
          "dumped; the driver recomputes P^T A P and evaluates conformity, size sums, column-map ranges, strict coarsening and the stopping rule."),
    trusted=COMMON_TRUST + ["Galerkin product recomputed at double precision, tolerance 1e-8 relative to the largest coarse entry"],
    assumptions=["coarsening quality is not part of the property"],
)

PROPS["C17"] = dict(
    module="RaptorModel.Props.C17",
    extra_theorem_modules=["RaptorModel.Props.C17Pcg", "RaptorModel.Props.C17Par"],
    harnesses=["h_c17"],
    configs=seqpar_configs("h_c17", [1, 2, 3, 4, 7], list(range(1, 17))),
    rule=("well-conditioned SPD systems (weighted graph Laplacian + shift) for CG and non-symmetric diagonally dominant systems for BiCGStab, "
          "size 1..120 (thorough: larger), right-hand sides/initial guesses: random, exact solution, b = 0, x0 = 0; tolerances 1e-2/1e-5/1e-9; "
          "default and explicit iteration limits; every iterate recovered by re-running with max_iter = k; layouts incl. empty ranks; "
          "inner product / 2-norm on vectors with a NaN, an infinity or tiny entries at a random position. Non-trivial = more than one unknown."),
    trusted=COMMON_TRUST + ["the driver's independent SpMV/norm at double precision; rounding drift tolerance 1e-6 relative"],
    assumptions=["rounding drift between the recurrence residual and the true residual is outside the theorem (exact arithmetic)"],
)

PROPS["C14"] = dict(
    module="RaptorModel.Props.C14",
    extra_theorem_modules=["RaptorModel.Props.C14Par"],
    harnesses=["h_c14"],
    configs=seqpar_configs("h_c14", [1, 2, 3, 4, 7], list(range(1, 17))),
    rule=("random square matrices with a stored diagonal: M-matrix-like, mixed-sign diagonals, off-diagonals all of the diagonal's sign, arbitrary signs; "
          "rows with only a diagonal; dyadic values and theta in {0, 1/8, 1/4, 1/2, 3/4, 1}; classical (1..3 interleaved variables) and symmetric; "
          "layouts incl. empty ranks, standard and node-aware. Non-trivial = more than one unknown."),
    trusted=COMMON_TRUST + ["dyadic data: every comparison and theta*extreme product is exact in double precision"],
    assumptions=["|entries| < RAND_MAX (sentinel)"],
)


def rs_configs(prop, quick_np, thorough_np):
    def configs(tier, seed):
        cfgs = [{"tag": f"h_rs-{prop}-seq", "harness": "h_rs", "np": 1, "args": [prop, "seq"], "asan": True}]
        for n in nps(tier, quick_np, thorough_np):
            cfgs.append({"tag": f"h_rs-{prop}-par-np{n}", "harness": "h_rs", "np": n, "args": [prop, "par"], "env": {"PPN": ppn_for(n)}})
        return cfgs
    return configs


PROPS["C13"] = dict(
    module="RaptorModel.Props.C13",
    extra_theorem_modules=["RaptorModel.Props.C13RS", "RaptorModel.Props.C13RSCover"],
    harnesses=["h_rs"],
    configs=rs_configs("C13", [1, 2, 3, 4, 6], [1, 2, 3, 4, 5, 6, 8, 12, 16]),
    rule=("strength graphs of random M-matrix-like systems (symmetric and non-symmetric patterns, decoupled vertices, thresholds 0..1/2), up to ~30 "
          "vertices (thorough: more), distinct caller-supplied weights (random permutation); RS, CLJP, Falgout, PMIS, HMIS; layouts incl. "
          "empty ranks and ranks without boundary; standard and node-aware. Non-trivial = the graph has an edge."),
    trusted=COMMON_TRUST + ["weights are distinct dyadic-free doubles (k+1)/(n+2); comparisons exact"],
    assumptions=["sequential RS: the bucket machine Model/RS.lean mirrors rs_first_pass / rs_second_pass array for array (labels compared exactly on every "
                 "sequential case); 'fine keeps a coarse neighbour' is proved for every visit order (C13RS.splitRS_FC); that the bucket order reaches every "
                 "column is proved in Props/C13RSCover.lean (firstPass_cover, from a six-array bucket invariant) for every graph whose entries are vertices "
                 "and in which no vertex depends on itself, so totality and one-coarse-one-fine hold unconditionally (splitRS_total_proved, "
                 "splitRS_mixed_of_edge_proved); the driver still evaluates the visit order on every instance as a cross-check of the model",
                 "distributed RS: specification predicates only"],
)

PROPS["C12"] = dict(
    module="RaptorModel.Props.C12",
    extra_theorem_modules=["RaptorModel.Props.C12Ext", "RaptorModel.Props.C12Par"],
    harnesses=["h_rs"],
    configs=rs_configs("C12", [1, 2, 3, 4, 6], [1, 2, 3, 4, 5, 6, 8, 12, 16]),
    rule=("M-matrix-like systems (positive diagonal, non-positive dyadic off-diagonals, symmetric and non-symmetric patterns, rows with zero row sum, "
          "decoupled vertices), thresholds {0, 1/8, 1/4, 1/2}; splittings from the library's coarsenings and random promotions of fine points; "
          "direct / modified classical / extended (parallel truncation threshold 0); layouts incl. empty ranks; standard and node-aware. "
          "Non-trivial = the splitting has both coarse and fine points."),
    trusted=COMMON_TRUST + ["Float tolerance 1e-10 relative on weights; the sequential operator for the distributed comparison comes from the real sequential routine"],
    assumptions=["extended interpolation: specification predicates and distributed = sequential only (no executable model at this commit)"],
)


def sa_configs(prop, quick_np, thorough_np):
    def configs(tier, seed):
        cfgs = [{"tag": f"h_sa-{prop}-seq", "harness": "h_sa", "np": 1, "args": [prop, "seq"], "asan": True}]
        for n in nps(tier, quick_np, thorough_np):
            cfgs.append({"tag": f"h_sa-{prop}-par-np{n}", "harness": "h_sa", "np": n, "args": [prop, "par"], "env": {"PPN": ppn_for(n)}})
        return cfgs
    return configs


PROPS["C15"] = dict(
    module="RaptorModel.Props.C15",
    harnesses=["h_sa"],
    configs=sa_configs("C15", [1, 2, 3, 4, 6], [1, 2, 3, 4, 5, 6, 8, 12, 16]),
    rule=("symmetric strength graphs with self loops from random undirected weighted graphs (isolated vertices included), up to ~30 vertices "
          "(thorough: more), distinct random keys, thresholds 0 and 1/4; layouts incl. empty ranks; standard and node-aware. "
          "Non-trivial = the graph has an edge."),
    trusted=COMMON_TRUST + ["keys are distinct doubles (k+1)/(4(n+2)); comparisons exact"],
    assumptions=["symmetric strength graph (the property's domain)"],
)

PROPS["C16"] = dict(
    module="RaptorModel.Props.C16",
    extra_theorem_modules=["RaptorModel.Props.C16Par"],
    harnesses=["h_sa"],
    configs=sa_configs("C16", [1, 2, 3, 4, 6], [1, 2, 3, 4, 5, 6, 8, 12, 16]),
    rule=("arbitrary aggregations (random number/size of aggregates, singletons, aggregates spanning ranks, unaggregated vertices), candidate "
          "vectors with non-zero entries of either sign, symmetric M-matrix-like A, omega in {1/4..7/4, 4/3}, k in {1,2}; layouts incl. empty ranks. "
          "Non-trivial = more than one vertex."),
    trusted=COMMON_TRUST + ["identities evaluated at double precision with relative tolerance 1e-10"],
    assumptions=["one candidate per aggregate (the path the solvers use)"],
)

PROPS["C19"] = dict(
    module="RaptorModel.Props.C19",
    extra_theorem_modules=["RaptorModel.Props.C19MM"],
    harnesses=["h_c19"],
    configs=simple("h_c19", [1, 2, 3, 4], [1, 2, 3, 4, 5, 7, 8, 16]),
    rule=("grids of 1-3 dimensions with unequal extents 1..5 (12 thorough; 6 in 3-D) and symmetric stencils with an arbitrary zero pattern, "
          "sequential and distributed generator on every process count; Matrix Market: write_mm/read_mm/read_par_mm/write_par_mm round trips on "
          "matrices with values 1e-12..1e12 of either sign, rectangular, empty rows, plus files with a symmetric header; PETSc binary "
          "(big-endian) files read sequentially, on the default partition and on explicit random partitions. Non-trivial = more than one grid "
          "point / at least one entry."),
    trusted=COMMON_TRUST + ["libc printf/scanf of doubles: values compared to 4e-15 relative (16 printed digits)"],
    assumptions=["number printing/parsing is libc's; the index/shape logic is what is modelled"],
)


def c20_configs(tier, seed):
    cfgs = []
    for n in nps(tier, [1, 2, 3, 4, 6], [1, 2, 3, 4, 5, 6, 7, 8, 12, 16]):
        cfgs.append({"tag": f"h_c20-repart-np{n}", "harness": "h_c20", "np": n, "args": ["repart"], "asan": n in (2, 3)})
        cfgs.append({"tag": f"h_c20-scale-np{n}", "harness": "h_c20", "np": n, "args": ["scale"]})
    return cfgs


PROPS["C20"] = dict(
    module="RaptorModel.Props.C20",
    harnesses=["h_c20"],
    configs=c20_configs,
    rule=("repartition: random square matrices (with and without a full diagonal, densities 0..4 entries per row) on default / random / "
          "empty-rank source layouts, target maps round-robin, random, everything to one rank, half the ranks empty, identity, reverse; "
          "natural, reversed-preference and randomly delayed message schedules (PMPI layer); everything the call returns is dumped: "
          "new_local_rows, both blocks, the three maps, the new package, and the product with a permuted random vector. "
          "Scaling: matrices with a non-zero diagonal (power-of-4, random positive, random signed), random off-diagonals and right-hand "
          "sides, rows presented diagonal-first or column-sorted; diagonally_scale + diagonally_unscale, and row_scale. "
          "Non-trivial = more than one unknown and at least one stored entry."),
    trusted=COMMON_TRUST + ["MPI_Pack/MPI_Unpack round-trip (the message content is modelled as a list of rows)",
                            "the forward exchange of the target map for halo columns is C03's property (the model reads the target of a column directly)",
                            "scaling is compared at double precision with relative tolerance 1e-10; theorems are over an exact commutative ring / field"],
    assumptions=["global row ids are distinct and every row belongs to exactly one rank (the partition invariant, C18)",
                 "the diagonal is stored and non-zero for the scaling claims (the property's premise)"],
)
