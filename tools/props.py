"""Per-property configuration of the checks (harnesses, process counts per tier, theorem module)."""

COMMON_TRUST = ["correspondence harness (C++/MPI, calls the real classes in-process) and tools/check.py",
                "g++/mpicxx 12.2, Open MPI 4.1.4"]


def nps(tier, quick, thorough):
    return thorough if tier == "thorough" else quick


def simple(harness, quick_np, thorough_np, **kw):
    def configs(tier, seed):
        return [{"tag": f"{harness}-np{n}", "harness": harness, "np": n} for n in nps(tier, quick_np, thorough_np)]
    return configs


PROPS = {}

PROPS["C18"] = dict(
    module="RaptorModel.Props.C18",
    harnesses=["h_c18"],
    configs=simple("h_c18", [1, 2, 3, 5, 8, 16], list(range(1, 17))),
    exhaustive={"thorough": True, "quick": False},
    rule=("every (rows, cols) in 0..N x 0..N (N=12 quick, 40 thorough) for the default constructor, block constructor "
          "(block sizes 1..3 dividing the sizes), explicit sizes with empty ranks and transposed partitions, on every "
          "launched process count; Topology maps for PPN 1..16 x ordering 0..2 through the real constructor and, on one "
          "process, for nprocs 1..24 (64 thorough) by setting the public fields. Non-trivial = both global sizes non-zero; "
          "distinct = distinct case text."),
    trusted=COMMON_TRUST + ["int overflow is outside the model (Nat/Int are unbounded)",
                            "MPI_Allgather of first_local_col is a parameter of the model (list of per-rank values)"],
    assumptions=["sizes stay far below 2^31"],
    required_theorems=["Raptor.C18.ownerSearch_correct", "Raptor.C18.blk_owner_exists", "Raptor.C18.blk_owner_unique",
                       "Raptor.C18.global_of_node_local", "Raptor.C18.node_local_of_global"],
)

PROPS["C07"] = dict(
    module="RaptorModel.Props.C07",
    harnesses=["h_c07"], asan=True,
    configs=simple("h_c07", [1], [1]),
    rule=("random sparse matrices (0..10 rows/cols, rectangular, empty, duplicates, explicit zeros, unsorted), every format; "
          "single operations and chains of <= 3 conversions with sort/move_diag in between (each link one case); add/subtract "
          "incl. exact cancellation. Non-trivial = input has at least one stored entry; distinct = distinct case text."),
    trusted=COMMON_TRUST + ["std::sort tie order is canonicalised on both sides", "values are small integers (IEEE arithmetic exact)"],
    assumptions=["loop <-> fold correspondence of the model is validated by the runs, not proved"],
)
