"""Per-property configuration of the checks (harnesses, process counts per tier, theorem module)."""

COMMON_TRUST = ["correspondence harness (C++/MPI, calls the real classes in-process) and tools/check.py",
                "g++/mpicxx 12.2, Open MPI 4.1.4"]


def nps(tier, quick, thorough):
    return thorough if tier == "thorough" else quick


def simple(harness, quick_np, thorough_np, **kw):
    def configs(tier, seed):
        return [{"tag": f"{harness}-np{n}", "harness": harness, "np": n} for n in nps(tier, quick_np, thorough_np)]
    return configs


PROPS = {}

PROPS["C18"] = dict(
    module="RaptorModel.Props.C18",
    harnesses=["h_c18"],
    configs=simple("h_c18", [1, 2, 3, 5, 8, 16], list(range(1, 17))),
    exhaustive={"thorough": True, "quick": False},
    rule=("every (rows, cols) in 0..N x 0..N (N=12 quick, 40 thorough) for the default constructor, block constructor "
          "(block sizes 1..3 dividing the sizes), explicit sizes with empty ranks and transposed partitions, on every "
          "launched process count; Topology maps for PPN 1..16 x ordering 0..2 through the real constructor and, on one "
          "process, for nprocs 1..24 (64 thorough) by setting the public fields. Non-trivial = both global sizes non-zero; "
          "distinct = distinct case text."),
    trusted=COMMON_TRUST + ["int overflow is outside the model (Nat/Int are unbounded)",
                            "MPI_Allgather of first_local_col is a parameter of the model (list of per-rank values)"],
    assumptions=["sizes stay far below 2^31"],
    required_theorems=["Raptor.C18.ownerSearch_correct", "Raptor.C18.blk_owner_exists", "Raptor.C18.blk_owner_unique",
                       "Raptor.C18.global_of_node_local", "Raptor.C18.node_local_of_global"],
)

PROPS["C07"] = dict(
    module="RaptorModel.Props.C07",
    harnesses=["h_c07"], asan=True,
    configs=simple("h_c07", [1], [1]),
    rule=("random sparse matrices (0..10 rows/cols, rectangular, empty, duplicates, explicit zeros, unsorted), every format; "
          "single operations and chains of <= 3 conversions with sort/move_diag in between (each link one case); add/subtract "
          "incl. exact cancellation. Non-trivial = input has at least one stored entry; distinct = distinct case text."),
    trusted=COMMON_TRUST + ["std::sort tie order is canonicalised on both sides", "values are small integers (IEEE arithmetic exact)"],
    assumptions=["loop <-> fold correspondence of the model is validated by the runs, not proved"],
)


def c02_configs(tier, seed):
    cfgs = [{"tag": "h_c02-seq", "harness": "h_c02", "np": 1, "args": ["seq"], "asan": True}]
    for n in nps(tier, [1, 2, 3, 4, 7], list(range(1, 17))):
        cfgs.append({"tag": f"h_c02-par-np{n}", "harness": "h_c02", "np": n, "args": ["par"]})
    return cfgs


PROPS["C02"] = dict(
    module="RaptorModel.Props.C02",
    harnesses=["h_c02"],
    configs=c02_configs,
    rule=("sequential: random matrices (0..10, rectangular, empty, duplicates, explicit zeros) in COO/CSR/CSC x 7 kernels; "
          "distributed: random global triplets assembled through ParCOOMatrix::add_value+finalize on the default layout, explicit random "
          "layouts and layouts with empty ranks / one rank owning everything / ranks with columns but no rows, converted to ParCSR/ParCSC, "
          "x {mult, mult_append, mult_T, residual} x {standard, topology-aware}; integer-valued vectors. Non-trivial = at least one stored entry."),
    trusted=COMMON_TRUST + ["values are small integers, so IEEE arithmetic is exact and results are compared bitwise"],
    assumptions=["floating-point reassociation is outside the theorem (exact arithmetic); the runs use integer-valued data for which it is vacuous"],
)


def seqpar_configs(h, quick_np, thorough_np):
    def configs(tier, seed):
        cfgs = [{"tag": f"{h}-seq", "harness": h, "np": 1, "args": ["seq"], "asan": True}]
        for n in nps(tier, quick_np, thorough_np):
            cfgs.append({"tag": f"{h}-par-np{n}", "harness": h, "np": n, "args": ["par"]})
        return cfgs
    return configs


PROPS["C06"] = dict(
    module="RaptorModel.Props.C06",
    harnesses=["h_c06"],
    configs=seqpar_configs("h_c06", [1, 2, 3, 4, 7], list(range(1, 17))),
    rule=("sequential: random conforming pairs (rectangular, empty rows/cols, duplicates, explicit zeros, +-1 values so that products cancel "
          "exactly) in every format pair, A*B and A^T*B; distributed: A (R x I layout) times B (I x C layout) for random/unbalanced/empty-rank "
          "compositions R, I, C, A^T*D, and the Galerkin product P^T(AP); standard and topology-aware. Non-trivial = both factors non-empty."),
    trusted=COMMON_TRUST + ["values are small integers, so products and sums are exact and 'dropped below 1e-16' means 'exactly zero'"],
    assumptions=["floating-point reassociation is outside the theorem (exact arithmetic)"],
)
