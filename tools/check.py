#!/usr/bin/env python3
"""Entry point of every registered check:  check.py <id> [--tier quick|thorough] [--replay file]
                                            check.py --setup

exit 0: the property held on everything explored (KNOWN-FINDING lines allowed)
exit 1: a line `VIOLATION property=<id> replay=<path>[ no-failing-input-found]` was printed
exit 2: the machinery itself could not run (tree does not compile, tool missing)"""
import argparse, collections, re, concurrent.futures as cf, hashlib, json, os, sys, time, traceback
sys.path.insert(0, os.path.dirname(os.path.abspath(__file__)))
import vlib
from vlib import VERIF, WORK, LEAN
import props as P


def log(msg):
    print(msg, flush=True)


def load_known():
    p = os.path.join(VERIF, "known_findings.json")
    if not os.path.exists(p):
        return []
    return json.load(open(p)).get("findings", [])


def parse_verdicts(text):
    out = []
    for line in text.splitlines():
        parts = line.split(" ", 4)
        if len(parts) < 4 or not parts[0].isdigit():
            continue
        rest = parts[4] if len(parts) > 4 else ""
        d = {"line": int(parts[0]), "prop": parts[1], "op": parts[2], "status": parts[3], "path": "-", "feats": [], "info": ""}
        toks = rest.split(" info=", 1)
        if len(toks) == 2:
            d["info"] = toks[1]
        for t in toks[0].split():
            if t.startswith("path="):
                d["path"] = t[5:]
            elif t.startswith("feats="):
                d["feats"] = [] if t[6:] == "-" else t[6:].split(",")
        out.append(d)
    return out


def run_config(cfg, exe, pid, tier, seed, workdir):
    """run one harness configuration and the driver over its case file"""
    tag = cfg["tag"]
    casefile = os.path.join(workdir, f"{tag}.cases")
    env = {"VERIF_SEED": seed, "VERIF_TIER": tier}
    env.update(cfg.get("env", {}))
    t0 = time.time()
    rc, out = vlib.mpirun(exe, cfg["np"], [casefile] + cfg.get("args", []), env=env, timeout=cfg.get("timeout", 300 if tier == "quick" else 1500))
    res = {"cfg": cfg, "casefile": casefile, "rc": rc, "harness_out": out[-3000:], "verdicts": [], "wall": 0}
    if rc == 0:
        drc, dout = vlib.run_driver(casefile)
        res["verdicts"] = parse_verdicts(dout)
        res["driver_rc"] = drc
        if drc != 0:
            res["driver_out"] = dout[-2000:]
    res["wall"] = time.time() - t0
    return res


def case_line(casefile, n):
    with open(casefile) as f:
        for k, line in enumerate(f, 1):
            if k == n:
                return line.rstrip("\n")
    return ""


def main():
    ap = argparse.ArgumentParser()
    ap.add_argument("prop", nargs="?")
    ap.add_argument("--tier", default=os.environ.get("VERIF_TIER", "quick"))
    ap.add_argument("--setup", action="store_true")
    ap.add_argument("--replay")
    a = ap.parse_args()
    if a.setup:
        ok, out, dt = vlib.lake_build([], log)
        log(out[-3000:])
        log(f"lake build: {'ok' if ok else 'FAILED'} in {dt:.0f}s")
        sys.exit(0 if ok else 2)
    pid = a.prop
    if pid not in P.PROPS:
        log(f"unknown or unclaimed property {pid}")
        sys.exit(2)
    spec = P.PROPS[pid]
    tier = a.tier if a.tier in ("quick", "thorough") else "quick"
    seed = int(os.environ.get("VERIF_SEED", "1") or "1")
    t_start = time.time()
    workdir = os.path.join(WORK, pid)
    os.makedirs(workdir, exist_ok=True)
    for f in os.listdir(workdir):
        if f.endswith(".cases"):
            os.remove(os.path.join(workdir, f))
    os.makedirs(os.path.join(VERIF, "replays"), exist_ok=True)
    for f in os.listdir(os.path.join(VERIF, "replays")):
        if f.startswith(pid + "-") and not a.replay:
            os.remove(os.path.join(VERIF, "replays", f))
    os.makedirs(os.path.join(VERIF, "evidence"), exist_ok=True)
    violations = []       # (kind, key, replay dict)
    notes = []

    # ---- 1. proof side: build the theorems, audit them --------------------------------------
    module = spec["module"]
    pre = spec.get("pre_build")
    pre_info = None
    if pre:
        pre_info = pre(log)          # e.g. the C18 translator regenerates Generated/*.lean
    ok, out, dt_lake = vlib.lake_build([module, "rmdrv"], log)
    thms = vlib.theorems_in(module.replace(".", "/") + ".lean")
    # modules whose theorems are about definitions regenerated from /repo (bridging lemmas): built separately so that
    # a failure names the bridge and leaves the theorems about the hand-written model checked
    extra_ok, extra_broken, failed_thms = [], None, []
    for extra in spec.get("extra_theorem_modules", []):
        okx, outx, dtx = vlib.lake_build([extra], log)
        dt_lake += dtx
        ethms = vlib.theorems_in(extra.replace(".", "/") + ".lean")
        if okx:
            extra_ok.append(extra); thms += ethms
        else:
            errs = "\n".join(l for l in outx.splitlines() if "error" in l.lower())[:2500]
            failed_thms += ethms
            extra_broken = (extra_broken or "") + f"theorem module {extra} no longer checks ({len(ethms)} theorems: {', '.join(ethms[:8])}; for C18 this is the bridge to the definitions regenerated from /repo):\n{errs}\n"
            log(outx[-2500:])
    proof_broken = None
    discharged, axioms_used = 0, set()
    if not ok:
        proof_broken = "lake build failed:\n" + "\n".join(l for l in out.splitlines() if "error" in l.lower())[:3000]
        log(out[-3000:])
        # the driver may still build on its own (model files only)
        ok2, out2, _ = vlib.lake_build(["rmdrv"], log)
        if not ok2:
            log("driver does not build: " + out2[-2000:])
            sys.exit(2)
    else:
        closure = vlib.lean_closure(module)
        for extra in extra_ok:
            closure.update(vlib.lean_closure(extra))
        hits = vlib.forbidden_tokens(closure.values())
        if hits:
            proof_broken = "forbidden tokens in the proof closure: " + "; ".join(hits[:5])
        ax, axout = vlib.audit_axioms([module] + extra_ok, thms, log)
        for t, l in ax.items():
            if l is None:
                proof_broken = (proof_broken or "") + f" theorem {t} not found in the compiled environment;"
            elif set(l) - vlib.ALLOWED_AXIOMS:
                proof_broken = (proof_broken or "") + f" theorem {t} depends on {sorted(set(l) - vlib.ALLOWED_AXIOMS)};"
            else:
                discharged += 1
                axioms_used |= set(l)
        if tier == "thorough":
            # independent re-check of the compiled theorems by the toolchain's external kernel checker
            for m_ in [module] + extra_ok:
                lc = vlib.sh(["lake", "env", "leanchecker", m_], cwd=vlib.LEAN)
                if lc.returncode != 0:
                    proof_broken = (proof_broken or "") + f" leanchecker rejects {m_}: {lc.stdout[-400:]};"
                else:
                    notes.append(f"leanchecker accepted {m_}")
        missing = [t for t in spec.get("required_theorems", []) if t not in thms]
        if missing:
            proof_broken = (proof_broken or "") + f" required theorems missing from Props: {missing};"
    if extra_broken:
        proof_broken = (proof_broken or "") + " " + extra_broken
    log(f"[{pid}] proof side: {len(thms)} theorems, {discharged} discharged, lake {dt_lake:.1f}s"
        + (f"  BROKEN: {proof_broken[:300]}" if proof_broken else ""))

    # ---- 2. code side: rebuild from /repo's working tree, run harness + driver ---------------
    try:
        configs = spec["configs"](tier, seed)
        # thorough tier: every configuration under three generator seeds
        if tier == "thorough" and not a.replay and not spec.get("exhaustive", {}).get("thorough"):
            more = []
            for extra_seed in (seed + 1000, seed + 2000):
                for c in configs:
                    c2 = dict(c); c2["tag"] = f"{c['tag']}-s{extra_seed}"; c2["env"] = dict(c.get("env", {}), VERIF_SEED=extra_seed)
                    more.append(c2)
            configs = configs + more
        # corpus first: inputs on which a past (seeded or repaired) defect showed, regenerated by (config, seed, index)
        corpus_file = os.path.join(VERIF, "corpus", pid + ".json")
        if os.path.exists(corpus_file) and not a.replay:
            seen_c = set()
            for n, e in enumerate(json.load(open(corpus_file))):
                c = dict(e["config"])
                kk = (c["tag"], e["seed"], e["case_index"])
                if kk in seen_c or (e["case_index"] < 0 and e["seed"] == seed and any(x["tag"] == c["tag"] for x in configs)):
                    continue
                seen_c.add(kk)
                c["tag"] = f"corpus{n}-{c['tag']}"
                c["env"] = dict(c.get("env", {}), VERIF_SEED=e["seed"], VERIF_ONLY=e["case_index"])
                if e.get("tier"):                       # an input that only the thorough generator produces (its case numbering differs)
                    c["env"]["VERIF_TIER"] = e["tier"]
                c["corpus"] = e.get("origin", "")
                configs.append(c)
            configs.sort(key=lambda c: 0 if "corpus" in c else 1)
        exes, key = {}, None
        for asan in sorted({bool(c.get("asan", spec.get("asan"))) for c in configs}):
            libdir, key, dt_lib = vlib.build_repo(log, asan=asan)
            for h, cxx in sorted({(c["harness"], c.get("cxx", "")) for c in configs if bool(c.get("asan", spec.get("asan"))) == asan}):
                exes[(h, asan, cxx)] = vlib.build_harness(h, libdir, log, extra=spec.get("harness_flags", "") + (" " + cxx if cxx else "") + (" " + vlib.ASAN if asan else ""))
    except vlib.BuildError as e:
        log(str(e))
        log(f"[{pid}] cannot build /repo's working tree or the harness against it")
        sys.exit(2)
    if a.replay:
        rp = json.load(open(a.replay))
        configs = [c for c in configs if c["tag"] == rp.get("config", {}).get("tag")] or [rp["config"]]
        for c in configs:
            c.setdefault("env", {})["VERIF_ONLY"] = rp.get("case_index", -1)
        seed = rp.get("seed", seed)
    results = []
    # schedule so that about NCPU ranks run at a time
    pending = sorted(configs, key=lambda c: -c["np"])
    with cf.ThreadPoolExecutor(max_workers=vlib.NCPU) as ex:
        running, budget = {}, vlib.NCPU
        while pending or running:
            started = False
            for c in list(pending):
                if c["np"] <= budget or not running:
                    pending.remove(c)
                    budget -= c["np"]
                    fut = ex.submit(run_config, c, exes[(c["harness"], bool(c.get("asan", spec.get("asan"))), c.get("cxx", ""))], pid, tier, seed, workdir)
                    running[fut] = c
                    started = True
            done, _ = cf.wait(list(running), return_when=cf.FIRST_COMPLETED)
            for f in done:
                c = running.pop(f)
                budget += c["np"]
                results.append(f.result())
    # a configuration whose launch failed (crash, hang, MPI error) is repeated once on its own: a failure that does not
    # repeat with the same seed and inputs is recorded in the evidence notes and not reported (machine load, launcher
    # hiccups); one that repeats is reported with its progress string
    n_failed_launches = sum(1 for r in results if r["rc"] != 0)
    for i, r in enumerate(results):
        # ... and only when at most two launches failed: a disturbance does not strike many launches of one run, and
        # repeating a dozen hanging configurations one after the other would only delay the report
        if r["rc"] != 0 and not a.replay and pid != "C05" and n_failed_launches <= 2:     # C05 is about timing: a failure that does not repeat is still a failure
            c = r["cfg"]
            r2 = run_config(c, exes[(c["harness"], bool(c.get("asan", spec.get("asan"))), c.get("cxx", ""))], pid, tier, seed, workdir)
            if r2["rc"] == 0:
                notes.append(f"configuration {c['tag']} failed once (rc={r['rc']}) and passed when repeated with the same seed: not reported")
                results[i] = r2
    results.sort(key=lambda r: r["cfg"]["tag"])

    # ---- 3. collect ---------------------------------------------------------------------------
    known = [k for k in load_known() if k["property"] == pid]
    known_seen = collections.OrderedDict()
    evaluations, distinct = 0, set()
    featcount = collections.Counter()
    samples = []
    failures = []
    for r in results:
        cfg = r["cfg"]
        if r["rc"] != 0:
            prog = ""
            try:
                prog = open(r["casefile"] + ".progress").read().strip().replace(" ", "_")
            except Exception:
                pass
            failures.append({"kind": "harness-crash", "path": f"{pid}/crash/{prog or cfg['tag']}/rc{r['rc']}",
                             "config": cfg, "info": r["harness_out"][-1500:], "case_index": -1, "case": ""})
            continue
        if r.get("driver_rc", 0) != 0:
            log(f"driver failed on {r['casefile']}: {r.get('driver_out','')}")
            sys.exit(2)
        nlines = sum(1 for _ in open(r["casefile"]))
        if nlines != len(r["verdicts"]):
            log(f"driver produced {len(r['verdicts'])} verdicts for {nlines} cases in {r['casefile']}")
            sys.exit(2)
        want_samples = 2 if len(samples) < 6 else 0
        for v in r["verdicts"]:
            evaluations += 1
            for ft in v["feats"]:
                featcount[ft] += 1
            line = None
            if v["status"] != "ok" or want_samples or "trivial" not in v["feats"]:
                line = case_line(r["casefile"], v["line"]) if (v["status"] != "ok" or want_samples) else None
            if "trivial" not in v["feats"]:
                # distinct by the hash of the case text (computed lazily in bulk below)
                pass
            if want_samples and v["status"] == "ok" and "trivial" not in v["feats"]:
                toks = line.split(" ")
                samples.append({"config": cfg["tag"], "case": " ".join(toks[:70]) + (" ..." if len(toks) > 70 else "")})
                want_samples -= 1
            if v["status"] != "ok":
                failures.append({"kind": v["status"], "path": v["path"], "config": cfg, "info": v["info"][:1500],
                                 "case_index": v["line"] - 1, "case": line, "op": v["op"]})
        # distinct non-trivial: hash every non-trivial line
        triv = {v["line"] for v in r["verdicts"] if "trivial" in v["feats"]}
        with open(r["casefile"]) as f:
            for k, line in enumerate(f, 1):
                if k not in triv:
                    distinct.add(hashlib.md5(line.encode()).digest())

    # ---- 4. classify failures -------------------------------------------------------------------
    unknown = []
    for fl in failures:
        m = next((k for k in known if fl["path"].startswith(k["key"]) or ("regex" in k and re.search(k["regex"], fl["path"]))), None)
        if m:
            known_seen.setdefault(m["key"], [m, 0])
            known_seen[m["key"]][1] += 1
        else:
            unknown.append(fl)
    exit_code = 0
    for key, (m, cnt) in known_seen.items():
        log(f"KNOWN-FINDING: property={pid} {m['what']} [key {key}, {cnt} cases this run]")
    for k in known:
        if k["key"] not in known_seen:
            notes.append(f"listed finding {k['key']} was not exercised by this run")
    vio_count = 0
    if unknown:
        # smallest failing case first; one VIOLATION line per distinct path
        bypath = collections.OrderedDict()
        for fl in sorted(unknown, key=lambda x: (len(x["case"] or ""), x["config"]["np"])):
            bypath.setdefault(fl["path"], fl)
        for path, fl in bypath.items():
            vio_count += 1
            rp = {"property": pid, "kind": fl["kind"], "path": path, "config": fl["config"], "seed": seed,
                  "tier": tier, "case_index": fl["case_index"], "case": fl["case"], "info": fl["info"],
                  "how_to_replay": f"python3 tools/check.py {pid} --replay <this file>",
                  "meaning": {"SPECFAIL": "the specification predicate is false on the implementation's own output for this input",
                              "DIFF": "the implementation and the executable Lean model disagree on this input",
                              "harness-crash": "the implementation crashed or hung on this configuration",
                              "BADCASE": "the harness wrote a case the driver cannot read"}.get(fl["kind"], fl["kind"])}
            name = f"{pid}-{hashlib.md5(path.encode()).hexdigest()[:8]}-s{seed}.json"
            rpath = os.path.join(VERIF, "replays", name)
            json.dump(rp, open(rpath, "w"), indent=1)
            # a DIFF with a true specification = correspondence broken, property not shown false
            sfx = "" if fl["kind"] in ("SPECFAIL", "harness-crash") else " no-failing-input-found"
            if fl["kind"] == "DIFF" and spec.get("diff_is_violation", False):
                sfx = ""
            log(f"VIOLATION property={pid} replay={rpath}{sfx}")
            log(f"   {fl['kind']} {path} :: {fl['info'][:300]}")
        exit_code = 1
    if proof_broken:
        # proof obligation broken: if the search above found a failing input it has been reported;
        # otherwise name the theorem/module
        if not unknown:
            name = f"{pid}-proof-s{seed}.json"
            rpath = os.path.join(VERIF, "replays", name)
            json.dump({"property": pid, "kind": "proof-obligation", "module": module, "detail": proof_broken,
                       "searched": f"{evaluations} correspondence cases, none failing"}, open(rpath, "w"), indent=1)
            log(f"VIOLATION property={pid} replay={rpath} no-failing-input-found")
            vio_count += 1
        exit_code = 1

    # ---- 5. evidence ----------------------------------------------------------------------------
    wall = time.time() - t_start
    ev = {
        "property_id": pid, "tier": tier, "seed": seed, "level": "proof",
        "coverage": {
            "obligations": max(len(thms) + len(failed_thms), 1), "discharged": discharged,
            "checker_cmd": f"cd lean && lake build {module} && lake env lean <audit: #print axioms of every theorem in {module}>",
            "trusted_base": ["Lean 4.33.0 kernel", "axioms: " + (", ".join(sorted(axioms_used)) or "none"),
                             "Mathlib v4.33.0 (single modules)" ] + spec.get("trusted", []),
            "theorems": thms,
            "partial_theorems": [t for t in thms if t.endswith("_partial")],
            "evaluations": evaluations, "distinct_nontrivial": len(distinct),
            "rule": spec.get("rule", ""),
            "samples": samples[:6] or [{"note": "no cases"}],
            "exhaustive": bool(spec.get("exhaustive", {}).get(tier, False)),
            "distribution": dict(featcount.most_common(60)),
            "configs": [{"tag": r["cfg"]["tag"], "np": r["cfg"]["np"], "cases": len(r["verdicts"]), "wall_s": round(r["wall"], 1)} for r in results],
            "repo_tree_hash": key,
            "known_findings_seen": {k: v[1] for k, v in known_seen.items()},
            "notes": notes + ([f"translator: {pre_info}"] if pre_info else []),
        },
        "assumptions": spec.get("assumptions", []),
        "wall_s": round(wall, 1),
        "violations": vio_count,
    }
    json.dump(ev, open(os.path.join(VERIF, "evidence", pid + ".json"), "w"), indent=1)
    log(f"[{pid}] {tier} seed={seed}: {evaluations} cases ({len(distinct)} distinct non-trivial), "
        f"{len(failures)} failing ({len(failures)-len(unknown)} known), {wall:.0f}s -> exit {exit_code}")
    sys.exit(exit_code)


if __name__ == "__main__":
    try:
        main()
    except SystemExit:
        raise
    except Exception:
        traceback.print_exc()
        sys.exit(2)
