#!/usr/bin/env python3
"""Rewrite the table between the SEEDED-TABLE markers of DESIGN.md from seeded/results.json."""
import json, os, re
V = os.path.dirname(os.path.dirname(os.path.abspath(__file__)))
res = json.load(open(os.path.join(V, "seeded", "results.json")))
rows = ["| change | what was changed | check → result | first report |", "|---|---|---|---|"]
det = tot = 0
for key in sorted(res):
    e = res[key]
    if not e.get("applied"):
        rows.append(f"| {key} | patch no longer applies | – | – |"); continue
    mf = os.path.join(V, "seeded", key, "meta.json")
    sup = json.load(open(mf)).get("superseded") if os.path.exists(mf) else None
    if sup and not e.get("detected"):
        rows.append(f"| {key} | {(e.get('summary') or '')[:120]} | no longer breaks the property: {sup[:160]} | – |"); continue
    tot += 1; det += 1 if e.get("detected") else 0
    summ = (e.get("summary") or "").replace("|", "/")[:170]
    chk = "; ".join(f"{q}: {'VIOLATION' if c['exit'] == 1 else 'passed' if c['exit'] == 0 else 'exit ' + str(c['exit'])}" for q, c in e["checks"].items())
    first = ""
    for c in e["checks"].values():
        ls = [l.strip() for l in c.get("lines", []) if l.startswith("   ")]
        if ls:
            first = ls[0].split(" :: ")[0][:110]; break
    rows.append(f"| {key} | {summ} | {chk} | `{first}` |" if first else f"| {key} | {summ} | {chk} | |")
rows.append("")
rows.append(f"{det} of {tot} applied changes were reported as a violation by at least one of the checks named for them.")
p = os.path.join(V, "DESIGN.md"); s = open(p).read()
s = re.sub(r"<!-- SEEDED-TABLE-BEGIN -->.*<!-- SEEDED-TABLE-END -->", "<!-- SEEDED-TABLE-BEGIN -->\n" + "\n".join(rows) + "\n<!-- SEEDED-TABLE-END -->", s, flags=re.S)
open(p, "w").write(s)
print(det, "of", tot)
