#!/usr/bin/env python3
"""Run the registered checks against the kept breaking changes under /verif/seeded/<id>/<k>/patch.diff.

For every change: `git -C /repo apply patch.diff`, run `check.py <id> --tier quick` (plus the extra
property checks named in meta.json "also"), record exit code and the VIOLATION lines, then
`git -C /repo checkout -- .`. Results go to /verif/seeded/results.json. /repo must be clean at start;
it is restored in all cases. Usage: seeded.py [id[/k] ...]"""
import glob, json, os, subprocess, sys, time
VERIF = os.path.dirname(os.path.dirname(os.path.abspath(__file__)))
REPO = "/repo"


def sh(cmd, **kw):
    return subprocess.run(cmd, shell=True, stdout=subprocess.PIPE, stderr=subprocess.STDOUT, text=True, **kw)


def clean():
    return sh(f"git -C {REPO} status --porcelain --untracked-files=no").stdout.strip() == ""


def main():
    want = sys.argv[1:]
    if not clean():
        print("/repo has uncommitted changes; refusing"); return 2
    resf = os.path.join(VERIF, "seeded", "results.json")
    results = json.load(open(resf)) if os.path.exists(resf) else {}
    patches = sorted(glob.glob(os.path.join(VERIF, "seeded", "*", "*", "patch.diff")))
    for p in patches:
        k = os.path.basename(os.path.dirname(p)); pid = os.path.basename(os.path.dirname(os.path.dirname(p)))
        key = f"{pid}/{k}"
        if want and not any(w == pid or w == key for w in want):
            continue
        meta = {}
        mf = os.path.join(os.path.dirname(p), "meta.json")
        if os.path.exists(mf):
            meta = json.load(open(mf))
        props = [pid.split("-")[0]] + list(meta.get("also", []))
        r = sh(f"git -C {REPO} apply {p}")
        if r.returncode != 0:
            results[key] = {"applied": False, "error": r.stdout[-500:]}
            print(f"{key}: patch does not apply"); continue
        entry = {"applied": True, "summary": meta.get("summary", ""), "checks": {}}
        try:
            for q in props:
                t0 = time.time()
                c = sh(f"python3 {VERIF}/tools/check.py {q} --tier quick", cwd=VERIF)
                viol = [l for l in c.stdout.splitlines() if l.startswith("VIOLATION") or l.startswith("   ")][:6]
                reps = []
                for l in c.stdout.splitlines():
                    if l.startswith("VIOLATION") and "replay=" in l:
                        rp = l.split("replay=")[1].split()[0]
                        try:
                            rj = json.load(open(rp))
                            if "config" in rj:
                                reps.append({"config": {k: v for k, v in rj["config"].items() if k != "corpus"}, "seed": rj.get("seed", 1),
                                             "case_index": rj.get("case_index", -1), "path": rj.get("path", ""), "origin": key})
                        except Exception:
                            pass
                entry["checks"][q] = {"exit": c.returncode, "lines": viol, "wall_s": round(time.time() - t0, 1), "replays": reps[:3]}
                print(f"{key}: check {q} exit={c.returncode} {viol[:2]}")
        finally:
            sh(f"git -C {REPO} checkout -- .")
        entry["detected"] = any(v["exit"] == 1 for v in entry["checks"].values())
        results[key] = entry
        json.dump(results, open(resf, "w"), indent=1)
    assert clean()
    # harvest: every input on which a kept change was detected becomes a corpus entry of that property
    for key, e in results.items():
        for q, cr in e.get("checks", {}).items():
            for r in cr.get("replays", [])[:1]:
                cf_ = os.path.join(VERIF, "corpus", q + ".json")
                cur = json.load(open(cf_)) if os.path.exists(cf_) else []
                tagc = r["config"].get("tag", "")
                if tagc.startswith("corpus"):
                    continue
                if not any(x["config"].get("tag") == tagc and x["seed"] == r["seed"] and x["case_index"] == r["case_index"] for x in cur):
                    cur.append(r)
                    os.makedirs(os.path.dirname(cf_), exist_ok=True)
                    json.dump(cur, open(cf_, "w"), indent=1)
    return 0


if __name__ == "__main__":
    sys.exit(main())
