// Distributed helpers: layouts (incl. empty ranks), assembling the real ParMatrix classes from global
// triplets, gathering vectors and matrices back to rank 0.
#ifndef VERIF_HARNESS_PAR_HPP
#define VERIF_HARNESS_PAR_HPP
#include "mat.hpp"
namespace vh {
using namespace raptor;

struct Layout {            // contiguous row / column blocks per rank
    std::vector<int> rows, cols, first_row, first_col;
    int kind = 0;          // 0 default Partition(n,m), 1 explicit random, 2 explicit with empty ranks / one rank owns all
    int n_rows = 0, n_cols = 0;
};

// random composition of n into np non-negative parts (all ranks draw the same numbers)
inline std::vector<int> compose(Rng& g, int n, int np, int style) {
    std::vector<int> s(np, 0);
    if (style == 2) { int k = g.below(np); s[k] = n; return s; }                 // one rank owns everything
    if (style == 3) { for (int i = 0; i < n; i++) s[g.below(std::max(1, np / 2))]++; return s; } // upper half empty
    for (int i = 0; i < n; i++) s[g.below(np)]++;
    return s;
}

inline Layout make_layout(Rng& g, int n_rows, int n_cols, int np, int kind) {
    Layout L; L.kind = kind; L.n_rows = n_rows; L.n_cols = n_cols;
    if (kind == 0) return L;
    int st_r = kind == 1 ? 1 : 2 + g.below(2), st_c = kind == 1 ? 1 : (g.coin() ? 1 : 2 + g.below(2));
    L.rows = compose(g, n_rows, np, st_r); L.cols = compose(g, n_cols, np, st_c);
    L.first_row.assign(np, 0); L.first_col.assign(np, 0);
    for (int r = 1; r < np; r++) { L.first_row[r] = L.first_row[r - 1] + L.rows[r - 1]; L.first_col[r] = L.first_col[r - 1] + L.cols[r - 1]; }
    return L;
}

// assemble through ParCOOMatrix::add_value + finalize (the library's own assembly path)
inline ParCOOMatrix* assemble_coo(const Trip& t, const Layout& L, int rank, Topology* topo = nullptr) {
    ParCOOMatrix* A = L.kind == 0 ? new ParCOOMatrix(t.n_rows, t.n_cols)
        : new ParCOOMatrix(t.n_rows, t.n_cols, L.rows[rank], L.cols[rank], L.first_row[rank], L.first_col[rank]);
    int fr = A->partition->first_local_row, nr = A->partition->local_num_rows;
    for (size_t k = 0; k < t.r.size(); k++)
        if (t.r[k] >= fr && t.r[k] < fr + nr) A->add_value(t.r[k] - fr, t.c[k], t.v[k]);
    A->finalize();
    return A;
}

// global (row, col, value) entries of a finalized ParMatrix, gathered to rank 0 as a flat triple list
inline std::vector<long long> local_entries(ParMatrix* A, bool exact = true) {
    std::vector<long long> out;
    auto emit = [&](Matrix* M, const std::vector<int>& colmap, bool on) {
        if (!M) return;
        int bs = M->b_rows * M->b_cols;
        auto push = [&](int row, int col, int k) {
            int grow = row < (int)A->local_row_map.size() ? A->local_row_map[row] : A->partition->first_local_row + row;
            int gcol = col < (int)colmap.size() ? colmap[col] : (on ? A->partition->first_local_col + col : -1000000 - col);
            for (int t = 0; t < bs; t++) {
                double v = M->get_val(k, t);
                out.push_back((long long)grow * M->b_rows + t / M->b_cols);
                out.push_back((long long)gcol * M->b_cols + t % M->b_cols);
                out.push_back(exact ? (long long)llround(v) : (long long)dbits(v));
            }
        };
        format_t f = M->format();
        if (f == COO || f == BCOO) { for (int k = 0; k < M->nnz; k++) push(M->idx1[k], M->idx2[k], k); }
        else if (f == CSR || f == BSR) { for (int i = 0; i < M->n_rows; i++) for (int k = M->idx1[i]; k < M->idx1[i + 1]; k++) push(i, M->idx2[k], k); }
        else { for (int j = 0; j < M->n_cols; j++) for (int k = M->idx1[j]; k < M->idx1[j + 1]; k++) push(M->idx2[k], j, k); }
    };
    emit(A->on_proc, A->on_proc_column_map, true);
    emit(A->off_proc, A->off_proc_column_map, false);
    return out;
}

// the per-rank data of a scalar distributed matrix exactly as stored: on-process entries (local row, local column,
// value), off-process entries (local row, halo position, value), local_row_map, on_proc_column_map, off_proc_column_map
// (each list preceded by its length; maps the object leaves empty are filled in the way the library reads them)
inline std::vector<long long> local_blocks(ParMatrix* A) {
    std::vector<long long> out;
    auto emit = [&](Matrix* M) {
        std::vector<long long> e;
        if (M) {
            format_t f = M->format();
            auto push = [&](int row, int col, int k) { e.push_back(row); e.push_back(col); e.push_back((long long)llround(M->get_val(k, 0))); };
            if (f == COO) { for (int k = 0; k < M->nnz; k++) push(M->idx1[k], M->idx2[k], k); }
            else if (f == CSR) { for (int i = 0; i < M->n_rows; i++) for (int k = M->idx1[i]; k < M->idx1[i + 1]; k++) push(i, M->idx2[k], k); }
            else if (f == CSC) { for (int j = 0; j < M->n_cols; j++) for (int k = M->idx1[j]; k < M->idx1[j + 1]; k++) push(M->idx2[k], j, k); }
        }
        out.push_back((long long)e.size() / 3); out.insert(out.end(), e.begin(), e.end());
    };
    emit(A->on_proc); emit(A->off_proc);
    out.push_back(A->local_num_rows);
    for (int i = 0; i < A->local_num_rows; i++) out.push_back(i < (int)A->local_row_map.size() ? A->local_row_map[i] : A->partition->first_local_row + i);
    out.push_back(A->on_proc_num_cols);
    for (int j = 0; j < A->on_proc_num_cols; j++) out.push_back(j < (int)A->on_proc_column_map.size() ? A->on_proc_column_map[j] : A->partition->first_local_col + j);
    out.push_back(A->off_proc_num_cols);
    for (int k = 0; k < A->off_proc_num_cols; k++) out.push_back(k < (int)A->off_proc_column_map.size() ? A->off_proc_column_map[k] : -1);
    return out;
}

inline std::vector<long long> gather_entries(ParMatrix* A, bool exact = true) {
    auto per = gather_ll(local_entries(A, exact));
    std::vector<long long> all;
    for (auto& v : per) all.insert(all.end(), v.begin(), v.end());
    return all;
}

inline std::vector<long long> trip_ll(const Trip& t) {
    std::vector<long long> v;
    for (size_t k = 0; k < t.r.size(); k++) { v.push_back(t.r[k]); v.push_back(t.c[k]); v.push_back((long long)llround(t.v[k])); }
    return v;
}

// gather a distributed vector (rank order) to rank 0
inline std::vector<long long> gather_vec(ParVector& x, bool exact = true) {
    std::vector<long long> mine(x.local_n);
    for (int i = 0; i < x.local_n; i++) mine[i] = exact ? (long long)llround(x.local.values[i]) : (long long)dbits(x.local.values[i]);
    auto per = gather_ll(mine);
    std::vector<long long> all;
    for (auto& v : per) all.insert(all.end(), v.begin(), v.end());
    return all;
}

// fill a distributed vector from a global one, given this rank's first index
inline void fill_vec(ParVector& x, const std::vector<double>& glob, int first) {
    for (int i = 0; i < x.local_n; i++) x.local.values[i] = glob[first + i];
}

inline std::vector<double> rand_vec(Rng& g, int n, int vmax = 3) {
    std::vector<double> v(n); for (auto& e : v) e = g.range(-vmax, vmax); return v;
}

inline void layout_desc(Case& c, ParMatrix* A) {    // per-rank (local_rows, local_cols, first_row, first_col)
    std::vector<long long> mine = { A->partition->local_num_rows, A->partition->local_num_cols,
                                    A->partition->first_local_row, A->partition->first_local_col };
    auto per = gather_ll(mine);
    int rank; MPI_Comm_rank(MPI_COMM_WORLD, &rank);
    if (rank == 0) { c.i((long long)per.size()); for (auto& v : per) for (auto x : v) c.i(x); }
}
} // namespace vh
#endif
