// PMPI interposition layer (C05): every MPI entry point RAPtor uses is defined here and forwards to PMPI_*.
// It (1) turns wildcard receives/probes into explicit choices among the sources that currently have a matching
// message, driven by a schedule, (2) delays sends and entries into collectives by seeded amounts, (3) logs every
// send / receive / collective with the rank's epoch (number of world collectives completed), (4) arms a watchdog.
#ifndef VERIF_PMPI_LAYER_HPP
#define VERIF_PMPI_LAYER_HPP
#include <mpi.h>
#include <vector>
#include <cstdint>
#include <cstdlib>
#include <cstring>
#include <unistd.h>
#include <algorithm>
#include <numeric>
#include <time.h>

namespace vl {
struct State {
    bool active = false;
    uint64_t rng = 1;
    int mode = 0;            // 0 natural, 1 reverse scan, 2 random permutation, 3 forced permutation at one site,
                             // 4 laggard: one rank (perm_index mod size) holds back each of its first sends by max_delay_us, nobody else delays
                             // 5 slow tag: every send with tag site_tag leaves max_delay_us late, on rank perm_index - 1 (perm_index 0: on all ranks)
    int sends_seen = 0;
    bool ssend = false;      // standard-mode sends complete synchronously (MPI permits it: a correct program may not rely on buffering)
    int site_tag = -1;       // for mode 3: the wildcard site (identified by its tag)
    int perm_index = 0;      // for mode 3: index of the permutation of sources
    int max_delay_us = 0;
    int gather_us = 0;       // how long a wildcard waits for more candidates before choosing
    long long epoch = 0;     // world collectives completed
    std::vector<long long> trace;   // flat records
    std::vector<MPI_Comm> comms;    // communicators seen (index = id)
    long long wild_choices = 0, wild_multi = 0, delays = 0;
    int pend_comm = -1, pend_tag = -1, pend_src = -1;   // a wildcard probe whose receive has not been posted yet
};
static State S;

inline uint64_t next() { uint64_t z = (S.rng += 0x9E3779B97F4A7C15ull); z = (z ^ (z >> 30)) * 0xBF58476D1CE4E5B9ull; z = (z ^ (z >> 27)) * 0x94D049BB133111EBull; return z ^ (z >> 31); }
inline void reset(uint64_t seed, int mode, int site_tag, int perm_index, int max_delay_us, int gather_us) {
    int rank; PMPI_Comm_rank(MPI_COMM_WORLD, &rank);
    S.active = true; S.rng = seed * 1000003ull + (uint64_t)rank * 7919ull + 11; S.ssend = mode >= 10; mode %= 10; S.mode = mode; S.site_tag = site_tag; S.perm_index = perm_index;
    S.max_delay_us = max_delay_us; S.gather_us = gather_us; S.epoch = 0; S.sends_seen = 0; S.trace.clear(); S.wild_choices = S.wild_multi = S.delays = 0;
}
inline void stop() { S.active = false; }
// a communicator is identified by its membership (world ranks), so that all members name it alike
inline int comm_id(MPI_Comm c) {
    int res; PMPI_Comm_compare(c, MPI_COMM_WORLD, &res); if (res == MPI_IDENT) return 0;
    MPI_Group g, w; PMPI_Comm_group(c, &g); PMPI_Comm_group(MPI_COMM_WORLD, &w);
    int n; PMPI_Group_size(g, &n);
    std::vector<int> in(n), out(n); std::iota(in.begin(), in.end(), 0);
    PMPI_Group_translate_ranks(g, n, in.data(), w, out.data()); PMPI_Group_free(&g); PMPI_Group_free(&w);
    long long h = 7; for (int r : out) h = (h * 131 + r + 1) % 1000003;
    int wn; PMPI_Comm_size(MPI_COMM_WORLD, &wn);
    return (n == wn) ? 0 : (int)h + 1;       // a duplicate of the world communicator counts as world
}
inline int world_rank_of(MPI_Comm c, int r) {
    if (r < 0) return r;
    MPI_Group g, w; PMPI_Comm_group(c, &g); PMPI_Comm_group(MPI_COMM_WORLD, &w);
    int out; PMPI_Group_translate_ranks(g, 1, &r, w, &out); PMPI_Group_free(&g); PMPI_Group_free(&w); return out;
}
inline void maybe_delay(bool is_send = false, int tag = -1) {
    if (!S.active || S.max_delay_us <= 0) return;
    if (S.mode == 5) {
        int rank; PMPI_Comm_rank(MPI_COMM_WORLD, &rank);
        if (is_send && tag == S.site_tag && (S.perm_index == 0 || rank == S.perm_index - 1)) { usleep((useconds_t)S.max_delay_us); S.delays++; }
        return;
    }
    if (S.mode == 4) {      // the laggard's first sends leave late: everybody else runs ahead (a whole package construction, if nothing stops them)
        int rank, n; PMPI_Comm_rank(MPI_COMM_WORLD, &rank); PMPI_Comm_size(MPI_COMM_WORLD, &n);
        if (is_send && rank == S.perm_index % n && S.sends_seen++ < 3) { usleep((useconds_t)S.max_delay_us); S.delays++; }
        return;
    }
    if (next() % 4 == 0) { usleep((useconds_t)(next() % (uint64_t)S.max_delay_us)); S.delays++; }
}
inline void rec(long long kind, MPI_Comm c, long long peer_world, long long tag, long long extra) {
    if (!S.active) return;
    S.trace.push_back(kind); S.trace.push_back(comm_id(c)); S.trace.push_back(peer_world); S.trace.push_back(tag); S.trace.push_back(S.epoch); S.trace.push_back(extra);
}
inline void nth_perm(std::vector<int>& v, int k) {       // k-th permutation in lexicographic order
    std::sort(v.begin(), v.end()); for (int i = 0; i < k; i++) std::next_permutation(v.begin(), v.end());
}
// choose a source for a wildcard (any-source) receive with this tag on this communicator
inline int choose_source(int tag, MPI_Comm comm) {
    int n; PMPI_Comm_size(comm, &n);
    std::vector<int> order(n); std::iota(order.begin(), order.end(), 0);
    if (S.mode == 1) std::reverse(order.begin(), order.end());
    else if (S.mode == 2) { for (int i = n - 1; i > 0; i--) std::swap(order[i], order[next() % (uint64_t)(i + 1)]); }
    else if (S.mode == 3 && tag == S.site_tag) nth_perm(order, S.perm_index);
    struct timespec t0; clock_gettime(CLOCK_MONOTONIC, &t0);
    std::vector<int> avail;
    while (true) {
        avail.clear();
        for (int s : order) { int flag = 0; MPI_Status st; PMPI_Iprobe(s, tag, comm, &flag, &st); if (flag) avail.push_back(s); }
        struct timespec t1; clock_gettime(CLOCK_MONOTONIC, &t1);
        long us = (t1.tv_sec - t0.tv_sec) * 1000000L + (t1.tv_nsec - t0.tv_nsec) / 1000L;
        if (!avail.empty() && (us >= S.gather_us || (int)avail.size() >= n - 1)) break;
        if (avail.empty() && us > 1000) usleep(50);
    }
    S.wild_choices++; if (avail.size() > 1) S.wild_multi++;
    return avail[0];
}
} // namespace vl

extern "C" {
int MPI_Probe(int source, int tag, MPI_Comm comm, MPI_Status* status) {
    if (vl::S.active && source == MPI_ANY_SOURCE) { int s = vl::choose_source(tag, comm);
        vl::S.pend_comm = vl::comm_id(comm); vl::S.pend_tag = tag; vl::S.pend_src = s; return PMPI_Probe(s, tag, comm, status); }
    return PMPI_Probe(source, tag, comm, status);
}
int MPI_Recv(void* buf, int count, MPI_Datatype dt, int source, int tag, MPI_Comm comm, MPI_Status* status) {
    int wild = 0;
    if (vl::S.active && source == MPI_ANY_SOURCE) { source = vl::choose_source(tag, comm); wild = 1; }
    if (vl::S.active && !wild && vl::S.pend_src == source && vl::S.pend_tag == tag && vl::S.pend_comm == vl::comm_id(comm)) { wild = 1; vl::S.pend_src = -1; }
    MPI_Status st; int rc = PMPI_Recv(buf, count, dt, source, tag, comm, &st);
    if (status != MPI_STATUS_IGNORE) *status = st;
    // a receive that follows a wildcard probe names the probed source explicitly; the probe was the choice.
    vl::rec(2, comm, vl::S.active ? vl::world_rank_of(comm, st.MPI_SOURCE) : 0, tag, wild);
    return rc;
}
int MPI_Irecv(void* buf, int count, MPI_Datatype dt, int source, int tag, MPI_Comm comm, MPI_Request* req) {
    vl::maybe_delay();      // a late receive: the matching send of the peer stays pending meanwhile
    vl::rec(2, comm, vl::S.active ? vl::world_rank_of(comm, source) : 0, tag, 0);
    return PMPI_Irecv(buf, count, dt, source, tag, comm, req);
}
int MPI_Isend(const void* buf, int count, MPI_Datatype dt, int dest, int tag, MPI_Comm comm, MPI_Request* req) {
    vl::maybe_delay(true, tag); vl::rec(1, comm, vl::S.active ? vl::world_rank_of(comm, dest) : 0, tag, count);
    if (vl::S.active && vl::S.ssend) return PMPI_Issend(buf, count, dt, dest, tag, comm, req);
    return PMPI_Isend(buf, count, dt, dest, tag, comm, req);
}
int MPI_Issend(const void* buf, int count, MPI_Datatype dt, int dest, int tag, MPI_Comm comm, MPI_Request* req) {
    vl::maybe_delay(true, tag); vl::rec(1, comm, vl::S.active ? vl::world_rank_of(comm, dest) : 0, tag, count);
    return PMPI_Issend(buf, count, dt, dest, tag, comm, req);
}
int MPI_Send(const void* buf, int count, MPI_Datatype dt, int dest, int tag, MPI_Comm comm) {
    vl::maybe_delay(true, tag); vl::rec(1, comm, vl::S.active ? vl::world_rank_of(comm, dest) : 0, tag, count);
    if (vl::S.active && vl::S.ssend) return PMPI_Ssend(buf, count, dt, dest, tag, comm);
    return PMPI_Send(buf, count, dt, dest, tag, comm);
}
#define VL_COLL(kind, comm) do { vl::maybe_delay(); vl::rec(3, comm, -1, kind, 0); } while (0)
#define VL_DONE(comm) do { if (vl::S.active && vl::comm_id(comm) == 0) vl::S.epoch++; } while (0)
int MPI_Allreduce(const void* s, void* r, int c, MPI_Datatype d, MPI_Op o, MPI_Comm comm) { VL_COLL(1, comm); int rc = PMPI_Allreduce(s, r, c, d, o, comm); VL_DONE(comm); return rc; }
int MPI_Allgather(const void* s, int sc, MPI_Datatype sd, void* r, int rcnt, MPI_Datatype rd, MPI_Comm comm) { VL_COLL(2, comm); int rc = PMPI_Allgather(s, sc, sd, r, rcnt, rd, comm); VL_DONE(comm); return rc; }
int MPI_Allgatherv(const void* s, int sc, MPI_Datatype sd, void* r, const int* rc_, const int* displs, MPI_Datatype rd, MPI_Comm comm) { VL_COLL(3, comm); int rc = PMPI_Allgatherv(s, sc, sd, r, rc_, displs, rd, comm); VL_DONE(comm); return rc; }
int MPI_Barrier(MPI_Comm comm) { VL_COLL(4, comm); int rc = PMPI_Barrier(comm); VL_DONE(comm); return rc; }
int MPI_Bcast(void* b, int c, MPI_Datatype d, int root, MPI_Comm comm) { VL_COLL(5, comm); int rc = PMPI_Bcast(b, c, d, root, comm); return rc; }       // not synchronising: no epoch
int MPI_Gather(const void* s, int sc, MPI_Datatype sd, void* r, int rcnt, MPI_Datatype rd, int root, MPI_Comm comm) { VL_COLL(6, comm); return PMPI_Gather(s, sc, sd, r, rcnt, rd, root, comm); }
int MPI_Reduce(const void* s, void* r, int c, MPI_Datatype d, MPI_Op o, int root, MPI_Comm comm) { VL_COLL(7, comm); return PMPI_Reduce(s, r, c, d, o, root, comm); }
int MPI_Comm_split(MPI_Comm comm, int color, int key, MPI_Comm* newcomm) { VL_COLL(8, comm); int rc = PMPI_Comm_split(comm, color, key, newcomm); VL_DONE(comm); return rc; }
int MPI_Comm_dup(MPI_Comm comm, MPI_Comm* newcomm) { VL_COLL(9, comm); int rc = PMPI_Comm_dup(comm, newcomm); VL_DONE(comm); return rc; }
}
#endif
