// C18: real Partition constructors, create_assumed_partition, form_col_to_proc, transpose(),
// and Topology::get_node / get_local_proc / get_global_proc.
#include "common.hpp"
#include "raptor/raptor.hpp"
using namespace raptor;

static vh::Env E;

// rank record: grows gcols lr lc fr fc lastr lastc assumed first_cols(vec) owners(vec)
static std::vector<long long> record(Partition* p, int cols_to_search)
{
    std::vector<long long> r = { p->global_num_rows, p->global_num_cols, p->local_num_rows, p->local_num_cols,
        p->first_local_row, p->first_local_col, p->last_local_row, p->last_local_col, p->assumed_num_cols };
    r.push_back((long long)p->first_cols.size());
    for (int v : p->first_cols) r.push_back(v);
    std::vector<int> cols(cols_to_search), owners;
    for (int c = 0; c < cols_to_search; c++) cols[c] = c;
    if (cols_to_search && p->assumed_num_cols > 0) p->form_col_to_proc(cols, owners);
    else owners.assign(cols_to_search, -1);
    r.push_back((long long)owners.size());
    for (int v : owners) r.push_back(v);
    return r;
}

static void emit(int kind, int rows, int cols, int br, int bc, const std::vector<long long>& in_mine,
                 Partition* p, int search)
{
    auto ins = vh::gather_ll(in_mine);
    auto outs = vh::gather_ll(record(p, search));
    if (E.rank == 0) {
        vh::Case c("C18", "part");
        c.i(kind).i(E.np).i(rows).i(cols).i(br).i(bc);
        for (auto& v : ins) for (auto x : v) c.i(x);
        for (auto& v : outs) for (auto x : v) c.i(x);
        c.write(E.out);
    }
}

int main(int argc, char** argv)
{
    MPI_Init(&argc, &argv);
    E.init(argc, argv);
    int maxn = E.thorough ? 40 : 12;
    Topology* topo = new Topology();
    topo->num_shared = 1000000; // keep alive across partitions
    vh::Rng rng(E.seed * 1000 + 18);

    for (int rows = 0; rows <= maxn; rows++)
    for (int cols = 0; cols <= maxn; cols++)
    {
        // owner search is only meaningful when some rank owns columns: rows > 0
        int search = rows > 0 ? cols : 0;
        { char ab[96]; snprintf(ab, 96, "partition/rows%d/cols%d/np%d", rows, cols, E.np); E.about(ab); }
        if (E.want()) {
            Partition* p = new Partition(rows, cols, topo);
            std::vector<long long> in = {0, 0, 0, 0};
            emit(0, rows, cols, 1, 1, in, p, search);
            delete p;
        }
        // block constructor, block sizes dividing the dimensions
        for (int br = 1; br <= 3; br++) for (int bc = 1; bc <= 3; bc++) {
            if ((br == 1 && bc == 1) || rows % br || cols % bc) continue;
            if (!E.thorough && (rows + cols + br + bc) % 3) continue;
            { char ab[96]; snprintf(ab, 96, "partition_block/rows%d/cols%d/b%dx%d/np%d", rows, cols, br, bc, E.np); E.about(ab); }
            if (E.want()) {
                Partition* p = new Partition(rows, cols, br, bc, topo);
                // a rank without rows leaves first_local_col unset in this constructor: the value read
                // below is then whatever the allocator left there (reported as a model difference)
                std::vector<long long> in = {0, 0, 0, 0};
                emit(1, rows, cols, br, bc, in, p, (rows / br) > 0 ? cols : 0);
                delete p;
            }
        }
        // explicit sizes with empty ranks: random composition of rows and cols over np ranks
        if (E.thorough || (rows + 2 * cols) % 4 == 0) {
            std::vector<int> rs(E.np, 0), cs(E.np, 0);
            // all ranks draw the same numbers (same seed, same sequence)
            for (int k = 0; k < rows; k++) rs[rng.coin(1, 3) ? rng.below(E.np) : rng.below(std::max(1, E.np / 2))]++;
            for (int k = 0; k < cols; k++) cs[rng.coin(1, 3) ? rng.below(E.np) : rng.below(std::max(1, E.np / 2))]++;
            int fr = 0, fc = 0;
            for (int r = 0; r < E.rank; r++) { fr += rs[r]; fc += cs[r]; }
            std::vector<long long> in = { rs[E.rank], cs[E.rank], fr, fc };
            if (E.want()) {
                Partition* p = new Partition(rows, cols, rs[E.rank], cs[E.rank], fr, fc, topo);
                emit(2, rows, cols, 1, 1, in, p, cols);
                delete p;
            }
            if (E.want()) {
                Partition* p = new Partition(rows, cols, rs[E.rank], cs[E.rank], fr, fc, topo);
                Partition* t = p->transpose();
                // the transposed partition's columns are the original rows
                emit(3, cols, rows, 1, 1, in, t, rows);
                delete t; delete p;
            }
        }
    }

    // Topology maps through the real constructor (environment variables) for this process count
    for (int ord = 0; ord <= 2; ord++) for (int ppn = 1; ppn <= 16; ppn++) {
        if (!E.want()) continue;
        char b1[16], b2[16]; snprintf(b1, 16, "%d", ppn); snprintf(b2, 16, "%d", ord);
        setenv("PPN", b1, 1); setenv("RAPtor_MPICH_RANK_REORDER_METHOD", b2, 1);
        Topology* t = new Topology();
        int lrank; MPI_Comm_rank(t->local_comm, &lrank);
        // the on-node rank MPI assigned must be what get_local_proc reports for this rank
        std::vector<long long> mine = { lrank };
        auto lranks = vh::gather_ll(mine);
        if (E.rank == 0) {
            int nn = t->num_nodes; int lmax = 0;
            std::vector<int> nodeOf(E.np), localOf(E.np), globalOf;
            for (int p = 0; p < E.np; p++) { nodeOf[p] = t->get_node(p); localOf[p] = t->get_local_proc(p); lmax = std::max(lmax, localOf[p] + 1); }
            for (int node = 0; node < nn; node++) for (int l = 0; l < lmax; l++) globalOf.push_back(t->get_global_proc(node, l));
            vh::Case c("C18", "topo");
            c.i(ord).i(E.np).i(ppn).i(nn).vec(nodeOf).vec(localOf).vec(globalOf);
            c.write(E.out);
            std::vector<int> lr(E.np); for (int p = 0; p < E.np; p++) lr[p] = (int)lranks[p][0];
            vh::Case c2("C18", "localcomm");
            c2.i(ord).i(E.np).i(ppn).vec(localOf).vec(lr);
            c2.write(E.out);
        }
        delete t;
    }
    unsetenv("PPN"); unsetenv("RAPtor_MPICH_RANK_REORDER_METHOD");

    // Topology maps for process counts beyond what is launched: the public fields are set as the
    // constructor computes them (num_nodes = ceil(nprocs/PPN)) and the real methods are evaluated.
    if (E.np == 1) {
        int maxp = E.thorough ? 64 : 24;
        for (int ord = 0; ord <= 2; ord++) for (int nprocs = 1; nprocs <= maxp; nprocs++) for (int ppn = 1; ppn <= 16; ppn++) {
            if (!E.want()) continue;
            Topology* t = topo;
            int save_ppn = t->PPN, save_ord = t->rank_ordering, save_nn = t->num_nodes;
            t->PPN = ppn; t->rank_ordering = ord; t->num_nodes = nprocs / ppn + (nprocs % ppn ? 1 : 0);
            int nn = t->num_nodes, lmax = 0;
            std::vector<int> nodeOf(nprocs), localOf(nprocs), globalOf;
            for (int p = 0; p < nprocs; p++) { nodeOf[p] = t->get_node(p); localOf[p] = t->get_local_proc(p); lmax = std::max(lmax, localOf[p] + 1); }
            for (int node = 0; node < nn; node++) for (int l = 0; l < lmax; l++) globalOf.push_back(t->get_global_proc(node, l));
            vh::Case c("C18", "topo");
            c.i(ord).i(nprocs).i(ppn).i(nn).vec(nodeOf).vec(localOf).vec(globalOf);
            c.write(E.out);
            t->PPN = save_ppn; t->rank_ordering = save_ord; t->num_nodes = save_nn;
        }
    }
    E.finish();
    MPI_Finalize();
    return 0;
}
