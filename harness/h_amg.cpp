// AMG harness for C01, C08, C09, C10: builds hierarchies with the real distributed solvers (and the sequential
// classes on one process), dumps them (global triplets per level + row partition), and executes histories of
// cycle()/solve()/Krylov operations, recording inputs and outputs.
#include "par.hpp"
#include <map>
#include "raptor/gallery/par_stencil.hpp"
#include "raptor/gallery/stencil.hpp"
#include "raptor/gallery/diffusion.hpp"
#include "raptor/krylov/par_cg.hpp"
#include "raptor/krylov/par_bicgstab.hpp"
#include "raptor/ruge_stuben/ruge_stuben_solver.hpp"
#include "raptor/aggregation/smoothed_aggregation_solver.hpp"
using namespace raptor;
static vh::Env E;
static std::vector<std::vector<long long>> G(const std::vector<long long>& v) { return vh::gather_ll(v); }
static std::vector<long long> flat(const std::vector<std::vector<long long>>& per) { std::vector<long long> a; for (auto& v : per) a.insert(a.end(), v.begin(), v.end()); return a; }

struct Problem { vh::Trip t; int n; bool spd; bool use_stencil; int grid[2]; double eps, theta; int kind; };

// system families of the properties' domain
static Problem gen_problem(vh::Rng& g, int it, bool spd_only)
{
    Problem p; p.kind = spd_only ? (int[]){0, 1, 2, 4}[g.below(4)] : g.below(6); p.use_stencil = false; p.spd = true; p.eps = 1; p.theta = 0;
    int cap = 12 + std::min(60, 3 * it);
    auto add = [&](int i, int j, double v) { p.t.r.push_back(i); p.t.c.push_back(j); p.t.v.push_back(v); };
    if (p.kind == 0) {            // rotated anisotropic diffusion stencil (gallery)
        p.use_stencil = true; p.grid[0] = g.range(3, 9); p.grid[1] = p.grid[0];   // square grids: the gallery generator is wrong on unequal extents (C19 finding) p.eps = g.coin() ? 0.001 : 0.1 + g.unit(); p.theta = g.coin() ? 0 : M_PI / g.range(3, 8);
        p.n = p.grid[0] * p.grid[1];
    } else if (p.kind == 1 || p.kind == 4) {   // weighted graph Laplacian of a random (possibly disconnected) graph + shift; kind 4 adds decoupled diagonal-only rows
        int n = g.range(4, cap); p.n = n; std::vector<double> diag(n, 0.0);
        int m = g.range(n / 2, 3 * n);
        for (int k = 0; k < m; k++) { int i = g.below(n), j = g.below(n); if (i == j) continue;
            if (p.kind == 4 && (i % 5 == 4 || j % 5 == 4)) continue;            // every fifth vertex isolated
            double w = 0.25 * g.range(1, 16); add(i, j, -w); add(j, i, -w); diag[i] += w; diag[j] += w; }
        double shift = g.coin(1, 3) ? 1.0 : (g.coin(1, 3) ? 3.5 : 0.0625);   // also the diagonal of the decoupled rows of kind 4
        for (int i = 0; i < n; i++) add(i, i, diag[i] + shift);
    } else if (p.kind == 2) {      // variable-coefficient 1-D/2-D diffusion (SPD M-matrix)
        int nx = g.range(3, 10), ny = g.coin() ? 1 : g.range(2, 7); int n = nx * ny; p.n = n; std::vector<double> diag(n, 0.0);
        auto edge = [&](int a, int b) { double w = 0.125 * g.range(1, 64); add(a, b, -w); add(b, a, -w); diag[a] += w; diag[b] += w; };
        for (int y = 0; y < ny; y++) for (int x = 0; x < nx; x++) { int a = y * nx + x; if (x + 1 < nx) edge(a, a + 1); if (y + 1 < ny) edge(a, a + nx); }
        for (int i = 0; i < n; i++) add(i, i, diag[i] + 0.5);
    } else if (p.kind == 3) {      // non-symmetric convection-diffusion (upwinded), diagonally dominant
        int n = g.range(4, cap); p.n = n; p.spd = false;
        for (int i = 0; i < n; i++) { double l = -(1.0 + 0.5 * g.range(0, 4)), u = -0.25 * g.range(1, 4); double d = -(l + u) + 0.25;
            if (i > 0) add(i, i - 1, l); if (i + 1 < n) add(i, i + 1, u); add(i, i, d); if (i + 3 < n && g.coin(1, 4)) { add(i, i + 3, -0.125); } }
    } else {                        // tiny systems that are coarse already
        int n = g.range(1, 6); p.n = n; std::vector<double> diag(n, 0.0);
        for (int i = 0; i + 1 < n; i++) { add(i, i + 1, -1); add(i + 1, i, -1); diag[i] += 1; diag[i + 1] += 1; }
        for (int i = 0; i < n; i++) add(i, i, diag[i] + 1);
    }
    p.t.n_rows = p.t.n_cols = p.n;
    return p;
}

static ParCSRMatrix* build(Problem& p, vh::Rng& g, int& style_out)
{
    if (p.use_stencil) { double* st = diffusion_stencil_2d(p.eps, p.theta); ParCSRMatrix* A = par_stencil_grid(st, p.grid, 2); delete[] st; style_out = 0; return A; }
    int style = g.coin() ? 1 : 2 + g.below(2); style_out = style;
    std::vector<int> R = vh::compose(g, p.n, E.np, style);
    vh::Layout L; L.kind = 1; L.rows = R; L.cols = R; L.first_row.assign(E.np, 0); for (int q = 1; q < E.np; q++) L.first_row[q] = L.first_row[q - 1] + R[q - 1]; L.first_col = L.first_row;
    ParCOOMatrix* Ac = vh::assemble_coo(p.t, L, E.rank); ParCSRMatrix* A = Ac->to_ParCSR(); delete Ac; return A;
}

struct Opts { int solver, coarsen, interp, relax, sweeps, max_coarse, max_levels, tap, max_iter; double weight, theta, tol; };
static Opts gen_opts(vh::Rng& g, bool gs_only)
{
    Opts o; o.solver = g.coin(2, 3) ? 0 : 1;                       // 0 RS, 1 SA
    o.coarsen = g.below(5); o.interp = g.below(3);
    o.relax = gs_only ? 1 + g.below(2) : g.below(3); o.sweeps = g.coin(3, 4) ? 1 : 2;
    o.weight = gs_only ? 1.0 : (o.relax == 0 ? (g.coin() ? 2.0 / 3 : 0.8) : (g.coin() ? 1.0 : 0.5 + g.unit()));
    o.theta = g.coin() ? 0.25 : (g.coin() ? 0.0 : 0.5);
    o.max_coarse = g.coin() ? g.range(2, 10) : 50; o.max_levels = g.coin(1, 3) ? g.range(1, 3) : 25;
    o.tap = (E.np > 1 && g.coin(1, 3)) ? g.below(2) : -1; o.max_iter = g.range(1, 30); o.tol = g.coin() ? 1e-7 : 1e-4;
    return o;
}
static ParMultilevel* make_solver(const Opts& o)
{
    coarsen_t cs[] = { RS, CLJP, Falgout, PMIS, HMIS }; interp_t is[] = { Direct, ModClassical, Extended }; relax_t rs[] = { Jacobi, SOR, SSOR };
    ParMultilevel* ml;
    if (o.solver == 0) ml = new ParRugeStubenSolver(o.theta, cs[o.coarsen], is[o.interp], Classical, rs[o.relax]);
    else ml = new ParSmoothedAggregationSolver(o.theta, MIS, JacobiProlongation, Symmetric, rs[o.relax], 1, 4.0 / 3);
    ml->num_smooth_sweeps = o.sweeps; ml->relax_weight = o.weight; ml->max_coarse = o.max_coarse; ml->max_levels = o.max_levels;
    ml->tap_amg = o.tap; ml->max_iterations = o.max_iter; ml->solve_tol = o.tol;
    return ml;
}

// hierarchy dump: nlev | per level: n | firsts(np+1) | A triplets (i j bits)* | hasP | P triplets | nc
static std::vector<long long> ents_bits(ParCSRMatrix* M) { return flat(G(vh::local_entries(M, false))); }
// The library identifies the unknowns of a coarse level by the fine-level identifiers of its C-points / roots
// (local_row_map of A_{l+1} = on_proc_column_map of P_l); the dump renumbers every level contiguously in rank
// order. An identifier that no rank owns is written as -1 (a column map that refers to a non-existing unknown).
static std::vector<long long> dump_hierarchy(ParMultilevel* ml, std::vector<long long>* shape = nullptr)
{
    std::vector<long long> h; int nl = (int)ml->levels.size(); h.push_back(nl);
    std::vector<std::map<long long, long long>> idmap(nl + 1);
    for (int l = 0; l < nl; l++) {
        ParCSRMatrix* A = ml->levels[l]->A;
        std::vector<long long> mine; for (int i = 0; i < A->local_num_rows; i++) mine.push_back(i < (int)A->local_row_map.size() ? A->local_row_map[i] : A->partition->first_local_row + i);
        auto all = flat(G(mine));
        if (E.rank == 0) for (size_t k = 0; k < all.size(); k++) idmap[l][all[k]] = (long long)k;
    }
    auto tr = [&](std::vector<long long>& e, int lrow, int lcol) {       // triplets (row id, col id, bits) -> contiguous indices
        for (size_t k = 0; k + 2 < e.size(); k += 3) {
            auto r = idmap[lrow].find(e[k]); auto c = idmap[lcol].find(e[k + 1]);
            e[k] = r == idmap[lrow].end() ? -1 : r->second; e[k + 1] = c == idmap[lcol].end() ? -1 : c->second; } };
    for (int l = 0; l < nl; l++) {
        ParCSRMatrix* A = ml->levels[l]->A; ParCSRMatrix* P = ml->levels[l]->P;
        auto rows = G({ (long long)A->local_num_rows, (long long)A->global_num_rows, (long long)A->global_num_cols,
                        (long long)A->on_proc_num_cols, (long long)ml->levels[l]->x.local_n, (long long)ml->levels[l]->b.local_n, (long long)ml->levels[l]->tmp.local_n,
                        (long long)(A->local_row_map.empty() ? -1 : A->local_row_map[0]),
                        (long long)(P ? P->local_num_rows : -1), (long long)(P ? P->on_proc_num_cols : -1), (long long)(P ? P->global_num_rows : -1), (long long)(P ? P->global_num_cols : -1),
                        (long long)ml->levels[l]->x.global_n, (long long)ml->levels[l]->b.global_n, (long long)ml->levels[l]->tmp.global_n });
        auto ae = ents_bits(A);
        std::vector<long long> pe; if (P) pe = ents_bits(P);
        if (E.rank == 0) {
            tr(ae, l, l); if (P) tr(pe, l, l + 1 < nl ? l + 1 : l);
            h.push_back((long long)rows.size() * 15); for (auto& v : rows) for (auto x : v) h.push_back(x);
            h.push_back((long long)ae.size()); h.insert(h.end(), ae.begin(), ae.end());
            h.push_back(P ? 1 : 0); h.push_back((long long)pe.size()); h.insert(h.end(), pe.begin(), pe.end());
        }
    }
    return h;
}
static unsigned long long hash_hierarchy(ParMultilevel* ml)
{
    unsigned long long hh = 1469598103934665603ull;
    auto mix = [&](const void* p, size_t n) { const unsigned char* c = (const unsigned char*)p; for (size_t k = 0; k < n; k++) { hh ^= c[k]; hh *= 1099511628211ull; } };
    for (auto* lv : ml->levels) for (ParCSRMatrix* M : { lv->A, lv->P }) if (M) for (Matrix* B : { M->on_proc, M->off_proc }) {
        mix(B->idx1.data(), B->idx1.size() * 4); mix(B->idx2.data(), B->idx2.size() * 4); mix(B->vals.data(), B->vals.size() * 8); }
    return hh;
}
static std::vector<long long> gvec(ParVector& v) { return vh::gather_vec(v, false); }
static void setv(ParVector& v, const std::vector<double>& glob, int first) { for (int i = 0; i < v.local_n; i++) v.local.values[i] = glob[first + i]; }
static std::vector<double> rvec(vh::Rng& g, int n) { std::vector<double> v(n); for (auto& e : v) e = (g.unit() - 0.5) * 4; return v; }

// ------------------------------------------------------------------------------------------------------------
// The sequential classes (Multilevel, RugeStubenSolver, SmoothedAggregationSolver on CSRMatrix / Vector), one
// process: same case format as the distributed path with np = 1 and a 15th option entry = 1.
static Multilevel* make_seq_solver(const Opts& o)
{
    coarsen_t cs[] = { RS, CLJP, Falgout, PMIS, HMIS }; interp_t is[] = { Direct, ModClassical, Extended }; relax_t rs[] = { Jacobi, SOR, SSOR };
    Multilevel* ml;
    if (o.solver == 0) ml = new RugeStubenSolver(o.theta, cs[o.coarsen], is[o.interp], Classical, rs[o.relax]);
    else ml = new SmoothedAggregationSolver(o.theta, MIS, JacobiProlongation, Symmetric, rs[o.relax]);
    ml->num_smooth_sweeps = o.sweeps; ml->relax_weight = o.weight; ml->max_coarse = o.max_coarse; ml->max_levels = o.max_levels;
    return ml;
}
static std::vector<long long> seq_ents(CSRMatrix* M) {
    std::vector<long long> e; for (int i = 0; i < M->n_rows; i++) for (int k = M->idx1[i]; k < M->idx1[i + 1]; k++) { e.push_back(i); e.push_back(M->idx2[k]); e.push_back((long long)vh::dbits(M->vals[k])); } return e; }
static std::vector<long long> dump_seq_hierarchy(Multilevel* ml)
{
    std::vector<long long> h; int nl = (int)ml->levels.size(); h.push_back(nl);
    for (int l = 0; l < nl; l++) {
        CSRMatrix* A = ml->levels[l]->A; CSRMatrix* P = l + 1 < nl ? ml->levels[l]->P : nullptr;
        std::vector<long long> row = { A->n_rows, A->n_rows, A->n_cols, A->n_cols, (long long)ml->levels[l]->x.size(), (long long)ml->levels[l]->b.size(), (long long)ml->levels[l]->tmp.size(), 0,
                                       (long long)(P ? P->n_rows : -1), (long long)(P ? P->n_cols : -1), (long long)(P ? P->n_rows : -1), (long long)(P ? P->n_cols : -1),
                                       (long long)ml->levels[l]->x.size(), (long long)ml->levels[l]->b.size(), (long long)ml->levels[l]->tmp.size() };
        auto ae = seq_ents(A); std::vector<long long> pe; if (P) pe = seq_ents(P);
        h.push_back(15); for (auto x : row) h.push_back(x);
        h.push_back((long long)ae.size()); h.insert(h.end(), ae.begin(), ae.end());
        h.push_back(P ? 1 : 0); h.push_back((long long)pe.size()); h.insert(h.end(), pe.begin(), pe.end());
    }
    return h;
}
static unsigned long long hash_seq(Multilevel* ml)
{
    unsigned long long hh = 1469598103934665603ull;
    auto mix = [&](const void* p, size_t n) { const unsigned char* c = (const unsigned char*)p; for (size_t k = 0; k < n; k++) { hh ^= c[k]; hh *= 1099511628211ull; } };
    int nl = (int)ml->levels.size();
    for (int l = 0; l < nl; l++) for (CSRMatrix* M : { ml->levels[l]->A, l + 1 < nl ? ml->levels[l]->P : (CSRMatrix*)nullptr }) if (M) {
        mix(M->idx1.data(), M->idx1.size() * 4); mix(M->idx2.data(), M->idx2.size() * 4); mix(M->vals.data(), M->vals.size() * 8); }
    return hh;
}
static std::vector<long long> svec(Vector& v) { std::vector<long long> r(v.size()); for (int i = 0; i < v.size(); i++) r[i] = (long long)vh::dbits(v.values[i]); return r; }
static void ssetv(Vector& v, const std::vector<double>& g) { for (int i = 0; i < v.size(); i++) v.values[i] = g[i]; }

static void run_seq(const char* mode)
{
    bool c10 = !strcmp(mode, "C10"), c01 = !strcmp(mode, "C01"), c08 = !strcmp(mode, "C08"), c09 = !strcmp(mode, "C09");
    vh::Rng g(E.seed * 2750159 + 1000 + (c10 ? 10 : c01 ? 1 : c08 ? 8 : 9));
    int ncases = E.thorough ? 150 : 45;      // one process, small systems: cheap
    // C01, after the regular cases (their numbers stay): relaxation that diverges (Jacobi with weight > 1; 1e8 overflows to
    // non-finite iterates) and systems with a tiny right-hand side (2^-40): a solve that stops early must still be right
    int nextra = c01 ? ncases : 0;
    for (int it0 = 0; it0 < ncases + nextra; it0++)
    {
        int it = it0 < ncases ? it0 : it0 - ncases; int xk = it0 < ncases ? -1 : (it0 - ncases) % 5;
        Problem p = gen_problem(g, it, c10);
        Opts o = gen_opts(g, c10); o.tap = -1; o.tol = 1e-7;
        if (xk == 4) {      // a system that is coarse already and singular or nearly so (path-graph Laplacian, shift 0 or 1e-13): the
                            // one-level "exact" solve does not solve it, and the report must say so
            int n1 = 3 + it % 8; double sh = (it % 2) ? 0.0 : 1e-13;
            p.use_stencil = false; p.kind = 1; p.n = n1; p.t = vh::Trip(); p.t.n_rows = p.t.n_cols = n1;
            for (int i = 0; i < n1; i++) { double d = (i > 0) + (i + 1 < n1) + sh; p.t.r.push_back(i); p.t.c.push_back(i); p.t.v.push_back(d);
                if (i + 1 < n1) { p.t.r.push_back(i); p.t.c.push_back(i + 1); p.t.v.push_back(-1); p.t.r.push_back(i + 1); p.t.c.push_back(i); p.t.v.push_back(-1); } }
            o.max_coarse = 50; o.max_levels = 25;
        }
        // no depth limit (the library's sentinel -1, written as 0 in the case lines) on the families that always coarsen: a
        // hierarchy that stagnates (decoupled rows) would never stop, which the property does not exclude
        if ((p.kind == 0 || p.kind == 2) && o.max_levels == 25 && o.max_coarse != 50) o.max_levels = -1;
        if (xk == 0) { o.relax = 0; o.weight = 1.25 + 0.5 * (it % 3); o.max_iter = std::max(o.max_iter, 12); }
        if (xk == 1) { o.relax = 0; o.weight = 1e8; o.max_iter = 40; }
        double rhs_scale = xk == 2 ? std::ldexp(1.0, -40) : xk == 3 ? std::ldexp(1.0, -70) : 1.0;      // 2^-70: a right-hand side of norm below 1e-16
        CSRMatrix* A;
        if (p.use_stencil) { double* st = diffusion_stencil_2d(p.eps, p.theta); A = stencil_grid(st, p.grid, 2); delete[] st; }
        else {   // entries assembled like the distributed path does (duplicates summed), rows sorted by column
            std::map<std::pair<int, int>, double> acc; for (size_t k = 0; k < p.t.r.size(); k++) acc[{ p.t.r[k], p.t.c[k] }] += p.t.v[k];
            vh::Trip u; u.n_rows = u.n_cols = p.n; for (auto& kv : acc) { u.r.push_back(kv.first.first); u.c.push_back(kv.first.second); u.v.push_back(kv.second); }
            A = vh::make_csr(u);
        }
        int n = A->n_rows;
        char ctx[200]; snprintf(ctx, 200, "seq/%s/kind%d/solver%d/c%d/i%d/r%d/w%.3f/mc%d/ml%d/n%d", mode, p.kind, o.solver, o.coarsen, o.interp, o.relax, o.weight, o.max_coarse, o.max_levels, n);
        E.about((std::string("setup/") + ctx).c_str());
        auto A_before = seq_ents(A);
        Multilevel* ml = make_seq_solver(o);
        if (o.solver == 0) ((RugeStubenSolver*)ml)->setup(A); else ((SmoothedAggregationSolver*)ml)->setup(A);
        std::vector<long long> H = dump_seq_hierarchy(ml);
        std::vector<long long> optv = { o.solver, o.coarsen, o.interp, o.relax, o.sweeps, o.max_coarse, o.max_levels < 0 ? 0 : o.max_levels, o.tap, o.max_iter, (long long)vh::dbits(o.weight), (long long)vh::dbits(o.theta), (long long)vh::dbits(o.tol), p.kind, 1, 1 };
        if (c08) {
            bool want = E.want(); auto A_after = seq_ents(A);
            if (want) { vh::Case c("C08", "hier"); c.vec(optv).vec(A_before).vec(A_after); for (auto x : H) c.i(x); c.write(E.out); }
            delete ml; delete A; continue;
        }
        unsigned long long h0 = hash_seq(ml);
        Vector x(n), b(n);
        auto run_cycle = [&](const std::vector<double>& x0, const std::vector<double>& b0, std::vector<long long>& xout, std::vector<long long>& bout) {
            ssetv(x, x0); ssetv(b, b0); ml->cycle(x, b, 0); xout = svec(x); bout = svec(b); };
        if (c09) {
            std::vector<double> x1 = rvec(g, n), b1 = rvec(g, n), x2 = rvec(g, n), b2 = rvec(g, n);
            double a = 0.5 * g.range(-4, 4), cc = 0.25 * g.range(-6, 6);
            std::vector<double> x3(n), b3(n); for (int i = 0; i < n; i++) { x3[i] = a * x1[i] + cc * x2[i]; b3[i] = a * b1[i] + cc * b2[i]; }
            std::vector<double> xs(n); for (auto& v : xs) v = g.range(-3, 3);
            ssetv(x, xs); A->mult(x, b); std::vector<double> bs(b.values.begin(), b.values.begin() + n);
            struct Rec { int kind; std::vector<double> x0, b0; std::vector<long long> xo, bo; };
            std::vector<Rec> recs;
            int nops = g.range(6, 12);
            std::vector<int> plan = { 0, 1, 2, 3, 8, 9 };
            for (int k = 0; k < nops; k++) { int op = g.below(6); plan.push_back(op); }
            for (int op : plan) {
                Rec r; r.kind = op;
                E.about((std::string("history/op") + std::to_string(op) + "/" + ctx).c_str());
                if (op <= 4) {
                    const std::vector<double>& xx = op == 1 ? x2 : op == 2 ? x3 : op == 3 ? xs : x1; const std::vector<double>& bb = op == 1 ? b2 : op == 2 ? b3 : op == 3 ? bs : b1;
                    r.x0 = xx; r.b0 = bb; run_cycle(xx, bb, r.xo, r.bo);
                } else if (op >= 8) {                                      // cycle(s x1, s b1) for a power of two s: scaling is exact
                    double sc = std::ldexp(1.0, op == 8 ? -62 : 40); r.x0 = x1; r.b0 = b1; for (auto& v : r.x0) v *= sc; for (auto& v : r.b0) v *= sc;
                    std::vector<double> xx = r.x0, bb = r.b0; run_cycle(xx, bb, r.xo, r.bo);
                } else { r.x0 = rvec(g, n); r.b0 = rvec(g, n); ssetv(x, r.x0); ssetv(b, r.b0); ml->solve(x, b, o.max_iter); r.xo = svec(x); r.bo = svec(b); }
                recs.push_back(r);
            }
            auto A_after = seq_ents(A);
            long long same_h = (hash_seq(ml) == h0);
            if (E.want()) {
                vh::Case c("C09", "history"); c.vec(optv).i(same_h).vec(A_before).vec(A_after).d(a).d(cc).i((long long)recs.size());
                for (auto& r : recs) { c.i(r.kind).dvec(r.x0).dvec(r.b0).vec(r.xo).vec(r.bo); }
                for (auto xh : H) c.i(xh);
                c.write(E.out);
            }
        }
        if (c01 || c10) {
            std::vector<double> xs(n), x0 = c10 ? rvec(g, n) : (g.coin(1, 4) ? std::vector<double>(n, 0.0) : rvec(g, n));
            for (auto& v : xs) v = g.range(-3, 3);
            std::vector<double> b0;
            if (c10 || g.coin(2, 3)) { ssetv(x, xs); A->mult(x, b); b0.assign(b.values.begin(), b.values.begin() + n); }
            else if (g.coin(1, 5)) b0.assign(n, 0.0);
            else b0 = rvec(g, n);
            if (rhs_scale != 1.0) { for (auto& v : x0) v *= rhs_scale; for (auto& v : b0) v *= rhs_scale; for (auto& v : xs) v *= rhs_scale; }
            E.about((std::string("solve/") + ctx).c_str());
            ssetv(x, x0); ssetv(b, b0);
            int iters = ml->solve(x, b, o.max_iter);
            std::vector<long long> xfinal = svec(x), bafter = svec(b);
            std::vector<double> hist = ml->get_residuals(); hist.resize(std::min((size_t)iters + 1, hist.size()));
            E.about((std::string("replay/") + ctx).c_str());
            ssetv(x, x0); ssetv(b, b0);
            std::vector<std::vector<long long>> iterates = { svec(x) };
            for (int k = 0; k < iters; k++) { ml->cycle(x, b, 0); iterates.push_back(svec(x)); }
            if (E.want()) {
                vh::Case c(c10 ? "C10" : "C01", "solve"); c.vec(optv).i(iters).dvec(hist).dvec(x0).dvec(b0).dvec(xs).vec(xfinal).vec(bafter).vec(A_before);
                c.i((long long)iterates.size()); for (auto& v : iterates) c.vec(v);
                for (auto xh : H) c.i(xh);
                c.write(E.out);
            }
        }
        delete ml; delete A;
    }
}

int main(int argc, char** argv)
{
    MPI_Init(&argc, &argv);
    E.init(argc, argv);
    const char* mode = argc > 2 ? argv[2] : "C09";
    if (argc > 3 && !strcmp(argv[3], "seq")) { if (E.np == 1) run_seq(mode); E.finish(); MPI_Finalize(); return 0; }
    bool c10 = !strcmp(mode, "C10"), c01 = !strcmp(mode, "C01"), c08 = !strcmp(mode, "C08"), c09 = !strcmp(mode, "C09");
    vh::Rng g(E.seed * 2750159 + (c10 ? 10 : c01 ? 1 : c08 ? 8 : 9));
    int ncases = E.thorough ? 60 : (c08 ? 36 : 14);
    int nextra = c01 ? ncases : 0;       // as in the sequential part: diverging relaxation, tiny right-hand sides
    for (int it0 = 0; it0 < ncases + nextra; it0++)
    {
        int it = it0 < ncases ? it0 : it0 - ncases; int xk = it0 < ncases ? -1 : (it0 - ncases) % 4;
        Problem p = gen_problem(g, it, c10);
        Opts o = gen_opts(g, c10);
        if (c10) { o.tap = -1; }
        if (xk == 0) { o.relax = 0; o.weight = 1.25 + 0.5 * (it % 3); o.max_iter = std::max(o.max_iter, 12); }
        if (xk == 1) { o.relax = 0; o.weight = 1e8; o.max_iter = 40; }
        double rhs_scale = xk == 2 ? std::ldexp(1.0, -40) : xk == 3 ? std::ldexp(1.0, -70) : 1.0;      // 2^-70: a right-hand side of norm below 1e-16
        int style = 0;
        ParCSRMatrix* A = build(p, g, style);
        int fr = A->partition->first_local_row, lr = A->local_num_rows, n = A->global_num_rows;
        char ctx[200]; snprintf(ctx, 200, "%s/kind%d/solver%d/c%d/i%d/r%d/w%.3f/mc%d/ml%d/tap%d/style%d/n%d", mode, p.kind, o.solver, o.coarsen, o.interp, o.relax, o.weight, o.max_coarse, o.max_levels, o.tap, style, n);
        E.about((std::string("setup/") + ctx).c_str());
        // the user's matrix before setup (must not be altered by setup/solve)
        auto A_before = ents_bits(A);
        ParMultilevel* ml = make_solver(o);
        ml->setup(A);
        std::vector<long long> H = dump_hierarchy(ml);
        std::vector<long long> optv = { o.solver, o.coarsen, o.interp, o.relax, o.sweeps, o.max_coarse, o.max_levels < 0 ? 0 : o.max_levels, o.tap, o.max_iter, (long long)vh::dbits(o.weight), (long long)vh::dbits(o.theta), (long long)vh::dbits(o.tol), p.kind, E.np };
        if (c08) {
            bool want = E.want();
            auto A_after = ents_bits(A);
            if (E.rank == 0 && want) { vh::Case c("C08", "hier"); c.vec(optv).vec(A_before).vec(A_after); for (auto x : H) c.i(x); c.write(E.out); }
            delete ml; delete A; continue;
        }
        unsigned long long h0 = hash_hierarchy(ml);
        ParVector x(n, lr), b(n, lr);
        auto run_cycle = [&](const std::vector<double>& x0, const std::vector<double>& b0, std::vector<long long>& xout, std::vector<long long>& bout) {
            setv(x, x0, fr); setv(b, b0, fr); ml->cycle(x, b); xout = gvec(x); bout = gvec(b); };
        if (c09) {
            // ---- a history of operations on one hierarchy ----
            std::vector<double> x1 = rvec(g, n), b1 = rvec(g, n), x2 = rvec(g, n), b2 = rvec(g, n);
            double a = 0.5 * g.range(-4, 4), cc = 0.25 * g.range(-6, 6);
            std::vector<double> x3(n), b3(n); for (int i = 0; i < n; i++) { x3[i] = a * x1[i] + cc * x2[i]; b3[i] = a * b1[i] + cc * b2[i]; }
            // exact solution pair: b* = A x*
            std::vector<double> xs(n); for (auto& v : xs) v = g.range(-3, 3);
            setv(x, xs, fr); A->mult(x, b); std::vector<double> bs; { auto bb = gvec(b); bs.resize(n); if (E.rank == 0) for (int i = 0; i < n; i++) { uint64_t u = (uint64_t)bb[i]; memcpy(&bs[i], &u, 8); } MPI_Bcast(bs.data(), n, MPI_DOUBLE, 0, MPI_COMM_WORLD); }
            struct Rec { int kind; std::vector<double> x0, b0; std::vector<long long> xo, bo; unsigned long long hh; };
            std::vector<Rec> recs;
            int nops = g.range(6, 12);
            std::vector<int> plan = { 0, 1, 2, 3, 8, 9 };                         // cycle(x1,b1), cycle(x2,b2), cycle(x3,b3), cycle(xs,bs)
            for (int k = 0; k < nops; k++) { int op = g.below(8); if (op == 6 && !p.spd) op = 5; plan.push_back(op); }   // PCG only on SPD systems
            for (int op : plan) {
                Rec r; r.kind = op;
                snprintf(ctx + strlen(ctx), 0, "%s", "");
                E.about((std::string("history/op") + std::to_string(op) + "/" + ctx).c_str());
                if (op <= 3 || op == 4) {                                  // op 4: repeat of cycle(x1,b1) later in the history
                    const std::vector<double>& xx = op == 1 ? x2 : op == 2 ? x3 : op == 3 ? xs : x1; const std::vector<double>& bb = op == 1 ? b2 : op == 2 ? b3 : op == 3 ? bs : b1;
                    r.x0 = xx; r.b0 = bb; run_cycle(xx, bb, r.xo, r.bo);
                } else if (op >= 8) {                                      // cycle(s x1, s b1) for a power of two s: scaling is exact
                    double sc = std::ldexp(1.0, op == 8 ? -62 : 40); r.x0 = x1; r.b0 = b1; for (auto& v : r.x0) v *= sc; for (auto& v : r.b0) v *= sc;
                    std::vector<double> xx = r.x0, bb = r.b0; run_cycle(xx, bb, r.xo, r.bo);
                } else if (op == 5) {                                      // a full solve of another system in between
                    r.x0 = rvec(g, n); r.b0 = rvec(g, n); setv(x, r.x0, fr); setv(b, r.b0, fr); ml->solve(x, b); r.xo = gvec(x); r.bo = gvec(b);
                } else if (op == 6) {                                      // hierarchy used as preconditioner inside PCG
                    r.x0 = rvec(g, n); r.b0 = rvec(g, n); setv(x, r.x0, fr); setv(b, r.b0, fr); std::vector<double> res; PCG(A, ml, x, b, res, 1e-6, 4); r.xo = gvec(x); r.bo = gvec(b);
                } else {                                                   // ... and inside BiCGStab
                    r.x0 = rvec(g, n); r.b0 = rvec(g, n); setv(x, r.x0, fr); setv(b, r.b0, fr); std::vector<double> res; Pre_BiCGStab(A, x, b, ml, res, 1e-6, 3); r.xo = gvec(x); r.bo = gvec(b);
                }
                r.hh = hash_hierarchy(ml); unsigned long long hmin = r.hh, hmax = r.hh;
                MPI_Allreduce(MPI_IN_PLACE, &hmin, 1, MPI_UNSIGNED_LONG_LONG, MPI_MIN, MPI_COMM_WORLD); (void)hmax;
                recs.push_back(r);
            }
            auto A_after = ents_bits(A);
            unsigned long long h1 = hash_hierarchy(ml); long long same_h = (h1 == h0); MPI_Allreduce(MPI_IN_PLACE, &same_h, 1, MPI_LONG_LONG, MPI_MIN, MPI_COMM_WORLD);
            bool want = E.want();
            if (E.rank == 0 && want) {
                vh::Case c("C09", "history"); c.vec(optv).i(same_h).vec(A_before).vec(A_after).d(a).d(cc).i((long long)recs.size());
                for (auto& r : recs) { c.i(r.kind).dvec(r.x0).dvec(r.b0).vec(r.xo).vec(r.bo); }
                for (auto xh : H) c.i(xh);
                c.write(E.out);
            }
        }
        if (c01 || c10) {
            // ---- solve, then the same iteration driven cycle by cycle ----
            std::vector<double> xs(n), x0 = c10 ? rvec(g, n) : (g.coin(1, 4) ? std::vector<double>(n, 0.0) : rvec(g, n));
            for (auto& v : xs) v = g.range(-3, 3);
            std::vector<double> b0;
            if (c10 || g.coin(2, 3)) { setv(x, xs, fr); A->mult(x, b); auto bb = gvec(b); b0.resize(n); if (E.rank == 0) for (int i = 0; i < n; i++) { uint64_t u = (uint64_t)bb[i]; memcpy(&b0[i], &u, 8); } MPI_Bcast(b0.data(), n, MPI_DOUBLE, 0, MPI_COMM_WORLD); }
            else if (g.coin(1, 5)) b0.assign(n, 0.0);            // zero right-hand side: absolute residual branch
            else b0 = rvec(g, n);
            if (rhs_scale != 1.0) { for (auto& v : x0) v *= rhs_scale; for (auto& v : b0) v *= rhs_scale; for (auto& v : xs) v *= rhs_scale; }
            E.about((std::string("solve/") + ctx).c_str());
            setv(x, x0, fr); setv(b, b0, fr);
            int iters = ml->solve(x, b);
            std::vector<long long> xfinal = gvec(x), bafter = gvec(b);
            std::vector<double> hist = ml->get_residuals(); hist.resize(std::min((size_t)iters + 1, hist.size()));
            // replay cycle by cycle from the same start
            E.about((std::string("replay/") + ctx).c_str());
            setv(x, x0, fr); setv(b, b0, fr);
            std::vector<std::vector<long long>> iterates = { gvec(x) };
            for (int k = 0; k < iters; k++) { ml->cycle(x, b); iterates.push_back(gvec(x)); }
            bool want = E.want();
            if (E.rank == 0 && want) {
                vh::Case c(c10 ? "C10" : "C01", "solve"); c.vec(optv).i(iters).dvec(hist).dvec(x0).dvec(b0).dvec(xs).vec(xfinal).vec(bafter).vec(A_before);
                c.i((long long)iterates.size()); for (auto& v : iterates) c.vec(v);
                for (auto xh : H) c.i(xh);
                c.write(E.out);
            }
        }
        delete ml; delete A;
    }
    E.finish();
    MPI_Finalize();
    return 0;
}
