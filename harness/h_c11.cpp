// C11: relaxation sweeps (sequential and distributed), compared with the executable model at double precision.
#include "par.hpp"
#include "raptor/util/linalg/relax.hpp"
#include "raptor/util/linalg/par_relax.hpp"
using namespace raptor;
static vh::Env E;
static std::vector<std::vector<long long>> G(const std::vector<long long>& v) { return vh::gather_ll(v); }

// square matrix with a stored non-zero diagonal, any signs, non-symmetric; some rows only a diagonal
static vh::Trip gen_sys(vh::Rng& g, int n, bool intvals)
{
    vh::Trip t; t.n_rows = t.n_cols = n;
    for (int i = 0; i < n; i++) {
        double d = (g.coin(1, 5) ? -1 : 1) * (intvals ? g.range(3, 9) : 2.0 + 6 * g.unit());
        t.r.push_back(i); t.c.push_back(i); t.v.push_back(d);
        if (g.coin(1, 6)) continue;                       // diagonal-only row
        int k = g.range(0, std::min(n - 1, 4));
        for (int q = 0; q < k; q++) { int j = g.below(n); if (j == i) continue; bool dup = false;
            for (size_t p = 0; p < t.r.size(); p++) if (t.r[p] == i && t.c[p] == j) dup = true; if (dup) continue;
            t.r.push_back(i); t.c.push_back(j); t.v.push_back(intvals ? g.range(-3, 3) : (g.unit() - 0.5) * 3); }
    }
    // shuffle storage order
    for (size_t k = t.r.size(); k > 1; k--) { size_t j = g.below((int)k); std::swap(t.r[k-1], t.r[j]); std::swap(t.c[k-1], t.c[j]); std::swap(t.v[k-1], t.v[j]); }
    return t;
}
static double gen_omega(vh::Rng& g) { double c[] = { 1.0, 0.5, 0.75, 1.25, 2.0 / 3, 0.9, 1.7, 0.1 }; return g.coin() ? c[g.below(8)] : 0.05 + 1.9 * g.unit(); }

static std::vector<long long> csr_ll(Matrix* M) {      // idx1 | idx2 | vals(bits)
    std::vector<long long> f; f.push_back((long long)M->idx1.size()); for (int v : M->idx1) f.push_back(v);
    f.push_back(M->nnz); for (int k = 0; k < M->nnz; k++) f.push_back(M->idx2[k]);
    f.push_back(M->nnz); for (int k = 0; k < M->nnz; k++) f.push_back((long long)vh::dbits(M->vals[k]));
    return f;
}

int main(int argc, char** argv)
{
    MPI_Init(&argc, &argv);
    E.init(argc, argv);
    vh::Rng g(E.seed * 86028121 + 11);
    bool seq = argc > 2 && !strcmp(argv[2], "seq");
    int ncases = seq ? (E.thorough ? 600 : 150) : (E.thorough ? 150 : 40);
    const char* KN[] = { "jacobi", "sor", "ssor" };
    // after the regular cases (their numbers stay): matrices the caller has sorted (sorted = true, diagonal not first), the
    // state a matrix is in after finalize() / sort()
    int nextra = ncases / 3;
    for (int it0 = 0; it0 < ncases + nextra; it0++)
    {
        bool presort = it0 >= ncases; int it = presort ? (it0 - ncases) * 3 : it0;
        int cap = 1 + std::min(14, it / 4);
        bool exact_start = g.coin(1, 4);          // start at the exact solution: the sweep must not move it
        int sweeps = g.range(1, 3); double omega = gen_omega(g);
        if (seq) {
            int n = g.range(1, cap);
            vh::Trip t = gen_sys(g, n, exact_start);
            // half of the extra cases: the whole system scaled by 2^-60 (diagonal around 1e-18): the sweep is invariant under
            // a common scaling of A and b, and a power of two makes that exact
            bool tiny = presort && (it0 % 2 == 0); double sc = tiny ? std::ldexp(1.0, -60) : 1.0;
            if (tiny) for (auto& v : t.v) v *= sc;
            for (int kind = 0; kind < 3; kind++) {
                CSRMatrix* A = vh::make_csr(t);
                if (presort) { (void)g.coin(); A->sort(); if (kind > 0) A->move_diag(); }
                else if (kind > 0 || g.coin()) { A->sort(); A->move_diag(); }      // canonical layout (jacobi also runs on the raw layout)
                Vector x(n), b(n), tmp(n);
                std::vector<double> x0(n), b0(n);
                for (int i = 0; i < n; i++) x0[i] = exact_start ? g.range(-4, 4) : (g.unit() - 0.5) * 8;
                if (exact_start) { for (int i = 0; i < n; i++) b0[i] = 0; for (size_t k = 0; k < t.r.size(); k++) b0[t.r[k]] += t.v[k] * x0[t.c[k]]; }
                else for (int i = 0; i < n; i++) b0[i] = (g.unit() - 0.5) * 8 * sc;
                for (int i = 0; i < n; i++) { x.values[i] = x0[i]; b.values[i] = b0[i]; }
                char buf[64]; snprintf(buf, 64, "seq/%s%s", KN[kind], tiny ? "/tiny" : ""); E.about(buf);
                if (kind == 0) jacobi(A, b, x, tmp, sweeps, omega); else if (kind == 1) sor(A, b, x, tmp, sweeps, omega); else ssor(A, b, x, tmp, sweeps, omega);
                if (E.want()) {
                    vh::Case c("C11", "seq"); c.i(kind).i(n).i(sweeps).d(omega).i(exact_start);
                    for (auto q : csr_ll(A)) c.i(q); c.dvec(b0).dvec(x0);
                    std::vector<double> xr(n), br(n); for (int i = 0; i < n; i++) { xr[i] = x.values[i]; br[i] = b.values[i]; }
                    c.dvec(xr).dvec(br); c.write(E.out);
                }
                delete A;
            }
        } else {
            int np = E.np, rank = E.rank;
            int n = g.range(np, cap + 2 * np);
            vh::Trip t = gen_sys(g, n, exact_start);
            int style = g.coin() ? 1 : 2 + g.below(2);
            std::vector<int> R = vh::compose(g, n, np, style);
            vh::Layout L; L.kind = 1; L.rows = R; L.cols = R; L.first_row.assign(np, 0); for (int p = 1; p < np; p++) L.first_row[p] = L.first_row[p - 1] + R[p - 1]; L.first_col = L.first_row;
            std::vector<double> x0(n), b0(n);
            for (int i = 0; i < n; i++) x0[i] = exact_start ? g.range(-4, 4) : (g.unit() - 0.5) * 8;
            if (exact_start) { for (int i = 0; i < n; i++) b0[i] = 0; for (size_t k = 0; k < t.r.size(); k++) b0[t.r[k]] += t.v[k] * x0[t.c[k]]; }
            else for (int i = 0; i < n; i++) b0[i] = (g.unit() - 0.5) * 8;
            for (int kind = 0; kind < 3; kind++) for (int tap = 0; tap <= (np > 1 ? 1 : 0); tap++) {
                ParCOOMatrix* Ac = vh::assemble_coo(t, L, rank); ParCSRMatrix* A = Ac->to_ParCSR(); if (presort) { A->on_proc->sort(); A->off_proc->sort(); }
                int fr = A->partition->first_local_row, lr = A->local_num_rows;
                ParVector x(n, lr), b(n, lr), tmp(n, lr);
                vh::fill_vec(x, x0, fr); vh::fill_vec(b, b0, fr);
                char buf[64]; snprintf(buf, 64, "par/%s%s/style%d", KN[kind], tap ? "/tap" : "", style); E.about(buf);
                if (kind == 0) jacobi(A, x, b, tmp, sweeps, omega, tap); else if (kind == 1) sor(A, x, b, tmp, sweeps, omega, tap); else ssor(A, x, b, tmp, sweeps, omega, tap);
                // per rank: first_row | on CSR | off CSR | off col map | result x | b after
                std::vector<long long> mine = { fr, lr };
                auto on = csr_ll(A->on_proc), off = csr_ll(A->off_proc);
                mine.insert(mine.end(), on.begin(), on.end()); mine.insert(mine.end(), off.begin(), off.end());
                mine.push_back((long long)A->off_proc_column_map.size()); for (int v : A->off_proc_column_map) mine.push_back(v);
                mine.push_back(lr); for (int i = 0; i < lr; i++) mine.push_back((long long)vh::dbits(x.local.values[i]));
                mine.push_back(lr); for (int i = 0; i < lr; i++) mine.push_back((long long)vh::dbits(b.local.values[i]));
                auto all = G(mine);
                bool want = E.want();
                if (rank == 0 && want) {
                    vh::Case c("C11", "par"); c.i(kind).i(np).i(tap).i(n).i(sweeps).d(omega).i(exact_start).dvec(b0).dvec(x0);
                    for (auto& v : all) for (auto q : v) c.i(q);
                    c.write(E.out);
                }
                delete A; delete Ac;
            }
        }
    }
    E.finish();
    MPI_Finalize();
    return 0;
}
