// C05: results and termination must not depend on message timing.
// Scenarios (package construction back-to-back with reused tags, exchanges, matrix operations, AMG setup/solve with
// RS and aggregation coarsening, repartitioning) are executed under many schedules of the PMPI layer: wildcard match
// orders (natural, reverse, random, every permutation at one wildcard site), seeded delays of sends and collective
// entries. For every schedule the canonicalised results are compared with those of the reference schedule and the
// message trace is emitted for validation against the abstract MPI model. A watchdog turns a hang into a failure.
#include "pmpi_layer.hpp"
#include "par.hpp"
#include "raptor/gallery/par_stencil.hpp"
#include "raptor/gallery/diffusion.hpp"
#include "raptor/util/linalg/repartition.hpp"
#include "raptor/aggregation/par_mis.hpp"
using namespace raptor;
static vh::Env E;
template <class T> static std::vector<long long> LL(const std::vector<T>& v) { return std::vector<long long>(v.begin(), v.end()); }

struct Result { std::vector<long long> ints; std::vector<double> reals; };

static void add(Result& R, const std::vector<long long>& v) { R.ints.push_back(-777); R.ints.insert(R.ints.end(), v.begin(), v.end()); }

// package arrays with send messages keyed by peer (arrival order is not part of the result)
static std::vector<long long> canon_pkg(ParComm* pc) {
    std::vector<long long> f = LL(pc->recv_data->procs); f.push_back(-1);
    for (int v : pc->recv_data->indptr) f.push_back(v);
    f.push_back(-2);
    std::vector<std::pair<int, std::vector<int>>> msgs;
    for (int i = 0; i < pc->send_data->num_msgs; i++) msgs.push_back({ pc->send_data->procs[i],
        std::vector<int>(pc->send_data->indices.begin() + pc->send_data->indptr[i], pc->send_data->indices.begin() + pc->send_data->indptr[i + 1]) });
    std::sort(msgs.begin(), msgs.end());
    for (auto& m : msgs) { f.push_back(m.first); f.push_back((long long)m.second.size()); for (int x : m.second) f.push_back(x); }
    return f;
}

static Result scenario(int which, uint64_t seed)
{
    Result R; int np = E.np, rank = E.rank;
    vh::Rng g(seed);
    if (which == 0) {
        // two different halo structures built back to back (standard, 3-step, 2-step): the same tags are reused
        for (int rep = 0; rep < 2; rep++) {
            int n = g.range(np + 1, 3 * np + 4);
            std::vector<int> sizes = vh::compose(g, n, np, 1);
            std::vector<int> fc(np + 1, 0); for (int p = 0; p < np; p++) fc[p + 1] = fc[p] + sizes[p];
            std::vector<std::vector<int>> off(np);
            for (int r = 0; r < np; r++) for (int c = 0; c < n; c++) if (!(c >= fc[r] && c < fc[r + 1]) && g.coin(2, 3)) off[r].push_back(c);
            int ln = sizes[rank];
            Partition* part = new Partition(n, n, ln, ln, fc[rank], fc[rank]);
            ParComm* pc = new ParComm(part, off[rank]);
            TAPComm* t3 = new TAPComm(part, off[rank], true);
            TAPComm* t2 = new TAPComm(part, off[rank], false);
            add(R, canon_pkg(pc));
            std::vector<int> x(ln); for (int i = 0; i < ln; i++) x[i] = 100 * (fc[rank] + i) + rep;
            for (CommPkg* c : { (CommPkg*)pc, (CommPkg*)t3, (CommPkg*)t2 }) {
                std::vector<int>& r = c->communicate(x); add(R, LL(std::vector<int>(r.begin(), r.begin() + off[rank].size())));
                // a second exchange on the same package straight away: its packing must not disturb a send still pending from the first
                std::vector<int> x2(x); for (auto& v : x2) v += 7;
                std::vector<int>& r2 = c->communicate(x2); add(R, LL(std::vector<int>(r2.begin(), r2.begin() + off[rank].size())));
                std::vector<int> y(off[rank].size()), res(ln, 0); for (size_t j = 0; j < y.size(); j++) y[j] = off[rank][j] + 1;
                c->communicate_T(y, res); add(R, LL(res));
            }
            t2->delete_comm(); t3->delete_comm(); pc->delete_comm(); delete part;
        }
    } else if (which == 5) {
        // packages of two different halo structures constructed back to back, with nothing in between: first the two
        // standard packages, then the two 3-step, then the two 2-step packages; a rank that runs ahead is already in the second
        // construction while a neighbour is still in the first
        Partition* part[2]; std::vector<int> offs[2]; int lns[2], fcs[2];
        for (int rep = 0; rep < 2; rep++) {
            int n = g.range(np + 1, 3 * np + 4);
            std::vector<int> sizes = vh::compose(g, n, np, 1);
            std::vector<int> fc(np + 1, 0); for (int p = 0; p < np; p++) fc[p + 1] = fc[p] + sizes[p];
            std::vector<std::vector<int>> off(np);
            for (int r = 0; r < np; r++) for (int c = 0; c < n; c++) if (!(c >= fc[r] && c < fc[r + 1]) && g.coin(1, 2)) off[r].push_back(c);
            lns[rep] = sizes[rank]; fcs[rep] = fc[rank]; offs[rep] = off[rank];
            part[rep] = new Partition(n, n, lns[rep], lns[rep], fc[rank], fc[rank]);
        }
        ParComm* pc[2]; TAPComm* t3[2]; TAPComm* t2[2];
        pc[0] = new ParComm(part[0], offs[0]); pc[1] = new ParComm(part[1], offs[1]);
        t3[0] = new TAPComm(part[0], offs[0], true); t3[1] = new TAPComm(part[1], offs[1], true);
        t2[0] = new TAPComm(part[0], offs[0], false); t2[1] = new TAPComm(part[1], offs[1], false);
        for (int rep = 0; rep < 2; rep++) {
            add(R, canon_pkg(pc[rep]));
            std::vector<int> x(lns[rep]); for (int i = 0; i < lns[rep]; i++) x[i] = 100 * (fcs[rep] + i) + rep;
            for (CommPkg* c : { (CommPkg*)pc[rep], (CommPkg*)t3[rep], (CommPkg*)t2[rep] }) {
                std::vector<int>& r = c->communicate(x); add(R, LL(std::vector<int>(r.begin(), r.begin() + offs[rep].size())));
                std::vector<int> y(offs[rep].size()), res(lns[rep], 0); for (size_t j = 0; j < y.size(); j++) y[j] = offs[rep][j] + 1;
                c->communicate_T(y, res); add(R, LL(res));
            }
        }
        for (int rep = 0; rep < 2; rep++) { t2[rep]->delete_comm(); t3[rep]->delete_comm(); pc[rep]->delete_comm(); delete part[rep]; }
    } else if (which == 1) {
        int n = g.range(np, 3 * np + 3), k = g.range(np, 3 * np + 3);
        std::vector<int> Rw = vh::compose(g, n, np, 1), I = vh::compose(g, k, np, 1);
        vh::Layout LA; LA.kind = 1; LA.rows = Rw; LA.cols = I; LA.first_row.assign(np, 0); LA.first_col.assign(np, 0);
        for (int p = 1; p < np; p++) { LA.first_row[p] = LA.first_row[p - 1] + Rw[p - 1]; LA.first_col[p] = LA.first_col[p - 1] + I[p - 1]; }
        vh::Layout LB = LA; LB.rows = I; LB.cols = Rw; LB.first_row = LA.first_col; LB.first_col = LA.first_row;
        vh::Trip ta = vh::gen_trip(g, n, k, 4 * n, true, false), tb = vh::gen_trip(g, k, n, 4 * k, true, false);
        ParCOOMatrix* Ac = vh::assemble_coo(ta, LA, rank); ParCOOMatrix* Bc = vh::assemble_coo(tb, LB, rank);
        ParCSRMatrix* A = Ac->to_ParCSR(); ParCSRMatrix* B = Bc->to_ParCSR();
        for (int tap = 0; tap <= 1; tap++) {
            ParVector x(k, A->on_proc_num_cols), b(n, A->local_num_rows);
            for (int i = 0; i < x.local_n; i++) x.local.values[i] = (A->partition->first_local_col + i) % 7 - 3;
            A->mult(x, b, tap); add(R, vh::local_entries(A)); { std::vector<long long> v; for (int i = 0; i < b.local_n; i++) v.push_back((long long)b.local.values[i]); add(R, v); }
            ParVector xt(n, A->local_num_rows), bt(k, A->on_proc_num_cols);
            for (int i = 0; i < xt.local_n; i++) xt.local.values[i] = (A->partition->first_local_row + i) % 5 - 2;
            A->mult_T(xt, bt, tap); { std::vector<long long> v; for (int i = 0; i < bt.local_n; i++) v.push_back((long long)bt.local.values[i]); add(R, v); }
            ParCSRMatrix* C = A->mult(B, tap); C->sort(); add(R, vh::local_entries(C)); delete C;
        }
        ParCSRMatrix* AT = (ParCSRMatrix*)A->transpose(); AT->sort(); add(R, vh::local_entries(AT)); delete AT;
        delete A; delete B; delete Ac; delete Bc;
    } else if (which == 2 || which == 3) {
        int grid[2] = { 8 + (int)(seed % 3), 8 + (int)(seed % 3) };   // square grids only (C19 finding)
        double* stencil = diffusion_stencil_2d(0.1, M_PI / 5);
        ParCSRMatrix* A = par_stencil_grid(stencil, grid, 2);
        delete[] stencil;
        ParVector x(A->global_num_rows, A->local_num_rows), b(A->global_num_rows, A->local_num_rows);
        x.set_const_value(1.0); A->mult(x, b); x.set_const_value(0.0);
        ParMultilevel* ml;
        if (which == 2) ml = new ParRugeStubenSolver(0.25, (seed % 2) ? CLJP : PMIS, ModClassical, Classical, SOR);
        else ml = new ParSmoothedAggregationSolver(0.0, MIS, JacobiProlongation, Symmetric, SOR, 1, 4.0 / 3);
        ml->max_coarse = 8; ml->max_iterations = 10; ml->tap_amg = (seed % 3 == 0) ? 0 : -1;
        ml->setup(A); ml->solve(x, b);
        std::vector<long long> s; for (auto* lv : ml->levels) { s.push_back(lv->A->global_num_rows); s.push_back(lv->A->local_num_rows); s.push_back(lv->A->local_nnz); }
        add(R, s);
        R.reals = ml->get_residuals();
        for (int i = 0; i < x.local_n; i++) R.reals.push_back(x.local.values[i]);
        delete ml; delete A;
    } else if (which == 7) {
        // a package that has been used for a long time (its tag counter has advanced by 2346 exchanges), then a second
        // package is built and the old one is used again straight away, as in time stepping with re-setup: the data
        // messages of the old package must not be taken for the index lists of the new one
        int n = g.range(np + 1, 3 * np + 4);
        std::vector<int> sizes = vh::compose(g, n, np, 1);
        std::vector<int> fc(np + 1, 0); for (int p = 0; p < np; p++) fc[p + 1] = fc[p] + sizes[p];
        std::vector<std::vector<int>> off(np), off2(np);
        for (int r = 0; r < np; r++) for (int c = 0; c < n; c++) if (!(c >= fc[r] && c < fc[r + 1])) { if (g.coin(2, 3)) off[r].push_back(c); if (g.coin(1, 2)) off2[r].push_back(c); }
        int ln = sizes[rank];
        Partition* part = new Partition(n, n, ln, ln, fc[rank], fc[rank]);
        ParComm* pc = new ParComm(part, off[rank]);
        std::vector<int> x(ln); for (int i = 0; i < ln; i++) x[i] = 100 * (fc[rank] + i);
        for (int k = 0; k < 2346; k++) pc->communicate(x);
        ParComm* pc2 = new ParComm(part, off2[rank]);
        std::vector<int>& r1 = pc->communicate(x); add(R, LL(std::vector<int>(r1.begin(), r1.begin() + off[rank].size())));
        add(R, canon_pkg(pc2));
        std::vector<int>& r2 = pc2->communicate(x); add(R, LL(std::vector<int>(r2.begin(), r2.begin() + off2[rank].size())));
        pc2->delete_comm(); pc->delete_comm(); delete part;
    } else if (which == 6) {
        // distance-two independent set on a directed strength pattern: a chain inside every rank plus one coupling per row into
        // the next rank, so every rank sends halo data to one neighbour and receives from another (the sets differ); very
        // unequal block sizes, so the ranks finish in different rounds and the termination handshake (tags 19432 / 23491) matters
        std::vector<int> m(np); for (int r = 0; r < np; r++) m[r] = 2 + (int)((seed / 7 + 5 * r * r) % 13);
        m[(seed / 3) % np] = 2;
        int n = 0, first = 0; std::vector<int> firsts(np + 1, 0);
        for (int r = 0; r < np; r++) { firsts[r + 1] = firsts[r] + m[r]; if (r < rank) first += m[r]; n += m[r]; }
        std::vector<double> w(m[rank]); for (int j = 0; j < m[rank]; j++) w[j] = (((first + j) * 7919LL + seed) % n + 0.5 * ((first + j) % 2) + 0.25) / (double)(n + 1);
        ParCSRMatrix* S = new ParCSRMatrix(n, n, m[rank], m[rank], first, first);
        S->on_proc->idx1[0] = 0; S->off_proc->idx1[0] = 0;
        int nxt = (rank + 1) % np;
        for (int j = 0; j < m[rank]; j++) {
            int gi = first + j;
            if (j > 0) S->add_value(j, gi - 1, 1.0);
            S->add_value(j, gi, 1.0);
            if (j < m[rank] - 1) S->add_value(j, gi + 1, 1.0);
            if (np > 1) S->add_value(j, firsts[nxt] + (j % m[nxt]), 1.0);
            S->on_proc->idx1[j + 1] = S->on_proc->idx2.size(); S->off_proc->idx1[j + 1] = S->off_proc->idx2.size();
        }
        S->on_proc->nnz = S->on_proc->idx2.size(); S->off_proc->nnz = S->off_proc->idx2.size();
        S->finalize();
        std::vector<int> states, off_states;
        int iters = mis2(S, states, off_states, false, w.data());
        add(R, LL(states)); add(R, { (long long)iters });
        delete S;
    } else {
        int n = g.range(2 * np, 4 * np + 4);
        std::vector<int> Rw = vh::compose(g, n, np, 1);
        vh::Layout L; L.kind = 1; L.rows = Rw; L.cols = Rw; L.first_row.assign(np, 0); for (int p = 1; p < np; p++) L.first_row[p] = L.first_row[p - 1] + Rw[p - 1]; L.first_col = L.first_row;
        vh::Trip t = vh::gen_trip(g, n, n, 3 * n, false, false); for (int i = 0; i < n; i++) { t.r.push_back(i); t.c.push_back(i); t.v.push_back(10); }
        ParCOOMatrix* Ac = vh::assemble_coo(t, L, rank); ParCSRMatrix* A = Ac->to_ParCSR();
        std::vector<int> target(A->local_num_rows); for (auto& v : target) v = 0;
        vh::Rng gl(seed * 31 + rank); for (auto& v : target) v = gl.below(np);
        std::vector<int> new_rows;
        ParCSRMatrix* B = repartition_matrix(A, target.data(), new_rows);
        add(R, LL(new_rows)); B->sort(); 
        // entries in the ORIGINAL numbering: rows through new_rows, columns through the maps and the gathered permutation are
        // compared by C20; here only schedule-independence of the raw result is required
        add(R, vh::local_entries(B));
        delete B; delete A; delete Ac;
    }
    return R;
}

int main(int argc, char** argv)
{
    MPI_Init(&argc, &argv);
    E.init(argc, argv);
    int np = E.np, rank = E.rank;
    const char* wd = getenv("VERIF_WATCHDOG"); int watchdog = wd ? atoi(wd) : 60;
    // schedules: (mode, site_tag, perm_index, max_delay_us, gather_us)
    struct Sched { int mode, site, perm, delay, gather; };
    std::vector<Sched> scheds = { {0, -1, 0, 0, 0}, {1, -1, 0, 0, 300}, {2, -1, 0, 200, 300}, {2, -1, 0, 400, 100}, {2, -1, 0, 0, 600} };
    // synchronous completion of standard-mode sends (mode + 10): no reliance on eager buffering
    scheds.push_back({10, -1, 0, 0, 0}); scheds.push_back({12, -1, 0, 300, 300});
    // one laggard rank: its first sends leave 15 ms late, everybody else runs ahead
    { int lag[] = { 0, np - 1, np / 2, 1 }; int nl = np <= 4 ? np : 3; for (int k = 0; k < nl; k++) scheds.push_back({4, -1, np <= 4 ? k : lag[k], 15000, 0}); }
    if (E.thorough) for (int k = 0; k < 10; k++) scheds.push_back({2, -1, 0, 100 * (k % 4), 100 * (k % 5)});
    // exhaustive per wildcard site for small process counts: every order of preference among the sources
    int sites[] = { 12345, 6543, 9876, 6789, 4321, 7890, 29485 };
    if (np <= (E.thorough ? 4 : 3)) { int nperm = 1; for (int k = 2; k <= np; k++) nperm *= k;
        for (int s : sites) for (int p = 1; p < nperm; p++) scheds.push_back({3, s, p, 0, 400}); }
    // slow tag: the termination handshake of mis2 (and the package handshakes) with every message of one tag 20 ms late
    { int slow[] = { 19432, 23491 }; for (int t : slow) for (int who = 0; who <= std::min(np, 3); who++) scheds.push_back({5, t, who, 20000, 0}); }
    { for (int who = 0; who <= std::min(np, 3); who++) scheds.push_back({5, 12345, who, 20000, 0}); }      // late index lists (scenario 7)
    int nscen = 8;
    for (int scen = 0; scen < nscen; scen++)
    for (int inst = 0; inst < (E.thorough ? 3 : 1); inst++)
    {
        uint64_t seed = (uint64_t)E.seed * 1000 + scen * 17 + inst * 101 + 5;
        Result ref; 
        for (size_t si = 0; si < scheds.size(); si++)
        {
            Sched sc = scheds[si];
            if (sc.mode == 3 && sc.site == 29485 && scen != 4) continue;         // site only exists in the repartition scenario
            if (sc.mode == 3 && sc.site != 12345 && sc.site != 29485 && scen == 4) continue;
            if (sc.mode == 5 && sc.site == 12345 && scen != 7) continue;
            if (sc.mode == 5 && sc.site != 12345 && scen != 6 && scen != 3) continue;     // the handshake tags exist in the MIS-2 scenarios only
            if (sc.mode == 3 && scen == 7 && sc.site != 12345) continue;
            if (scen == 7 && inst > 0) continue;                                  // 2346 exchanges per schedule: one instance is enough (thorough tier)
            if (sc.mode == 3 && scen == 6) continue;
            char buf[160]; snprintf(buf, 160, "scen%d/inst%d/sched%zu(mode%d,site%d,perm%d,delay%d,gather%d)", scen, inst, si, sc.mode, sc.site, sc.perm, sc.delay, sc.gather);
            E.about(buf);
            MPI_Barrier(MPI_COMM_WORLD);
            alarm(watchdog);                               // a hang under this schedule kills the run (SIGALRM -> crash report)
            vl::reset(E.seed * 7919 + si * 13 + scen, sc.mode, sc.site, sc.perm, sc.delay, sc.gather);
            Result R = scenario(scen, seed);
            vl::stop();
            alarm(0);
            std::vector<long long> trace = vl::S.trace; std::vector<long long> stats = { vl::S.wild_choices, vl::S.wild_multi, vl::S.delays };
            bool want = E.want();
            if (si == 0) ref = R;
            // per-rank comparison data gathered to rank 0
            auto refs = vh::gather_ll(ref.ints), gots = vh::gather_ll(R.ints);
            auto refr = vh::gather_ll(vh::dbits_ll(ref.reals)), gotr = vh::gather_ll(vh::dbits_ll(R.reals));
            auto traces = vh::gather_ll(trace); auto st = vh::gather_ll(stats);
            if (rank == 0 && want) {
                vh::Case c("C05", "same"); c.i(scen).i(np).i(sc.mode).i(sc.site).i(sc.perm).i(sc.delay);
                long long wc = 0, wm = 0, dl = 0; for (auto& v : st) { wc += v[0]; wm += v[1]; dl += v[2]; }
                c.i(wc).i(wm).i(dl);
                for (auto& v : refs) c.vec(v); for (auto& v : gots) c.vec(v); for (auto& v : refr) c.vec(v); for (auto& v : gotr) c.vec(v);
                c.write(E.out);
                vh::Case t("C05", "trace"); t.i(scen).i(np).i(sc.mode);
                for (auto& v : traces) t.vec(v);
                t.write(E.out);
            }
        }
    }
    E.finish();
    MPI_Finalize();
    return 0;
}
