// C07 (sequential part): conversions, copy, sort, move_diag, remove_duplicates, transpose, add, subtract
// on the real Matrix classes; every case line carries the input matrix and the implementation's output.
#include "mat.hpp"
using namespace raptor;
static vh::Env E;

static void emit1(const char* op, int dst, Matrix* in, Matrix* in2, Matrix* out) {
    vh::Case c("C07", op); c.i(dst);
    vh::dump_mat(c, in); if (in2) vh::dump_mat(c, in2); vh::dump_mat(c, out);
    c.write(E.out);
}

static const char* FN[] = { "COO", "CSR", "CSC" };
static void about(const char* op, int fmt, const vh::Trip& t, int extra = -1) {
    char buf[160]; snprintf(buf, 160, "%s/%s%s%s%s", op, FN[fmt], t.n_rows != t.n_cols ? "/rect" : "", t.r.empty() ? "/empty" : "",
                            extra >= 0 ? (std::string("->") + FN[extra]).c_str() : "");
    E.about(buf);
}

// block matrices (BCOO / BSR / BSC) built directly from block lists, independent of the conversions under test
struct BlockTrip { int R, C, br, bc; std::vector<int> rr, cc; std::vector<std::vector<double>> vv; };
static BlockTrip gen_block(vh::Rng& g, int cap) {
    BlockTrip b; b.br = g.range(1, 3); b.bc = g.coin(1, 2) ? b.br : g.range(1, 3);
    b.R = g.range(0, cap); b.C = g.coin(1, 3) ? b.R : g.range(0, cap);
    int nb = (b.R == 0 || b.C == 0 || g.coin(1, 8)) ? 0 : g.range(1, 2 * (b.R + b.C) + 1);
    bool dups = g.coin();
    for (int k = 0; k < nb; k++) {
        int r = g.below(b.R), c = g.below(b.C);
        if (!dups) { bool seen = false; for (size_t q = 0; q < b.rr.size(); q++) if (b.rr[q] == r && b.cc[q] == c) seen = true; if (seen) continue; }
        std::vector<double> blk(b.br * b.bc); for (auto& v : blk) v = g.coin(1, 4) ? 0 : g.range(-3, 3);
        b.rr.push_back(r); b.cc.push_back(c); b.vv.push_back(blk);
    }
    return b;
}
static Matrix* make_block(const BlockTrip& b, int fmt) {
    int nb = (int)b.rr.size();
    if (fmt == 0) { BCOOMatrix* M = new BCOOMatrix(b.R, b.C, b.br, b.bc); for (int k = 0; k < nb; k++) M->add_value(b.rr[k], b.cc[k], const_cast<double*>(b.vv[k].data())); return M; }
    if (fmt == 1) {
        BSRMatrix* M = new BSRMatrix(b.R, b.C, b.br, b.bc); M->idx1.assign(b.R + 1, 0); M->idx2.clear();
        for (int i = 0; i < b.R; i++) { for (int k = 0; k < nb; k++) if (b.rr[k] == i) { M->idx2.push_back(b.cc[k]); M->block_vals.push_back(M->copy_val(const_cast<double*>(b.vv[k].data()))); } M->idx1[i + 1] = (int)M->idx2.size(); }
        M->nnz = (int)M->idx2.size(); return M;
    }
    BSCMatrix* M = new BSCMatrix(b.R, b.C, b.br, b.bc); M->idx1.assign(b.C + 1, 0); M->idx2.clear();
    for (int j = 0; j < b.C; j++) { for (int k = 0; k < nb; k++) if (b.cc[k] == j) { M->idx2.push_back(b.rr[k]); M->block_vals.push_back(M->copy_val(const_cast<double*>(b.vv[k].data()))); } M->idx1[j + 1] = (int)M->idx2.size(); }
    M->nnz = (int)M->idx2.size(); return M;
}
static const char* BN[] = { "BCOO", "BSR", "BSC" };
static void about_b(const char* op, int fmt, const BlockTrip& b, int extra = -1) {
    char buf[160]; snprintf(buf, 160, "%s/%s/b%dx%d%s%s%s", op, BN[fmt], b.br, b.bc, b.R != b.C ? "/rect" : "", b.rr.empty() ? "/empty" : "",
                            extra >= 0 ? (std::string("->") + BN[extra]).c_str() : "");
    E.about(buf);
}
static Matrix* convert(Matrix* A, int dst) { return dst == 0 ? (Matrix*)A->to_COO() : dst == 1 ? (Matrix*)A->to_CSR() : (Matrix*)A->to_CSC(); }

int main(int argc, char** argv)
{
    MPI_Init(&argc, &argv);
    E.init(argc, argv);
    vh::Rng g(E.seed * 7919 + 7);
    int ncases = E.thorough ? 1500 : 250;
    for (int it = 0; it < ncases; it++)
    {
        // sizes grow with the case number so that the first failing case is a small one
        int cap = 1 + std::min(9, it / 12);
        int n_rows = g.range(0, cap), n_cols = g.coin(1, 3) ? n_rows : g.range(0, cap);
        int nnz = g.coin(1, 10) ? 0 : g.range(0, 2 * cap + 2);
        bool dups = g.coin(), zeros = g.coin(1, 3);
        vh::Trip t = vh::gen_trip(g, n_rows, n_cols, nnz, dups, zeros);
        int fmt = g.below(3);

        // --- single operations and chains of <= 3 conversions (each link is one case) ---
        {
            Matrix* A = vh::make_fmt(t, fmt);
            Matrix* cur = A;
            int len = g.range(1, 3);
            std::vector<Matrix*> made;
            for (int s = 0; s < len; s++) {
                int dst = g.below(3);
                Matrix* in_copy = cur->copy();          // snapshot of the input of this link
                in_copy->sorted = cur->sorted; in_copy->diag_first = cur->diag_first;
                about("conv", s == 0 ? fmt : 0, t, dst);
                Matrix* nxt = convert(cur, dst);
                if (E.want()) emit1("conv", dst, in_copy, nullptr, nxt);
                delete in_copy;
                if (nxt != cur) made.push_back(nxt);
                cur = nxt;
                // sometimes sort / move the diagonal between links so that flags travel through chains
                if (g.coin(1, 3)) {
                    Matrix* before = cur->copy(); before->sorted = cur->sorted; before->diag_first = cur->diag_first;
                    bool do_sort = g.coin();
                    if (do_sort) cur->sort(); else cur->move_diag();
                    if (E.want()) emit1(do_sort ? "sort" : "movediag", 0, before, nullptr, cur);
                    delete before;
                }
            }
            for (Matrix* m : made) delete m;
            delete A;
        }
        // --- chains of in-place operations and copies on one object (state left behind by one operation meets the next:
        //     arrays longer than nnz after remove_duplicates, flags) ---
        {
            auto snap = [](Matrix* M) -> Matrix* {          // deep copy that does not go through the library's copy()
                format_t f = M->format(); Matrix* S = f == COO ? (Matrix*)new COOMatrix(M->n_rows, M->n_cols) : f == CSR ? (Matrix*)new CSRMatrix(M->n_rows, M->n_cols) : (Matrix*)new CSCMatrix(M->n_rows, M->n_cols);
                S->idx1 = M->idx1; S->idx2 = M->idx2; S->vals = M->vals; S->nnz = M->nnz; S->sorted = M->sorted; S->diag_first = M->diag_first; return S; };
            Matrix* cur = vh::make_fmt(t, fmt);
            const char* cops[] = { "rmdup", "copy", "sort", "movediag" };
            int len = g.range(2, 4);
            bool forced = g.coin(1, 3); int third = (int[]){ 2, 3, 0 }[g.below(3)];     // remove_duplicates, copy, then an operation that walks the arrays
            if (forced) len = 3;
            for (int s2 = 0; s2 < len; s2++) {
                int k = forced ? (s2 == 0 ? 0 : s2 == 1 ? 1 : third) : ((s2 == 0 && g.coin()) ? 0 : g.below(4));
                Matrix* before = snap(cur);
                about(cops[k], fmt, t);
                Matrix* out = cur;
                if (k == 0) cur->remove_duplicates(); else if (k == 1) out = cur->copy(); else if (k == 2) cur->sort(); else cur->move_diag();
                if (E.want()) emit1(cops[k], 0, before, nullptr, out);
                delete before;
                if (out != cur) { delete cur; cur = out; }
            }
            delete cur;
        }
        // --- copy / sort / move_diag / remove_duplicates / transpose on a fresh object ---
        const char* ops[] = { "copy", "sort", "movediag", "rmdup", "transpose" };
        for (int k = 0; k < 5; k++) {
            Matrix* A = vh::make_fmt(t, fmt);
            Matrix* in = vh::make_fmt(t, fmt);
            if (g.coin(1, 3)) { A->sort(); in->sort(); }      // pre-sorted inputs exercise the early returns
            Matrix* out = A;
            about(ops[k], fmt, t);
            if (k == 0) out = A->copy();
            else if (k == 1) A->sort();
            else if (k == 2) A->move_diag();
            else if (k == 3) A->remove_duplicates();
            else out = A->transpose();
            if (E.want()) emit1(ops[k], 0, in, nullptr, out);
            if (out != A) delete out;
            delete A; delete in;
        }

        // --- add / subtract (CSR operands of equal shape, different patterns) ---
        {
            vh::Trip tb = vh::gen_trip(g, n_rows, n_cols, g.range(0, 2 * cap + 2), g.coin(), g.coin(1, 3));
            if (g.coin(1, 5)) { tb = t; for (auto& v : tb.v) v = -v; }     // exact cancellation
            CSRMatrix* A = vh::make_csr(t); CSRMatrix* B = vh::make_csr(tb);
            CSRMatrix* A0 = vh::make_csr(t); CSRMatrix* B0 = vh::make_csr(tb);
            about("add", 1, t);
            CSRMatrix* C = A->add(B);
            if (E.want()) emit1("add", 0, A0, B0, C);
            delete C;
            C = A->subtract(B);
            if (E.want()) emit1("sub", 0, A0, B0, C);
            delete C;
            C = A->add(B, false);
            if (E.want()) emit1("addnodup", 0, A0, B0, C);
            delete C;
            delete A; delete B; delete A0; delete B0;
        }
    }
    // second loop (own generator, after the scalar cases so that their case numbers stay what they were)
    vh::Rng gb(E.seed * 7919 + 77);
    for (int it = 0; it < ncases; it++)
    {
        vh::Rng& g = gb;
        // --- the same on the block classes: conversion chains, and each operation on a fresh object ---
        {
            BlockTrip bt = gen_block(g, 1 + std::min(4, it / 25));
            int bfmt = g.below(3);
            {
                Matrix* A = make_block(bt, bfmt); Matrix* cur = A; std::vector<Matrix*> made;
                int len = g.range(1, 3);
                for (int s = 0; s < len; s++) {
                    int dst = g.below(3);
                    Matrix* in_copy = cur->copy(); in_copy->sorted = cur->sorted; in_copy->diag_first = cur->diag_first;
                    about_b("conv", s == 0 ? bfmt : 0, bt, dst);
                    Matrix* nxt = convert(cur, dst);
                    if (E.want()) emit1("conv", dst, in_copy, nullptr, nxt);
                    delete in_copy;
                    if (nxt != cur) made.push_back(nxt);
                    cur = nxt;
                }
                for (Matrix* m : made) delete m;
                delete A;
            }
            const char* bops[] = { "copy", "sort", "movediag", "rmdup", "transpose" };
            for (int k = 0; k < 5; k++) {
                Matrix* A = make_block(bt, bfmt); Matrix* in = make_block(bt, bfmt);
                Matrix* out = A;
                about_b(bops[k], bfmt, bt);
                if (k == 0) out = A->copy();
                else if (k == 1) A->sort();
                else if (k == 2) A->move_diag();
                else if (k == 3) A->remove_duplicates();
                else out = A->transpose();
                if (E.want()) emit1(bops[k], 0, in, nullptr, out);
                if (out != A) delete out;
                delete A; delete in;
            }
        }
    }
    // third loop (own generator, after everything else): COO objects built by the dense-array constructor (arrays longer than
    // nnz until something trims them), and sums / differences called through the format-generic base-class entry points
    vh::Rng gd(E.seed * 7919 + 777);
    for (int it = 0; it < ncases / 2; it++)
    {
        vh::Rng& g = gd;
        int cap = 1 + std::min(6, it / 10);
        int n_rows = g.range(1, cap), n_cols = g.coin(1, 2) ? n_rows : g.range(1, cap);
        std::vector<double> dense(n_rows * n_cols); for (auto& v : dense) v = g.coin(1, 2) ? 0 : g.range(-3, 3);
        vh::Trip t; t.n_rows = n_rows; t.n_cols = n_cols;
        for (int i = 0; i < n_rows; i++) for (int j = 0; j < n_cols; j++) if (dense[i * n_cols + j] != 0) { t.r.push_back(i); t.c.push_back(j); t.v.push_back(dense[i * n_cols + j]); }
        const char* dops[] = { "sort", "movediag", "rmdup", "transpose", "copy" };
        for (int k = 0; k < 5; k++) {
            COOMatrix* A = new COOMatrix(n_rows, n_cols, dense.data());
            Matrix* in = vh::make_coo(t);
            Matrix* out = A;
            about((std::string("dense_ctor/") + dops[k]).c_str(), 0, t);
            if (k == 0) A->sort(); else if (k == 1) A->move_diag(); else if (k == 2) A->remove_duplicates(); else if (k == 3) out = A->transpose(); else out = A->copy();
            if (E.want()) emit1(dops[k], 0, in, nullptr, out);
            if (out != A) delete out;
            delete A; delete in;
        }
        {   // conversion of the freshly constructed object
            int dst = g.below(3);
            COOMatrix* A = new COOMatrix(n_rows, n_cols, dense.data()); Matrix* in = vh::make_coo(t);
            about("dense_ctor/conv", 0, t, dst);
            Matrix* out = convert(A, dst);
            if (E.want()) emit1("conv", dst, in, nullptr, out);
            if (out != A) delete out;
            delete A; delete in;
        }
        {   // A + B and A - B through Matrix::add / Matrix::subtract for a left operand of every format; the operands must survive
            vh::Trip ta = vh::gen_trip(g, n_rows, n_cols, g.range(0, 2 * cap + 2), g.coin(), false), tb = vh::gen_trip(g, n_rows, n_cols, g.range(0, 2 * cap + 2), g.coin(), false);
            int fa = g.below(3);
            Matrix* A = vh::make_fmt(ta, fa); CSRMatrix* B = vh::make_csr(tb);
            CSRMatrix* A0 = vh::make_csr(ta); CSRMatrix* B0 = vh::make_csr(tb);
            about("generic_add", fa, ta);
            Matrix* C = A->Matrix::add(B);
            if (E.want()) emit1("add", 0, A0, B0, C);
            delete C;
            about("generic_sub", fa, ta);
            C = A->Matrix::subtract(B);
            if (E.want()) emit1("sub", 0, A0, B0, C);
            delete C;
            // the left operand is still the matrix it was
            about("generic_add/operand_intact", fa, ta);
            Matrix* Acopy = A->copy(); Matrix* in2 = vh::make_fmt(ta, fa);
            if (E.want()) emit1("copy", 0, in2, nullptr, Acopy);
            delete in2; delete Acopy; delete A; delete B; delete A0; delete B0;
        }
    }
    E.finish();
    MPI_Finalize();
    return 0;
}
