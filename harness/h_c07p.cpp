// C07 (distributed and block part) and C02 (block SpMV): conversions between the distributed formats, copies,
// transposes, sums with different halo sets, scalar -> block conversion, and products with block matrices, on the
// real Par*Matrix classes; every result is gathered as global scalar triplets (blocks expanded) with its shape.
//   mode "conv": lines "C07 par <opcode> ..."      mode "bspmv": lines "C02 <op> 4 ..." (fmt 4 = BSR)
#include "par.hpp"
using namespace raptor;
static vh::Env E;
static const char* FN[] = { "COO", "CSR", "CSC" };

static ParMatrix* convert(ParMatrix* A, int to) { return to == 0 ? (ParMatrix*)A->to_ParCOO() : to == 1 ? (ParMatrix*)A->to_ParCSR() : (ParMatrix*)A->to_ParCSC(); }
static int fmt_of(ParMatrix* A) { format_t f = A->on_proc->format(); return (f == COO || f == BCOO) ? 0 : (f == CSR || f == BSR) ? 1 : 2; }

// shape: global rows, global cols, then per rank (local_rows, on_proc_num_cols, first_row, first_col, off_proc_num_cols, on nnz, off nnz)
static void shape(vh::Case& c, ParMatrix* A) {
    std::vector<long long> mine = { A->local_num_rows, A->on_proc_num_cols, A->partition->first_local_row, A->partition->first_local_col,
                                    A->off_proc_num_cols, A->on_proc->nnz, A->off_proc->nnz, A->global_num_rows, A->global_num_cols,
                                    A->on_proc->b_rows, A->on_proc->b_cols };
    auto per = vh::gather_ll(mine);
    if (E.rank == 0) { c.i((long long)per.size()); for (auto& v : per) for (auto x : v) c.i(x); }
}

// op codes: 0 assemble, 1 convert, 2 copy, 3 transpose, 4 add, 5 subtract, 6 to_ParBSR, 7 ParBSR->ParCSR, 8 ParBCOO block assembly
static void emit(int op, int from, int to, int step, const vh::Trip& a, const vh::Trip* b, int br, int bc, int kind, ParMatrix* R)
{
    bool want = E.want();
    auto ents = vh::gather_entries(R);
    vh::Case c("C07", "par");
    if (E.rank == 0) { c.i(op).i(from).i(to).i(step).i(E.np).i(kind).i(a.n_rows).i(a.n_cols).i(br).i(bc).vec(vh::trip_ll(a)); if (b) c.vec(vh::trip_ll(*b)); else c.i(0); c.vec(ents); }
    shape(c, R);
    if (E.rank == 0 && want) c.write(E.out);
}

static vh::Layout block_layout(vh::Rng& g, int nbr, int nbc, int br, int bc, int np, int style) {
    vh::Layout L; L.kind = 1; L.n_rows = nbr * br; L.n_cols = nbc * bc;
    L.rows = vh::compose(g, nbr, np, style); L.cols = (nbr == nbc) ? L.rows : vh::compose(g, nbc, np, style);
    // a rank without rows owns no columns (the library's partition invariant)
    for (int r = 0; r < np; r++) { L.rows[r] *= br; L.cols[r] *= bc; }
    L.first_row.assign(np, 0); L.first_col.assign(np, 0);
    for (int r = 1; r < np; r++) { L.first_row[r] = L.first_row[r - 1] + L.rows[r - 1]; L.first_col[r] = L.first_col[r - 1] + L.cols[r - 1]; }
    return L;
}

static void conv_case(vh::Rng& g, int it)
{
    int cap = 2 + std::min(14, it / 4);
    int n_rows = g.range(0, cap), n_cols = g.coin(1, 2) ? n_rows : g.range(0, cap);
    vh::Trip t = vh::gen_trip(g, n_rows, n_cols, g.coin(1, 12) ? 0 : g.range(0, 3 * cap), g.coin(), false);
    int kind = g.below(3);
    vh::Layout L = vh::make_layout(g, n_rows, n_cols, E.np, kind);
    char buf[128];
    snprintf(buf, 128, "par/assemble/layout%d/%dx%d/it%d", kind, n_rows, n_cols, it); E.about(buf);
    ParCOOMatrix* A0 = vh::assemble_coo(t, L, E.rank);
    emit(0, 0, 0, 0, t, nullptr, 1, 1, kind, A0);
    // chain of <= 3 conversions, a copy somewhere
    ParMatrix* cur = A0;
    int len = g.range(1, 3);
    for (int s = 0; s < len; s++) {
        int from = fmt_of(cur), to = g.below(3);
        snprintf(buf, 128, "par/conv/%s->%s/layout%d/%dx%d/step%d", FN[from], FN[to], kind, n_rows, n_cols, s); E.about(buf);
        ParMatrix* nxt = convert(cur, to);
        emit(1, from, to, s, t, nullptr, 1, 1, kind, nxt);
        if (cur != A0 && cur != nxt) delete cur;      // a conversion to the same format returns the object itself
        cur = nxt;
        if (g.coin(1, 3)) {
            snprintf(buf, 128, "par/copy/%s/layout%d/%dx%d", FN[to], kind, n_rows, n_cols); E.about(buf);
            ParMatrix* cp = cur->copy();
            emit(2, to, to, s, t, nullptr, 1, 1, kind, cp);
            delete cp;
        }
    }
    // transpose of the current format
    {
        int from = fmt_of(cur);
        snprintf(buf, 128, "par/transpose/%s/layout%d/%dx%d", FN[from], kind, n_rows, n_cols); E.about(buf);
        ParMatrix* T = cur->transpose();
        emit(3, from, from, 0, t, nullptr, 1, 1, kind, T);
        delete T;
    }
    if (cur != A0) delete cur;
    // sums of two operands with independent patterns (different halo sets), same layout
    {
        vh::Trip tb = vh::gen_trip(g, n_rows, n_cols, g.range(0, 3 * cap), g.coin(), false);
        if (g.coin(1, 6)) { tb = t; for (auto& v : tb.v) v = -v; }
        ParCOOMatrix* B0 = vh::assemble_coo(tb, L, E.rank);
        ParCSRMatrix* A = A0->to_ParCSR(); ParCSRMatrix* B = B0->to_ParCSR();
        snprintf(buf, 128, "par/add/layout%d/%dx%d/it%d", kind, n_rows, n_cols, it); E.about(buf);
        ParCSRMatrix* C = A->add(B);
        emit(4, 1, 1, 0, t, &tb, 1, 1, kind, C); delete C;
        snprintf(buf, 128, "par/subtract/layout%d/%dx%d/it%d", kind, n_rows, n_cols, it); E.about(buf);
        C = A->subtract(B);
        emit(5, 1, 1, 0, t, &tb, 1, 1, kind, C); delete C;
        delete A; delete B; delete B0;
    }
    delete A0;
    // scalar -> block -> scalar, block sizes 1..3, partitions aligned with the blocks
    {
        int br = g.range(1, 3), bc = g.coin(2, 3) ? br : g.range(1, 3);
        int nbr = g.range(0, 1 + cap / 2), nbc = (br == bc && g.coin(2, 3)) ? nbr : g.range(0, 1 + cap / 2);
        int style = g.coin() ? 1 : 2 + g.below(2);
        vh::Layout LB = block_layout(g, nbr, nbc, br, bc, E.np, style);
        vh::Trip tb = vh::gen_trip(g, nbr * br, nbc * bc, g.range(0, 3 * cap), false, false);
        snprintf(buf, 128, "par/to_ParBSR/b%dx%d/%dx%d/style%d/it%d", br, bc, nbr * br, nbc * bc, style, it); E.about(buf);
        ParCOOMatrix* Ac = vh::assemble_coo(tb, LB, E.rank); ParCSRMatrix* A = Ac->to_ParCSR();
        ParBSRMatrix* Ab = A->to_ParBSR(br, bc);
        emit(6, 1, 1, 0, tb, nullptr, br, bc, 10 + style, Ab);
        snprintf(buf, 128, "par/ParBSR->ParCSR/b%dx%d/%dx%d/style%d/it%d", br, bc, nbr * br, nbc * bc, style, it); E.about(buf);
        ParCSRMatrix* Back = Ab->to_ParCSR();
        emit(7, 1, 1, 0, tb, nullptr, br, bc, 10 + style, Back);
        delete Back; delete Ab; delete A; delete Ac;
    }
}

// square block grids whose columns are split differently from their rows (after the other cases: their numbers stay)
static void indep_case(vh::Rng& g, int it)
{
    char buf[128];
    int cap = 2 + std::min(14, it / 4);
    int br = g.range(1, 3), bc = br;
    int nb = g.range(1, 1 + cap / 2);
    int style = g.coin() ? 1 : 2 + g.below(2);
    vh::Layout LB; LB.kind = 1; LB.n_rows = nb * br; LB.n_cols = nb * bc;
    LB.rows = vh::compose(g, nb, E.np, style); LB.cols = vh::compose(g, nb, E.np, 1 + g.below(3));
    for (int r = 0; r < E.np; r++) if (LB.rows[r] == 0) { int give = LB.cols[r]; LB.cols[r] = 0; for (int q = 0; q < E.np; q++) if (LB.rows[q] > 0) { LB.cols[q] += give; break; } }   // a rank without rows owns no columns
    for (int r = 0; r < E.np; r++) { LB.rows[r] *= br; LB.cols[r] *= bc; }
    LB.first_row.assign(E.np, 0); LB.first_col.assign(E.np, 0);
    for (int r = 1; r < E.np; r++) { LB.first_row[r] = LB.first_row[r - 1] + LB.rows[r - 1]; LB.first_col[r] = LB.first_col[r - 1] + LB.cols[r - 1]; }
    vh::Trip tb = vh::gen_trip(g, nb * br, nb * bc, g.range(0, 3 * cap), false, false);
    snprintf(buf, 128, "par/to_ParBSR/indep_cols/b%dx%d/%dx%d/style%d/it%d", br, bc, nb * br, nb * bc, style, it); E.about(buf);
    ParCOOMatrix* Ac = vh::assemble_coo(tb, LB, E.rank); ParCSRMatrix* A = Ac->to_ParCSR();
    ParBSRMatrix* Ab = A->to_ParBSR(br, bc);
    emit(6, 1, 1, 0, tb, nullptr, br, bc, 10 + style, Ab);
    snprintf(buf, 128, "par/ParBSR->ParCSR/indep_cols/b%dx%d/%dx%d/style%d/it%d", br, bc, nb * br, nb * bc, style, it); E.about(buf);
    ParCSRMatrix* Back = Ab->to_ParCSR();
    emit(7, 1, 1, 0, tb, nullptr, br, bc, 10 + style, Back);
    delete Back; delete Ab; delete A; delete Ac;
}

// block assembly: ParBCOO filled block by block (duplicate block positions included), finalize() merges them
static void bcoo_case(vh::Rng& g, int it)
{
    int cap = 2 + std::min(8, it / 4);
    int br = g.range(1, 3), bc = g.coin(2, 3) ? br : g.range(1, 3);
    int nbr = g.range(1, cap), nbc = (br == bc && g.coin(2, 3)) ? nbr : g.range(1, cap);
    int style = g.coin() ? 1 : 2 + g.below(2);
    vh::Layout LB = block_layout(g, nbr, nbc, br, bc, E.np, style);
    int nblk = g.range(0, 3 * cap); bool dups = g.coin(2, 3);
    std::vector<int> BI, BJ; std::vector<std::vector<double>> BV;
    for (int k = 0; k < nblk; k++) {
        int I, J; if (dups && k > 0 && g.coin(1, 3)) { int q = g.below(k); I = BI[q]; J = BJ[q]; } else { I = g.below(nbr); J = g.below(nbc); }
        std::vector<double> v(br * bc); for (auto& x : v) x = g.range(-3, 3);
        BI.push_back(I); BJ.push_back(J); BV.push_back(v);
    }
    vh::Trip t; t.n_rows = nbr * br; t.n_cols = nbc * bc;
    for (int k = 0; k < nblk; k++) for (int q = 0; q < br * bc; q++) { t.r.push_back(BI[k] * br + q / bc); t.c.push_back(BJ[k] * bc + q % bc); t.v.push_back(BV[k][q]); }
    char buf[128]; snprintf(buf, 128, "par/bcoo_assemble/b%dx%d/%dx%d/style%d/it%d", br, bc, nbr, nbc, style, it); E.about(buf);
    int lbr = LB.rows[E.rank] / br, lbc = LB.cols[E.rank] / bc, fbr = LB.first_row[E.rank] / br, fbc = LB.first_col[E.rank] / bc;
    ParBCOOMatrix* A = new ParBCOOMatrix(nbr, nbc, lbr, lbc, fbr, fbc, br, bc);
    for (int k = 0; k < nblk; k++) if (BI[k] >= fbr && BI[k] < fbr + lbr) {
        if (BJ[k] >= fbc && BJ[k] < fbc + lbc) A->on_proc->add_value(BI[k] - fbr, BJ[k] - fbc, BV[k].data());
        else A->off_proc->add_value(BI[k] - fbr, BJ[k], BV[k].data()); }
    A->finalize();
    emit(8, 0, 0, 0, t, nullptr, br, bc, 10 + style, A);
    delete A;
}

// block SpMV (C02): line format of h_c02's par_case with fmt = 4
static void bspmv_case(vh::Rng& g, int it, int tap = 0)
{
    int cap = 2 + std::min(10, it / 4);
    int br = g.range(1, 3), bc = g.coin(2, 3) ? br : g.range(1, 3);
    int nbr = g.range(0, cap), nbc = (br == bc && g.coin(2, 3)) ? nbr : g.range(0, cap);
    int style = g.coin() ? 1 : 2 + g.below(2);
    vh::Layout LB = block_layout(g, nbr, nbc, br, bc, E.np, style);
    int n_rows = nbr * br, n_cols = nbc * bc;
    vh::Trip t = vh::gen_trip(g, n_rows, n_cols, g.coin(1, 10) ? 0 : g.range(0, 4 * cap), false, false);
    char buf[128]; snprintf(buf, 128, "par/bsr/build/b%dx%d/%dx%d/style%d/it%d", br, bc, n_rows, n_cols, style, it); E.about(buf);
    ParCOOMatrix* Ac = vh::assemble_coo(t, LB, E.rank); ParCSRMatrix* As = Ac->to_ParCSR();
    ParBSRMatrix* A = As->to_ParBSR(br, bc);
    int fr = As->partition->first_local_row, fc = As->partition->first_local_col, lr = As->partition->local_num_rows, lc = As->partition->local_num_cols;
    const char* ops[] = { "mult", "mult_append", "mult_T", "residual" };
    for (int k = 0; k < 4; k++) {
        bool T = (k == 2);
        std::vector<double> x = vh::rand_vec(g, T ? n_rows : n_cols), b = vh::rand_vec(g, T ? n_cols : n_rows);
        ParVector px(T ? n_rows : n_cols, T ? lr : lc), pb(T ? n_cols : n_rows, T ? lc : lr), pr(n_rows, lr);
        vh::fill_vec(px, x, T ? fr : fc); vh::fill_vec(pb, b, T ? fc : fr);
        for (int i = 0; i < pr.local_n; i++) pr.local.values[i] = 77;
        snprintf(buf, 128, "par/bsr/%s%s/b%dx%d/%dx%d/style%d/it%d", ops[k], tap ? "/tap" : "", br, bc, n_rows, n_cols, style, it); E.about(buf);
        if (k == 0) A->mult(px, pb, tap); else if (k == 1) A->mult_append(px, pb, tap);
        else if (k == 2) A->mult_T(px, pb, tap); else A->residual(px, pb, pr, tap);
        bool want = E.want();
        auto out = vh::gather_vec(k == 3 ? pr : pb);
        vh::Case c("C02", ops[k]);
        if (E.rank == 0) c.i(4).i(tap).i(n_rows).i(n_cols).vec(vh::trip_ll(t)).divec(x).divec(b).vec(out);
        vh::layout_desc(c, As);
        if (E.rank == 0 && want) c.write(E.out);
    }
    delete A; delete As; delete Ac;
}

int main(int argc, char** argv)
{
    MPI_Init(&argc, &argv);
    E.init(argc, argv);
    bool conv = !(argc > 2 && !strcmp(argv[2], "bspmv"));
    vh::Rng g(E.seed * 86028121 + (conv ? 7 : 2));
    int n = E.thorough ? 200 : 50;
    for (int it = 0; it < n; it++) { if (conv) { conv_case(g, it); bcoo_case(g, it); } else bspmv_case(g, it); }
    if (conv) { vh::Rng gx(E.seed * 86028121 + 77); for (int it = 0; it < n; it++) indep_case(gx, it); }
    else if (E.np > 1) { vh::Rng gt(E.seed * 86028121 + 91); for (int it = 0; it < n; it++) bspmv_case(gt, it, 1); }   // node-aware block products, after the regular cases
    E.finish();
    MPI_Finalize();
    return 0;
}
