// C03: halo exchange packages and exchanges on the real ParComm / TAPComm.
// Every rank draws the same random global structure; packages, buffers and results are gathered to rank 0.
#include "par.hpp"
using namespace raptor;
static vh::Env E;

static std::vector<std::vector<long long>> G(const std::vector<long long>& v) { return vh::gather_ll(v); }
template <class T> static std::vector<long long> LL(const std::vector<T>& v) { return std::vector<long long>(v.begin(), v.end()); }

static void put_all(vh::Case& c, const std::vector<std::vector<long long>>& per) { for (auto& v : per) c.vec(v); }

// header shared by all ops: np fc(vec) per-rank offCols
static void header(vh::Case& c, const std::vector<int>& fc, const std::vector<std::vector<int>>& off) {
    c.i(E.np).vec(fc); for (auto& o : off) c.vec(o);
}

static char CTX[96] = "";
static bool RAGGED = false; static int CURTAP = 0;
static void AB(const char* w) { char b[256]; snprintf(b, 256, "%s%s [%s]", (CURTAP && RAGGED) ? "tapragged/" : "", w, CTX); E.about(b); }
static int select_func(int a, int b) { return b >= 0 ? b : a; }

int main(int argc, char** argv)
{
    MPI_Init(&argc, &argv);
    E.init(argc, argv);
    vh::Rng g(E.seed * 32452843 + 3);
    int ncases = E.thorough ? 120 : 36;
    int np = E.np, rank = E.rank;
    { const char* p = getenv("PPN"); int ppn = p ? atoi(p) : 16; RAGGED = (np % ppn != 0) && np > ppn; }
    for (int it = 0; it < ncases; it++)
    {
        // ---- global structure: n columns over np ranks (style: balanced / one rank / half empty), per-rank sorted off-proc sets
        int cap = 2 + std::min(16, it / 2);
        int n = g.range(np > 1 ? 2 : 1, cap + np);
        int style = g.coin() ? 1 : 2 + g.below(2);
        std::vector<int> sizes = vh::compose(g, n, np, style);
        std::vector<int> fc(np + 1, 0); for (int p = 0; p < np; p++) fc[p + 1] = fc[p] + sizes[p];
        int kind = g.below(5);   // 0 random, 1 empty everywhere, 2 single owner, 3 all-to-all, 4 first/last rank owners
        std::vector<std::vector<int>> off(np);
        int target = g.below(np);
        for (int r = 0; r < np; r++) for (int c = 0; c < n; c++) {
            if (c >= fc[r] && c < fc[r + 1]) continue;
            int owner = 0; while (!(c >= fc[owner] && c < fc[owner + 1])) owner++;
            bool take = kind == 0 ? g.coin(1, 3) : kind == 1 ? false : kind == 2 ? (owner == target && g.coin()) : kind == 3 ? true
                        : ((owner == 0 || owner == np - 1) && g.coin());
            if (take) off[r].push_back(c);
        }
        int ln = sizes[rank], on = (int)off[rank].size();
        { std::string d; for (int p = 0; p <= np; p++) d += std::to_string(fc[p]) + ","; snprintf(CTX, 96, "it%d kind%d style%d n%d fc=%s", it, kind, style, n, d.c_str()); }
        Partition* part = new Partition(n, n, ln, ln, fc[rank], fc[rank]);
        char buf[96];
        for (int tap = 0; tap <= (np > 1 ? 2 : 0); tap++)      // 0 standard, 1 three-step node-aware, 2 two-step node-aware
        for (int derived = 0; derived <= 2; derived++)      // 2: on-process and off-process columns filtered alike (owners and requesters drop the same global columns)
        {
            CURTAP = tap;
            snprintf(buf, 96, "build/%s%s/kind%d/style%d/it%d/n%d", tap == 2 ? "tap2" : tap ? "tap" : "std", derived ? "/derived" : "", kind, style, it, n); AB(buf);
            // derived package: keep a random subset of the off-process columns (column filtering), same local numbering
            std::vector<int> keep(on, 1), col_to_new(on, -1), my_off;
            std::vector<std::vector<int>> offx = off;
            if (derived) {
                vh::Rng gd(E.seed * 7 + it * 131 + 17);        // same stream on all ranks
                for (int r = 0; r < np; r++) {
                    std::vector<int> f;
                    for (size_t j = 0; j < off[r].size(); j++) { bool k = gd.coin(2, 3); if (r == rank) keep[j] = k; if (k) f.push_back(off[r][j]); }
                    offx[r] = f;
                }
                int ctr = 0; for (int j = 0; j < on; j++) col_to_new[j] = keep[j] ? ctr++ : -1;
            }
            // derived == 2: one global keep mask; a dropped column is dropped by its owner and by everybody who requests it
            std::vector<int> keepg(n, 1), on_to_new(ln, -1);
            int lnx = ln;
            if (derived == 2) {
                vh::Rng gk(E.seed * 13 + it * 257 + 29);
                for (int c = 0; c < n; c++) keepg[c] = gk.coin(2, 3);
                for (int r = 0; r < np; r++) { std::vector<int> f; for (size_t j = 0; j < off[r].size(); j++) { bool k = keepg[off[r][j]]; if (r == rank) keep[j] = k; if (k) f.push_back(off[r][j]); } offx[r] = f; }
                int ctr = 0; for (int j = 0; j < on; j++) col_to_new[j] = keep[j] ? ctr++ : -1;
                lnx = 0; for (int i = 0; i < ln; i++) on_to_new[i] = keepg[fc[rank] + i] ? lnx++ : -1;
            }
            my_off = offx[rank];
            CommPkg* comm; ParComm* pc = nullptr; CommPkg* parent = nullptr;
            if (!tap) { ParComm* base = new ParComm(part, off[rank]); if (derived) { pc = derived == 2 ? new ParComm(base, on_to_new, col_to_new) : new ParComm(base, col_to_new); parent = base; } else pc = base; comm = pc; }
            else { TAPComm* base = tap == 1 ? new TAPComm(part, off[rank]) : new TAPComm(part, off[rank], false);
                   if (derived) { comm = derived == 2 ? new TAPComm(base, on_to_new, col_to_new, nullptr) : new TAPComm(base, col_to_new, nullptr); parent = base; } else comm = base; }
            // compress a full-length local vector to the kept local columns (derived == 2) and expand a result back
            auto squeeze = [&](const std::vector<long long>& full, int bs) { if (derived != 2) return full; std::vector<long long> v((size_t)lnx * bs);
                for (int i = 0; i < ln; i++) if (on_to_new[i] >= 0) for (int t = 0; t < bs; t++) v[(size_t)on_to_new[i] * bs + t] = full[(size_t)i * bs + t]; return v; };
            auto spread = [&](const std::vector<long long>& small, const std::vector<long long>& full0, int bs) { if (derived != 2) return small; std::vector<long long> v(full0);
                for (int i = 0; i < ln; i++) if (on_to_new[i] >= 0) for (int t = 0; t < bs; t++) v[(size_t)i * bs + t] = small[(size_t)on_to_new[i] * bs + t]; return v; };
            int onx = (int)my_off.size();

            // ---- package structure (standard package only; the node-aware internals belong to C04)
            if (!tap && derived < 2) {
                auto rp = G(LL(pc->recv_data->procs)), ri = G(LL(pc->recv_data->indptr));
                auto sp = G(LL(pc->send_data->procs)), si = G(LL(pc->send_data->indptr)), sx = G(LL(pc->send_data->indices));
                if (E.want() && rank == 0) { vh::Case c("C03", "pkg"); c.i(derived); header(c, fc, offx); put_all(c, rp); put_all(c, ri); put_all(c, sp); put_all(c, si); put_all(c, sx); c.write(E.out); }
            }
            // ---- forward exchange, double and int payloads, block sizes 1..3
            for (int isint = 0; isint <= 1; isint++) for (int bs = 1; bs <= 3; bs++) {
                snprintf(buf, 96, "fwd/%s%s/%s/bs%d", tap == 2 ? "tap2" : tap ? "tap" : "std", derived ? "/derived" : "", isint ? "int" : "double", bs); AB(buf);
                std::vector<long long> mine(ln * bs), got;
                vh::Rng gl(E.seed * 977 + it * 31 + rank * 7 + bs + 100 * isint); for (auto& v : mine) v = gl.range(-99, 99);
                if (derived == 2) for (int i = 0; i < ln; i++) if (on_to_new[i] < 0) for (int t = 0; t < bs; t++) mine[(size_t)i * bs + t] = 0;     // dropped columns carry nothing
                std::vector<long long> sq = squeeze(mine, bs);
                if (isint) { std::vector<int> x(sq.begin(), sq.end()); std::vector<int>& r = comm->communicate(x, bs); got.assign(r.begin(), r.begin() + std::min((size_t)onx * bs, r.size())); }
                else { std::vector<double> x(sq.begin(), sq.end()); std::vector<double>& r = comm->communicate(x, bs); for (size_t k = 0; k < (size_t)onx * bs && k < r.size(); k++) got.push_back((long long)llround(r[k])); }
                auto xs = G(mine), rs = G(got);
                if (E.want() && rank == 0) { vh::Case c("C03", "fwd"); c.i(tap).i(derived).i(isint).i(bs); header(c, fc, offx); put_all(c, xs); put_all(c, rs); c.write(E.out); }
            }
            // ---- reverse exchange with sum / max / select, block sizes 1..2, int and double
            for (int fn = 0; fn < 3; fn++) for (int bs = 1; bs <= 2; bs++) for (int isint = 0; isint <= 1; isint++) {
                if (fn == 2 && (!isint || bs != 1)) continue;      // select is used by the library on int labels
                snprintf(buf, 96, "rev/%s%s/fn%d/bs%d/%s", tap == 2 ? "tap2" : tap ? "tap" : "std", derived ? "/derived" : "", fn, bs, isint ? "int" : "double"); AB(buf);
                vh::Rng gl(E.seed * 1291 + it * 37 + rank * 11 + bs + 10 * fn);
                std::vector<long long> y(onx * bs), init(ln * bs), res;
                for (int j = 0; j < onx; j++) for (int t = 0; t < bs; t++)
                    y[j * bs + t] = fn == 2 ? ((my_off[j] * 7 + 3) % 5 == 0 ? -1 : my_off[j] + 5) : gl.range(-9, 9);   // select: value is a function of the global index
                for (auto& v : init) v = fn == 2 ? -1 : gl.range(-9, 9);
                std::vector<long long> initc = squeeze(init, bs);
                if (isint) {
                    std::vector<int> yy(y.begin(), y.end()), rr(initc.begin(), initc.end());
                    if (fn == 0) comm->communicate_T(yy, rr, bs);
                    // standard package: only the owner-side reduction is the caller's (the sender-side function keeps its default)
                    else if (fn == 1 && !tap) comm->communicate_T(yy, rr, bs, std::function<int(int,int)>([](int a, int b){ return std::max(a, b); }));
                    else if (fn == 1) comm->communicate_T(yy, rr, bs, std::function<int(int,int)>([](int a, int b){ return std::max(a, b); }),
                                                         std::function<int(int,int)>([](int a, int b){ return std::max(a, b); }), -1000000);
                    else comm->communicate_T(yy, rr, bs, std::function<int(int,int)>(select_func), std::function<int(int,int)>(select_func), -1);
                    res.assign(rr.begin(), rr.end());
                } else {
                    std::vector<double> yy(y.begin(), y.end()), rr(initc.begin(), initc.end());
                    if (fn == 0) comm->communicate_T(yy, rr, bs);
                    else if (!tap) comm->communicate_T(yy, rr, bs, std::function<double(double,double)>([](double a, double b){ return std::max(a, b); }));
                    else comm->communicate_T(yy, rr, bs, std::function<double(double,double)>([](double a, double b){ return std::max(a, b); }),
                                             std::function<double(double,double)>([](double a, double b){ return std::max(a, b); }), -1000000.0);
                    for (double v : rr) res.push_back((long long)llround(v));
                }
                res = spread(res, init, bs);
                auto ys = G(y), is = G(init), rs = G(res);
                if (E.want() && rank == 0) { vh::Case c("C03", "rev"); c.i(tap).i(derived).i(fn).i(bs); header(c, fc, offx); put_all(c, ys); put_all(c, is); put_all(c, rs); c.write(E.out); }
            }
            // ---- conditional exchange (standard package): entries whose label passes the predicate
            if (!tap && derived < 2) {
                AB("cond/std");
                vh::Rng gs(E.seed * 53 + it * 3);      // labels: same stream on all ranks -> both sides evaluate the predicate on equal labels
                std::vector<int> lab(n); for (auto& v : lab) v = gs.below(3) - 1;
                std::vector<int> states(lab.begin() + fc[rank], lab.begin() + fc[rank + 1]), offst(onx);
                for (int j = 0; j < onx; j++) offst[j] = lab[my_off[j]];
                vh::Rng gl(E.seed * 71 + it * 5 + rank);
                std::vector<double> vals(ln); for (auto& v : vals) v = gl.range(-20, 20);
                std::function<bool(int)> pred = [](int s) { return s == 1; };
                std::vector<double>& r = pc->conditional_comm(vals, states, offst, pred);
                std::vector<long long> got; for (int j = 0; j < onx; j++) got.push_back((long long)llround(r[j]));
                auto ls = G(LL(std::vector<int>(lab))), vs = G(LL(vals)), rs = G(got);
                if (E.want() && rank == 0) { vh::Case c("C03", "cond"); c.i(derived); header(c, fc, offx); c.vec(ls[0]); put_all(c, vs); put_all(c, rs); c.write(E.out); }
                // reverse conditional
                AB("condT/std");
                std::vector<double> yv(onx); for (auto& v : yv) v = gl.range(-20, 20);
                std::vector<double> res(ln); std::vector<long long> init; for (auto& v : res) { v = gl.range(-5, 5); init.push_back((long long)v); }
                std::function<double(double,double)> sum = [](double a, double b) { return a + b; };
                pc->conditional_comm_T(yv, states, offst, pred, res, sum);
                auto ys = G(LL(yv)), is = G(init), rr = G(LL(res));
                if (E.want() && rank == 0) { vh::Case c("C03", "condT"); c.i(derived); header(c, fc, offx); c.vec(ls[0]); put_all(c, ys); put_all(c, is); put_all(c, rr); c.write(E.out); }
            }
            // ---- sparse-row exchange: rows of a distributed matrix, with and without values
            if (!derived) {
                vh::Rng gm(E.seed * 211 + it * 13);
                vh::Trip t = vh::gen_trip(gm, n, n, gm.range(0, 3 * n), false, false);
                vh::Layout L; L.kind = 1; L.rows = sizes; L.cols = sizes; L.first_row.assign(fc.begin(), fc.end() - 1); L.first_col = L.first_row;
                ParCOOMatrix* Ac = vh::assemble_coo(t, L, rank); ParCSRMatrix* A = Ac->to_ParCSR();
                for (int hv = 1; hv >= 0; hv--) {
                    snprintf(buf, 96, "mat/%s/vals%d", tap == 2 ? "tap2" : tap ? "tap" : "std", hv); AB(buf);
                    CSRMatrix* R = comm->communicate(A, (bool)(hv != 0));
                    std::vector<long long> flat = { R->n_rows };
                    for (int i = 0; i < R->n_rows; i++) { flat.push_back(R->idx1[i + 1] - R->idx1[i]);
                        for (int k = R->idx1[i]; k < R->idx1[i + 1]; k++) { flat.push_back(R->idx2[k]); flat.push_back(hv ? (long long)llround(R->vals[k]) : 0); } }
                    auto fs = G(flat);
                    if (E.want() && rank == 0) { vh::Case c("C03", "mat"); c.i(tap).i(hv); header(c, fc, offx); c.vec(vh::trip_ll(t)); put_all(c, fs); c.write(E.out); }
                    delete R;
                }
                // reverse row exchange: one row per off-process column, combined at the owners
                {
                    snprintf(buf, 96, "matT/%s", tap == 2 ? "tap2" : tap ? "tap" : "std"); AB(buf);
                    vh::Rng gl(E.seed * 409 + it * 17 + rank * 3);
                    std::vector<int> rowptr(onx + 1, 0), cols; std::vector<double> vals;
                    for (int j = 0; j < onx; j++) { int len = gl.below(3); for (int k = 0; k < len; k++) { cols.push_back(gl.below(n)); vals.push_back(gl.range(1, 9)); } rowptr[j + 1] = (int)cols.size(); }
                    CSRMatrix* R = comm->communicate_T(rowptr, cols, vals, ln);
                    std::vector<long long> sent = LL(rowptr); sent.insert(sent.begin(), (long long)rowptr.size());
                    std::vector<long long> flatS = { onx }; for (int j = 0; j < onx; j++) { flatS.push_back(rowptr[j + 1] - rowptr[j]); for (int k = rowptr[j]; k < rowptr[j + 1]; k++) { flatS.push_back(cols[k]); flatS.push_back((long long)vals[k]); } }
                    std::vector<long long> flat = { R->n_rows };
                    for (int i = 0; i < R->n_rows; i++) { flat.push_back(R->idx1[i + 1] - R->idx1[i]);
                        for (int k = R->idx1[i]; k < R->idx1[i + 1]; k++) { flat.push_back(R->idx2[k]); flat.push_back((long long)llround(R->vals[k])); } }
                    auto ss = G(flatS), fs = G(flat);
                    if (E.want() && rank == 0) { vh::Case c("C03", "matT"); c.i(tap); header(c, fc, offx); put_all(c, ss); put_all(c, fs); c.write(E.out); }
                    delete R;
                    // the same rows as patterns only (has_vals = false): the owner's row is the union of the contributed columns
                    snprintf(buf, 96, "matT/%s/pattern", tap == 2 ? "tap2" : tap ? "tap" : "std"); AB(buf);
                    std::vector<double> none;
                    CSRMatrix* Rp = comm->communicate_T(rowptr, cols, none, ln, 1, 1, false);
                    std::vector<long long> flatSp = { onx }; for (int j = 0; j < onx; j++) { flatSp.push_back(rowptr[j + 1] - rowptr[j]); for (int k = rowptr[j]; k < rowptr[j + 1]; k++) { flatSp.push_back(cols[k]); flatSp.push_back(0); } }
                    std::vector<long long> flatp = { Rp->n_rows };
                    for (int i = 0; i < Rp->n_rows; i++) { flatp.push_back(Rp->idx1[i + 1] - Rp->idx1[i]);
                        for (int k = Rp->idx1[i]; k < Rp->idx1[i + 1]; k++) { flatp.push_back(Rp->idx2[k]); flatp.push_back(0); } }
                    auto ssp = G(flatSp), fsp = G(flatp);
                    if (E.want() && rank == 0) { vh::Case c("C03", "matTp"); c.i(tap); header(c, fc, offx); put_all(c, ssp); put_all(c, fsp); c.write(E.out); }
                    delete Rp;
                }
                delete A; delete Ac;
            }
            comm->delete_comm(); if (parent) parent->delete_comm();
        }
        delete part;
    }
    E.finish();
    MPI_Finalize();
    return 0;
}
