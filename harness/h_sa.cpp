// C15 (distance-two MIS and aggregation) and C16 (tentative prolongator, Jacobi smoothing): sequential and distributed.
#include "par.hpp"
#include "raptor/aggregation/mis.hpp"
#include "raptor/aggregation/par_mis.hpp"
#include "raptor/aggregation/aggregate.hpp"
#include "raptor/aggregation/par_aggregate.hpp"
#include "raptor/aggregation/candidates.hpp"
#include "raptor/aggregation/par_candidates.hpp"
#include "raptor/aggregation/prolongation.hpp"
#include "raptor/aggregation/par_prolongation.hpp"
using namespace raptor;
static vh::Env E;
static std::vector<std::vector<long long>> G(const std::vector<long long>& v) { return vh::gather_ll(v); }
static std::vector<long long> flat(const std::vector<std::vector<long long>>& per) { std::vector<long long> a; for (auto& v : per) a.insert(a.end(), v.begin(), v.end()); return a; }
static std::vector<long long> csr_ll(Matrix* M) {
    std::vector<long long> f; f.push_back((long long)M->idx1.size()); for (int v : M->idx1) f.push_back(v);
    f.push_back(M->nnz); for (int k = 0; k < M->nnz; k++) f.push_back(M->idx2[k]);
    f.push_back(M->nnz); for (int k = 0; k < M->nnz; k++) f.push_back(k < (int)M->vals.size() ? (long long)vh::dbits(M->vals[k]) : 0);
    return f;
}
// symmetric pattern and values (undirected weighted graph), stored diagonal, some isolated vertices
static vh::Trip gen_sym(vh::Rng& g, int n, bool twoscale = false)
{
    vh::Trip t; t.n_rows = t.n_cols = n; std::vector<double> rs(n, 0.0);
    auto has = [&](int i, int j) { for (size_t p = 0; p < t.r.size(); p++) if (t.r[p] == i && t.c[p] == j) return true; return false; };
    int m = twoscale ? g.range(n, 3 * n + 1) : g.range(n / 2, 2 * n + 1);
    for (int k = 0; k < m && n > 1; k++) { int i = g.below(n), j = g.below(n); if (i == j || has(i, j)) continue; if (i % 9 == 8 || j % 9 == 8) continue;
        double w = 0.125 * g.range(1, 32); if (twoscale) w = (w < 1.0) ? 0.125 : 4.0;      // weak and strong edges side by side
        t.r.push_back(i); t.c.push_back(j); t.v.push_back(-w); t.r.push_back(j); t.c.push_back(i); t.v.push_back(-w); rs[i] += w; rs[j] += w; }
    for (int i = 0; i < n; i++) { t.r.push_back(i); t.c.push_back(i); t.v.push_back(rs[i] + 0.5); }
    return t;
}
static std::vector<double> gen_keys(vh::Rng& g, int n) {
    std::vector<int> p(n); for (int i = 0; i < n; i++) p[i] = i; for (int i = n - 1; i > 0; i--) std::swap(p[i], p[g.below(i + 1)]);
    std::vector<double> w(n); for (int i = 0; i < n; i++) w[i] = (p[i] + 1.0) / (4.0 * (n + 2.0)); return w; }   // distinct, < 1/4

int main(int argc, char** argv)
{
    MPI_Init(&argc, &argv);
    E.init(argc, argv);
    const char* prop = argc > 2 ? argv[2] : "C15"; bool seq = argc > 3 && !strcmp(argv[3], "seq");
    bool c16 = !strcmp(prop, "C16");
    vh::Rng g(E.seed * 198491317 + (c16 ? 16 : 15));
    int np = E.np, rank = E.rank;
    int ncases = seq ? (E.thorough ? 400 : 100) : (E.thorough ? 120 : 36);
    // after the regular cases (their numbers stay): two-scale weights with threshold 1/4, so that A has weak cross-rank
    // edges and ghost columns which the strength matrix does not have
    int nextra = ncases / 2;       // C16: the extra cases have a non-symmetric matrix and rows without a stored diagonal instead
    // ... and then: exact ties. Every off-diagonal a_ij = -(2 - key_j) with keys in multiples of 1/128, so that for every
    // vertex all candidates of the second aggregation pass have exactly the same strength |a_ij| + key_j = 2: the result is
    // decided by the tie rule alone (A is not symmetric here; the routines read row i of A only)
    int nties = c16 ? 0 : ncases / 3;
    for (int it0 = 0; it0 < ncases + nextra + nties; it0++)
    {
        bool extra1 = it0 >= ncases && it0 < ncases + nextra, twoscale = extra1 && !c16, nonsym = extra1 && c16, tiemode = it0 >= ncases + nextra;
        int it = extra1 ? (it0 - ncases) * 2 : tiemode ? (it0 - ncases - nextra) * 3 : it0;
        int cap = 2 + std::min(28, it / 2);
        int n = std::max(seq ? 1 : np, g.range(1, cap + (seq ? 0 : np)));
        if (tiemode) n = std::min(n, 31);
        vh::Trip t = gen_sym(g, n, twoscale);
        if (nonsym) {      // a_ij != a_ji, and every fifth row (from 2) loses its diagonal entry: D is the absolute row sum either way
            vh::Trip u; u.n_rows = u.n_cols = n;
            for (size_t k = 0; k < t.r.size(); k++) {
                if (t.r[k] == t.c[k] && t.r[k] % 5 == 2) continue;
                double v = t.v[k]; if (t.r[k] != t.c[k]) v *= 1.0 + 0.5 * (t.r[k] % 3);
                u.r.push_back(t.r[k]); u.c.push_back(t.c[k]); u.v.push_back(v); }
            t = u;
        }
        std::vector<double> keys = gen_keys(g, n);
        double theta = g.coin() ? 0.0 : 0.25; if (twoscale) theta = 0.25;
        if (tiemode) {
            theta = 0.0;
            for (int i = 0; i < n; i++) keys[i] = std::round(keys[i] * 4.0 * (n + 2.0)) / 128.0;          // (rank order + 1) / 128: distinct, < 1/4
            for (size_t k = 0; k < t.r.size(); k++) if (t.r[k] != t.c[k]) t.v[k] = -(2.0 - keys[t.c[k]]);
        }
        char ctx[96]; snprintf(ctx, 96, "%s/%s/n%d", prop, seq ? "seq" : "par", n); E.about(ctx);
        // C16 inputs: an arbitrary aggregation (roots = lowest member), candidate with non-zero restriction, omega, k
        std::vector<int> aggRoot(n, -1); std::vector<double> B(n);
        { int na = g.range(1, std::max(1, n)); std::vector<int> a(n); for (int i = 0; i < n; i++) a[i] = g.below(na);
          std::vector<int> root(na, -1); for (int i = 0; i < n; i++) if (root[a[i]] < 0) root[a[i]] = i;
          for (int i = 0; i < n; i++) aggRoot[i] = (g.coin(1, 12) && root[a[i]] != i) ? -1 : root[a[i]];       // a few unaggregated (isolated) vertices
          for (int i = 0; i < n; i++) B[i] = (g.coin() ? 1 : -1) * (0.25 + 0.25 * g.range(0, 12));
          // a candidate that is tiny (but not zero) on one aggregate: the drop test of fit_candidates is relative to the norm
          if (c16 && g.coin(1, 4)) { int ta = g.below(na); for (int i = 0; i < n; i++) if (a[i] == ta) B[i] *= 1e-11; } }
        double omega = g.coin() ? 4.0 / 3 : 0.25 * g.range(1, 7); int ksteps = g.range(1, 2);
        if (seq) {
            CSRMatrix* A = vh::make_csr(t); A->sort(); A->move_diag();
            if (!c16) {
                CSRMatrix* S = A->strength(Symmetric, theta);
                std::vector<int> states, aggs;
                mis2(S, states, keys.data());
                int n_aggs = aggregate(A, S, states, aggs, keys.data());
                if (E.want()) { vh::Case c("C15", "seq"); c.i(n); for (auto q : csr_ll(A)) c.i(q); for (auto q : csr_ll(S)) c.i(q); c.dvec(keys).vec(states).vec(aggs).i(n_aggs); c.write(E.out); }
                delete S;
            } else {
                // sequential fit_candidates needs aggregate numbers 0..n_aggs-1 for every vertex: unaggregated vertices get their own aggregate
                std::vector<int> ids(n), rootOf; std::vector<int> num(n, -1);
                for (int i = 0; i < n; i++) { int r = aggRoot[i] < 0 ? i : aggRoot[i]; if (num[r] < 0) { num[r] = (int)rootOf.size(); rootOf.push_back(r); } }
                for (int i = 0; i < n; i++) { int r = aggRoot[i] < 0 ? i : aggRoot[i]; ids[i] = num[r]; }
                int n_aggs = (int)rootOf.size(); std::vector<double> R;
                CSRMatrix* T = fit_candidates(n_aggs, ids, B, R, 1, 1e-10);
                CSRMatrix* P = jacobi_prolongation(A, T, omega, ksteps);
                if (E.want()) { vh::Case c("C16", "seq"); c.i(n).d(omega).i(ksteps); for (auto q : csr_ll(A)) c.i(q); c.vec(ids).i(n_aggs).dvec(B).dvec(R);
                    for (auto q : csr_ll(T)) c.i(q); for (auto q : csr_ll(P)) c.i(q); c.i(T->n_rows).i(T->n_cols).i(P->n_rows).i(P->n_cols); c.write(E.out); }
                delete P; delete T;
            }
            delete A;
        } else {
            int style = g.coin() ? 1 : 2 + g.below(2);
            std::vector<int> Rr = vh::compose(g, n, np, style);
            vh::Layout L; L.kind = 1; L.rows = Rr; L.cols = Rr; L.first_row.assign(np, 0); for (int p = 1; p < np; p++) L.first_row[p] = L.first_row[p - 1] + Rr[p - 1]; L.first_col = L.first_row;
            int tap = (np > 1 && g.coin(1, 2)) ? 1 : 0;
            ParCOOMatrix* Ac = vh::assemble_coo(t, L, rank); ParCSRMatrix* A = Ac->to_ParCSR();
            if (tap) A->init_tap_communicators(MPI_COMM_WORLD);
            int fr = A->partition->first_local_row, lr = A->local_num_rows;
            std::vector<double> kl(keys.begin() + fr, keys.begin() + fr + lr);
            auto rows = flat(G({ (long long)lr }));
            CSRMatrix* Ag = nullptr; if (rank == 0) { Ag = vh::make_csr(t); Ag->sort(); Ag->move_diag(); }
            if (!c16) {
                ParCSRMatrix* S;
                if (twoscale && it0 % 2 == 1) {
                    // a strength matrix assembled by the caller from the strong edges alone (weight 4 and the diagonal): its ghost
                    // columns are a subset of A's, so ghost indices of A and S differ
                    vh::Trip ts; ts.n_rows = ts.n_cols = n;
                    for (size_t k = 0; k < t.r.size(); k++) if (t.r[k] == t.c[k] || t.v[k] <= -4.0) { ts.r.push_back(t.r[k]); ts.c.push_back(t.c[k]); ts.v.push_back(t.v[k]); }
                    ParCOOMatrix* Sc = vh::assemble_coo(ts, L, rank); S = Sc->to_ParCSR(); S->on_proc->sort(); S->on_proc->move_diag(); S->off_proc->sort();
                    if (tap) S->init_tap_communicators(MPI_COMM_WORLD);
                } else S = A->strength(Symmetric, theta, tap);
                std::vector<int> states, off_states, aggs;
                mis2(S, states, off_states, tap, kl.data());
                int n_aggs = aggregate(A, S, states, off_states, aggs, tap, kl.data());
                auto sents = flat(G(vh::local_entries(S, false)));
                std::vector<long long> halo; for (size_t j = 0; j < S->off_proc_column_map.size(); j++) { halo.push_back(S->off_proc_column_map[j]); halo.push_back(j < off_states.size() ? off_states[j] : -99); }
                auto allst = flat(G(std::vector<long long>(states.begin(), states.end()))); auto allag = flat(G(std::vector<long long>(aggs.begin(), aggs.end())));
                auto allhalo = flat(G(halo)); auto nag = flat(G({ (long long)n_aggs }));
                bool want = E.want();
                if (rank == 0 && want) { vh::Case c("C15", "par"); c.i(n).i(np).i(tap); for (auto q : csr_ll(Ag)) c.i(q); c.vec(sents).dvec(keys).vec(allst).vec(allag).vec(allhalo).vec(nag).vec(rows); c.write(E.out); }
                delete S;
            } else {
                // distributed convention: aggregates[i] = global index of the root (owned by some rank), -1 = not aggregated
                std::vector<int> aggs(lr); int n_aggs = 0;
                for (int i = 0; i < lr; i++) aggs[i] = aggRoot[fr + i];
                for (int i = 0; i < n; i++) if (aggRoot[i] == i && i >= fr && i < fr + lr) n_aggs++;
                std::vector<double> Bl(B.begin() + fr, B.begin() + fr + lr), R;
                ParCSRMatrix* T = fit_candidates(A, n_aggs, aggs, Bl, R, 1, false, 1e-10);
                ParCSRMatrix* P = jacobi_prolongation(A, T, tap, omega, ksteps);
                auto tents = flat(G(vh::local_entries(T, false))); auto pents = flat(G(vh::local_entries(P, false)));
                std::vector<long long> rl; for (size_t k = 0; k < R.size(); k++) { rl.push_back(k < T->on_proc_column_map.size() ? T->on_proc_column_map[k] : -1); rl.push_back((long long)vh::dbits(R[k])); }
                auto allR = flat(G(rl));
                auto dims = G({ (long long)T->global_num_rows, (long long)T->global_num_cols, (long long)P->global_num_rows, (long long)P->global_num_cols });
                bool want = E.want();
                if (rank == 0 && want) { vh::Case c("C16", "par"); c.i(n).i(np).i(tap).d(omega).i(ksteps); for (auto q : csr_ll(Ag)) c.i(q); c.vec(aggRoot).dvec(B).vec(allR).vec(tents).vec(pents);
                    for (auto& d : dims) for (auto q : d) c.i(q); c.write(E.out); }
                delete P; delete T;
            }
            if (Ag) delete Ag;
            delete A; delete Ac;
        }
    }
    E.finish();
    MPI_Finalize();
    return 0;
}
