// Matrix generation and dumping helpers shared by the harnesses.
#ifndef VERIF_HARNESS_MAT_HPP
#define VERIF_HARNESS_MAT_HPP
#include "common.hpp"
#include "raptor/raptor.hpp"
namespace vh {
using namespace raptor;

struct Trip { std::vector<int> r, c; std::vector<double> v; int n_rows, n_cols; };

// random triplets: small integer values (explicit zeros and duplicates allowed), unsorted
inline Trip gen_trip(Rng& g, int n_rows, int n_cols, int nnz, bool dups, bool zeros, int vmax = 3)
{
    Trip t; t.n_rows = n_rows; t.n_cols = n_cols;
    if (n_rows == 0 || n_cols == 0) return t;
    for (int k = 0; k < nnz; k++) {
        int r, c;
        if (dups && k > 0 && g.coin(1, 4)) { int q = g.below(k); r = t.r[q]; c = t.c[q]; }
        else { r = g.below(n_rows); c = g.below(n_cols); if (n_rows == n_cols && g.coin(1, 4)) c = r; }
        if (!dups) { bool seen = false; for (int q = 0; q < k && q < (int)t.r.size(); q++) if (t.r[q] == r && t.c[q] == c) seen = true; if (seen) continue; }
        double v = g.range(-vmax, vmax);
        if (v == 0 && !zeros) v = 1 + g.below(vmax);
        t.r.push_back(r); t.c.push_back(c); t.v.push_back(v);
    }
    return t;
}

inline COOMatrix* make_coo(const Trip& t) {
    std::vector<int> r = t.r, c = t.c; std::vector<double> v = t.v;
    return new COOMatrix(t.n_rows, t.n_cols, r, c, v);
}
// CSR/CSC built directly from lists (stable bucket by row/col), independent of the conversions under test
inline CSRMatrix* make_csr(const Trip& t) {
    std::vector<int> ptr(t.n_rows + 1, 0), idx; std::vector<double> val;
    for (int i = 0; i < t.n_rows; i++) { for (size_t k = 0; k < t.r.size(); k++) if (t.r[k] == i) { idx.push_back(t.c[k]); val.push_back(t.v[k]); } ptr[i + 1] = (int)idx.size(); }
    CSRMatrix* A = new CSRMatrix(t.n_rows, t.n_cols);
    A->idx1 = ptr; A->idx2 = idx; A->vals = val; A->nnz = (int)idx.size();
    return A;
}
inline CSCMatrix* make_csc(const Trip& t) {
    std::vector<int> ptr(t.n_cols + 1, 0), idx; std::vector<double> val;
    for (int j = 0; j < t.n_cols; j++) { for (size_t k = 0; k < t.r.size(); k++) if (t.c[k] == j) { idx.push_back(t.r[k]); val.push_back(t.v[k]); } ptr[j + 1] = (int)idx.size(); }
    CSCMatrix* A = new CSCMatrix(t.n_rows, t.n_cols);
    A->idx1 = ptr; A->idx2 = idx; A->vals = val; A->nnz = (int)idx.size();
    return A;
}
inline Matrix* make_fmt(const Trip& t, int fmt) {
    return fmt == 0 ? (Matrix*)make_coo(t) : fmt == 1 ? (Matrix*)make_csr(t) : (Matrix*)make_csc(t);
}

// dump: fmt nRows nCols bR bC nnz sorted diagFirst idx1 idx2 vals   (exact mode: integer values)
inline void dump_mat(Case& c, Matrix* A, bool exact = true)
{
    int fmt = A->format() == COO || A->format() == BCOO ? 0 : (A->format() == CSR || A->format() == BSR ? 1 : 2);
    bool blockcls = A->format() == BCOO || A->format() == BSR || A->format() == BSC;     // block classes announce themselves (+10): 1x1 blocks are still blocks
    c.i(fmt + (blockcls ? 10 : 0)).i(A->n_rows).i(A->n_cols).i(A->b_rows).i(A->b_cols).i(A->nnz).i(A->sorted ? 1 : 0).i(A->diag_first ? 1 : 0);
    c.vec(A->idx1); c.vec(A->idx2);
    int bs = A->b_rows * A->b_cols;
    bool blockfmt = A->format() == BCOO || A->format() == BSR || A->format() == BSC;     // 1x1 blocks still live in block_vals
    if (!blockfmt) {
        std::vector<double> v(A->vals.begin(), A->vals.begin() + std::min((size_t)A->nnz, A->vals.size()));
        if (exact) c.divec(v); else c.dvec(v);
    } else {
        std::vector<double> v;
        for (int k = 0; k < A->nnz; k++) for (int t = 0; t < bs; t++) v.push_back(A->get_val(k, t));
        if (exact) c.divec(v); else c.dvec(v);
    }
}
} // namespace vh
#endif
