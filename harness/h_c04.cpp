// C04: node-aware (TAP) communication vs standard.
//  (A) certificate data: the four sub-packages (L,S,G,R) of real TAPComm objects, built directly (3-step and 2-step)
//      and derived by column filtering, dumped with world ranks;
//  (B) differential runs of every operation offered in a node-aware variant: tap off vs tap on.
#include "par.hpp"
#include "raptor/gallery/par_stencil.hpp"
#include "raptor/gallery/diffusion.hpp"
using namespace raptor;
static vh::Env E;

static std::vector<std::vector<long long>> G(const std::vector<long long>& v) { return vh::gather_ll(v); }
template <class T> static std::vector<long long> LL(const std::vector<T>& v) { return std::vector<long long>(v.begin(), v.end()); }
static void put_all(vh::Case& c, const std::vector<std::vector<long long>>& per) { for (auto& v : per) c.vec(v); }

static bool RAGGED = false;
static char CTX[96] = "";
static void AB(const char* w) { char b[256]; snprintf(b, 256, "%s%s [%s]", RAGGED ? "tapragged/" : "", w, CTX); E.about(b); }

// one sub-package of this rank, flattened: send procs(world) | send indptr | send indices | recv procs(world) | recv indptr | recv indices
static std::vector<long long> flat_sub(ParComm* pc, Topology* topo, bool local, int my_node)
{
    std::vector<long long> f;
    auto world = [&](int p) { return local ? topo->get_global_proc(my_node, p) : p; };
    auto put = [&](const std::vector<int>& v, bool map) { f.push_back((long long)v.size()); for (int x : v) f.push_back(map ? world(x) : x); };
    if (!pc) { for (int k = 0; k < 6; k++) f.push_back(0); return f; }
    put(pc->send_data->procs, true); put(pc->send_data->indptr, false); put(pc->send_data->indices, false);
    put(pc->recv_data->procs, true); put(pc->recv_data->indptr, false);
    NonContigData* nc = dynamic_cast<NonContigData*>(pc->recv_data);
    if (nc) put(nc->indices, false); else f.push_back(0);
    return f;
}

static void dump_tap(const char* how, int form_s, int derived, TAPComm* T, Partition* part, const std::vector<int>& fc,
                     const std::vector<std::vector<int>>& off, bool want)
{
    Topology* topo = part->topology; int my_node = topo->get_node(E.rank);
    auto L = G(flat_sub(T->local_L_par_comm, topo, true, my_node)), S = G(flat_sub(T->local_S_par_comm, topo, true, my_node));
    auto Gp = G(flat_sub(T->global_par_comm, topo, false, my_node)), R = G(flat_sub(T->local_R_par_comm, topo, true, my_node));
    auto rs = G({ (long long)T->recv_size });
    if (E.rank == 0 && want) {
        vh::Case c("C04", "cert"); c.i(form_s).i(derived).i(topo->PPN).i(topo->rank_ordering).i(E.np).vec(fc);
        for (auto& o : off) c.vec(o);
        for (auto* per : { &L, &S, &Gp, &R }) for (auto& v : *per) for (auto x : v) c.i(x);
        for (auto& v : rs) c.i(v[0]);
        c.write(E.out);
    }
}

int main(int argc, char** argv)
{
    MPI_Init(&argc, &argv);
    E.init(argc, argv);
    vh::Rng g(E.seed * 49979687 + 4);
    int np = E.np, rank = E.rank;
    { const char* p = getenv("PPN"); int ppn = p ? atoi(p) : 16; RAGGED = (np % ppn != 0) && np > ppn; }
    bool partB = argc > 2 && !strcmp(argv[2], "diff");
    int ncases = partB ? (E.thorough ? 30 : 10) : (E.thorough ? 150 : 40);
    for (int it = 0; it < ncases; it++)
    {
        int cap = 2 + std::min(16, it / 2);
        if (!partB) {
            // ---------------- (A) certificates ----------------
            int n = g.range(np > 1 ? 2 : 1, cap + np);
            int style = g.coin() ? 1 : 2 + g.below(2);
            std::vector<int> sizes = vh::compose(g, n, np, style);
            std::vector<int> fc(np + 1, 0); for (int p = 0; p < np; p++) fc[p + 1] = fc[p] + sizes[p];
            int kind = g.below(4);
            std::vector<std::vector<int>> off(np);
            int target = g.below(np);
            for (int r = 0; r < np; r++) for (int c = 0; c < n; c++) {
                if (c >= fc[r] && c < fc[r + 1]) continue;
                int owner = 0; while (!(c >= fc[owner] && c < fc[owner + 1])) owner++;
                bool take = kind == 0 ? g.coin(1, 3) : kind == 1 ? g.coin(2, 3) : kind == 2 ? (owner == target && g.coin()) : true;
                if (take) off[r].push_back(c);
            }
            { std::string d; for (int p = 0; p <= np; p++) d += std::to_string(fc[p]) + ","; snprintf(CTX, 96, "it%d kind%d style%d n%d fc=%s", it, kind, style, n, d.c_str()); }
            int ln = sizes[rank], on = (int)off[rank].size();
            Partition* part = new Partition(n, n, ln, ln, fc[rank], fc[rank]);
            for (int form_s = 1; form_s >= 0; form_s--) {
                AB(form_s ? "cert/build3" : "cert/build2");
                TAPComm* T = new TAPComm(part, off[rank], (bool)form_s);
                dump_tap("direct", form_s, 0, T, part, fc, off, E.want());
                // derived by column filtering (as the coarse levels of the solvers do)
                vh::Rng gd(E.seed * 7 + it * 131 + 17);
                std::vector<std::vector<int>> offx = off; std::vector<int> col_to_new(on, -1);
                for (int r = 0; r < np; r++) { std::vector<int> f; int ctr = 0;
                    for (size_t j = 0; j < off[r].size(); j++) { bool k = gd.coin(2, 3); if (r == rank) col_to_new[j] = k ? ctr++ : -1; if (k) f.push_back(off[r][j]); }
                    offx[r] = f; }
                AB(form_s ? "cert/derive3" : "cert/derive2");
                TAPComm* D = new TAPComm(T, col_to_new, nullptr);
                dump_tap("derived", form_s, 1, D, part, fc, offx, E.want());
                D->delete_comm(); T->delete_comm();
            }
            delete part;
        } else {
            // ---------------- (B) differential: tap off vs tap on ----------------
            int n = g.range(np, cap + 2 * np);
            int style = g.coin() ? 1 : 2 + g.below(2);
            std::vector<int> R = vh::compose(g, n, np, style);
            vh::Layout L; L.kind = 1; L.n_rows = n; L.n_cols = n; L.rows = R; L.cols = R; L.first_row.assign(np, 0);
            for (int p = 1; p < np; p++) L.first_row[p] = L.first_row[p - 1] + R[p - 1];
            L.first_col = L.first_row;
            snprintf(CTX, 96, "it%d style%d n%d", it, style, n);
            vh::Trip ta = vh::gen_trip(g, n, n, g.range(n, 4 * n), false, false), tb = vh::gen_trip(g, n, n, g.range(n, 3 * n), false, false);
            std::vector<double> x = vh::rand_vec(g, n), b = vh::rand_vec(g, n);
            std::vector<std::vector<long long>> res[2];   // res[tap][op] = flat gathered result
            for (int tap = 0; tap <= 1; tap++) {
                AB(tap ? "diff/tap" : "diff/std");
                ParCOOMatrix* Ac = vh::assemble_coo(ta, L, rank); ParCOOMatrix* Bc = vh::assemble_coo(tb, L, rank);
                ParCSRMatrix* A = Ac->to_ParCSR(); ParCSRMatrix* B = Bc->to_ParCSR();
                int fr = A->partition->first_local_row, lr = A->local_num_rows;
                ParVector px(n, lr), pb(n, lr), pr(n, lr);
                vh::fill_vec(px, x, fr); vh::fill_vec(pb, b, fr);
                A->mult(px, pb, tap); res[tap].push_back(vh::gather_vec(pb));
                vh::fill_vec(pb, b, fr); A->mult_T(px, pb, tap); res[tap].push_back(vh::gather_vec(pb));
                vh::fill_vec(pb, b, fr); A->residual(px, pb, pr, tap); res[tap].push_back(vh::gather_vec(pr));
                vh::fill_vec(pb, b, fr); A->mult_append(px, pb, tap); res[tap].push_back(vh::gather_vec(pb));
                ParCSRMatrix* C = A->mult(B, tap); res[tap].push_back(vh::gather_entries(C)); delete C;
                ParCSRMatrix* CT = B->mult_T(A, tap); res[tap].push_back(vh::gather_entries(CT)); delete CT;
                delete A; delete B; delete Ac; delete Bc;
            }
            const char* names[] = { "mult", "mult_T", "residual", "mult_append", "spgemm", "spgemm_T" };
            for (int k = 0; k < 6; k++) {
                bool want = E.want();
                if (rank == 0 && want) { vh::Case c("C04", k < 4 ? "diffvec" : "diffmat"); c.i(k).i(np);
                    // flatten per-rank gathered lists
                    c.vec(res[0][k]).vec(res[1][k]); c.write(E.out); }
            }
        }
    }
    if (partB) {
        // AMG setup + solve, standard vs node-aware from level 0: identical hierarchy sizes, residual histories equal up to reassociation
        for (int variant = 0; variant < (E.thorough ? 4 : 2); variant++) {
            snprintf(CTX, 96, "amg variant%d", variant);
            int dim = 2; int grid[2] = { 9 + variant, 9 + variant };   // square grids only (C19 finding)
            double* stencil = diffusion_stencil_2d(0.01 + 0.2 * variant, M_PI / (4 + variant));
            std::vector<std::vector<long long>> sizes[2]; std::vector<double> resid[2];
            for (int tap = 0; tap <= 1; tap++) {
                AB(tap ? "amg/tap" : "amg/std");
                ParCSRMatrix* A = par_stencil_grid(stencil, grid, dim);
                ParVector x(A->global_num_rows, A->local_num_rows), b(A->global_num_rows, A->local_num_rows);
                x.set_const_value(1.0); A->mult(x, b); x.set_const_value(0.0);
                ParRugeStubenSolver* ml = new ParRugeStubenSolver(0.25, variant % 2 ? CLJP : RS, variant % 2 ? ModClassical : Direct, Classical, SOR);
                ml->max_coarse = 10; ml->tap_amg = tap ? 0 : -1; ml->max_iterations = 12;
                ml->setup(A);
                ml->solve(x, b);
                std::vector<long long> s; for (auto* lv : ml->levels) { s.push_back(lv->A->global_num_rows); s.push_back(lv->A->local_nnz); }
                sizes[tap] = G(s);
                resid[tap] = ml->get_residuals();
                delete ml; delete A;
            }
            delete[] stencil;
            bool want = E.want();
            if (rank == 0 && want) {
                vh::Case c("C04", "diffamg"); c.i(variant).i(np);
                std::vector<long long> a, bb; for (auto& v : sizes[0]) a.insert(a.end(), v.begin(), v.end()); for (auto& v : sizes[1]) bb.insert(bb.end(), v.begin(), v.end());
                c.vec(a).vec(bb).dvec(resid[0]).dvec(resid[1]); c.write(E.out);
            }
        }
    }
    E.finish();
    MPI_Finalize();
    return 0;
}
