// C17: Krylov solvers (CG, BiCGStab; sequential and distributed) and the global inner product / 2-norm.
// For every run the iterates are recovered by re-running with max_iter = k, so that the driver can recompute the
// true residual of every reported entry.
#include <fcntl.h>
#include "par.hpp"
#include "raptor/krylov/cg.hpp"
#include "raptor/krylov/bicgstab.hpp"
#include "raptor/krylov/par_cg.hpp"
#include "raptor/krylov/par_bicgstab.hpp"
#include "raptor/ruge_stuben/par_ruge_stuben_solver.hpp"
#include "raptor/aggregation/par_smoothed_aggregation_solver.hpp"
using namespace raptor;
static vh::Env E;
static std::vector<std::vector<long long>> G(const std::vector<long long>& v) { return vh::gather_ll(v); }
static std::vector<long long> flat(const std::vector<std::vector<long long>>& per) { std::vector<long long> a; for (auto& v : per) a.insert(a.end(), v.begin(), v.end()); return a; }

// well-conditioned SPD (weighted graph Laplacian + shift) or non-symmetric diagonally dominant system
static vh::Trip gen_sys(vh::Rng& g, int n, bool spd)
{
    vh::Trip t; t.n_rows = t.n_cols = n; std::vector<double> diag(n, 0.0);
    auto add = [&](int i, int j, double v) { t.r.push_back(i); t.c.push_back(j); t.v.push_back(v); };
    int m = g.range(n / 2, 2 * n + 1);
    for (int k = 0; k < m && n > 1; k++) { int i = g.below(n), j = g.below(n); if (i == j) continue;
        if (spd) { double w = 0.25 * g.range(1, 8); add(i, j, -w); add(j, i, -w); diag[i] += w; diag[j] += w; }
        else { double w = 0.25 * g.range(-8, 8); add(i, j, w); diag[i] += fabs(w); } }
    for (int i = 0; i < n; i++) add(i, i, diag[i] + (spd ? 1.0 : 1.5));
    return t;
}
static void silence(bool on) { static int saved = -1; fflush(stdout); if (on) { saved = dup(1); int nul = open("/dev/null", 1); dup2(nul, 1); close(nul); } else if (saved >= 0) { dup2(saved, 1); close(saved); saved = -1; } }

int main(int argc, char** argv)
{
    MPI_Init(&argc, &argv);
    E.init(argc, argv);
    vh::Rng g(E.seed * 67867967 + 17);
    bool seq = argc > 2 && !strcmp(argv[2], "seq");
    int np = E.np, rank = E.rank;
    int ncases = seq ? (E.thorough ? 200 : 50) : (E.thorough ? 80 : 24);
    // after the regular cases (their numbers stay): the same kind of system with right-hand side and start scaled by 2^-40
    // (entries near 1e-12, residual entries below 1e-16 long before convergence)
    int nextra = ncases / 3;
    // ... and then (distributed): preconditioned CG on a zero right-hand side, from the exact solution, and on a scaled system
    int npcg = seq ? 0 : ncases / 2;
    for (int it0 = 0; it0 < ncases + nextra + npcg; it0++)
    {
        bool tiny = it0 >= ncases && it0 < ncases + nextra; int pcgv = it0 >= ncases + nextra ? 1 + (it0 - ncases - nextra) % 3 : 0;
        int it = tiny ? (it0 - ncases) * 3 : pcgv ? (it0 - ncases - nextra) * 3 : it0;
        int cap = 2 + std::min(60, 2 * it);
        int n = std::max(seq ? 1 : np, g.range(1, cap));
        int method = g.below(2);                 // 0 CG (SPD), 1 BiCGStab (non-symmetric)
        vh::Trip t = gen_sys(g, n, method == 0);
        int start = g.below(4);                  // 0 random x0/b, 1 x0 = exact solution, 2 b = 0, 3 zero x0
        std::vector<double> xs(n), x0(n), b(n, 0.0);
        for (auto& v : xs) v = g.range(-3, 3);
        std::vector<double> Axs(n, 0.0); for (size_t k = 0; k < t.r.size(); k++) Axs[t.r[k]] += t.v[k] * xs[t.c[k]];
        if (start == 2) { b.assign(n, 0.0); for (auto& v : x0) v = (g.unit() - 0.5) * 2; }
        else { b = g.coin() ? Axs : std::vector<double>(); if (b.empty()) { b.resize(n); for (auto& v : b) v = (g.unit() - 0.5) * 4; }
               if (start == 1 && b == Axs) x0 = xs; else if (start == 3) x0.assign(n, 0.0); else for (auto& v : x0) v = (g.unit() - 0.5) * 2; }
        if (tiny) { double sc = std::ldexp(1.0, (it0 % 2) ? -40 : -70); for (auto& v : xs) v *= sc; for (auto& v : x0) v *= sc; for (auto& v : b) v *= sc; }
        double tol = g.coin() ? 1e-5 : (g.coin() ? 1e-9 : 1e-2); int max_iter = g.coin(1, 3) ? g.range(1, 6) : -1;
        char ctx[128]; snprintf(ctx, 128, "%s/%s/start%d/n%d/maxit%d", seq ? "seq" : "par", method ? "bicgstab" : "cg", start, n, max_iter);
        E.about(ctx);
        std::vector<double> res; std::vector<long long> xfin; std::vector<std::vector<long long>> iterates;
        int fr = 0;
        auto run = [&](int mi, std::vector<double>& r_out) -> std::vector<long long> {
            r_out.clear(); silence(true);
            std::vector<long long> out;
            if (seq) {
                CSRMatrix* A = vh::make_csr(t); Vector x(n), bb(n);
                for (int i = 0; i < n; i++) { x.values[i] = x0[i]; bb.values[i] = b[i]; }
                if (method == 0) CG(A, x, bb, r_out, tol, mi); else BiCGStab(A, x, bb, r_out, tol, mi);
                for (int i = 0; i < n; i++) out.push_back((long long)vh::dbits(x.values[i]));
                delete A;
            } else {
                vh::Layout L; L.kind = 0;
                static std::vector<int> R; 
                vh::Rng gl(E.seed * 31 + it); int style = gl.coin() ? 1 : 2 + gl.below(2); R = vh::compose(gl, n, np, style);
                L.kind = 1; L.rows = R; L.cols = R; L.first_row.assign(np, 0); for (int p = 1; p < np; p++) L.first_row[p] = L.first_row[p - 1] + R[p - 1]; L.first_col = L.first_row;
                ParCOOMatrix* Ac = vh::assemble_coo(t, L, rank); ParCSRMatrix* A = Ac->to_ParCSR();
                fr = A->partition->first_local_row; int lr = A->local_num_rows;
                ParVector x(n, lr), bb(n, lr); vh::fill_vec(x, x0, fr); vh::fill_vec(bb, b, fr);
                if (method == 0) CG(A, x, bb, r_out, tol, mi); else BiCGStab(A, x, bb, r_out, tol, mi);
                out = vh::gather_vec(x, false);
                delete A; delete Ac;
            }
            silence(false); return out; };
        xfin = run(max_iter, res);
        int iters = (int)res.size() - 1;
        // iterates x_0 .. x_iters by re-running with an explicit limit
        for (int k = 0; k <= iters && k <= 40; k++) { std::vector<double> r2; if (k == 0) { std::vector<long long> v; for (double d : x0) v.push_back((long long)vh::dbits(d)); iterates.push_back(v); } else iterates.push_back(run(k, r2)); }
        bool want = E.want();
        if (rank == 0 && want) {
            vh::Case c("C17", "krylov"); c.i(seq ? 0 : np).i(method).i(start).i(n).d(tol).i(max_iter).vec(vh::trip_ll(t));
            // triplet values are multiples of 1/4: send them exactly as 4*v
            std::vector<long long> v4; for (double v : t.v) v4.push_back((long long)llround(4 * v)); c.vec(v4);
            c.dvec(x0).dvec(b).dvec(res).vec(xfin).i((long long)iterates.size()); for (auto& v : iterates) c.vec(v);
            c.write(E.out);
        }
        // preconditioned CG (distributed only): history in the solver's scaling (r_k, M r_k)/(b, M b) against the same
        // quantity recomputed from the true residual of the k-th iterate (x_k recovered with max_iter = k; M = one cycle
        // of the hierarchy, applied through the library's own cycle(), which C09 ties to its model)
        auto pcg_case = [&](vh::Rng& g, int it, int variant) {
            int n2 = std::max(np, g.range(4, 12 + 2 * it));
            vh::Trip t2 = gen_sys(g, n2, true);
            vh::Rng gl(E.seed * 41 + it); int style = gl.coin() ? 1 : 2 + gl.below(2); std::vector<int> R = vh::compose(gl, n2, np, style);
            vh::Layout L; L.kind = 1; L.rows = R; L.cols = R; L.first_row.assign(np, 0); for (int p = 1; p < np; p++) L.first_row[p] = L.first_row[p - 1] + R[p - 1]; L.first_col = L.first_row;
            ParCOOMatrix* Ac = vh::assemble_coo(t2, L, rank); ParCSRMatrix* A = Ac->to_ParCSR();
            int f2 = A->partition->first_local_row, lr = A->local_num_rows;
            int solver = g.below(2); int maxit = g.coin(3, 4) ? g.range(9, 14) : g.range(1, 6); double tol2 = g.coin(3, 4) ? 1e-30 : 1e-4;
            snprintf(ctx, 128, "par/pcg/v%d/solver%d/n%d/maxit%d/style%d", variant, solver, n2, maxit, style); E.about(ctx);
            silence(true);
            ParMultilevel* ml = solver == 0 ? (ParMultilevel*)new ParRugeStubenSolver(0.25, CLJP, ModClassical, Classical, SOR)
                                           : (ParMultilevel*)new ParSmoothedAggregationSolver(0.0, MIS, JacobiProlongation, Symmetric, SOR, 1, 4.0 / 3);
            ml->max_coarse = 3; ml->setup(A);
            std::vector<double> xs2(n2), x02(n2), b2(n2); for (auto& v : xs2) v = g.range(-3, 3); for (auto& v : x02) v = (g.unit() - 0.5) * 2;
            for (auto& v : b2) v = (g.unit() - 0.5) * 4;
            // variants (trailing cases only): 1 zero right-hand side, 2 start at the exact solution, 3 system scaled by 2^-40
            if (variant == 1) b2.assign(n2, 0.0);
            if (variant == 2) { b2.assign(n2, 0.0); for (size_t k = 0; k < t2.r.size(); k++) b2[t2.r[k]] += t2.v[k] * xs2[t2.c[k]]; x02 = xs2; }
            if (variant == 3) { double sc = std::ldexp(1.0, -40); for (auto& v : b2) v *= sc; for (auto& v : x02) v *= sc; }
            if (variant != 0) { tol2 = (it % 2) ? 1e-4 : 1e-8; maxit = 12; }
            ParVector x(n2, lr), bb(n2, lr), r(n2, lr), z(n2, lr);
            vh::fill_vec(bb, b2, f2);
            z.set_const_value(0.0); ml->cycle(z, bb); double b_inner = bb.inner_product(z);
            std::vector<double> full; vh::fill_vec(x, x02, f2); PCG(A, ml, x, bb, full, tol2, maxit);
            int iters = (int)full.size() - 1;
            std::vector<double> truev; std::vector<long long> prefix_ok;
            for (int k = 0; k <= iters; k++) {
                std::vector<double> rk; vh::fill_vec(x, x02, f2);
                if (k > 0) PCG(A, ml, x, bb, rk, tol2, k);
                A->residual(x, bb, r); z.set_const_value(0.0); ml->cycle(z, r);
                truev.push_back(r.inner_product(z));
                long long okp = 1; if (k > 0) { if ((int)rk.size() != k + 1) okp = 0; else for (int j = 0; j <= k; j++) if (vh::dbits(rk[j]) != vh::dbits(full[j])) okp = 0; }
                prefix_ok.push_back(okp);
            }
            silence(false);
            bool want3 = E.want();
            if (rank == 0 && want3) { vh::Case c("C17", "pcg"); c.i(np).i(solver + 10 * variant).i(n2).d(tol2).i(maxit).d(b_inner).dvec(full).dvec(truev).vec(prefix_ok); c.write(E.out); }
            delete ml; delete A; delete Ac;
                };
        if (!seq && (it % 3 == 1 || pcgv)) pcg_case(g, it, pcgv);
        // inner product and norm, with a non-finite entry in a random position on a random rank
        if (it % 3 == 0) {
            int kind = g.below(4);       // 0 finite, 1 NaN, 2 +Inf, 3 tiny entries
            std::vector<double> u(n), w(n); for (auto& v : u) v = g.range(-9, 9) * 0.5; for (auto& v : w) v = g.range(-9, 9) * 0.25;
            if (tiny) for (auto& v : u) v *= std::ldexp(1.0, -60);      // every entry below 1e-16: still a vector with a norm
            int pos = g.below(n); if (kind == 1) u[pos] = NAN; if (kind == 2) u[pos] = INFINITY; if (kind == 3) u[pos] = 1e-20;
            double nrm, ip;
            if (seq) { Vector a(n), bq(n); for (int i = 0; i < n; i++) { a.values[i] = u[i]; bq.values[i] = w[i]; } nrm = a.norm(2); ip = a.inner_product(bq); }
            else { vh::Rng gl(E.seed * 37 + it); std::vector<int> R = vh::compose(gl, n, np, 1); int f = 0; for (int p = 0; p < rank; p++) f += R[p];
                   ParVector a(n, R[rank]), bq(n, R[rank]); vh::fill_vec(a, u, f); vh::fill_vec(bq, w, f); nrm = a.norm(2); ip = a.inner_product(bq); }
            bool want2 = E.want();
            if (rank == 0 && want2) { vh::Case c("C17", "dotnorm"); c.i(seq ? 0 : np).i(kind).dvec(u).dvec(w).d(nrm).d(ip); c.write(E.out); }
        }
    }
    E.finish();
    MPI_Finalize();
    return 0;
}
