// C06: sequential products (spgemm, spgemm_T) and distributed products (mult, mult_T, Galerkin P^T(AP))
// on every layout, standard and topology-aware; integer-valued factors so that products are exact.
#include "par.hpp"
using namespace raptor;
static vh::Env E;

static void seq_case(vh::Rng& g, int it)
{
    int cap = 1 + std::min(8, it / 10);
    int n = g.range(0, cap), k = g.range(0, cap), m = g.range(0, cap);
    bool cancel = g.coin(1, 4);
    vh::Trip ta = vh::gen_trip(g, n, k, g.coin(1, 10) ? 0 : g.range(0, 2 * cap + 2), g.coin(), g.coin(1, 3), cancel ? 1 : 3);
    vh::Trip tb = vh::gen_trip(g, k, m, g.coin(1, 10) ? 0 : g.range(0, 2 * cap + 2), g.coin(), g.coin(1, 3), cancel ? 1 : 3);
    {   // C = A * B, A in any format, B CSR / CSC / COO
        int fa = g.below(3), fb = g.below(3);
        Matrix* A = vh::make_fmt(ta, fa); Matrix* B = vh::make_fmt(tb, fb);
        E.about("seq/spgemm");
        CSRMatrix* C = fb == 1 ? A->mult((CSRMatrix*)B) : fb == 2 ? A->mult((CSCMatrix*)B) : A->mult((COOMatrix*)B);
        if (E.want()) {
            vh::Case c("C06", "spgemm"); c.i(fa).i(fb).i(n).i(k).i(m).vec(vh::trip_ll(ta)).vec(vh::trip_ll(tb));
            vh::dump_mat(c, C); c.write(E.out);
        }
        delete C; delete A; delete B;
    }
    {   // C = A^T * B with A (k' x n') given in any format; B CSR: rows of A and B agree
        vh::Trip tat = vh::gen_trip(g, k, n, g.range(0, 2 * cap + 2), g.coin(), g.coin(1, 3), cancel ? 1 : 3);
        int fa = g.below(3), fb = g.below(3);
        Matrix* A = vh::make_fmt(tat, fa); Matrix* B = vh::make_fmt(tb, fb);
        E.about("seq/spgemmT");
        CSRMatrix* C = fa == 2 ? B->mult_T((CSCMatrix*)A) : fa == 1 ? B->mult_T((CSRMatrix*)A) : B->mult_T((COOMatrix*)A);
        if (E.want()) {
            vh::Case c("C06", "spgemmT"); c.i(fa).i(fb).i(n).i(k).i(m).vec(vh::trip_ll(tat)).vec(vh::trip_ll(tb));
            vh::dump_mat(c, C); c.write(E.out);
        }
        delete C; delete A; delete B;
    }
}

static vh::Layout pair_layout(const std::vector<int>& r, const std::vector<int>& c, int nr, int nc) {
    vh::Layout L; L.kind = 1; L.n_rows = nr; L.n_cols = nc; L.rows = r; L.cols = c;
    int np = (int)r.size(); L.first_row.assign(np, 0); L.first_col.assign(np, 0);
    for (int p = 1; p < np; p++) { L.first_row[p] = L.first_row[p - 1] + r[p - 1]; L.first_col[p] = L.first_col[p - 1] + c[p - 1]; }
    return L;
}

static void emit_par(const char* op, int tap, int n, int k, int m, const vh::Trip& ta, const vh::Trip& tb, ParCSRMatrix* C, bool want, int style,
                     const std::vector<int>& exp_rows, const std::vector<int>& exp_cols)
{
    auto ents = vh::gather_entries(C);
    std::vector<long long> dims = { C->global_num_rows, C->global_num_cols, C->local_num_rows, C->on_proc_num_cols,
                                    C->on_proc ? C->on_proc->n_rows : -1, C->off_proc ? C->off_proc->n_cols : -1, C->off_proc_num_cols,
                                    (long long)C->off_proc_column_map.size(),
                                    // the partition object of the result, and the blocks it must describe: rows of the left factor's
                                    // rows (or columns, for the transposed product), columns of the right factor's columns
                                    C->partition->first_local_row, C->partition->local_num_rows, C->partition->first_local_col, C->partition->local_num_cols,
                                    0, exp_rows[E.rank], 0, exp_cols[E.rank] };
    for (int p = 0; p < E.rank; p++) { dims[12] += exp_rows[p]; dims[14] += exp_cols[p]; }
    auto alld = vh::gather_ll(dims);
    if (E.rank == 0 && want) {
        vh::Case c("C06", op); c.i(tap).i(style).i(n).i(k).i(m).vec(vh::trip_ll(ta)).vec(vh::trip_ll(tb)).vec(ents);
        c.i(E.np); for (auto& d : alld) for (auto x : d) c.i(x);
        c.write(E.out);
    }
}

// sequential block products (BSR x BSR, BSC^T x BSR) with independent block shapes; the expected result is the product of the
// scalar expansions. fmt code 4 in the case line
static void block_trip(vh::Rng& g, int R, int C, int br, int bc, std::vector<int>& rr, std::vector<int>& cc, std::vector<std::vector<double>>& vv, vh::Trip& t)
{
    int nb = (R == 0 || C == 0 || g.coin(1, 8)) ? 0 : g.range(1, R + C + 1);
    for (int k = 0; k < nb; k++) { int r = g.below(R), c = g.below(C); bool seen = false; for (size_t q = 0; q < rr.size(); q++) if (rr[q] == r && cc[q] == c) seen = true; if (seen) continue;
        std::vector<double> blk(br * bc); for (auto& v : blk) v = g.coin(1, 4) ? 0 : g.range(-3, 3); rr.push_back(r); cc.push_back(c); vv.push_back(blk); }
    t.n_rows = R * br; t.n_cols = C * bc;
    for (size_t k = 0; k < rr.size(); k++) for (int i = 0; i < br; i++) for (int j = 0; j < bc; j++) { t.r.push_back(rr[k] * br + i); t.c.push_back(cc[k] * bc + j); t.v.push_back(vv[k][i * bc + j]); }
}
static BSRMatrix* make_bsr(int R, int C, int br, int bc, const std::vector<int>& rr, const std::vector<int>& cc, const std::vector<std::vector<double>>& vv)
{
    BSRMatrix* M = new BSRMatrix(R, C, br, bc); M->idx1.assign(R + 1, 0); M->idx2.clear();
    for (int i = 0; i < R; i++) { for (size_t k = 0; k < rr.size(); k++) if (rr[k] == i) { M->idx2.push_back(cc[k]); M->block_vals.push_back(M->copy_val(const_cast<double*>(vv[k].data()))); } M->idx1[i + 1] = (int)M->idx2.size(); }
    M->nnz = (int)M->idx2.size(); return M;
}
static BSCMatrix* make_bsc(int R, int C, int br, int bc, const std::vector<int>& rr, const std::vector<int>& cc, const std::vector<std::vector<double>>& vv)
{
    BSCMatrix* M = new BSCMatrix(R, C, br, bc); M->idx1.assign(C + 1, 0); M->idx2.clear();
    for (int j = 0; j < C; j++) { for (size_t k = 0; k < rr.size(); k++) if (cc[k] == j) { M->idx2.push_back(rr[k]); M->block_vals.push_back(M->copy_val(const_cast<double*>(vv[k].data()))); } M->idx1[j + 1] = (int)M->idx2.size(); }
    M->nnz = (int)M->idx2.size(); return M;
}
static void seq_block_case(vh::Rng& g, int it)
{
    int cap = 1 + std::min(4, it / 20);
    int R = g.range(0, cap), K = g.range(0, cap), C = g.range(0, cap);
    // one block size for all three dimensions: the block kernels size their accumulators for square blocks of one size
    // (rectangular blocks overrun them on the unchanged tree: recorded in DESIGN 12.7c, outside what is generated)
    int br = g.range(1, 3), bk = br, bc = br;
    {   // C = A * B : A is R x K blocks of br x bk, B is K x C blocks of bk x bc
        std::vector<int> ar, ac, brr, bcc; std::vector<std::vector<double>> av, bv; vh::Trip ta, tb;
        block_trip(g, R, K, br, bk, ar, ac, av, ta); block_trip(g, K, C, bk, bc, brr, bcc, bv, tb);
        BSRMatrix* A = make_bsr(R, K, br, bk, ar, ac, av); BSRMatrix* B = make_bsr(K, C, bk, bc, brr, bcc, bv);
        char buf[64]; snprintf(buf, 64, "seq/spgemm/BSR/b%dx%dx%d", br, bk, bc); E.about(buf);
        CSRMatrix* P = A->mult((CSRMatrix*)B);
        if (E.want()) { vh::Case c("C06", "spgemm"); c.i(4).i(4).i(ta.n_rows).i(ta.n_cols).i(tb.n_cols).vec(vh::trip_ll(ta)).vec(vh::trip_ll(tb)); vh::dump_mat(c, P); c.write(E.out); }
        delete P; delete A; delete B;
    }
    {   // C = A^T * B : A is K x R blocks of bk x br (stored by block columns), B is K x C blocks of bk x bc
        std::vector<int> ar, ac, brr, bcc; std::vector<std::vector<double>> av, bv; vh::Trip ta, tb;
        block_trip(g, K, R, bk, br, ar, ac, av, ta); block_trip(g, K, C, bk, bc, brr, bcc, bv, tb);
        BSCMatrix* A = make_bsc(K, R, bk, br, ar, ac, av); BSRMatrix* B = make_bsr(K, C, bk, bc, brr, bcc, bv);
        char buf[64]; snprintf(buf, 64, "seq/spgemmT/BSR/b%dx%dx%d", br, bk, bc); E.about(buf);
        CSRMatrix* P = B->mult_T((CSCMatrix*)A);
        if (E.want()) { vh::Case c("C06", "spgemmT"); c.i(4).i(4).i(ta.n_cols).i(ta.n_rows).i(tb.n_cols).vec(vh::trip_ll(ta)).vec(vh::trip_ll(tb)); vh::dump_mat(c, P); c.write(E.out); }
        delete P; delete A; delete B;
    }
}

static void par_case(vh::Rng& g, int it)
{
    int cap = 2 + std::min(12, it / 5);
    int n = g.range(0, cap), k = g.coin() ? n : g.range(0, cap), m = g.coin() ? k : g.range(0, cap);
    bool cancel = g.coin(1, 4);
    vh::Trip ta = vh::gen_trip(g, n, k, g.coin(1, 12) ? 0 : g.range(0, 3 * cap), g.coin(), false, cancel ? 1 : 3);
    vh::Trip tb = vh::gen_trip(g, k, m, g.coin(1, 12) ? 0 : g.range(0, 3 * cap), g.coin(), false, cancel ? 1 : 3);
    int style = 1 + g.below(3);
    std::vector<int> R = vh::compose(g, n, E.np, style), I = vh::compose(g, k, E.np, 1 + g.below(3)), Cc = vh::compose(g, m, E.np, 1 + g.below(3));
    vh::Layout LA = pair_layout(R, I, n, k), LB = pair_layout(I, Cc, k, m);
    char buf[96];
    for (int tap = 0; tap <= (E.np > 1 ? 1 : 0); tap++) {
        snprintf(buf, 96, "par/mult/style%d%s", style, tap ? "/tap" : ""); E.about(buf);
        ParCOOMatrix* Ac = vh::assemble_coo(ta, LA, E.rank); ParCOOMatrix* Bc = vh::assemble_coo(tb, LB, E.rank);
        ParCSRMatrix* A = Ac->to_ParCSR(); ParCSRMatrix* B = Bc->to_ParCSR();
        ParCSRMatrix* C = A->mult(B, tap);
        emit_par("parmult", tap, n, k, m, ta, tb, C, E.want(), style, R, Cc);
        delete C;
        // A^T * B2 where B2 shares A's row layout:  (k x n)^T ... use A (n x k) and D (n x m): A^T D is k x m
        vh::Trip td = vh::gen_trip(g, n, m, g.range(0, 3 * cap), g.coin(), false, cancel ? 1 : 3);
        vh::Layout LD = pair_layout(R, Cc, n, m);
        ParCOOMatrix* Dc = vh::assemble_coo(td, LD, E.rank); ParCSRMatrix* D = Dc->to_ParCSR();
        snprintf(buf, 96, "par/mult_T/style%d%s", style, tap ? "/tap" : ""); E.about(buf);
        ParCSRMatrix* CT = D->mult_T(A, tap);
        emit_par("parmultT", tap, n, k, m, ta, td, CT, E.want(), style, I, Cc);
        delete CT; delete D; delete Dc;
        delete A; delete B; delete Ac; delete Bc;
    }
    // Galerkin product on a square A (n x n) with P (n x k): P^T (A P)
    {
        vh::Trip tsq = vh::gen_trip(g, n, n, g.range(0, 3 * cap), g.coin(), false, 2);
        vh::Trip tp = vh::gen_trip(g, n, k, g.range(0, 2 * cap), false, false, 2);
        vh::Layout LS = pair_layout(R, R, n, n), LP = pair_layout(R, I, n, k);
        for (int tap = 0; tap <= (E.np > 1 ? 1 : 0); tap++) {
            snprintf(buf, 96, "par/galerkin/style%d%s", style, tap ? "/tap" : ""); E.about(buf);
            ParCOOMatrix* Sc = vh::assemble_coo(tsq, LS, E.rank); ParCOOMatrix* Pc = vh::assemble_coo(tp, LP, E.rank);
            ParCSRMatrix* S = Sc->to_ParCSR(); ParCSRMatrix* P = Pc->to_ParCSR();
            ParCSRMatrix* AP = S->mult(P, tap);
            ParCSCMatrix* Pcsc = P->to_ParCSC();
            ParCSRMatrix* Ac = AP->mult_T(Pcsc, tap);
            emit_par("galerkin", tap, n, n, k, tsq, tp, Ac, E.want(), style, I, I);
            delete Ac; delete Pcsc; delete AP; delete S; delete P; delete Sc; delete Pc;
        }
    }
}

int main(int argc, char** argv)
{
    MPI_Init(&argc, &argv);
    E.init(argc, argv);
    vh::Rng g(E.seed * 15485863 + 6);
    bool seq = argc > 2 && !strcmp(argv[2], "seq");
    int n = seq ? (E.thorough ? 1200 : 250) : (E.thorough ? 200 : 50);
    for (int it = 0; it < n; it++) { if (seq) seq_case(g, it); else par_case(g, it); }
    if (seq) { vh::Rng gb(E.seed * 15485863 + 66); for (int it = 0; it < n; it++) seq_block_case(gb, it); }     // after the scalar cases: their numbers stay
    E.finish();
    MPI_Finalize();
    return 0;
}
