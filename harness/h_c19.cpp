// C19: stencil generators (sequential, distributed) against the coordinate definition; Matrix Market write/read round
// trips (general and symmetric headers; sequential and distributed readers/writers); PETSc binary files read
// sequentially and in parallel on default and explicit partitions.
#include "par.hpp"
#include "raptor/gallery/stencil.hpp"
#include "raptor/gallery/par_stencil.hpp"
#include "raptor/gallery/matrix_market.hpp"
#include "raptor/gallery/par_matrix_market.hpp"
#include "raptor/gallery/matrix_IO.hpp"
#include "raptor/gallery/par_matrix_IO.hpp"
using namespace raptor;
static vh::Env E;
static std::vector<std::vector<long long>> G(const std::vector<long long>& v) { return vh::gather_ll(v); }
static std::vector<long long> flat(const std::vector<std::vector<long long>>& per) { std::vector<long long> a; for (auto& v : per) a.insert(a.end(), v.begin(), v.end()); return a; }
static std::vector<long long> seq_entries(CSRMatrix* A) {
    std::vector<long long> e; for (int i = 0; i < A->n_rows; i++) for (int k = A->idx1[i]; k < A->idx1[i + 1]; k++) { e.push_back(i); e.push_back(A->idx2[k]); e.push_back((long long)vh::dbits(A->vals[k])); } return e; }
static std::vector<long long> trip_bits(const vh::Trip& t) {
    std::vector<long long> e; for (size_t k = 0; k < t.r.size(); k++) { e.push_back(t.r[k]); e.push_back(t.c[k]); e.push_back((long long)vh::dbits(t.v[k])); } return e; }
template <class T> static void be_write(FILE* f, T v) { unsigned char* p = (unsigned char*)&v; for (int k = (int)sizeof(T) - 1; k >= 0; k--) fputc(p[k], f); }

// sparse matrix with values spanning many magnitudes, negative values, rectangular, empty rows; no duplicates
static vh::Trip gen_io(vh::Rng& g, int n, int m, bool symmetric)
{
    vh::Trip t; t.n_rows = n; t.n_cols = m; if (n == 0 || m == 0) return t;
    int nnz = g.range(0, 3 * std::max(n, m));
    for (int k = 0; k < nnz; k++) { int i = g.below(n), j = g.below(m); if (i % 4 == 3) continue;          // every fourth row empty
        if (symmetric && i < j) std::swap(i, j);      // lower triangle
        bool dup = false; for (size_t p = 0; p < t.r.size(); p++) if (t.r[p] == i && t.c[p] == j) dup = true; if (dup) continue;
        double mant = 1.0 + g.range(0, 999999) / 1000000.0; int ex = g.range(-12, 12);
        double v = (g.coin() ? 1 : -1) * mant * pow(10.0, ex);
        t.r.push_back(i); t.c.push_back(j); t.v.push_back(v); }
    return t;
}

// independent reading of a Matrix Market coordinate file as text: banner symmetry, size line, entry lines (1-based, value bits)
static bool parse_mm(const char* fname, int& symm, int& M, int& N, int& nz, std::vector<long long>& lines) {
    FILE* f = fopen(fname, "r"); if (!f) return false;
    char buf[512]; symm = 0; bool size_seen = false; lines.clear();
    while (fgets(buf, 512, f)) {
        if (buf[0] == '%') { if (!strncmp(buf, "%%MatrixMarket", 14) && strstr(buf, "symmetric")) symm = 1; continue; }
        if (!size_seen) { if (sscanf(buf, "%d %d %d", &M, &N, &nz) == 3) size_seen = true; continue; }
        int i, j; double v; if (sscanf(buf, "%d %d %lg", &i, &j, &v) == 3) { lines.push_back(i); lines.push_back(j); lines.push_back((long long)vh::dbits(v)); }
    }
    fclose(f); return size_seen;
}

int main(int argc, char** argv)
{
    MPI_Init(&argc, &argv);
    E.init(argc, argv);
    vh::Rng g(E.seed * 256203161 + 19);
    int np = E.np, rank = E.rank;
    char dir[256]; snprintf(dir, 256, "%s.files", argc > 1 ? argv[1] : "/tmp/c19"); if (rank == 0) { std::string cmd = std::string("mkdir -p ") + dir; if (system(cmd.c_str())) {} } MPI_Barrier(MPI_COMM_WORLD);
    // ---------------- stencils ----------------
    int maxe = E.thorough ? 12 : 5;
    int ncases = E.thorough ? 220 : 70;
    // trailing cases (the regular ones keep their numbers): stencils whose centre weight is zero
    int nzero = ncases / 4;
    for (int it0 = 0; it0 < ncases + nzero; it0++) {
        bool zero_centre = it0 >= ncases; int it = zero_centre ? 12 + (it0 - ncases) : it0;
        int dim = 1 + it % 3;
        int grid[3] = {1, 1, 1}; for (int k = 0; k < dim; k++) grid[k] = g.range(1, dim == 3 ? std::min(maxe, 6) : maxe);
        if (it < 12) for (int k = 0; k < dim; k++) grid[k] = 1 + (it + k) % 4;           // small shapes first
        int slen = dim == 1 ? 3 : dim == 2 ? 9 : 27;
        std::vector<double> st(slen, 0.0);
        for (int k = 0; k <= slen / 2; k++) { double v = g.coin(1, 3) ? 0.0 : 0.25 * g.range(-8, 8); st[k] = v; st[slen - 1 - k] = v; }   // symmetric stencil, arbitrary zero pattern
        if (st[slen / 2] == 0) st[slen / 2] = 4.0;
        if (zero_centre) st[slen / 2] = 0.0;
        char ctx[96]; snprintf(ctx, 96, "stencil/dim%d/%dx%dx%d", dim, grid[0], grid[1], grid[2]); E.about(ctx);
        std::vector<long long> gv(grid, grid + dim);
        if (np == 1) {
            CSRMatrix* A = stencil_grid(st.data(), grid, dim);
            if (E.want()) { vh::Case c("C19", "stencil"); c.i(0).vec(gv).dvec(st).vec(seq_entries(A)).i(A->n_rows).i(A->n_cols); c.write(E.out); }
            delete A;
        }
        ParCSRMatrix* P = par_stencil_grid(st.data(), grid, dim);
        auto ents = flat(G(vh::local_entries(P, false)));
        bool want = E.want();
        if (rank == 0 && want) { vh::Case c("C19", "stencil"); c.i(np).vec(gv).dvec(st).vec(ents).i(P->global_num_rows).i(P->global_num_cols); c.write(E.out); }
        delete P;
    }
    // ---------------- Matrix Market and PETSc files ----------------
    int nio = E.thorough ? 80 : 24;
    for (int it = 0; it < nio; it++) {
        int n = g.range(1, 3 + it / 2 + np), m = g.coin() ? n : g.range(1, 3 + it / 2 + np);
        bool symm = g.coin(1, 3); if (symm) m = n;
        vh::Trip t = gen_io(g, n, m, symm);
        char f1[300], f2[300], f3[300], f4[300];
        snprintf(f1, 300, "%s/a%d.mtx", dir, it); snprintf(f2, 300, "%s/b%d.mtx", dir, it); snprintf(f3, 300, "%s/s%d.mtx", dir, it); snprintf(f4, 300, "%s/p%d.petsc", dir, it);
        char ctx[96]; snprintf(ctx, 96, "io/%dx%d/%s", n, m, symm ? "symmetric" : "general"); E.about(ctx);
        // expected full matrix: for a symmetric file the stored lower triangle is mirrored (diagonal once)
        vh::Trip full = t; if (symm) for (size_t k = 0; k < t.r.size(); k++) if (t.r[k] != t.c[k]) { full.r.push_back(t.c[k]); full.c.push_back(t.r[k]); full.v.push_back(t.v[k]); }
        auto expect = trip_bits(full);
        auto emit = [&](const char* what, int who, const std::vector<long long>& got, int gr, int gc) {
            bool want = E.want();
            if (rank == 0 && want) { vh::Case c("C19", "mateq"); c.i(who).i(symm).i(n).i(m).vec(expect).vec(got).i(gr).i(gc); c.write(E.out); } (void)what; };
        // (1) sequential write -> sequential read, distributed read
        if (rank == 0) { CSRMatrix* A = vh::make_csr(full); write_mm(A, f1); delete A; }
        MPI_Barrier(MPI_COMM_WORLD);
        { E.about("io/read_mm(write_mm)"); std::vector<long long> got; int gr = -1, gc = -1; if (rank == 0) { CSRMatrix* B = read_mm(f1); if (B) { got = seq_entries(B); gr = B->n_rows; gc = B->n_cols; delete B; } } emit("w-r", 1, got, gr, gc);
          // the file itself (parsed independently) against the writer model applied to the source and the reader model applied to the file
          bool wantf = E.want();
          if (rank == 0 && wantf) { int sy, M, N, nz; std::vector<long long> ln; bool okf = parse_mm(f1, sy, M, N, nz, ln);
              CSRMatrix* A = vh::make_csr(full); auto src = seq_entries(A); delete A;
              vh::Case c("C19", "mmfile"); c.i(1).i(okf).i(sy).i(M).i(N).i(nz).vec(ln).i(n).i(m).vec(src).vec(got).i(gr).i(gc); c.write(E.out); } }
        { E.about("io/read_par_mm(write_mm)"); ParCSRMatrix* B = read_par_mm(f1); auto got = flat(G(vh::local_entries(B, false))); emit("w-pr", 2, got, B->global_num_rows, B->global_num_cols);
          // (2) distributed write -> sequential read
          E.about("io/read_mm(write_par_mm)"); write_par_mm(B, f2); MPI_Barrier(MPI_COMM_WORLD);
          std::vector<long long> got2; int gr = -1, gc = -1; if (rank == 0) { CSRMatrix* C = read_mm(f2); if (C) { got2 = seq_entries(C); gr = C->n_rows; gc = C->n_cols; delete C; } } emit("pw-r", 3, got2, gr, gc);
          delete B; }
        // (3) a file with a symmetric header (lower triangle stored): both readers must assemble the full matrix
        if (symm) {
            if (rank == 0) { FILE* f = fopen(f3, "w"); fprintf(f, "%%%%MatrixMarket matrix coordinate real symmetric\n%%\n%d %d %d\n", n, m, (int)t.r.size());
                for (size_t k = 0; k < t.r.size(); k++) fprintf(f, "%d %d %.16e\n", t.r[k] + 1, t.c[k] + 1, t.v[k]); fclose(f); }
            MPI_Barrier(MPI_COMM_WORLD);
            { E.about("io/read_mm(symmetric)"); std::vector<long long> got; int gr = -1, gc = -1; if (rank == 0) { CSRMatrix* B = read_mm(f3); if (B) { got = seq_entries(B); gr = B->n_rows; gc = B->n_cols; delete B; } } emit("sym-r", 4, got, gr, gc);
              bool wantf = E.want();
              if (rank == 0 && wantf) { int sy, M, N, nz; std::vector<long long> ln; bool okf = parse_mm(f3, sy, M, N, nz, ln);
                  vh::Case c("C19", "mmfile"); c.i(4).i(okf).i(sy).i(M).i(N).i(nz).vec(ln).i(n).i(m).vec(std::vector<long long>()).vec(got).i(gr).i(gc); c.write(E.out); } }
            { E.about("io/read_par_mm(symmetric)"); ParCSRMatrix* B = read_par_mm(f3); auto got = flat(G(vh::local_entries(B, false))); emit("sym-pr", 5, got, B->global_num_rows, B->global_num_cols); delete B; }
        }
        // (4) PETSc binary (big-endian) written by the harness: sequential reader, distributed reader (default and explicit partitions)
        if (rank == 0) { FILE* f = fopen(f4, "wb"); be_write<int32_t>(f, 1211216); be_write<int32_t>(f, n); be_write<int32_t>(f, m); be_write<int32_t>(f, (int32_t)full.r.size());
            std::vector<std::vector<std::pair<int,double>>> rows(n); for (size_t k = 0; k < full.r.size(); k++) rows[full.r[k]].push_back({ full.c[k], full.v[k] });
            for (int i = 0; i < n; i++) be_write<int32_t>(f, (int32_t)rows[i].size());
            for (int i = 0; i < n; i++) for (auto& e : rows[i]) be_write<int32_t>(f, e.first);
            for (int i = 0; i < n; i++) for (auto& e : rows[i]) be_write<double>(f, e.second);
            fclose(f); }
        MPI_Barrier(MPI_COMM_WORLD);
        { E.about("io/readMatrix(petsc)"); std::vector<long long> got; int gr = -1, gc = -1; if (rank == 0) { CSRMatrix* B = readMatrix(f4); got = seq_entries(B); gr = B->n_rows; gc = B->n_cols; delete B; } emit("petsc-r", 6, got, gr, gc); }
        { E.about("io/readParMatrix(petsc,default)"); ParCSRMatrix* B = readParMatrix(f4); auto got = flat(G(vh::local_entries(B, false))); emit("petsc-pr", 7, got, B->global_num_rows, B->global_num_cols); delete B; }
        { E.about("io/readParMatrix(petsc,explicit)"); vh::Rng gl(E.seed * 41 + it); std::vector<int> R = vh::compose(gl, n, np, 1 + gl.below(3)), C = vh::compose(gl, m, np, 1 + gl.below(3));
          int fr = 0, fc = 0; for (int p = 0; p < rank; p++) { fr += R[p]; fc += C[p]; }
          ParCSRMatrix* B = readParMatrix(f4, R[rank], C[rank], fr, fc); auto got = flat(G(vh::local_entries(B, false))); emit("petsc-pr-explicit", 8, got, B->global_num_rows, B->global_num_cols); delete B; }
    }
    // a file whose entry count times row count exceeds 2^31 (a 47000 x 47000 diagonal): sizes no test file has
    {
        int nb = 47000; char fb[300]; snprintf(fb, 300, "%s/big.mtx", dir);
        vh::Trip tbig; tbig.n_rows = tbig.n_cols = nb; for (int i = 0; i < nb; i++) { tbig.r.push_back(i); tbig.c.push_back(i); tbig.v.push_back(1.0 + (i % 7)); }
        E.about("io/read_mm(write_mm)/big_diagonal");
        std::vector<long long> got; int gr = -1, gc = -1;
        if (rank == 0) { CSRMatrix* A = vh::make_csr(tbig); write_mm(A, fb); delete A; CSRMatrix* B = read_mm(fb); if (B) { got = seq_entries(B); gr = B->n_rows; gc = B->n_cols; delete B; } remove(fb); }
        bool want = E.want();
        if (rank == 0 && want) { vh::Case c("C19", "mateq"); c.i(1).i(0).i(nb).i(nb).vec(trip_bits(tbig)).vec(got).i(gr).i(gc); c.write(E.out); }
    }
    MPI_Barrier(MPI_COMM_WORLD);
    if (rank == 0) { std::string cmd = std::string("rm -rf ") + dir; if (system(cmd.c_str())) {} }
    E.finish();
    MPI_Finalize();
    return 0;
}
