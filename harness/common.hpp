// Shared helpers for the correspondence harnesses. The harnesses call the real RAPtor classes
// in-process (linked against objects rebuilt from /repo's working tree) and write one case per
// line: "<prop> <op> <int> <int> ...". Doubles travel either as integers (exact mode, small
// integer-valued doubles) or as their 64-bit pattern (float mode).
#ifndef VERIF_HARNESS_COMMON_HPP
#define VERIF_HARNESS_COMMON_HPP
#include <mpi.h>
#include <cstdio>
#include <cstdlib>
#include <cstring>
#include <cstdint>
#include <cmath>
#include <string>
#include <vector>
#include <sstream>
#include <algorithm>
#include <numeric>
#include <functional>
#include <csignal>
#include <unistd.h>

namespace vh {

struct Rng {               // splitmix64; every random choice of a harness derives from one state
    uint64_t s;
    explicit Rng(uint64_t seed) : s(seed * 0x9E3779B97F4A7C15ull + 0x1234567ull) {}
    uint64_t next() { uint64_t z = (s += 0x9E3779B97F4A7C15ull);
        z = (z ^ (z >> 30)) * 0xBF58476D1CE4E5B9ull; z = (z ^ (z >> 27)) * 0x94D049BB133111EBull;
        return z ^ (z >> 31); }
    int below(int n) { return n <= 0 ? 0 : (int)(next() % (uint64_t)n); }
    int range(int lo, int hi) { return lo + below(hi - lo + 1); }   // inclusive
    bool coin(int num = 1, int den = 2) { return below(den) < num; }
    double unit() { return (double)(next() >> 11) / 9007199254740992.0; }
};

inline uint64_t dbits(double d) { uint64_t u; memcpy(&u, &d, 8); return u; }

struct Case {              // one output line
    std::ostringstream os;
    Case(const char* prop, const char* op) { os << prop << ' ' << op; }
    Case& i(long long v) { os << ' ' << v; return *this; }
    Case& u(uint64_t v) { os << ' ' << v; return *this; }
    Case& d(double v) { os << ' ' << dbits(v); return *this; }           // float mode
    Case& di(double v) { os << ' ' << (long long)llround(v); return *this; } // exact mode
    template <class T> Case& vec(const std::vector<T>& v) { i((long long)v.size());
        for (auto& x : v) i((long long)x); return *this; }
    Case& dvec(const std::vector<double>& v) { i((long long)v.size());
        for (auto& x : v) d(x); return *this; }
    Case& divec(const std::vector<double>& v) { i((long long)v.size());
        for (auto& x : v) di(x); return *this; }
    Case& raw(const std::string& s) { os << s; return *this; }
    void write(FILE* f) { if (f) { fputs(os.str().c_str(), f); fputc('\n', f); } }
};

static char g_last_about[256] = "start";
static int g_rank = 0;
inline void crash_handler(int sig) {
    char buf[400]; int n = snprintf(buf, 400, "\nVERIF-CRASH rank=%d signal=%d while: %s\n", g_rank, sig, g_last_about);
    if (n > 0) { ssize_t w = write(2, buf, (size_t)n); (void)w; }
    signal(sig, SIG_DFL); raise(sig);
}

struct Env {
    int rank = 0, np = 1;
    long long seed = 1;
    bool thorough = false;
    FILE* out = nullptr;   // rank 0 only
    long long only = -1;   // replay: emit only this case index
    long long counter = 0;
    FILE* prog = nullptr;  // rank 0: what is about to run (read by check.py after a crash)
    void about(const char* what) { snprintf(g_last_about, 256, "%s", what); if (prog) { rewind(prog); fprintf(prog, "%-200s\n", what); fflush(prog); } }
    void init(int argc, char** argv) {
        MPI_Comm_rank(MPI_COMM_WORLD, &rank); MPI_Comm_size(MPI_COMM_WORLD, &np);
        g_rank = rank;
#ifndef __SANITIZE_ADDRESS__
        signal(SIGSEGV, crash_handler); signal(SIGABRT, crash_handler); signal(SIGFPE, crash_handler);
#endif
        signal(SIGALRM, crash_handler);
        const char* s = getenv("VERIF_SEED"); if (s && *s) seed = atoll(s);
        const char* t = getenv("VERIF_TIER"); if (t && !strcmp(t, "thorough")) thorough = true;
        const char* o = getenv("VERIF_ONLY"); if (o && *o) only = atoll(o);
        const char* path = argc > 1 ? argv[1] : nullptr;
        if (rank == 0) { out = path ? fopen(path, "w") : stdout;
            if (!out) { perror("open case file"); MPI_Abort(MPI_COMM_WORLD, 2); }
            if (path) { std::string pp = std::string(path) + ".progress"; prog = fopen(pp.c_str(), "w"); } }
    }
    void finish() { if (out && out != stdout) fclose(out); out = nullptr; if (prog) { about("done"); fclose(prog); prog = nullptr; } }
    // every case gets a running index (identical on all ranks); replays select by it
    bool want() { long long c = counter++; return only < 0 || only == c; }
};

// gather variable-length int vectors to rank 0: result[r] = rank r's vector (empty elsewhere)
inline std::vector<std::vector<long long>> gather_ll(const std::vector<long long>& mine) {
    int rank, np; MPI_Comm_rank(MPI_COMM_WORLD, &rank); MPI_Comm_size(MPI_COMM_WORLD, &np);
    int n = (int)mine.size();
    std::vector<int> counts(np), displs(np + 1, 0);
    MPI_Gather(&n, 1, MPI_INT, counts.data(), 1, MPI_INT, 0, MPI_COMM_WORLD);
    std::vector<long long> all;
    if (rank == 0) { for (int r = 0; r < np; r++) displs[r + 1] = displs[r] + counts[r]; all.resize(displs[np]); }
    MPI_Gatherv(const_cast<long long*>(mine.data()), n, MPI_LONG_LONG, all.data(), counts.data(), displs.data(),
                MPI_LONG_LONG, 0, MPI_COMM_WORLD);
    std::vector<std::vector<long long>> res(np);
    if (rank == 0) for (int r = 0; r < np; r++) res[r].assign(all.begin() + displs[r], all.begin() + displs[r + 1]);
    return res;
}

template <class T> inline std::vector<long long> to_ll(const std::vector<T>& v) {
    return std::vector<long long>(v.begin(), v.end()); }

inline std::vector<long long> dbits_ll(const std::vector<double>& v) {
    std::vector<long long> r(v.size()); for (size_t k = 0; k < v.size(); k++) r[k] = (long long)dbits(v[k]); return r; }

} // namespace vh
#endif
