// C20: repartition_matrix (+ make_contiguous) and the diagonal / row scalings on the real distributed classes.
//  repart : every rank's rows before the move (packing order), the target map, and everything the call returned:
//           new_local_rows, both blocks, the maps, the new communication package, and the product with a permuted
//           random vector. Run under natural and perturbed message schedules (PMPI layer).
//  dscale / rscale : blocks, right-hand side, scales before and after (doubles as bit patterns).
#include "pmpi_layer.hpp"
#include "par.hpp"
#include "raptor/util/linalg/repartition.hpp"
#include "raptor/util/linalg/par_diag_scale.hpp"
using namespace raptor;
static vh::Env E;
template <class T> static std::vector<long long> LL(const std::vector<T>& v) { return std::vector<long long>(v.begin(), v.end()); }
static void put_all(vh::Case& c, const std::vector<long long>& mine) { auto per = vh::gather_ll(mine); if (E.rank == 0) for (auto& v : per) c.vec(v); }

static vh::Layout layout_for(vh::Rng& g, int n, int np, int kind) {
    vh::Layout L = vh::make_layout(g, n, n, np, kind);
    if (kind != 0) { L.cols = L.rows; L.first_col = L.first_row; }      // square matrices: rows and columns split alike
    return L;
}

// rows of this rank in packing order: [nrows, (gid, len, (gcol, val)*)*]
static std::vector<long long> packed_rows(ParCSRMatrix* A) {
    std::vector<long long> v; v.push_back(A->local_num_rows);
    for (int i = 0; i < A->local_num_rows; i++) {
        v.push_back(A->local_row_map[i]);
        int len = A->on_proc->idx1[i + 1] - A->on_proc->idx1[i] + A->off_proc->idx1[i + 1] - A->off_proc->idx1[i];
        v.push_back(len);
        for (int k = A->on_proc->idx1[i]; k < A->on_proc->idx1[i + 1]; k++) { v.push_back(A->on_proc_column_map[A->on_proc->idx2[k]]); v.push_back(llround(A->on_proc->vals[k])); }
        for (int k = A->off_proc->idx1[i]; k < A->off_proc->idx1[i + 1]; k++) { v.push_back(A->off_proc_column_map[A->off_proc->idx2[k]]); v.push_back(llround(A->off_proc->vals[k])); }
    }
    return v;
}

static const char* TK[] = { "roundrobin", "random", "one_rank", "half_empty", "identity", "reverse" };

static void repart_case(vh::Rng& g, int it)
{
    int np = E.np, rank = E.rank;
    int cap = 2 + std::min(18, it / 3);
    int n = g.range(1, cap + np);
    int kind = g.below(3);
    vh::Layout L = layout_for(g, n, np, kind);
    int dens = g.below(4);
    vh::Trip t = vh::gen_trip(g, n, n, dens == 0 ? 0 : g.range(0, (dens + 1) * n), false, false);
    bool with_diag = g.coin(2, 3);
    if (with_diag) for (int i = 0; i < n; i++) { bool has = false; for (size_t k = 0; k < t.r.size(); k++) if (t.r[k] == i && t.c[k] == i) has = true; if (!has) { t.r.push_back(i); t.c.push_back(i); t.v.push_back(4 + g.below(3)); } }
    int tk = g.below(6);
    int one = g.below(np);
    std::vector<int> target(n);
    for (int i = 0; i < n; i++) target[i] = tk == 0 ? i % np : tk == 1 ? g.below(np) : tk == 2 ? one : tk == 3 ? g.below(std::max(1, np / 2)) : -1;
    int sched = g.below(3);                     // 0 natural, 1 reverse preference, 2 random choice + delays
    std::vector<double> x = vh::rand_vec(g, n);
    char buf[160]; snprintf(buf, 160, "repart/%s/layout%d/sched%d/it%d/n%d", TK[tk], kind, sched, it, n); E.about(buf);

    ParCOOMatrix* Ac = vh::assemble_coo(t, L, rank); ParCSRMatrix* A = Ac->to_ParCSR();
    int fr = A->partition->first_local_row, lr = A->local_num_rows;
    if (tk == 4) for (int i = 0; i < n; i++) target[i] = -1;
    // identity / reverse need the owner of every row
    std::vector<long long> fcs; { std::vector<long long> mine = { fr, lr }; auto per = vh::gather_ll(mine); if (rank == 0) for (auto& v : per) fcs.push_back(v[0]); }
    std::vector<int> firsts(np + 1, 0); { int f = fr; MPI_Allgather(&f, 1, MPI_INT, firsts.data(), 1, MPI_INT, MPI_COMM_WORLD); firsts[np] = n;
        // ranks without rows report whatever first row the partition gave them: owners are decided by the non-empty ranges
        std::vector<int> cnt(np); MPI_Allgather(&lr, 1, MPI_INT, cnt.data(), 1, MPI_INT, MPI_COMM_WORLD);
        if (tk >= 4) for (int p = 0; p < np; p++) for (int i = firsts[p]; i < firsts[p] + cnt[p]; i++) target[i] = tk == 4 ? p : np - 1 - p; }
    std::vector<int> local_target(lr); for (int i = 0; i < lr; i++) local_target[i] = target[A->local_row_map[i]];

    auto in_rows = packed_rows(A);
    std::vector<int> new_rows;
    vl::reset((uint64_t)E.seed * 977 + it, sched, -1, 0, sched == 2 ? 300 : 0, sched == 0 ? 0 : 300);
    if (sched == 0) vl::stop();
    alarm(60);
    ParCSRMatrix* B = repartition_matrix(A, local_target.data(), new_rows);
    alarm(0);
    long long wild = vl::S.wild_multi; vl::stop();

    // product with the permuted vector
    snprintf(buf, 160, "repart/mult/%s/layout%d/it%d/n%d", TK[tk], kind, it, n); E.about(buf);
    ParVector px(B->global_num_cols, B->on_proc_num_cols), pb(B->global_num_rows, B->local_num_rows);
    for (int i = 0; i < px.local_n && i < (int)new_rows.size(); i++) px.local.values[i] = (new_rows[i] >= 0 && new_rows[i] < n) ? x[new_rows[i]] : 0;
    bool shape_ok = (int)new_rows.size() == B->local_num_rows && B->on_proc_num_cols == B->local_num_rows;
    int all_ok = shape_ok ? 1 : 0; MPI_Allreduce(MPI_IN_PLACE, &all_ok, 1, MPI_INT, MPI_MIN, MPI_COMM_WORLD);
    alarm(60);
    if (all_ok) B->mult(px, pb);
    alarm(0);
    bool want = E.want();
    vh::Case c("C20", "repart");
    if (rank == 0) { c.i(np).i(n).i(tk).i(kind).i(sched).i(all_ok).vec(target).divec(x); }
    put_all(c, in_rows);
    std::vector<long long> meta = { B->partition->first_local_row, B->partition->first_local_col, B->global_num_rows, B->global_num_cols,
                                    B->local_num_rows, B->on_proc_num_cols, B->off_proc_num_cols, B->local_nnz, wild };
    put_all(c, meta);
    put_all(c, LL(new_rows));
    put_all(c, LL(B->on_proc->idx1)); put_all(c, LL(B->on_proc->idx2)); { std::vector<long long> v; for (double d : B->on_proc->vals) v.push_back(llround(d)); put_all(c, v); }
    put_all(c, LL(B->off_proc->idx1)); put_all(c, LL(B->off_proc->idx2)); { std::vector<long long> v; for (double d : B->off_proc->vals) v.push_back(llround(d)); put_all(c, v); }
    put_all(c, LL(B->off_proc_column_map)); put_all(c, LL(B->on_proc_column_map)); put_all(c, LL(B->local_row_map));
    ParComm* pc = B->comm;
    put_all(c, pc ? LL(pc->recv_data->procs) : std::vector<long long>()); put_all(c, pc ? LL(pc->recv_data->indptr) : std::vector<long long>());
    put_all(c, pc ? LL(pc->send_data->procs) : std::vector<long long>()); put_all(c, pc ? LL(pc->send_data->indptr) : std::vector<long long>());
    put_all(c, pc ? LL(pc->send_data->indices) : std::vector<long long>());
    { std::vector<long long> v; if (all_ok) for (int i = 0; i < pb.local_n; i++) v.push_back(llround(pb.local.values[i])); put_all(c, v); }
    if (rank == 0 && want) c.write(E.out);
    delete B; delete A; delete Ac;
}

// blocks as bit patterns: on idx1 idx2 vals | off idx1 idx2 vals
static void put_blocks(vh::Case& c, ParCSRMatrix* A) {
    put_all(c, LL(A->on_proc->idx1)); put_all(c, LL(A->on_proc->idx2)); put_all(c, vh::dbits_ll(A->on_proc->vals));
    put_all(c, LL(A->off_proc->idx1)); put_all(c, LL(A->off_proc->idx2)); put_all(c, vh::dbits_ll(A->off_proc->vals));
}

static void scale_case(vh::Rng& g, int it, bool rowscale, bool tiny = false)
{
    int np = E.np, rank = E.rank;
    int cap = 2 + std::min(14, it / 3);
    int n = g.range(1, cap + np);
    int kind = g.below(3);
    vh::Layout L = layout_for(g, n, np, kind);
    int valmode = g.below(3);                   // 0 small integers / power-of-4 diagonal, 1 random doubles, 2 negative diagonals too
    vh::Trip t = vh::gen_trip(g, n, n, g.range(0, 3 * n), false, false);
    { vh::Trip u; u.n_rows = n; u.n_cols = n; for (size_t k = 0; k < t.r.size(); k++) if (t.r[k] != t.c[k]) { u.r.push_back(t.r[k]); u.c.push_back(t.c[k]); u.v.push_back(t.v[k]); } t = u; }
    for (size_t k = 0; k < t.v.size(); k++) if (valmode) t.v[k] = (g.unit() - 0.5) * 8;
    for (int i = 0; i < n; i++) {
        double d = valmode == 0 ? std::ldexp(1.0, 2 * g.range(-2, 2)) : 0.25 + g.unit() * 9;
        if (valmode == 2 && g.coin()) d = -d;
        if (valmode == 0 && g.coin(1, 4)) d = -d;
        t.r.push_back(i); t.c.push_back(i); t.v.push_back(d);
    }
    std::vector<double> b(n), y(n); for (int i = 0; i < n; i++) { b[i] = valmode ? (g.unit() - 0.5) * 6 : g.range(-3, 3); y[i] = valmode ? (g.unit() - 0.5) * 6 : g.range(-3, 3); }
    char buf[160]; snprintf(buf, 160, "%s/layout%d/val%d/it%d/n%d", rowscale ? "rscale" : "dscale", kind, valmode, it, n); E.about(buf);
    ParCOOMatrix* Ac = vh::assemble_coo(t, L, rank); ParCSRMatrix* A = Ac->to_ParCSR();
    bool shuffled = g.coin();
    if (shuffled && A->on_proc->nnz) {           // present the rows in column order: the routine itself must bring the diagonal first
        A->on_proc->sort();
    }
    int fr = A->partition->first_local_row, lr = A->local_num_rows;
    if (tiny && n > 0) {
        // one unknown rescaled by 2^-35 (its row and its column; the diagonal entry by 2^-70, far below 1e-16), written into the
        // assembled blocks directly: assembly itself drops entries that small. D A D is invariant under such a rescaling.
        int kt = it % n; double sc = std::ldexp(1.0, -35);
        auto gcol_on = [&](int j) { return j < (int)A->on_proc_column_map.size() ? A->on_proc_column_map[j] : A->partition->first_local_col + j; };
        for (int i = 0; i < lr; i++) {
            for (int p = A->on_proc->idx1[i]; p < A->on_proc->idx1[i + 1]; p++) { if (fr + i == kt) A->on_proc->vals[p] *= sc; if (gcol_on(A->on_proc->idx2[p]) == kt) A->on_proc->vals[p] *= sc; }
            for (int p = A->off_proc->idx1[i]; p < A->off_proc->idx1[i + 1]; p++) { if (fr + i == kt) A->off_proc->vals[p] *= sc; if (A->off_proc_column_map[A->off_proc->idx2[p]] == kt) A->off_proc->vals[p] *= sc; }
        }
        b[kt] *= sc;
    }
    ParVector rhs(n, lr), sol(n, lr);
    vh::fill_vec(rhs, b, fr); vh::fill_vec(sol, y, fr);
    vh::Case c("C20", rowscale ? "rscale" : "dscale");
    std::vector<long long> firsts; { std::vector<long long> mine = { fr, lr }; auto per = vh::gather_ll(mine); if (rank == 0) for (auto& v : per) { firsts.push_back(v[0]); firsts.push_back(v[1]); } }
    if (rank == 0) c.i(np).i(n).i(kind).i(valmode).i(shuffled).vec(firsts);
    put_all(c, LL(A->off_proc_column_map));
    put_blocks(c, A);
    put_all(c, vh::dbits_ll(std::vector<double>(rhs.local.values.begin(), rhs.local.values.begin() + lr)));
    put_all(c, vh::dbits_ll(std::vector<double>(sol.local.values.begin(), sol.local.values.begin() + lr)));
    std::vector<double> scales;
    alarm(60);
    if (rowscale) row_scale(A, rhs);
    else { diagonally_scale(A, rhs, scales); diagonally_unscale(sol, scales); }
    alarm(0);
    bool want = E.want();
    put_blocks(c, A);
    put_all(c, vh::dbits_ll(std::vector<double>(rhs.local.values.begin(), rhs.local.values.begin() + lr)));
    put_all(c, vh::dbits_ll(std::vector<double>(sol.local.values.begin(), sol.local.values.begin() + lr)));
    put_all(c, vh::dbits_ll(scales));
    if (rank == 0 && want) c.write(E.out);
    delete A; delete Ac;
}

int main(int argc, char** argv)
{
    MPI_Init(&argc, &argv);
    E.init(argc, argv);
    vh::Rng g(E.seed * 15485863 + 20);
    const char* what = argc > 2 ? argv[2] : "repart";
    int n = E.thorough ? 240 : 70;
    for (int it = 0; it < n; it++) {
        if (!strcmp(what, "repart")) repart_case(g, it);
        else { scale_case(g, it, false); scale_case(g, it, true); }
    }
    if (strcmp(what, "repart")) { vh::Rng gx(E.seed * 15485863 + 2020); for (int it = 0; it < n / 3; it++) { scale_case(gx, it, false, true); scale_case(gx, it, true, true); } }   // after the regular cases
    E.finish();
    MPI_Finalize();
    return 0;
}
