// C14: strength of connection, sequential and distributed; values and thresholds dyadic so that every comparison is exact.
#include "par.hpp"
using namespace raptor;
static vh::Env E;
static std::vector<std::vector<long long>> G(const std::vector<long long>& v) { return vh::gather_ll(v); }
static std::vector<long long> flat(const std::vector<std::vector<long long>>& per) { std::vector<long long> a; for (auto& v : per) a.insert(a.end(), v.begin(), v.end()); return a; }

static vh::Trip gen_sys(vh::Rng& g, int n, bool ties = false)
{
    vh::Trip t; t.n_rows = t.n_cols = n; int style = g.below(4);   // 0 M-matrix like, 1 mixed-sign diagonals, 2 off-diagonals of the diagonal's sign, 3 anything
    for (int i = 0; i < n; i++) {
        double d = 0.25 * g.range(4, 32); if (style == 1 && g.coin(1, 3)) d = -d; if (style == 3 && g.coin()) d = -d;
        t.r.push_back(i); t.c.push_back(i); t.v.push_back(d);
        if (g.coin(1, 6)) continue;                    // only a diagonal
        int k = g.range(0, std::min(n - 1, 5));
        for (int q = 0; q < k; q++) { int j = g.below(n); if (j == i) continue; bool dup = false;
            for (size_t p = 0; p < t.r.size(); p++) if (t.r[p] == i && t.c[p] == j) dup = true; if (dup) continue;
            double v = 0.125 * g.range(1, 40); if (ties) { double lv[] = { 0.5, 1, 2, 4 }; v = lv[(int)(v * 8) % 4]; }    // few distinct magnitudes: entries exactly equal to theta x the row's extreme
            if (style == 0) v = -v; else if (style == 2) v = (d > 0 ? v : -v); else if (g.coin()) v = -v;
            t.r.push_back(i); t.c.push_back(j); t.v.push_back(v); }
    }
    return t;
}
static std::vector<long long> csr_ll(Matrix* M) {
    std::vector<long long> f; f.push_back((long long)M->idx1.size()); for (int v : M->idx1) f.push_back(v);
    f.push_back(M->nnz); for (int k = 0; k < M->nnz; k++) f.push_back(M->idx2[k]);
    f.push_back(M->nnz); for (int k = 0; k < M->nnz; k++) f.push_back((long long)vh::dbits(M->vals[k]));
    return f;
}
int main(int argc, char** argv)
{
    MPI_Init(&argc, &argv);
    E.init(argc, argv);
    vh::Rng g(E.seed * 15487469 + 14);
    bool seq = argc > 2 && !strcmp(argv[2], "seq");
    int np = E.np, rank = E.rank;
    int ncases = seq ? (E.thorough ? 500 : 120) : (E.thorough ? 150 : 40);
    // after the regular cases (their numbers stay): rows with exact ties at the threshold, and matrices the caller has sorted
    // already (sorted = true, diagonal not first)
    int nextra = ncases / 2;
    for (int it0 = 0; it0 < ncases + nextra; it0++)
    {
        bool extra = it0 >= ncases; int it = extra ? (it0 - ncases) * 2 : it0;
        bool presort = extra && (it0 % 2 == 1);
        int cap = 1 + std::min(20, it / 3);
        int n = std::max(seq ? 1 : np, g.range(1, cap + (seq ? 0 : np)));
        vh::Trip t = gen_sys(g, n, extra);
        if (extra && it0 % 4 == 0) for (auto& v : t.v) v *= std::ldexp(1.0, 40);      // entries around 1e12: the measure is scale free
        double thetas[] = { 0.0, 0.25, 0.5, 0.75, 1.0, 0.125 }; double theta = thetas[g.below(6)];
        int type = g.below(2);      // 0 classical, 1 symmetric
        int nv = type == 0 ? g.range(1, 3) : 1;
        char ctx[96]; snprintf(ctx, 96, "%s/%s/nv%d/n%d", seq ? "seq" : "par", type ? "symmetric" : "classical", nv, n); E.about(ctx);
        if (seq) {
            CSRMatrix* A = vh::make_csr(t); if (presort) A->sort();
            std::vector<int> vars(n); for (int i = 0; i < n; i++) vars[i] = i % nv;
            CSRMatrix* S = A->strength(type ? Symmetric : Classical, theta, nv, nv > 1 ? vars.data() : NULL);
            if (E.want()) { vh::Case c("C14", "seq"); c.i(type).i(nv).d(theta).i(n); for (auto q : csr_ll(A)) c.i(q); for (auto q : csr_ll(S)) c.i(q); c.write(E.out); }
            delete S; delete A;
        } else {
            int style = g.coin() ? 1 : 2 + g.below(2);
            std::vector<int> R = vh::compose(g, n, np, style);
            vh::Layout L; L.kind = 1; L.rows = R; L.cols = R; L.first_row.assign(np, 0); for (int p = 1; p < np; p++) L.first_row[p] = L.first_row[p - 1] + R[p - 1]; L.first_col = L.first_row;
            for (int tap = 0; tap <= (np > 1 ? 1 : 0); tap++) {
                ParCOOMatrix* Ac = vh::assemble_coo(t, L, rank); ParCSRMatrix* A = Ac->to_ParCSR(); if (presort) { A->on_proc->sort(); A->off_proc->sort(); }
                if (tap) { A->tap_comm = new TAPComm(A->partition, A->off_proc_column_map, A->on_proc_column_map); }
                std::vector<int> vars(A->local_num_rows); for (int i = 0; i < A->local_num_rows; i++) vars[i] = (A->partition->first_local_row + i) % nv;
                ParCSRMatrix* S = A->strength(type ? Symmetric : Classical, theta, tap, nv, nv > 1 ? vars.data() : NULL);
                auto ents = flat(G(vh::local_entries(S, false)));
                auto dims = G({ (long long)S->global_num_rows, (long long)S->global_num_cols, (long long)S->local_num_rows });
                bool want = E.want();
                if (rank == 0 && want) {
                    vh::Case c("C14", "par"); c.i(type).i(nv).d(theta).i(n).i(np).i(tap);
                    CSRMatrix* Ag = vh::make_csr(t); Ag->sort(); Ag->move_diag(); for (auto q : csr_ll(Ag)) c.i(q); delete Ag;
                    c.vec(ents); for (auto& d : dims) for (auto q : d) c.i(q);
                    c.write(E.out);
                }
                delete S; delete A; delete Ac;
            }
        }
    }
    E.finish();
    MPI_Finalize();
    return 0;
}
