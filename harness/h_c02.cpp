// C02: mat-vec kernels of every sequential format, and the distributed mult / mult_append / mult_T /
// residual on every layout (default, explicit, empty ranks), against the global triplets.
#include "par.hpp"
using namespace raptor;
static vh::Env E;
static const char* FN[] = { "COO", "CSR", "CSC" };

// line: C02 <op> fmt tap nRows nCols trip(vec) x(vec) b(vec) out(vec) [np layout...]
static void seq_case(vh::Rng& g, int it)
{
    int cap = 1 + std::min(9, it / 10);
    int n_rows = g.range(0, cap), n_cols = g.coin(1, 3) ? n_rows : g.range(0, cap);
    vh::Trip t = vh::gen_trip(g, n_rows, n_cols, g.coin(1, 10) ? 0 : g.range(0, 2 * cap + 2), g.coin(), g.coin(1, 3));
    int fmt = g.below(3);
    Matrix* A = vh::make_fmt(t, fmt);
    const char* ops[] = { "mult", "mult_append", "mult_T", "mult_append_T", "mult_append_neg", "mult_append_neg_T", "residual" };
    for (int k = 0; k < 7; k++) {
        bool T = (k == 2 || k == 3 || k == 5);
        int nx = T ? n_rows : n_cols, nb = T ? n_cols : n_rows;
        std::vector<double> x = vh::rand_vec(g, nx), b = vh::rand_vec(g, nb);
        Vector vx(nx), vb(nb), vr(nb);
        for (int i = 0; i < nx; i++) vx.values[i] = x[i];
        for (int i = 0; i < nb; i++) { vb.values[i] = b[i]; vr.values[i] = 77; }
        char buf[64]; snprintf(buf, 64, "seq/%s/%s", ops[k], FN[fmt]); E.about(buf);
        if (k == 0) A->mult(vx, vb); else if (k == 1) A->mult_append(vx, vb); else if (k == 2) A->mult_T(vx, vb);
        else if (k == 3) A->mult_append_T(vx, vb); else if (k == 4) A->mult_append_neg(vx, vb);
        else if (k == 5) A->mult_append_neg_T(vx, vb); else A->residual(vx, vb, vr);
        if (!E.want()) continue;
        std::vector<double> out(nb); for (int i = 0; i < nb; i++) out[i] = (k == 6 ? vr.values[i] : vb.values[i]);
        vh::Case c("C02", ops[k]); c.i(fmt).i(0).i(n_rows).i(n_cols).vec(vh::trip_ll(t)).divec(x).divec(b).divec(out).i(0);
        c.write(E.out);
    }
    delete A;
}

// sequential block formats (BCOO / BSR / BSC), built directly from block lists; every product; the expected result is the
// product with the scalar expansion of the blocks.  fmt codes 3, 4, 5
static void seq_block_case(vh::Rng& g, int it)
{
    int br = g.range(1, 3), bc = g.coin(1, 2) ? br : g.range(1, 3);
    int R = g.range(0, 4), C = g.coin(1, 3) ? R : g.range(0, 4);
    int nb = (R == 0 || C == 0 || g.coin(1, 8)) ? 0 : g.range(1, 2 * (R + C) + 1);
    std::vector<int> rr, cc; std::vector<std::vector<double>> vv;
    for (int k = 0; k < nb; k++) { rr.push_back(g.below(R)); cc.push_back(g.below(C)); std::vector<double> blk(br * bc); for (auto& v : blk) v = g.coin(1, 4) ? 0 : g.range(-3, 3); vv.push_back(blk); }
    vh::Trip t; t.n_rows = R * br; t.n_cols = C * bc;
    for (int k = 0; k < nb; k++) for (int i = 0; i < br; i++) for (int j = 0; j < bc; j++) { t.r.push_back(rr[k] * br + i); t.c.push_back(cc[k] * bc + j); t.v.push_back(vv[k][i * bc + j]); }
    int fmt = g.below(3);
    Matrix* A;
    if (fmt == 0) { BCOOMatrix* M = new BCOOMatrix(R, C, br, bc); for (int k = 0; k < nb; k++) M->add_value(rr[k], cc[k], vv[k].data()); A = M; }
    else if (fmt == 1) {
        BSRMatrix* M = new BSRMatrix(R, C, br, bc); M->idx1.assign(R + 1, 0); M->idx2.clear();
        for (int i = 0; i < R; i++) { for (int k = 0; k < nb; k++) if (rr[k] == i) { M->idx2.push_back(cc[k]); M->block_vals.push_back(M->copy_val(vv[k].data())); } M->idx1[i + 1] = (int)M->idx2.size(); }
        M->nnz = (int)M->idx2.size(); A = M;
    } else {
        BSCMatrix* M = new BSCMatrix(R, C, br, bc); M->idx1.assign(C + 1, 0); M->idx2.clear();
        for (int j = 0; j < C; j++) { for (int k = 0; k < nb; k++) if (cc[k] == j) { M->idx2.push_back(rr[k]); M->block_vals.push_back(M->copy_val(vv[k].data())); } M->idx1[j + 1] = (int)M->idx2.size(); }
        M->nnz = (int)M->idx2.size(); A = M;
    }
    static const char* BN[] = { "BCOO", "BSR", "BSC" };
    const char* ops[] = { "mult", "mult_append", "mult_T", "mult_append_T", "mult_append_neg", "mult_append_neg_T", "residual" };
    int n_rows = t.n_rows, n_cols = t.n_cols;
    for (int k = 0; k < 7; k++) {
        bool T = (k == 2 || k == 3 || k == 5);
        int nx = T ? n_rows : n_cols, nbv = T ? n_cols : n_rows;
        std::vector<double> x = vh::rand_vec(g, nx), b = vh::rand_vec(g, nbv);
        Vector vx(nx), vb(nbv), vr(nbv);
        for (int i = 0; i < nx; i++) vx.values[i] = x[i];
        for (int i = 0; i < nbv; i++) { vb.values[i] = b[i]; vr.values[i] = 77; }
        char buf[64]; snprintf(buf, 64, "seq/%s/%s/b%dx%d", ops[k], BN[fmt], br, bc); E.about(buf);
        if (k == 0) A->mult(vx, vb); else if (k == 1) A->mult_append(vx, vb); else if (k == 2) A->mult_T(vx, vb);
        else if (k == 3) A->mult_append_T(vx, vb); else if (k == 4) A->mult_append_neg(vx, vb);
        else if (k == 5) A->mult_append_neg_T(vx, vb); else A->residual(vx, vb, vr);
        if (!E.want()) continue;
        std::vector<double> out(nbv); for (int i = 0; i < nbv; i++) out[i] = (k == 6 ? vr.values[i] : vb.values[i]);
        vh::Case c("C02", ops[k]); c.i(3 + fmt).i(0).i(n_rows).i(n_cols).vec(vh::trip_ll(t)).divec(x).divec(b).divec(out).i(0);
        c.write(E.out);
    }
    delete A;
}

static void par_case(vh::Rng& g, int it)
{
    int cap = 2 + std::min(14, it / 6);
    int n_rows = g.range(0, cap), n_cols = g.coin(1, 2) ? n_rows : g.range(0, cap);
    vh::Trip t = vh::gen_trip(g, n_rows, n_cols, g.coin(1, 12) ? 0 : g.range(0, 3 * cap), g.coin(), false);
    int kind = g.below(3);
    vh::Layout L = vh::make_layout(g, n_rows, n_cols, E.np, kind);
    int fmt = g.below(3);
    char buf[96]; snprintf(buf, 96, "par/assemble/layout%d/%s%s", kind, FN[fmt], n_rows != n_cols ? "/rect" : ""); E.about(buf);
    ParCOOMatrix* Acoo = vh::assemble_coo(t, L, E.rank);
    ParMatrix* A = fmt == 0 ? (ParMatrix*)Acoo : fmt == 1 ? (ParMatrix*)Acoo->to_ParCSR() : (ParMatrix*)Acoo->to_ParCSC();
    int fr = A->partition->first_local_row, fc = A->partition->first_local_col;
    int lr = A->partition->local_num_rows, lc = A->partition->local_num_cols;
    const char* ops[] = { "mult", "mult_append", "mult_T", "residual" };
    for (int tap = 0; tap <= (E.np > 1 ? 1 : 0); tap++)
    for (int k = 0; k < 4; k++) {
        bool T = (k == 2);
        std::vector<double> x = vh::rand_vec(g, T ? n_rows : n_cols), b = vh::rand_vec(g, T ? n_cols : n_rows);
        ParVector px(T ? n_rows : n_cols, T ? lr : lc), pb(T ? n_cols : n_rows, T ? lc : lr), pr(n_rows, lr);
        vh::fill_vec(px, x, T ? fr : fc); vh::fill_vec(pb, b, T ? fc : fr);
        for (int i = 0; i < pr.local_n; i++) pr.local.values[i] = 77;
        snprintf(buf, 96, "par/%s/layout%d/%s%s%s", ops[k], kind, FN[fmt], tap ? "/tap" : "", n_rows != n_cols ? "/rect" : ""); E.about(buf);
        if (k == 0) A->mult(px, pb, tap); else if (k == 1) A->mult_append(px, pb, tap);
        else if (k == 2) A->mult_T(px, pb, tap); else A->residual(px, pb, pr, tap);
        bool want = E.want();
        auto out = vh::gather_vec(k == 3 ? pr : pb);
        vh::Case c("C02", ops[k]); 
        if (E.rank == 0) c.i(fmt).i(tap).i(n_rows).i(n_cols).vec(vh::trip_ll(t)).divec(x).divec(b).vec(out);
        vh::layout_desc(c, A);
        if (E.rank == 0 && want) c.write(E.out);
    }
    if (A != Acoo) delete A;
    delete Acoo;
}

// the same operations once more with the per-rank blocks and maps of the real object in the case line: the driver runs the
// block-level model (Model/ParSpmv.lean) on exactly these blocks, compares rank by rank, and evaluates the hypotheses of the
// lifting theorems (Props/C02Par.lean) on them
static void par_blocks_case(vh::Rng& g, int it)
{
    int cap = 2 + std::min(14, it / 6);
    int n_rows = g.range(0, cap), n_cols = g.coin(1, 2) ? n_rows : g.range(0, cap);
    vh::Trip t = vh::gen_trip(g, n_rows, n_cols, g.coin(1, 12) ? 0 : g.range(0, 3 * cap), g.coin(), false);
    int kind = g.below(3);
    vh::Layout L = vh::make_layout(g, n_rows, n_cols, E.np, kind);
    int fmt = g.below(3);
    char buf[96]; snprintf(buf, 96, "par/blocks/assemble/layout%d/%s", kind, FN[fmt]); E.about(buf);
    ParCOOMatrix* Acoo = vh::assemble_coo(t, L, E.rank);
    ParMatrix* A = fmt == 0 ? (ParMatrix*)Acoo : fmt == 1 ? (ParMatrix*)Acoo->to_ParCSR() : (ParMatrix*)Acoo->to_ParCSC();
    int fr = A->partition->first_local_row, fc = A->partition->first_local_col;
    int lr = A->partition->local_num_rows, lc = A->partition->local_num_cols;
    const char* ops[] = { "mult", "mult_append", "mult_T", "residual" };
    int tap = (E.np > 1 && g.coin()) ? 1 : 0;
    for (int k = 0; k < 4; k++) {
        bool T = (k == 2);
        std::vector<double> x = vh::rand_vec(g, T ? n_rows : n_cols), b = vh::rand_vec(g, T ? n_cols : n_rows);
        ParVector px(T ? n_rows : n_cols, T ? lr : lc), pb(T ? n_cols : n_rows, T ? lc : lr), pr(n_rows, lr);
        vh::fill_vec(px, x, T ? fr : fc); vh::fill_vec(pb, b, T ? fc : fr);
        for (int i = 0; i < pr.local_n; i++) pr.local.values[i] = 77;
        snprintf(buf, 96, "par/blocks/%s/layout%d/%s%s", ops[k], kind, FN[fmt], tap ? "/tap" : ""); E.about(buf);
        if (k == 0) A->mult(px, pb, tap); else if (k == 1) A->mult_append(px, pb, tap);
        else if (k == 2) A->mult_T(px, pb, tap); else A->residual(px, pb, pr, tap);
        bool want = E.want();
        ParVector& res = (k == 3 ? pr : pb);
        std::vector<long long> mine(res.local_n); for (int i = 0; i < res.local_n; i++) mine[i] = (long long)llround(res.local.values[i]);
        auto outs = vh::gather_ll(mine); auto blks = vh::gather_ll(vh::local_blocks(A));
        vh::Case c("C02", "blk");
        if (E.rank == 0) { c.i(k).i(fmt).i(tap).i(n_rows).i(n_cols).vec(vh::trip_ll(t)).divec(x).divec(b).i(E.np);
            for (auto& v : blks) c.vec(v); for (auto& v : outs) c.vec(v); }
        if (E.rank == 0 && want) c.write(E.out);
    }
    if (A != Acoo) delete A;
    delete Acoo;
}

int main(int argc, char** argv)
{
    MPI_Init(&argc, &argv);
    E.init(argc, argv);
    vh::Rng g(E.seed * 104729 + 2);
    bool seq = argc > 2 && !strcmp(argv[2], "seq");
    int n = seq ? (E.thorough ? 600 : 120) : (E.thorough ? 240 : 60);
    for (int it = 0; it < n; it++) { if (seq) seq_case(g, it); else par_case(g, it); }
    if (seq) { vh::Rng gb(E.seed * 104729 + 5); for (int it = 0; it < n; it++) seq_block_case(gb, it); }    // after the scalar cases: their case numbers stay
    else { vh::Rng gp(E.seed * 104729 + 9); for (int it = 0; it < n; it++) par_blocks_case(gp, it); }
    E.finish();
    MPI_Finalize();
    return 0;
}
