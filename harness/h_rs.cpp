// C12 (classical interpolation) and C13 (coarse/fine splittings): sequential and distributed routines.
#include "par.hpp"
#include "raptor/ruge_stuben/cf_splitting.hpp"
#include "raptor/ruge_stuben/par_cf_splitting.hpp"
#include "raptor/ruge_stuben/interpolation.hpp"
#include "raptor/ruge_stuben/par_interpolation.hpp"
using namespace raptor;
static vh::Env E;
static std::vector<std::vector<long long>> G(const std::vector<long long>& v) { return vh::gather_ll(v); }
static std::vector<long long> flat(const std::vector<std::vector<long long>>& per) { std::vector<long long> a; for (auto& v : per) a.insert(a.end(), v.begin(), v.end()); return a; }
static std::vector<long long> csr_ll(Matrix* M, bool vals = true) {
    std::vector<long long> f; f.push_back((long long)M->idx1.size()); for (int v : M->idx1) f.push_back(v);
    f.push_back(M->nnz); for (int k = 0; k < M->nnz; k++) f.push_back(M->idx2[k]);
    f.push_back(M->nnz); for (int k = 0; k < M->nnz; k++) f.push_back(vals && k < (int)M->vals.size() ? (long long)vh::dbits(M->vals[k]) : 0);
    return f;
}
// M-matrix-like (positive diagonal, non-positive off-diagonals), some rows with zero row sum, some decoupled rows
static vh::Trip gen_mmatrix(vh::Rng& g, int n, bool symmetric_pattern, bool twoscale = false)
{
    vh::Trip t; t.n_rows = t.n_cols = n; std::vector<double> rs(n, 0.0);
    auto has = [&](int i, int j) { for (size_t p = 0; p < t.r.size(); p++) if (t.r[p] == i && t.c[p] == j) return true; return false; };
    int m = twoscale ? g.range(2 * n, 5 * n) : g.range(n, 3 * n);
    for (int k = 0; k < m && n > 1; k++) { int i = g.below(n), j = g.below(n); if (i == j || has(i, j)) continue;
        if (i % 7 == 6 || j % 7 == 6) continue;            // decoupled vertices
        double w = 0.125 * g.range(1, 32); if (twoscale) w = (w < 1.5) ? 0.125 : 2.0;      // weak and strong couplings side by side
        t.r.push_back(i); t.c.push_back(j); t.v.push_back(-w); rs[i] += w;
        if (symmetric_pattern && !has(j, i)) { double w2 = g.coin() ? w : 0.125 * g.range(1, 32); if (twoscale) w2 = (w2 < 1.5) ? 0.125 : 2.0; t.r.push_back(j); t.c.push_back(i); t.v.push_back(-w2); rs[j] += w2; } }
    for (int i = 0; i < n; i++) { double shift = g.coin() ? 0.0 : 0.125 * g.range(1, 8); if (rs[i] == 0) shift = 1.0;
        t.r.push_back(i); t.c.push_back(i); t.v.push_back(rs[i] + shift); }
    return t;
}
// distinct weights: a random permutation scaled into (0,1)
static std::vector<double> gen_weights(vh::Rng& g, int n) {
    std::vector<int> p(n); for (int i = 0; i < n; i++) p[i] = i; for (int i = n - 1; i > 0; i--) std::swap(p[i], p[g.below(i + 1)]);
    std::vector<double> w(n); for (int i = 0; i < n; i++) w[i] = (p[i] + 1.0) / (n + 2.0); return w; }

static const char* SPLIT[] = { "rs", "cljp", "falgout", "pmis", "hmis" };
static const char* INTERP[] = { "direct", "modclassical", "extended" };

static void seq_split(int kind, CSRMatrix* S, std::vector<int>& states, std::vector<double>& w) {
    if (kind == 0) split_rs(S, states); else if (kind == 1) split_cljp(S, states, w.data()); else if (kind == 3) split_pmis(S, states, w.data());
    else if (kind == 2) { split_rs(S, states); }          // sequential Falgout/HMIS do not exist: RS stands in (only used to get a valid splitting)
    else split_pmis(S, states, w.data());
}

int main(int argc, char** argv)
{
    MPI_Init(&argc, &argv);
    E.init(argc, argv);
    const char* prop = argc > 2 ? argv[2] : "C13"; bool seq = argc > 3 && !strcmp(argv[3], "seq");
    bool c12 = !strcmp(prop, "C12");
    vh::Rng g(E.seed * 179424673 + (c12 ? 12 : 13));
    int np = E.np, rank = E.rank;
    int ncases = seq ? (E.thorough ? 400 : 100) : (E.thorough ? (c12 ? 240 : 120) : (c12 ? 90 : 36));   // C12: interpolation x variables x truncation
    // C13: after the random cases, directed strength graphs enumerated by their adjacency code (all digraphs on 3 vertices,
    // the digraphs on 4 vertices in full in the thorough tier and one in seven otherwise), every weight order by rotation:
    // non-symmetric dependencies, points nobody depends on, ranks without halo columns that others depend on
    int stride4 = (E.thorough || (!seq && np == 2)) ? 1 : 7;     // two ranks: all of them (a rank without halo that others depend on)
    int nenum = c12 ? 0 : (64 + (4096 + stride4 - 1) / stride4);
    if (!seq && np > 4) nenum = 0;
    // C12, after the regular cases (their numbers stay): two-scale couplings (0.125 and 2) with threshold 1/4, so that rows
    // have weak couplings to coarse points next to strong ones, across process boundaries too
    int nextra12 = c12 ? ncases : 0;
    // C13, distributed, after everything else (case numbers stay): random sparse *directed* strength graphs on 3..9 vertices in
    // which every vertex has a dependency of its own (so the isolated-targets finding does not apply), layouts with empty
    // ranks, CLJP and PMIS in turn, weights a random permutation of k/n — one of them exactly 0
    int ndirected = (!c12 && !seq && np > 1) ? (E.thorough ? 1200 : 300) : 0;
    vh::Rng gd(E.seed * 179424673 + 131);
    for (int it0 = 0; it0 < ncases + nenum + nextra12 + ndirected; it0++)
    {
        bool directed = it0 >= ncases + nenum + nextra12;
        bool twoscale = !directed && it0 >= ncases + nenum; int it = directed ? (it0 - ncases - nenum - nextra12) : twoscale ? (it0 - ncases - nenum) : it0;
        bool enumer = !twoscale && !directed && it >= ncases;
        int cap = 2 + std::min(28, it / 2);
        int n = enumer ? 0 : std::max(seq ? 1 : np, g.range(1, cap + (seq ? 0 : np)));
        vh::Trip t; double theta; std::vector<double> w; int split, interp;
        if (directed) {
            n = gd.range(3, 9);
            t.n_rows = t.n_cols = n;
            for (int i = 0; i < n; i++) { t.r.push_back(i); t.c.push_back(i); t.v.push_back(10); }
            for (int i = 0; i < n; i++) { int forced = (i + 1 + gd.below(n - 1)) % n;
                for (int j = 0; j < n; j++) if (j != i && (j == forced || gd.coin(1, 4))) { t.r.push_back(i); t.c.push_back(j); t.v.push_back(-1); } }
            theta = 0.25;
            w.resize(n); std::vector<int> perm(n); for (int i = 0; i < n; i++) perm[i] = i;
            for (int i = n - 1; i > 0; i--) std::swap(perm[i], perm[gd.below(i + 1)]);
            for (int i = 0; i < n; i++) w[i] = (double)perm[i] / n;
            split = (it % 2) ? 3 : 1; interp = 0;
        } else if (!enumer) {
            t = gen_mmatrix(g, n, g.coin(2, 3), twoscale);
            double thetas[] = { 0.0, 0.25, 0.5, 0.125 }; theta = thetas[g.below(4)]; if (twoscale) theta = 0.25;
            w = gen_weights(g, n);
            split = g.below(5); interp = g.below(3);
        } else {
            int k = it - ncases; long code; if (k < 64) { n = 3; code = k; } else { n = 4; code = (long)(k - 64) * stride4; }
            if (!seq && n < np) continue;
            t.n_rows = t.n_cols = n; int bit = 0;
            for (int i = 0; i < n; i++) { t.r.push_back(i); t.c.push_back(i); t.v.push_back(10); }
            for (int i = 0; i < n; i++) for (int j = 0; j < n; j++) if (i != j) { if ((code >> bit) & 1) { t.r.push_back(i); t.c.push_back(j); t.v.push_back(-1); } bit++; }
            theta = 0.25; double base[] = { 0.125, 0.375, 0.625, 0.875 }; w.resize(n); for (int i = 0; i < n; i++) w[i] = base[(i + code) % n];
            int kinds_seq[] = { 0, 1, 3 }, kinds_par[] = { 1, 3, 1, 3, 0 }; split = seq ? kinds_seq[code % 3] : kinds_par[code % 5]; interp = 0;
        }
        bool random_states = c12 && g.coin(1, 3);
        // systems of several interleaved unknowns per node, and truncation of small weights (distributed extended interpolation)
        int nv = (c12 && g.coin(1, 3)) ? g.range(2, 3) : 1;
        double thr = (c12 && !seq && interp == 2 && g.coin(1, 3)) ? (g.coin() ? 0.3 : 0.6) : 0.0;
        std::vector<int> vars(n); for (int i = 0; i < n; i++) vars[i] = i % nv;
        char ctx[128]; snprintf(ctx, 128, "%s/%s/%s/%s/n%d", prop, seq ? "seq" : "par", SPLIT[split], c12 ? INTERP[interp] : "-", n); E.about(ctx);
        if (seq) {
            CSRMatrix* A = vh::make_csr(t); CSRMatrix* S = A->strength(Classical, theta, nv, nv > 1 ? vars.data() : NULL);
            std::vector<int> states;
            int sk = (split == 2) ? 0 : (split == 4 ? 3 : split);
            seq_split(sk, S, states, w);
            if (!c12) {
                if (E.want()) { vh::Case c("C13", "seq"); c.i(sk).i(n); for (auto q : csr_ll(S, false)) c.i(q); c.dvec(w).vec(states); c.write(E.out); }
            } else {
                if (random_states) {   // random splitting satisfying the neighbour precondition: every F point with strong connections keeps a strong C neighbour
                    for (int i = 0; i < n; i++) if (states[i] == Unselected && g.coin(1, 4)) states[i] = Selected; }
                CSRMatrix* P = interp == 0 ? direct_interpolation(A, S, states) : interp == 1 ? mod_classical_interpolation(A, S, states, nv, nv > 1 ? vars.data() : NULL) : extended_interpolation(A, S, states, nv, nv > 1 ? vars.data() : NULL);
                if (E.want()) { vh::Case c("C12", "seq"); c.i(interp).i(n).d(theta).i(nv).d(thr); for (auto q : csr_ll(A)) c.i(q); for (auto q : csr_ll(S)) c.i(q); c.vec(states); for (auto q : csr_ll(P)) c.i(q); c.i(P->n_rows).i(P->n_cols); c.write(E.out); }
                delete P;
            }
            delete S; delete A;
        } else {
            int style = g.coin() ? 1 : 2 + g.below(2);
            if (directed) style = 1 + gd.below(3);
            std::vector<int> R = vh::compose(directed ? gd : g, n, np, style);
            if (enumer && np == 2) { int cut = 1 + (int)((it / 5) % (n - 1)); R = { cut, n - cut }; }      // every cut position in turn
            vh::Layout L; L.kind = 1; L.rows = R; L.cols = R; L.first_row.assign(np, 0); for (int p = 1; p < np; p++) L.first_row[p] = L.first_row[p - 1] + R[p - 1]; L.first_col = L.first_row;
            int tap = (np > 1 && g.coin(1, 3)) ? 1 : 0;
            ParCOOMatrix* Ac = vh::assemble_coo(t, L, rank); ParCSRMatrix* A = Ac->to_ParCSR();
            if (tap) A->init_tap_communicators(MPI_COMM_WORLD);      // as the solvers do: tap_comm and tap_mat_comm
            int fr = A->partition->first_local_row, lr = A->local_num_rows;
            std::vector<int> lvars(vars.begin() + fr, vars.begin() + fr + lr);
            ParCSRMatrix* S = A->strength(Classical, theta, tap, nv, nv > 1 ? lvars.data() : NULL);
            std::vector<double> wl(w.begin() + fr, w.begin() + fr + lr);
            std::vector<int> states, off_states;
            if (split == 0) split_rs(S, states, off_states, tap); else if (split == 1) split_cljp(S, states, off_states, tap, wl.data());
            else if (split == 2) split_falgout(S, states, off_states, tap, wl.data()); else if (split == 3) split_pmis(S, states, off_states, tap, wl.data());
            else split_hmis(S, states, off_states, tap, wl.data());
            // global S (pattern), labels per rank, halo labels with the global column they belong to
            auto sents = flat(G(vh::local_entries(S, false)));
            std::vector<long long> st(states.begin(), states.end()), halo;
            for (size_t j = 0; j < S->off_proc_column_map.size(); j++) { halo.push_back(S->off_proc_column_map[j]); halo.push_back(j < off_states.size() ? off_states[j] : -99); }
            auto allst = flat(G(st)); auto allhalo = flat(G(halo)); auto rows = flat(G({ (long long)lr }));
            if (!c12) {
                bool want = E.want();
                if (rank == 0 && want) { vh::Case c("C13", "par"); c.i(split).i(n).i(np).i(tap).vec(sents).dvec(w).vec(allst).vec(allhalo).vec(rows);
                    // CLJP / PMIS: the labels of the real sequential routine on the assembled matrix with the same weights ("the distributed
                    // labels of all non-isolated points equal the sequential labels for every partition")
                    std::vector<int> sg;
                    if (split == 1 || split == 3) { CSRMatrix* Ag = vh::make_csr(t); Ag->sort(); Ag->move_diag(); CSRMatrix* Sg = Ag->strength(Classical, theta);
                        seq_split(split, Sg, sg, w); delete Sg; delete Ag; }
                    c.vec(sg); c.write(E.out); }
            } else {
                if (random_states) { vh::Rng gs(E.seed * 97 + it);     // same random promotions on every rank, applied to owners and halos alike
                    std::vector<int> promote(n); for (int i = 0; i < n; i++) promote[i] = gs.coin(1, 4);
                    for (int i = 0; i < lr; i++) if (states[i] == Unselected && promote[fr + i]) states[i] = Selected;
                    for (size_t j = 0; j < off_states.size(); j++) if (off_states[j] == Unselected && promote[S->off_proc_column_map[j]]) off_states[j] = Selected; }
                ParCSRMatrix* P = interp == 0 ? direct_interpolation(A, S, states, off_states, tap) : interp == 1 ? mod_classical_interpolation(A, S, states, off_states, tap, nv, nv > 1 ? lvars.data() : NULL)
                                  : extended_interpolation(A, S, states, off_states, thr, tap, nv, nv > 1 ? lvars.data() : NULL);
                auto pents = flat(G(vh::local_entries(P, false)));
                // truncated operator: also the untruncated one, so that the driver can apply the definition of the truncation itself
                std::vector<long long> pents0;
                if (thr != 0.0) { ParCSRMatrix* P0 = extended_interpolation(A, S, states, off_states, 0.0, tap, nv, nv > 1 ? lvars.data() : NULL);
                    pents0 = flat(G(vh::local_entries(P0, false))); delete P0; }
                std::vector<long long> st2(states.begin(), states.end()); auto allst2 = flat(G(st2));
                auto pdims = G({ (long long)P->global_num_rows, (long long)P->global_num_cols, (long long)P->local_num_rows, (long long)P->on_proc_num_cols });
                bool want = E.want();
                if (rank == 0 && want) {
                    vh::Case c("C12", "par"); c.i(interp).i(n).i(np).i(tap).d(theta).i(nv).d(thr);
                    CSRMatrix* Ag = vh::make_csr(t); Ag->sort(); Ag->move_diag(); for (auto q : csr_ll(Ag)) c.i(q);
                    c.vec(sents).vec(allst2).vec(pents).vec(pents0); for (auto& d : pdims) for (auto q : d) c.i(q);
                    // the sequential routine on the assembled matrix, same strength pattern and splitting
                    CSRMatrix* Sg = Ag->strength(Classical, theta, nv, nv > 1 ? vars.data() : NULL); std::vector<int> sg(allst2.begin(), allst2.end());
                    CSRMatrix* Ps = interp == 0 ? direct_interpolation(Ag, Sg, sg) : interp == 1 ? mod_classical_interpolation(Ag, Sg, sg, nv, nv > 1 ? vars.data() : NULL) : extended_interpolation(Ag, Sg, sg, nv, nv > 1 ? vars.data() : NULL);
                    for (auto q : csr_ll(Ps)) c.i(q);
                    c.write(E.out); delete Ps; delete Sg; delete Ag;
                }
                delete P;
            }
            delete S; delete A; delete Ac;
        }
    }
    E.finish();
    MPI_Finalize();
    return 0;
}
